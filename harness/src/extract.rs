//! Serialise a circuit's constraint system and tables (as `MockProver` holds
//! them) to JSON for model checking against `ConstraintSystem.tla`.

use ff::PrimeField;
use midnight_proofs::{
    dev::{CellValue, InstanceValue, MockProver},
    plonk::{Any, Expression},
};
use num_bigint::BigUint;
use serde_json::{json, Value as J};

/// Field element -> small integer (possibly negative); None if large.
pub fn to_small<F: PrimeField>(v: &F) -> Option<i64> {
    let repr = v.to_repr();
    let b = repr.as_ref();
    let le = F::ONE.to_repr().as_ref()[0] == 1;
    let n = if le { BigUint::from_bytes_le(b) } else { BigUint::from_bytes_be(b) };
    let lim = BigUint::from(1u64 << 30);
    if n < lim {
        return Some(n.to_u64_digits().first().copied().unwrap_or(0) as i64);
    }
    let m = BigUint::parse_bytes(&F::MODULUS.as_bytes()[2..], 16).unwrap();
    let neg = &m - &n;
    if neg < lim {
        return Some(-(neg.to_u64_digits().first().copied().unwrap_or(0) as i64));
    }
    None
}

pub fn expr_json<F: PrimeField>(e: &Expression<F>, big: &mut bool) -> J {
    let c = |v: F, big: &mut bool| match to_small(&v) {
        Some(x) => x,
        None => {
            *big = true;
            0
        }
    };
    match e {
        Expression::Constant(v) => json!({"op":"const","v":c(*v, big)}),
        Expression::Selector(s) => json!({"op":"selector","col":s.index()}),
        Expression::Fixed(q) => json!({"op":"fixed","col":q.column_index(),"rot":q.rotation().0}),
        Expression::Advice(q) => json!({"op":"advice","col":q.column_index(),"rot":q.rotation().0}),
        Expression::Instance(q) => json!({"op":"instance","col":q.column_index(),"rot":q.rotation().0}),
        Expression::Challenge(ch) => json!({"op":"challenge","col":ch.index()}),
        Expression::Negated(a) => json!({"op":"neg","a":expr_json(a, big)}),
        Expression::Sum(a, b) => json!({"op":"sum","a":expr_json(a, big),"b":expr_json(b, big)}),
        Expression::Product(a, b) => json!({"op":"prod","a":expr_json(a, big),"b":expr_json(b, big)}),
        Expression::Scaled(a, v) => json!({"op":"scaled","a":expr_json(a, big),"v":c(*v, big)}),
    }
}

fn cell<F: PrimeField>(c: &CellValue<F>, big: &mut bool) -> i64 {
    match c {
        CellValue::Assigned(v) => to_small(v).unwrap_or_else(|| {
            *big = true;
            0
        }),
        _ => 0,
    }
}

/// The constraint system (structure) of a circuit as MockProver sees it.
pub fn cs_json<F: PrimeField + Ord + ff::FromUniformBytes<64>>(mp: &MockProver<F>, big: &mut bool) -> J {
    let cs = mp.cs();
    let gates: Vec<J> = cs
        .gates()
        .iter()
        .flat_map(|g| g.polynomials().iter().map(|p| expr_json(p, big)).collect::<Vec<_>>())
        .collect();
    let lookups: Vec<J> = cs
        .lookups()
        .iter()
        .map(|l| {
            json!({"inputs": l.input_expressions().iter().map(|e| expr_json(e, big)).collect::<Vec<_>>(),
                   "tables": l.table_expressions().iter().map(|e| expr_json(e, big)).collect::<Vec<_>>()})
        })
        .collect();
    let trash: Vec<J> = cs
        .trashcans()
        .iter()
        .map(|t| {
            json!({"sel": expr_json(t.selector(), big),
                   "cons": t.constraint_expressions().iter().map(|e| expr_json(e, big)).collect::<Vec<_>>()})
        })
        .collect();
    // copy constraints: every permutation cell mapped to another cell
    let cols = mp.permutation().columns().to_vec();
    let ty = |a: &Any| match a {
        Any::Advice(_) => "advice",
        Any::Fixed => "fixed",
        Any::Instance => "instance",
    };
    use rayon::iter::ParallelIterator;
    let mut copies: Vec<J> = vec![];
    for (ci, col_map) in mp.permutation().mapping().enumerate() {
        let v: Vec<(usize, usize)> = col_map.collect();
        for (row, (c2, r2)) in v.into_iter().enumerate() {
            if (c2, r2) != (ci, row) {
                copies.push(json!([[ty(cols[ci].column_type()), cols[ci].index(), row],
                                   [ty(cols[c2].column_type()), cols[c2].index(), r2]]));
            }
        }
    }
    json!({"n": 1usize << mp.k_(), "usable": mp.usable_rows().end, "gates": gates, "lookups": lookups,
           "trash": trash, "copies": copies})
}

pub fn tables_json<F: PrimeField + Ord + ff::FromUniformBytes<64>>(mp: &MockProver<F>, big: &mut bool) -> (J, J, J) {
    let fixed: Vec<Vec<i64>> = mp.fixed().iter().map(|c| c.iter().map(|x| cell(x, big)).collect()).collect();
    let advice: Vec<Vec<i64>> = mp.advice().iter().map(|c| c.iter().map(|x| cell(x, big)).collect()).collect();
    let inst: Vec<Vec<i64>> = mp
        .instance()
        .iter()
        .map(|c| {
            c.iter()
                .map(|x| match x {
                    InstanceValue::Assigned(v) => to_small(v).unwrap_or_else(|| {
                        *big = true;
                        0
                    }),
                    InstanceValue::Padding => 0,
                })
                .collect()
        })
        .collect();
    (json!(fixed), json!(advice), json!(inst))
}

/// `MockProver` has no public accessor for k; derive it from the tables.
pub trait KOf {
    fn k_(&self) -> u32;
}
impl<F: PrimeField + Ord + ff::FromUniformBytes<64>> KOf for MockProver<F> {
    fn k_(&self) -> u32 {
        let n = self.fixed().first().map(|c| c.len()).or_else(|| self.advice().first().map(|c| c.len())).unwrap_or(1);
        n.trailing_zeros()
    }
}
