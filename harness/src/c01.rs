//! C01 driver: replay TLC-generated shape scenarios into the real prover and
//! verifier under recording transcripts; emit one ndjson trace.

use std::io::Write;

use serde_json::{json, Value as J};

use crate::{
    plonkrun::{self, Blake, ParamCache, Pos},
    rec,
    shapes::Shape,
    util,
};

pub fn scenario_shape(sc: &J) -> Result<Shape, String> {
    serde_json::from_value(sc["shape"].clone()).map_err(|e| format!("bad shape: {e}"))
}

pub fn run_one(cache: &mut ParamCache, sc: &J, out: &mut dyn Write) -> Result<(), String> {
    let shape = scenario_shape(sc)?;
    let nproofs = sc["nproofs"].as_u64().unwrap_or(1) as usize;
    let hash = sc["hash"].as_str().unwrap_or("blake2b").to_string();
    let seed = sc["seed"].as_u64().unwrap_or(1);
    let run = if hash == "poseidon" {
        plonkrun::honest_run::<Pos>(cache, &shape, nproofs, seed)
    } else {
        plonkrun::honest_run::<Blake>(cache, &shape, nproofs, seed)
    }?;
    let mut reset = json!({"ev":"reset","sc":sc,"shape":run.real_shape,"hash":hash,"k":shape.k,
        "mock": run.mock, "nops": run.circuits[0].ops.len()});
    let params = cache.get(shape.k).clone();
    match &run.proof {
        Err(e) => {
            reset["prove"] = json!(e);
            writeln!(out, "{reset}").unwrap();
            writeln!(out, "{}", json!({"ev":"Verdict","res":"noproof","detail":e})).unwrap();
        }
        Ok(p) => {
            reset["prove"] = json!("ok");
            reset["prooflen"] = json!(p.proof.len());
            writeln!(out, "{reset}").unwrap();
            for e in rec::tevents_json("P", &p.events) {
                writeln!(out, "{e}").unwrap();
            }
            let (coms, plain) =
                plonkrun::split_instances(&params, &run.keys.vk, shape.committed, &run.instances);
            let v = if hash == "poseidon" {
                plonkrun::verify::<Pos>(&params, &run.keys.vk, &coms, &plain, &p.proof)
            } else {
                plonkrun::verify::<Blake>(&params, &run.keys.vk, &coms, &plain, &p.proof)
            };
            for e in rec::tevents_json("V", &v.events) {
                writeln!(out, "{e}").unwrap();
            }
            let res = if v.verdict == "ok" { "ok" } else if v.verdict.starts_with("panic") { "panic" } else { "err" };
            writeln!(out, "{}", json!({"ev":"Verdict","res":res,"detail":v.verdict})).unwrap();
        }
    }
    Ok(())
}

pub fn main(args: &[String]) -> i32 {
    let scen = util::read_ndjson(&args[0]);
    let mut out = util::create(&args[1]);
    let mut cache = ParamCache::default();
    writeln!(out, "{}", json!({"ev":"header","prop":"C01","n":scen.len()})).unwrap();
    for sc in scen.iter() {
        if let Err(e) = run_one(&mut cache, sc, &mut out) {
            eprintln!("HARNESS-ERROR scenario {sc}: {e}");
            return 2;
        }
    }
    0
}
