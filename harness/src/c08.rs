//! C08 driver: a standard-library relation that exposes a list of typed values
//! as public inputs (both exposure paths), the off-circuit encoders of the
//! same values, single-position edits of the instance, and the number of
//! public inputs recorded in the verifying key.

use std::{
    io::Write,
    panic::{catch_unwind, AssertUnwindSafe},
};

use ff::Field;
use group::Group;
use midnight_circuits::{
    biguint::AssignedBigUint,
    ecc::{
        curves::CircuitCurve,
        foreign::ecc_chip::AssignedForeignPoint,
        native::{AssignedNativePoint, AssignedScalarOfNativeCurve},
    },
    field::foreign::{field_chip::AssignedField, params::MultiEmulationParams},
    instructions::*,
    types::{AssignedBit, AssignedByte, AssignedNative, Instantiable},
    CircuitField,
};
use midnight_curves::{
    k256::{self as k256_mod, K256},
    Fq as F, Fr as JubjubScalar, G1Projective, JubjubExtended, JubjubSubgroup,
};
use midnight_proofs::{
    circuit::{Layouter, Value},
    plonk::Error,
    poly::kzg::params::ParamsKZG,
};
use midnight_zk_stdlib::{self as sl, MidnightCircuit, Relation, ZkStdLib, ZkStdLibArch};
use num_bigint::BigUint;
use serde_json::{json, Value as J};

use crate::{
    gad::{self, big_of_nat, nat_of_big, nat_of_f, nats_json},
    plonkrun::{panic_msg, Blake},
    util,
};

type MEP = MultiEmulationParams;

/// One exposed item: {"ty": .., "path": "constrain"|"assign", "val": .., "nbits": ..}
#[derive(Clone, Debug)]
pub struct PubRel {
    pub items: Vec<J>,
}

fn k_of_big<K: CircuitField>(b: &BigUint) -> K {
    let mut acc = K::ZERO;
    let c = K::from(256u64);
    for d in b.to_bytes_be() {
        acc = acc * c + K::from(d as u64);
    }
    acc
}
fn scalar_i<S: ff::PrimeField>(k: i64) -> S {
    if k < 0 {
        -S::from((-k) as u64)
    } else {
        S::from(k as u64)
    }
}
fn jub_pt(v: &J) -> JubjubSubgroup {
    JubjubSubgroup::generator() * scalar_i::<JubjubScalar>(v.as_i64().unwrap_or(0))
}
fn secp_pt(v: &J) -> K256 {
    K256::generator() * scalar_i::<k256_mod::Fq>(v.as_i64().unwrap_or(0))
}
fn bls_pt(v: &J) -> G1Projective {
    G1Projective::generator() * scalar_i::<F>(v.as_i64().unwrap_or(0))
}

/// Off-circuit encoding of an item (the verifier-side formatter).
pub fn encode(item: &J) -> Vec<F> {
    let v = &item["val"];
    match item["ty"].as_str().unwrap_or("") {
        "bit" => AssignedBit::<F>::as_public_input(&(big_of_nat(v) == BigUint::from(1u8))),
        "byte" => AssignedByte::<F>::as_public_input(&(big_of_nat(v).iter_u32_digits().next().unwrap_or(0) as u8)),
        "native" => AssignedNative::<F>::as_public_input(&k_of_big::<F>(&big_of_nat(v))),
        "secp_n" => AssignedField::<F, k256_mod::Fq, MEP>::as_public_input(&k_of_big(&big_of_nat(v))),
        "secp_p" => AssignedField::<F, k256_mod::Fp, MEP>::as_public_input(&k_of_big(&big_of_nat(v))),
        "bls_p" => AssignedField::<F, midnight_curves::Fp, MEP>::as_public_input(&k_of_big(&big_of_nat(v))),
        "big" => AssignedBigUint::<F>::as_public_input(&big_of_nat(v), item["nbits"].as_u64().unwrap_or(8) as u32),
        "jub_point" => AssignedNativePoint::<JubjubExtended>::as_public_input(&jub_pt(v)),
        "jub_scalar" => AssignedScalarOfNativeCurve::<JubjubExtended>::as_public_input(&k_of_big(&big_of_nat(v))),
        "secp_point" => AssignedForeignPoint::<F, K256, MEP>::as_public_input(&secp_pt(v)),
        "bls_point" => AssignedForeignPoint::<F, G1Projective, MEP>::as_public_input(&bls_pt(v)),
        _ => vec![],
    }
}

/// The abstract value of an item in the vocabulary of the specification.
pub fn abstract_val(item: &J) -> J {
    let v = &item["val"];
    fn pt<C: CircuitCurve>(p: C, is_id: bool) -> J {
        match p.coordinates() {
            Some((x, y)) if !is_id => json!({"id":false,"x":nat_of_big(&x.to_biguint()),"y":nat_of_big(&y.to_biguint())}),
            _ => json!({"id":true,"x":[],"y":[]}),
        }
    }
    match item["ty"].as_str().unwrap_or("") {
        "jub_point" => {
            let p: JubjubExtended = jub_pt(v).into();
            pt(p, false)
        }
        "secp_point" => {
            let p = secp_pt(v);
            pt(p, bool::from(p.is_identity()))
        }
        "bls_point" => {
            let p = bls_pt(v);
            pt(p, bool::from(p.is_identity()))
        }
        _ => v.clone(),
    }
}

impl Relation for PubRel {
    type Instance = Vec<F>;
    type Witness = ();

    fn format_instance(instance: &Vec<F>) -> Result<Vec<F>, Error> {
        Ok(instance.clone())
    }

    fn used_chips(&self) -> ZkStdLibArch {
        let has = |p: &str| self.items.iter().any(|i| i["ty"].as_str().unwrap_or("").starts_with(p));
        ZkStdLibArch {
            jubjub: has("jub"),
            secp256k1: has("secp"),
            bls12_381: has("bls"),
            nr_pow2range_cols: 4,
            ..ZkStdLibArch::default()
        }
    }

    fn circuit(&self, s: &ZkStdLib, l: &mut impl Layouter<F>, _i: Value<Vec<F>>, _w: Value<()>) -> Result<(), Error> {
        for item in self.items.iter() {
            let v = &item["val"];
            let assign_path = item["path"] == "assign";
            let big = big_of_nat(v);
            macro_rules! expose {
                ($chip:expr, $t:ty, $val:expr) => {{
                    if assign_path {
                        let _x: $t = $chip.assign_as_public_input(l, Value::known($val))?;
                    } else {
                        let x: $t = $chip.assign(l, Value::known($val))?;
                        $chip.constrain_as_public_input(l, &x)?;
                    }
                }};
            }
            let via = item["via"].as_str().unwrap_or("");
            // values computed in-circuit by lazy (un-normalised) arithmetic before being exposed
            macro_rules! expose_sum {
                ($chip:expr, $k:ty) => {{
                    let v: $k = k_of_big(&big);
                    let c: $k = <$k>::from(u64::MAX) * <$k>::from(u64::MAX) + <$k>::from(12345u64);
                    let a = $chip.assign(l, Value::known(v - c))?;
                    let b = $chip.assign(l, Value::known(c))?;
                    let x = if via == "sum" {
                        $chip.add(l, &a, &b)?
                    } else {
                        // v = -(-(v - c) - c)
                        let na = $chip.neg(l, &a)?;
                        let t = $chip.sub(l, &na, &b)?;
                        $chip.neg(l, &t)?
                    };
                    $chip.constrain_as_public_input(l, &x)?;
                }};
            }
            macro_rules! expose_padd {
                ($chip:expr, $pt:expr, $gen:expr) => {{
                    let a = $chip.assign(l, Value::known($pt - $gen))?;
                    let b = $chip.assign(l, Value::known($gen))?;
                    let x = $chip.add(l, &a, &b)?;
                    $chip.constrain_as_public_input(l, &x)?;
                }};
            }
            match (item["ty"].as_str().unwrap_or(""), via) {
                ("secp_n", "sum" | "neg") => {
                    expose_sum!(s.secp256k1_scalar(), k256_mod::Fq);
                    continue;
                }
                ("secp_p", "sum" | "neg") => {
                    expose_sum!(s.secp256k1_curve().base_field_chip(), k256_mod::Fp);
                    continue;
                }
                ("bls_p", "sum" | "neg") => {
                    expose_sum!(s.bls12_381_curve().base_field_chip(), midnight_curves::Fp);
                    continue;
                }
                ("jub_point", "add") => {
                    expose_padd!(s.jubjub(), jub_pt(v), JubjubSubgroup::generator());
                    continue;
                }
                ("secp_point", "add") => {
                    expose_padd!(s.secp256k1_curve(), secp_pt(v), K256::generator());
                    continue;
                }
                ("bls_point", "add") => {
                    expose_padd!(s.bls12_381_curve(), bls_pt(v), G1Projective::generator());
                    continue;
                }
                _ => {}
            }
            match item["ty"].as_str().unwrap_or("") {
                "bit" => expose!(s, AssignedBit<F>, big == BigUint::from(1u8)),
                "byte" => expose!(s, AssignedByte<F>, big.iter_u32_digits().next().unwrap_or(0) as u8),
                "native" => expose!(s, AssignedNative<F>, k_of_big::<F>(&big)),
                "secp_n" => expose!(s.secp256k1_scalar(), AssignedField<F, k256_mod::Fq, MEP>, k_of_big(&big)),
                "secp_p" => expose!(s.secp256k1_curve().base_field_chip(), AssignedField<F, k256_mod::Fp, MEP>, k_of_big(&big)),
                "bls_p" => expose!(s.bls12_381_curve().base_field_chip(), AssignedField<F, midnight_curves::Fp, MEP>, k_of_big(&big)),
                "big" => {
                    let nb = item["nbits"].as_u64().unwrap_or(8) as u32;
                    let g = s.biguint();
                    let x = g.assign_biguint(l, Value::known(big.clone()), nb)?;
                    g.constrain_as_public_input(l, &x, nb)?;
                }
                "jub_point" => expose!(s.jubjub(), AssignedNativePoint<JubjubExtended>, jub_pt(v)),
                "jub_scalar" => expose!(s.jubjub(), AssignedScalarOfNativeCurve<JubjubExtended>, k_of_big::<JubjubScalar>(&big)),
                "secp_point" => expose!(s.secp256k1_curve(), AssignedForeignPoint<F, K256, MEP>, secp_pt(v)),
                "bls_point" => expose!(s.bls12_381_curve(), AssignedForeignPoint<F, G1Projective, MEP>, bls_pt(v)),
                other => return Err(Error::Synthesis(format!("unknown type {other}"))),
            }
        }
        Ok(())
    }

    fn write_relation<W: std::io::Write>(&self, _w: &mut W) -> std::io::Result<()> {
        Ok(())
    }
    fn read_relation<R: std::io::Read>(_r: &mut R) -> std::io::Result<Self> {
        Ok(PubRel { items: vec![] })
    }
}

fn edit(v: &F, how: &str, lb: u32) -> F {
    match how {
        "plus1" => *v + F::ONE,
        "minus1" => *v - F::ONE,
        "zero" => {
            if bool::from(v.is_zero()) {
                F::ONE
            } else {
                F::ZERO
            }
        }
        _ => *v + F::from(2u64).pow_vartime([lb as u64]),
    }
}

pub fn main(args: &[String]) -> i32 {
    let scen = util::read_ndjson(&args[0]);
    let mut out = util::create(&args[1]);
    writeln!(out, "{}", json!({"ev":"header","prop":"C08","n":scen.len(),"native":nat_of_big(&<F as CircuitField>::modulus())})).unwrap();
    for c in crate::consts::all() {
        let mut c = c;
        c["ev"] = json!("Curve");
        writeln!(out, "{c}").unwrap();
    }
    for sc in scen.iter() {
        if sc["committed"].as_bool().unwrap_or(false) {
            crate::c08c::run(sc, &mut out);
            continue;
        }
        if sc["instrot"].as_bool().unwrap_or(false) {
            crate::c08r::run(sc, &mut out);
            continue;
        }
        if sc["encdom"].as_bool().unwrap_or(false) {
            // the big-integer encoder on a value that may not fit the declared width
            let nb = sc["nbits"].as_u64().unwrap_or(8) as u32;
            let v = big_of_nat(&sc["val"]);
            let r = catch_unwind(AssertUnwindSafe(|| AssignedBigUint::<F>::as_public_input(&v, nb)));
            let (refused, enc) = match r {
                Ok(e) => (false, nats_json(&e)),
                Err(_) => (true, json!([])),
            };
            writeln!(out, "{}", json!({"ev":"EncDom","nbits":nb,"val":sc["val"],"refused":refused,"enc":enc})).unwrap();
            continue;
        }
        if sc["acc"].as_bool().unwrap_or(false) {
            crate::c08a::run(sc, &mut out);
            continue;
        }
        let items: Vec<J> = sc["items"].as_array().cloned().unwrap_or_default();
        let rel = PubRel { items: items.clone() };
        let r = catch_unwind(AssertUnwindSafe(|| {
            let k = sc["k"].as_u64().map(|k| k as u32).unwrap_or_else(|| MidnightCircuit::from_relation(&rel).min_k());
            let circuit = MidnightCircuit::new(&rel, Value::known(vec![]), Value::known(()), Some(8));
            let base = gad::run_game(&circuit, k, None);
            let encs: Vec<Vec<F>> = items.iter().map(encode).collect();
            let enc: Vec<F> = encs.concat();
            let status_enc = gad::sat_with(&circuit, k, &enc);
            // single-position edits of the verifier's vector
            let mut edits = vec![];
            let max_edits = sc["max_edits"].as_u64().unwrap_or(24) as usize;
            let stride = (enc.len() / max_edits.max(1)).max(1);
            let off = sc["offset"].as_u64().unwrap_or(0) as usize % stride;
            let mut pos = off;
            while pos < enc.len() {
                for how in ["plus1", "minus1", "zero", "pow"] {
                    let mut e = enc.clone();
                    e[pos] = edit(&e[pos], how, 64);
                    edits.push(json!({"pos":pos + 1,"how":how,"status":gad::sat_with(&circuit, k, &e)}));
                }
                pos += stride;
            }
            // one element more / one element fewer
            let mut longer = enc.clone();
            longer.push(F::ZERO);
            let st_longer = gad::sat_with(&circuit, k, &longer);
            let st_shorter = if enc.is_empty() { "n/a".to_string() } else { gad::sat_with(&circuit, k, &enc[..enc.len() - 1]) };
            let mut ev = json!({"ev":"Pub","items":items.iter().map(|i| json!({"ty":i["ty"],"path":i["path"],"via":i["via"].as_str().unwrap_or(""),"nbits":i["nbits"].as_u64().unwrap_or(0),
                    "val":abstract_val(i)})).collect::<Vec<_>>(),
                "encs":encs.iter().map(|e| nats_json(e)).collect::<Vec<_>>(),
                "exposed":nats_json(&base.exposed),"status":base.status,"status_enc":status_enc,"edits":edits,
                "status_longer":st_longer,"status_shorter":st_shorter,"k":k,"detail":base.detail});
            if sc["keys"].as_bool().unwrap_or(false) {
                use rand::SeedableRng;
                let mut rng = rand_chacha::ChaCha8Rng::seed_from_u64(8);
                let params = ParamsKZG::<midnight_curves::Bls12>::unsafe_setup(k, &mut rng);
                let vk = sl::setup_vk(&params, &rel);
                let mut bytes = vec![];
                vk.write(&mut bytes, midnight_proofs::utils::SerdeFormat::RawBytes).unwrap();
                let mut arch = vec![];
                rel.used_chips().write(&mut arch).unwrap();
                let o = arch.len() + 1;
                let nb = u32::from_le_bytes([bytes[o], bytes[o + 1], bytes[o + 2], bytes[o + 3]]);
                let pk = sl::setup_pk(&rel, &vk);
                let proof = sl::prove::<PubRel, Blake>(&params, &pk, &rel, &enc, (), &mut rng).map_err(|e| format!("prove {e:?}"));
                let vp = params.verifier_params();
                let res = |r: Result<(), Error>| match r {
                    Ok(()) => "ok".to_string(),
                    Err(e) => format!("err:{e:?}").chars().take(60).collect(),
                };
                let (v_ok, v_short, v_long, v_edit) = match &proof {
                    Ok(p) => {
                        let mut e1 = enc.clone();
                        if !e1.is_empty() {
                            e1[0] += F::ONE;
                        }
                        (
                            res(sl::verify::<PubRel, Blake>(&vp, &vk, &enc, None, p)),
                            if enc.is_empty() { "n/a".into() } else { res(sl::verify::<PubRel, Blake>(&vp, &vk, &enc[..enc.len() - 1].to_vec(), None, p)) },
                            res(sl::verify::<PubRel, Blake>(&vp, &vk, &longer, None, p)),
                            if enc.is_empty() { "n/a".into() } else { res(sl::verify::<PubRel, Blake>(&vp, &vk, &e1, None, p)) },
                        )
                    }
                    Err(e) => (e.clone(), "n/a".into(), "n/a".into(), "n/a".into()),
                };
                ev["keys"] = json!({"vk_nb":nb,"verify":v_ok,"verify_shorter":v_short,"verify_longer":v_long,"verify_edited":v_edit});
            }
            ev
        }));
        match r {
            Ok(ev) => writeln!(out, "{ev}").unwrap(),
            Err(p) => writeln!(out, "{}", json!({"ev":"Pub","items":items,"encs":[],"exposed":[],"status":"panic","status_enc":"panic","edits":[],
                "status_longer":"n/a","status_shorter":"n/a","k":0,"detail":panic_msg(p).chars().take(200).collect::<String>()})).unwrap(),
        }
    }
    let _ = nat_of_f::<F>;
    0
}
