//! C17 driver: lifecycle events of parameters and keys (set-up, downsizing, key
//! generation under several thread pools, serialization round trips in every
//! format pair, cross verification of original and reloaded keys).

use std::{
    collections::HashMap,
    io::Write,
    panic::{catch_unwind, AssertUnwindSafe},
};

use midnight_curves::{Bls12, Fq as F};
use midnight_proofs::{
    plonk::{keygen_pk, keygen_vk_with_k, Circuit, ProvingKey, VerifyingKey},
    poly::{commitment::Params, kzg::params::ParamsKZG},
    utils::SerdeFormat,
};
use midnight_zk_stdlib::{self as std_lib, MidnightPK, MidnightVK};
use rand::SeedableRng;
use rand_chacha::ChaCha8Rng;
use serde_json::{json, Value as J};

use crate::{
    c01::scenario_shape,
    plonkrun::{self, panic_msg, Blake, CS},
    rels::{self, MulRel},
    shapes::ShapeCircuit,
    util,
};

struct Intern(HashMap<Vec<u8>, usize>);
impl Intern {
    fn id(&mut self, b: &[u8]) -> usize {
        let h = blake2b_simd::blake2b(b).as_bytes().to_vec();
        let n = self.0.len() + 1;
        *self.0.entry(h).or_insert(n)
    }
}

fn fmt(f: &str) -> SerdeFormat {
    match f {
        "P" => SerdeFormat::Processed,
        "R" => SerdeFormat::RawBytes,
        _ => SerdeFormat::RawBytesUnchecked,
    }
}
const FORMATS: [&str; 3] = ["P", "R", "U"];

fn setup(secret: u64, k: u32) -> ParamsKZG<Bls12> {
    let mut rng = ChaCha8Rng::seed_from_u64(secret);
    ParamsKZG::unsafe_setup(k, &mut rng)
}

fn params_bytes(p: &ParamsKZG<Bls12>) -> Vec<u8> {
    let mut b = vec![];
    p.write_custom(&mut b, SerdeFormat::RawBytes).unwrap();
    b
}

fn with_threads<T: Send>(n: usize, f: impl FnOnce() -> T + Send) -> T {
    rayon::ThreadPoolBuilder::new().num_threads(n).build().unwrap().install(f)
}

pub fn run_one(sc: &J, it: &mut Intern, out: &mut dyn Write) -> Result<(), String> {
    let shape = scenario_shape(sc)?;
    let secret = sc["secret"].as_u64().unwrap_or(7);
    let threads: Vec<usize> = sc["threads"].as_array().map(|a| a.iter().map(|x| x.as_u64().unwrap() as usize).collect()).unwrap_or(vec![1, 2, 3, 8, 16]);
    let kmax = shape.k + 2;
    let cname = format!("shape{}", sc["seed"].as_u64().unwrap_or(0));
    let mut w = |v: J| writeln!(out, "{v}").unwrap();

    // parameters: set-up, downsize targets, fresh set-up for the same secret
    let big = setup(secret, kmax);
    w(json!({"ev":"Setup","secret":secret,"k":kmax,"h":it.id(&params_bytes(&big))}));
    let targets: Vec<u32> = sc["downsize"].as_array().map(|a| a.iter().map(|x| x.as_u64().unwrap() as u32).collect()).unwrap_or((1..=kmax).collect());
    for k2 in targets {
        // downsizing inside thread pools of several sizes (the Lagrange basis is rebuilt in parallel): same bytes every time
        for &t in threads.iter().filter(|t| **t != 16) {
            let mut d = big.clone();
            let r = catch_unwind(AssertUnwindSafe(|| {
                with_threads(t, || d.downsize(k2));
                params_bytes(&d)
            }));
            match r {
                Ok(b) => w(json!({"ev":"Downsize","secret":secret,"from_k":kmax,"k":k2,"res":"ok","threads":t,"h":it.id(&b)})),
                Err(p) => w(json!({"ev":"Downsize","secret":secret,"from_k":kmax,"k":k2,"res":"panic","threads":t,"detail":panic_msg(p),"h":0})),
            }
        }
        let mut d = big.clone();
        let r = catch_unwind(AssertUnwindSafe(|| {
            d.downsize(k2);
            params_bytes(&d)
        }));
        match r {
            Ok(b) => {
                w(json!({"ev":"Downsize","secret":secret,"from_k":kmax,"k":k2,"res":"ok","h":it.id(&b)}));
                let fresh = setup(secret, k2);
                w(json!({"ev":"Setup","secret":secret,"k":k2,"h":it.id(&params_bytes(&fresh))}));
            }
            Err(p) => w(json!({"ev":"Downsize","secret":secret,"from_k":kmax,"k":k2,"res":"panic","detail":panic_msg(p),"h":0})),
        }
    }
    let mut params = big.clone();
    params.downsize(shape.k);
    // params round trips
    for wf in FORMATS {
        let mut buf = vec![];
        params.write_custom(&mut buf, fmt(wf)).unwrap();
        for rf in FORMATS {
            let r = catch_unwind(AssertUnwindSafe(|| ParamsKZG::<Bls12>::read_custom(&mut &buf[..], fmt(rf))));
            let (res, same) = match r {
                Ok(Ok(p2)) => {
                    let mut b2 = vec![];
                    p2.write_custom(&mut b2, fmt(wf)).unwrap();
                    ("ok", b2 == buf)
                }
                Ok(Err(_)) => ("err", false),
                Err(_) => ("panic", false),
            };
            w(json!({"ev":"RoundTrip","kind":"params","circuit":"-","wf":wf,"rf":rf,"res":res,"same_bytes":same,"same_repr":same}));
        }
    }

    // keys of a ShapeCircuit under several thread pools, twice each
    let circuit = ShapeCircuit::generate(&shape, 0);
    let empty = circuit.without_witnesses();
    let mut vk0: Option<VerifyingKey<F, CS>> = None;
    let mut pk0: Option<ProvingKey<F, CS>> = None;
    for &t in threads.iter() {
        for rep in 0..2 {
            let (vk, pk) = with_threads(t, || {
                let vk = keygen_vk_with_k::<F, CS, _>(&params, &empty, shape.k).unwrap();
                let pk = keygen_pk(vk.clone(), &empty).unwrap();
                (vk, pk)
            });
            let vb = vk.to_bytes(SerdeFormat::Processed);
            let repr = it.id(ff::PrimeField::to_repr(&vk.transcript_repr()).as_ref());
            w(json!({"ev":"KeygenVk","circuit":cname,"k":shape.k,"secret":secret,"threads":t,"rep":rep,"h":it.id(&vb),"repr":repr}));
            let pb = pk.to_bytes(SerdeFormat::RawBytes);
            w(json!({"ev":"KeygenPk","circuit":cname,"k":shape.k,"secret":secret,"threads":t,"rep":rep,"h":it.id(&pb)}));
            if vk0.is_none() {
                vk0 = Some(vk);
                pk0 = Some(pk);
            }
        }
    }
    let vk0 = vk0.unwrap();
    let pk0 = pk0.unwrap();
    let repr0 = vk0.transcript_repr();
    // vk / pk round trips in every format pair
    let mut reloaded_vk: Vec<(String, VerifyingKey<F, CS>)> = vec![];
    let mut reloaded_pk: Vec<(String, ProvingKey<F, CS>)> = vec![];
    for wf in FORMATS {
        let vb = vk0.to_bytes(fmt(wf));
        let pb = pk0.to_bytes(fmt(wf));
        for rf in FORMATS {
            let r = catch_unwind(AssertUnwindSafe(|| {
                VerifyingKey::<F, CS>::from_bytes::<ShapeCircuit>(&vb, fmt(rf), shape.clone())
            }));
            let (res, sb, sr) = match r {
                Ok(Ok(v2)) => {
                    let o = (v2.to_bytes(fmt(wf)) == vb, v2.transcript_repr() == repr0);
                    if o.0 {
                        reloaded_vk.push((format!("{wf}{rf}"), v2));
                    }
                    ("ok", o.0, o.1)
                }
                Ok(Err(_)) => ("err", false, false),
                Err(_) => ("panic", false, false),
            };
            w(json!({"ev":"RoundTrip","kind":"vk","circuit":cname,"wf":wf,"rf":rf,"res":res,"same_bytes":sb,"same_repr":sr}));
            let r = catch_unwind(AssertUnwindSafe(|| {
                ProvingKey::<F, CS>::from_bytes::<ShapeCircuit>(&pb, fmt(rf), shape.clone())
            }));
            let (res, sb, sr) = match r {
                Ok(Ok(p2)) => {
                    let o = (p2.to_bytes(fmt(wf)) == pb, p2.get_vk().transcript_repr() == repr0);
                    if o.0 {
                        reloaded_pk.push((format!("{wf}{rf}"), p2));
                    }
                    ("ok", o.0, o.1)
                }
                Ok(Err(_)) => ("err", false, false),
                Err(_) => ("panic", false, false),
            };
            w(json!({"ev":"RoundTrip","kind":"pk","circuit":cname,"wf":wf,"rf":rf,"res":res,"same_bytes":sb,"same_repr":sr}));
        }
    }
    // cross verification: proofs by original / reloaded pk, verified by original / reloaded vk
    let inst = vec![circuit.instance_f()];
    let mut pks: Vec<(String, &ProvingKey<F, CS>)> = vec![("orig".into(), &pk0)];
    for (n, p) in reloaded_pk.iter() {
        pks.push((n.clone(), p));
    }
    let mut vks: Vec<(String, &VerifyingKey<F, CS>)> = vec![("orig".into(), &vk0)];
    for (n, v) in reloaded_vk.iter() {
        vks.push((n.clone(), v));
    }
    for (pn, pk) in pks.iter() {
        let pr = plonkrun::prove::<Blake>(&params, pk, &[circuit.clone()], shape.committed, &inst, secret);
        match pr {
            Err(e) => w(json!({"ev":"Cross","circuit":cname,"pk":pn,"vk":"-","res":"noproof","detail":e})),
            Ok(p) => {
                for (vn, vk) in vks.iter() {
                    let (coms, plain) = plonkrun::split_instances(&params, vk, shape.committed, &inst);
                    let v = plonkrun::verify::<Blake>(&params, vk, &coms, &plain, &p.proof);
                    let res = if v.verdict == "ok" { "ok" } else if v.verdict.starts_with("panic") { "panic" } else { "err" };
                    w(json!({"ev":"Cross","circuit":cname,"pk":pn,"vk":vn,"res":res,"detail":v.verdict}));
                }
            }
        }
    }
    Ok(())
}

/// Standard-library keys: MidnightVK / MidnightPK of a relation.
pub fn run_stdlib(secret: u64, it: &mut Intern, out: &mut dyn Write) {
    let mut w = |v: J| writeln!(out, "{v}").unwrap();
    let k = std_lib::MidnightCircuit::from_relation(&MulRel).min_k();
    let params = setup(secret, k);
    let mut first: Option<(MidnightVK, MidnightPK<MulRel>)> = None;
    for t in [1usize, 3, 16] {
        let (vk, pk) = with_threads(t, || {
            let vk = std_lib::setup_vk(&params, &MulRel);
            let pk = std_lib::setup_pk(&MulRel, &vk);
            (vk, pk)
        });
        let mut vb = vec![];
        vk.write(&mut vb, SerdeFormat::Processed).unwrap();
        let mut pb = vec![];
        pk.write(&mut pb, SerdeFormat::RawBytes).unwrap();
        let repr = it.id(ff::PrimeField::to_repr(&vk.vk().transcript_repr()).as_ref());
        w(json!({"ev":"KeygenVk","circuit":"MulRel","k":k,"secret":secret,"threads":t,"rep":0,"h":it.id(&vb),"repr":repr}));
        w(json!({"ev":"KeygenPk","circuit":"MulRel","k":k,"secret":secret,"threads":t,"rep":0,"h":it.id(&pb)}));
        if first.is_none() {
            first = Some((vk, pk));
        }
    }
    let (vk0, pk0) = first.unwrap();
    let mut vks: Vec<(String, MidnightVK)> = vec![("orig".into(), vk0.clone())];
    let mut pks: Vec<(String, MidnightPK<MulRel>)> = vec![];
    for wf in FORMATS {
        let mut vb = vec![];
        vk0.write(&mut vb, fmt(wf)).unwrap();
        let mut pb = vec![];
        pk0.write(&mut pb, fmt(wf)).unwrap();
        for rf in FORMATS {
            let r = catch_unwind(AssertUnwindSafe(|| MidnightVK::read(&mut &vb[..], fmt(rf))));
            let (res, sb, sr) = match r {
                Ok(Ok(v2)) => {
                    let mut b2 = vec![];
                    v2.write(&mut b2, fmt(wf)).unwrap();
                    let o = (b2 == vb, v2.vk().transcript_repr() == vk0.vk().transcript_repr());
                    if o.0 {
                        vks.push((format!("{wf}{rf}"), v2));
                    }
                    ("ok", o.0, o.1)
                }
                Ok(Err(_)) => ("err", false, false),
                Err(_) => ("panic", false, false),
            };
            w(json!({"ev":"RoundTrip","kind":"mvk","circuit":"MulRel","wf":wf,"rf":rf,"res":res,"same_bytes":sb,"same_repr":sr}));
            let r = catch_unwind(AssertUnwindSafe(|| MidnightPK::<MulRel>::read(&mut &pb[..], fmt(rf))));
            let (res, sb, sr) = match r {
                Ok(Ok(p2)) => {
                    let mut b2 = vec![];
                    p2.write(&mut b2, fmt(wf)).unwrap();
                    let o = b2 == pb;
                    if o {
                        pks.push((format!("{wf}{rf}"), p2));
                    }
                    ("ok", o, o)
                }
                Ok(Err(_)) => ("err", false, false),
                Err(_) => ("panic", false, false),
            };
            w(json!({"ev":"RoundTrip","kind":"mpk","circuit":"MulRel","wf":wf,"rf":rf,"res":res,"same_bytes":sb,"same_repr":sr}));
        }
    }
    pks.insert(0, ("orig".into(), pk0));
    let (inst, wit) = rels::mul_case(1);
    let mut rng = ChaCha8Rng::seed_from_u64(secret);
    for (pn, pk) in pks.iter() {
        let r = catch_unwind(AssertUnwindSafe(|| std_lib::prove::<MulRel, Blake>(&params, pk, &MulRel, &inst, wit, &mut rng)));
        match r {
            Ok(Ok(proof)) => {
                for (vn, vk) in vks.iter() {
                    let r = catch_unwind(AssertUnwindSafe(|| {
                        std_lib::verify::<MulRel, Blake>(&params.verifier_params(), vk, &inst, None, &proof)
                    }));
                    let res = match r {
                        Ok(Ok(())) => "ok",
                        Ok(Err(_)) => "err",
                        Err(_) => "panic",
                    };
                    w(json!({"ev":"Cross","circuit":"MulRel","pk":pn,"vk":vn,"res":res}));
                }
            }
            _ => w(json!({"ev":"Cross","circuit":"MulRel","pk":pn,"vk":"-","res":"noproof"})),
        }
    }
}

pub fn main(args: &[String]) -> i32 {
    let scen = util::read_ndjson(&args[0]);
    let mut out = util::create(&args[1]);
    let mut it = Intern(HashMap::new());
    writeln!(out, "{}", json!({"ev":"header","prop":"C17","n":scen.len()})).unwrap();
    for sc in scen.iter() {
        if sc["stdlib"].as_bool().unwrap_or(false) {
            run_stdlib(sc["secret"].as_u64().unwrap_or(7), &mut it, &mut out);
            continue;
        }
        if let Err(e) = run_one(sc, &mut it, &mut out) {
            eprintln!("HARNESS-ERROR scenario {sc}: {e}");
            return 2;
        }
    }
    0
}
