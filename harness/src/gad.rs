//! The gadget game on the deployed native field (shared by C05-C08): run a
//! one-operation circuit under MockProver, extract the values the circuit
//! ITSELF ties to the plain instance column, and re-run with exactly that
//! instance - optionally with one advice assignment consistently replaced
//! through hook H1.

use std::panic::{catch_unwind, AssertUnwindSafe};

use ff::PrimeField;
use midnight_curves::Fq as F;
use midnight_proofs::{
    dev::MockProver,
    plonk::Circuit,
    verif_hook::{self, Fault},
};
use num_bigint::BigUint;
use serde_json::{json, Value as J};

use crate::{c04::self_instance, plonkrun::panic_msg};

thread_local! {
    /// kinds and sizes of the exposures made during the current synthesis, in order
    pub static LAYOUT: std::cell::RefCell<Vec<(char, u32)>> = const { std::cell::RefCell::new(Vec::new()) };
}
pub fn note(kind: char, n: u32) {
    LAYOUT.with(|l| l.borrow_mut().push((kind, n)));
}
fn take_layout() -> Vec<(char, u32)> {
    LAYOUT.with(|l| std::mem::take(&mut *l.borrow_mut()))
}

pub struct RunOut {
    pub layout: Vec<(char, u32)>,
    pub status: String, // sat | unsat | synth_err | panic
    pub exposed: Vec<F>,
    pub nassign: usize,
    pub detail: String,
}

pub fn run_game<C: Circuit<F>>(c: &C, k: u32, tamper: Option<(usize, Fault)>) -> RunOut {
    let r = catch_unwind(AssertUnwindSafe(|| {
        verif_hook::reset(tamper.clone(), false);
        take_layout();
        let mp = MockProver::run(k, c, vec![vec![], vec![]]).map_err(|e| format!("{e:?}"))?;
        let layout = take_layout();
        let (n, _) = verif_hook::take_log();
        let pi = self_instance(&mp);
        verif_hook::reset(tamper.clone(), false);
        let mp2 = MockProver::run(k, c, vec![vec![], pi.clone()]).map_err(|e| format!("{e:?}"))?;
        verif_hook::reset(None, false);
        let sat = mp2.verify().is_ok();
        Ok::<_, String>((sat, pi, n, layout))
    }));
    verif_hook::reset(None, false);
    match r {
        Ok(Ok((sat, exposed, n, layout))) => RunOut { layout, status: if sat { "sat".into() } else { "unsat".into() }, exposed, nassign: n, detail: String::new() },
        Ok(Err(e)) => RunOut { layout: vec![], status: "synth_err".into(), exposed: vec![], nassign: 0, detail: e.chars().take(160).collect() },
        Err(p) => RunOut { layout: vec![], status: "panic".into(), exposed: vec![], nassign: 0, detail: panic_msg(p).chars().take(160).collect() },
    }
}

/// Is the circuit satisfiable with this (verifier-chosen) plain instance?
pub fn sat_with<C: Circuit<F>>(c: &C, k: u32, inst: &[F]) -> String {
    let r = catch_unwind(AssertUnwindSafe(|| {
        verif_hook::reset(None, false);
        let mp = MockProver::run(k, c, vec![vec![], inst.to_vec()]).map_err(|e| format!("{e:?}"))?;
        Ok::<_, String>(mp.verify().is_ok())
    }));
    match r {
        Ok(Ok(true)) => "sat".into(),
        Ok(Ok(false)) => "unsat".into(),
        Ok(Err(_)) => "synth_err".into(),
        Err(_) => "panic".into(),
    }
}

pub fn fault_of(s: &str) -> Fault {
    match s {
        "plus1" => Fault::Plus1,
        "minus1" => Fault::Minus1,
        "zero" => Fault::Zero,
        "oneminus" => Fault::OneMinus,
        "random" => Fault::Random,
        x if x.starts_with("pow2_") => Fault::PlusPow2(x[5..].parse().unwrap_or(1)),
        _ => Fault::Plus1,
    }
}

/// little-endian bytes without most-significant zeros (a BigNat of the specs)
pub fn nat_of_big(b: &BigUint) -> Vec<u8> {
    if b.bits() == 0 {
        vec![]
    } else {
        b.to_bytes_le()
    }
}
pub fn nat_of_f<T: PrimeField>(x: &T) -> Vec<u8> {
    let r = x.to_repr();
    let mut v = r.as_ref().to_vec();
    while v.last() == Some(&0) {
        v.pop();
    }
    v
}
pub fn big_of_nat(v: &J) -> BigUint {
    let bytes: Vec<u8> = v.as_array().map(|a| a.iter().map(|d| d.as_u64().unwrap_or(0) as u8).collect()).unwrap_or_default();
    BigUint::from_bytes_le(&bytes)
}
pub fn nats_json(xs: &[F]) -> J {
    json!(xs.iter().map(nat_of_f).collect::<Vec<_>>())
}
pub fn layout_json(l: &[(char, u32)]) -> J {
    json!(l.iter().map(|(k, n)| json!([k.to_string(), n])).collect::<Vec<_>>())
}
