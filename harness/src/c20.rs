//! C20 driver (light aggregator, public API): valid inner proofs of a standard-
//! library relation over several chip architectures are aggregated under a
//! recording transcript; the aggregated proof is verified honestly and with
//! every element corrupted once, truncated and extended, with every inner
//! public input edited, and `aggregate_proofs` is given invalid inner proofs.

use std::{
    io::{self, Read, Write},
    panic::{catch_unwind, AssertUnwindSafe},
};

use blake2b_simd::State as Blake2bState;
use ff::{Field, FromUniformBytes};
use group::{Curve, Group, GroupEncoding};
use midnight_aggregator::light_aggregator::LightAggregator;
use midnight_circuits::{
    hash::poseidon::{PoseidonChip, PoseidonState},
    instructions::{hash::HashCPU, AssignmentInstructions, PublicInputInstructions},
};
use midnight_proofs::{
    circuit::{Layouter, Value},
    plonk::{prepare, Error},
    poly::kzg::{params::ParamsKZG, KZGCommitmentScheme},
    transcript::{CircuitTranscript, Hashable, Sampleable, Transcript, TranscriptHash},
};
use midnight_zk_stdlib::{Relation, ZkStdLib, ZkStdLibArch};
use rand::SeedableRng;
use rand_chacha::ChaCha8Rng;
use serde_json::{json, Value as J};

use crate::{
    plonkrun::panic_msg,
    rec::{self, RecT, TEvent},
    util,
};

type F = midnight_curves::Fq;
type G1 = midnight_curves::G1Projective;
type E = midnight_curves::Bls12;

/// The Fiat-Shamir hash the light aggregator expects for inner proofs (the crate keeps its own
/// copy private): points are digested with SHA-512 off-circuit, then absorbed with Poseidon.
#[derive(Clone, Debug)]
pub struct LightFS(PoseidonState<F>);

impl TranscriptHash for LightFS {
    type Input = Vec<F>;
    type Output = F;
    fn init() -> Self {
        LightFS(<PoseidonState<F> as TranscriptHash>::init())
    }
    fn absorb(&mut self, input: &Self::Input) {
        <PoseidonState<F> as TranscriptHash>::absorb(&mut self.0, input)
    }
    fn squeeze(&mut self) -> Self::Output {
        <PoseidonState<F> as TranscriptHash>::squeeze(&mut self.0)
    }
}
impl Hashable<LightFS> for G1 {
    fn to_input(&self) -> Vec<F> {
        use sha2::Digest;
        let bytes = Hashable::<LightFS>::to_bytes(self);
        let digest_bytes: [u8; 64] = sha2::Sha512::digest(bytes).into();
        vec![F::from_uniform_bytes(&digest_bytes)]
    }
    fn to_bytes(&self) -> Vec<u8> {
        <G1 as Hashable<PoseidonState<F>>>::to_bytes(self)
    }
    fn read(buffer: &mut impl Read) -> io::Result<Self> {
        <G1 as Hashable<PoseidonState<F>>>::read(buffer)
    }
}
impl Hashable<LightFS> for F {
    fn to_input(&self) -> Vec<F> {
        <F as Hashable<PoseidonState<F>>>::to_input(self)
    }
    fn to_bytes(&self) -> Vec<u8> {
        <F as Hashable<PoseidonState<F>>>::to_bytes(self)
    }
    fn read(buffer: &mut impl Read) -> io::Result<Self> {
        <F as Hashable<PoseidonState<F>>>::read(buffer)
    }
}
impl Sampleable<LightFS> for F {
    fn sample(out: F) -> Self {
        out
    }
}

#[derive(Clone)]
pub struct InnerCircuit(ZkStdLibArch);

impl Relation for InnerCircuit {
    type Instance = [F; 2];
    type Witness = [F; 2];
    fn format_instance(instance: &Self::Instance) -> Result<Vec<F>, Error> {
        Ok(instance.to_vec())
    }
    fn circuit(&self, s: &ZkStdLib, l: &mut impl Layouter<F>, _i: Value<Self::Instance>, w: Value<Self::Witness>) -> Result<(), Error> {
        let m = s.assign_many(l, &w.transpose_array())?;
        if !self.0.poseidon {
            // an inner relation without the Poseidon chip (no additive-selector argument in the inner constraint system)
            use midnight_circuits::instructions::ArithInstructions;
            let o1 = s.mul(l, &m[0], &m[1], None)?;
            let o2 = s.add(l, &m[0], &m[1])?;
            s.constrain_as_public_input(l, &o1)?;
            return s.constrain_as_public_input(l, &o2);
        }
        let o1 = s.poseidon(l, &m)?;
        let o2 = s.poseidon(l, &m[1..])?;
        s.constrain_as_public_input(l, &o1)?;
        s.constrain_as_public_input(l, &o2)
    }
    fn used_chips(&self) -> ZkStdLibArch {
        self.0
    }
    fn write_relation<W: std::io::Write>(&self, _w: &mut W) -> std::io::Result<()> {
        Ok(())
    }
    fn read_relation<R: std::io::Read>(_r: &mut R) -> std::io::Result<Self> {
        unimplemented!()
    }
}

fn arch_of(name: &str) -> ZkStdLibArch {
    let base = ZkStdLibArch { poseidon: true, ..ZkStdLibArch::default() };
    match name {
        "poseidon_sha256" => ZkStdLibArch { sha2_256: true, ..base },
        "poseidon_secp256k1" => ZkStdLibArch { secp256k1: true, ..base },
        "poseidon_jubjub" => ZkStdLibArch { jubjub: true, ..base },
        // the architecture of the aggregator's own unit test
        "agg_test" => ZkStdLibArch { jubjub: true, sha2_256: true, nr_pow2range_cols: 4, ..base },
        "poseidon_jubjub_p3" => ZkStdLibArch { jubjub: true, nr_pow2range_cols: 3, ..base },
        "poseidon_p2" => ZkStdLibArch { nr_pow2range_cols: 2, ..base },
        "poseidon_p3" => ZkStdLibArch { nr_pow2range_cols: 3, ..base },
        "poseidon_p4" => ZkStdLibArch { nr_pow2range_cols: 4, ..base },
        "plain" => ZkStdLibArch::default(),
        "plain_sha256" => ZkStdLibArch { sha2_256: true, ..ZkStdLibArch::default() },
        _ => base,
    }
}

fn verdict(r: std::thread::Result<Result<(), Error>>) -> String {
    match r {
        Ok(Ok(())) => "ok".into(),
        Ok(Err(e)) => format!("err:{e:?}").chars().take(50).collect(),
        Err(p) => format!("panic:{}", panic_msg(p)).chars().take(50).collect(),
    }
}

fn tev(side: &str, evs: &[TEvent]) -> Vec<J> {
    rec::tevents_json(side, evs)
}

fn run<const NB: usize>(sc: &J, out: &mut dyn Write) {
    let arch_name = sc["arch"].as_str().unwrap_or("poseidon");
    let relation = InnerCircuit(arch_of(arch_name));
    let mut rng = ChaCha8Rng::seed_from_u64(sc["seed"].as_u64().unwrap_or(20));
    let mut srs = ParamsKZG::<E>::unsafe_setup(15, &mut rng);
    let mut inner_srs = srs.clone();
    midnight_zk_stdlib::downsize_srs_for_relation(&mut inner_srs, &relation);
    let inner_vk = midnight_zk_stdlib::setup_vk(&inner_srs, &relation);
    let inner_pk = midnight_zk_stdlib::setup_pk(&relation, &inner_vk);
    let (degree, permcols, lookups) = {
        let cs = inner_vk.vk().cs();
        (cs.degree(), cs.permutation().get_columns().len(), cs.lookups().len())
    };
    let aggregator = match catch_unwind(AssertUnwindSafe(|| LightAggregator::<NB>::init(&mut srs, inner_vk.vk()))) {
        Ok(Ok(a)) => a,
        other => {
            writeln!(out, "{}", json!({"ev":"Agg","arch":arch_name,"nb":NB,"verdict":format!("init failed: {}", other.is_ok()),
                "inner":{"degree":degree,"permcols":permcols,"lookups":lookups},"prover":[],"verifier":[]})).unwrap();
            return;
        }
    };
    let witnesses: [[F; 2]; NB] = core::array::from_fn(|_| [F::random(&mut rng), F::random(&mut rng)]);
    let instances: [[F; 2]; NB] = if relation.0.poseidon {
        witnesses.map(|w| [<PoseidonChip<F> as HashCPU<F, F>>::hash(&w), <PoseidonChip<F> as HashCPU<F, F>>::hash(&w[1..])])
    } else {
        witnesses.map(|w| [w[0] * w[1], w[0] + w[1]])
    };
    let proofs: [Vec<u8>; NB] = core::array::from_fn(|i| {
        midnight_zk_stdlib::prove::<InnerCircuit, LightFS>(&inner_srs, &inner_pk, &relation, &instances[i], witnesses[i], &mut rng).expect("inner proof")
    });
    let inner_ok = (0..NB).all(|i| {
        let mut t = CircuitTranscript::<LightFS>::init_from_bytes(&proofs[i]);
        prepare::<F, KZGCommitmentScheme<E>, CircuitTranscript<LightFS>>(inner_vk.vk(), &[&[G1::identity()]], &[&[&instances[i]]], &mut t)
            .map(|d| d.check(&inner_srs.verifier_params()))
            .unwrap_or(false)
    });
    let all_instances: [Vec<F>; NB] = instances.map(|i| i.to_vec());
    // honest aggregation under a recording transcript
    rec::reset_run();
    rec::start_side();
    let mut pt = RecT::<CircuitTranscript<Blake2bState>>::init();
    let agg = catch_unwind(AssertUnwindSafe(|| aggregator.aggregate_proofs(&srs, &all_instances, &proofs, &mut rng, &mut pt)));
    let pevents = rec::take_side();
    let agg_verdict = verdict(agg);
    let meta = pt.finalize();
    let vp = srs.verifier_params();
    let verify_bytes = |bytes: &[u8], insts: &[Vec<F>; NB]| -> (String, Vec<TEvent>, bool) {
        rec::start_side();
        let mut vt = RecT::<CircuitTranscript<Blake2bState>>::init_from_bytes(bytes);
        let r = catch_unwind(AssertUnwindSafe(|| aggregator.verify(&vp, insts, &mut vt)));
        let trailing = vt.assert_empty().is_err();
        let ev = rec::take_side();
        (verdict(r), ev, trailing)
    };
    let (v_honest, vevents, trailing) = verify_bytes(&meta, &all_instances);
    // length of the vectors of the inner-product argument: accumulator RHS bases (second count in the proof) + fixed bases
    let ipa_len = {
        let mut off = 0usize;
        let mut counts = vec![];
        for e in vevents.iter().filter(|e| e.op == "read") {
            if e.kind == "u32" && off + 4 <= meta.len() {
                let b = [meta[off], meta[off + 1], meta[off + 2], meta[off + 3]];
                counts.push(u32::from_le_bytes(b).min(u32::from_be_bytes(b)) as usize);
            }
            off += e.len;
        }
        let fixed = midnight_circuits::verifier::fixed_bases::<midnight_circuits::verifier::BlstrsEmulation>("inner_vk", inner_vk.vk()).len();
        counts.get(1).map(|n| json!({"rhs":n,"fixed":fixed,"len":n + fixed,"exact_pow2":(n + fixed).is_power_of_two()}))
    };
    writeln!(out, "{}", json!({"ev":"Agg","arch":arch_name,"nb":NB,"ipa":ipa_len,"inner":{"degree":degree,"permcols":permcols,"lookups":lookups,"valid":inner_ok},
        "aggregate":agg_verdict,"verdict":v_honest,"trailing":trailing,"proof_len":meta.len(),
        "prover":tev("P", &pevents),"verifier":tev("V", &vevents)})).unwrap();
    if v_honest != "ok" {
        writeln!(out, "{}", json!({"ev":"AggPlanEnd","n_elements":0,"skipped":true})).unwrap();
        return;
    }
    // the layout of the aggregated proof: the elements the verifier read, in order
    let mut layout: Vec<(usize, usize, &'static str)> = vec![];
    let mut off = 0usize;
    for e in vevents.iter() {
        if e.op == "read" {
            layout.push((off, e.len, e.kind));
            off += e.len;
        }
    }
    let other_point = (G1::generator() * F::from(7u64)).to_affine().to_bytes().as_ref().to_vec();
    let stride = sc["stride"].as_u64().unwrap_or(1).max(1) as usize;
    let offset = sc["offset"].as_u64().unwrap_or(0) as usize % stride;
    for (i, (o, len, kind)) in layout.iter().enumerate() {
        // the first and last dozen elements are always corrupted (counts, accumulator bases, IPA section)
        if !(i % stride == offset || i < 12 || i + 24 >= layout.len()) {
            continue;
        }
        let mut variants: Vec<(&str, Vec<u8>)> = vec![];
        let mut b = meta.clone();
        b[o + len - 1] ^= 1;
        variants.push(("flip_last_bit", b));
        let mut b = meta.clone();
        b[*o] ^= 0x04;
        variants.push(("flip_first_byte", b));
        if *kind == "point" && *len == other_point.len() {
            let mut b = meta.clone();
            b[*o..o + len].copy_from_slice(&other_point);
            variants.push(("other_valid_point", b));
        }
        if *kind == "u32" {
            for (name, d) in [("count_plus_1", 1i64), ("count_minus_1", -1)] {
                let mut b = meta.clone();
                let v = u32::from_le_bytes([b[*o], b[o + 1], b[o + 2], b[o + 3]]) as i64 + d;
                let vb = (v.max(0) as u32).to_le_bytes();
                // (the transcript's own byte order is whatever it is: try both)
                b[*o..o + 4].copy_from_slice(&vb);
                variants.push((name, b));
            }
        }
        for (how, bytes) in variants {
            if bytes == meta {
                continue;
            }
            let (v, _, _) = verify_bytes(&bytes, &all_instances);
            writeln!(out, "{}", json!({"ev":"AggTamper","el":i + 1,"kind":kind,"how":how,"verdict":v})).unwrap();
        }
    }
    for (how, bytes) in [("drop_last_byte", meta[..meta.len() - 1].to_vec()), ("drop_last_32", meta[..meta.len() - 32].to_vec()),
                         ("append_byte", [meta.clone(), vec![0u8]].concat())] {
        let (v, _, trailing) = verify_bytes(&bytes, &all_instances);
        writeln!(out, "{}", json!({"ev":"AggTamper","el":0,"kind":"length","how":how,"verdict":v,"trailing":trailing})).unwrap();
    }
    // inner public inputs
    for p in 0..NB {
        for j in 0..2 {
            let mut insts = all_instances.clone();
            insts[p][j] += F::ONE;
            let (v, _, _) = verify_bytes(&meta, &insts);
            writeln!(out, "{}", json!({"ev":"AggInstance","proof":p + 1,"pos":j + 1,"verdict":v})).unwrap();
        }
    }
    if NB >= 2 {
        let mut insts = all_instances.clone();
        insts.swap(0, 1);
        let (v, _, _) = verify_bytes(&meta, &insts);
        writeln!(out, "{}", json!({"ev":"AggInstance","proof":0,"pos":0,"verdict":v,"how":"swap_first_two"})).unwrap();
    }
    // invalid inner proofs must be refused by aggregate_proofs
    let refuse = |what: &str, insts: &[Vec<F>; NB], prs: &[Vec<u8>; NB], out: &mut dyn Write| {
        let mut rng2 = ChaCha8Rng::seed_from_u64(5);
        let mut t = CircuitTranscript::<Blake2bState>::init();
        let r = catch_unwind(AssertUnwindSafe(|| aggregator.aggregate_proofs(&srs, insts, prs, &mut rng2, &mut t)));
        let v = verdict(r);
        // if it did not refuse, does the resulting aggregate verify?
        let then = if v == "ok" {
            let bytes = t.finalize();
            verify_bytes(&bytes, insts).0
        } else {
            "n/a".into()
        };
        writeln!(out, "{}", json!({"ev":"AggRefuse","what":what,"verdict":v,"then_verify":then})).unwrap();
    };
    {
        let mut prs = proofs.clone();
        let mid = prs[NB - 1].len() / 2;
        prs[NB - 1][mid] ^= 1;
        refuse("inner_proof_bit", &all_instances, &prs, out);
        let mut prs = proofs.clone();
        let l = prs[0].len();
        prs[0][l - 1] ^= 0x10;
        refuse("inner_proof_last_byte", &all_instances, &prs, out);
        let mut insts = all_instances.clone();
        insts[0][1] += F::ONE;
        refuse("inner_instance", &insts, &proofs, out);
    }
    writeln!(out, "{}", json!({"ev":"AggPlanEnd","n_elements":layout.len(),"stride":stride,"offset":offset})).unwrap();
}

pub fn main(args: &[String]) -> i32 {
    let scen = util::read_ndjson(&args[0]);
    let mut out = util::create(&args[1]);
    writeln!(out, "{}", json!({"ev":"header","prop":"C20","n":scen.len()})).unwrap();
    for sc in scen.iter() {
        match sc["nb"].as_u64().unwrap_or(1) {
            1 => run::<1>(sc, &mut out),
            2 => run::<2>(sc, &mut out),
            _ => run::<3>(sc, &mut out),
        }
    }
    0
}
