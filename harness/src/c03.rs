//! C03 driver: fault enumeration over the recorded layout of honest proofs.
//! For every scenario: one honest proof, then every planned tamper of the
//! proof bytes, the public inputs, the committed instances, the key and the
//! transcript hash. Each tamper is logged with three facts obtained by direct
//! comparison (proof_same, stmt_same, key_same) and the verifier's verdict;
//! the trace specification `Binding_Trace` states the expected verdict.

use std::io::Write;

use ff::{Field, PrimeField};
use group::Group;
use midnight_curves::{Fq as F, G1Projective};
use midnight_proofs::transcript::Hashable;
use num_bigint::BigUint;
use serde_json::{json, Value as J};

use crate::{
    c01::scenario_shape,
    plonkrun::{self, Blake, ParamCache, Pos},
    rec::TEvent,
    shapes::ShapeCircuit,
    util,
};

fn scalar_le() -> bool {
    F::ONE.to_repr().as_ref()[0] == 1
}

fn modulus() -> BigUint {
    BigUint::parse_bytes(&F::MODULUS.as_bytes()[2..], 16).unwrap()
}

/// layout of proof elements: (offset, len, kind)
pub fn layout(events: &[TEvent]) -> Vec<(usize, usize, &'static str)> {
    let mut off = 0;
    let mut v = vec![];
    for e in events {
        if e.op == "write" {
            v.push((off, e.len, e.kind));
            off += e.len;
        }
    }
    v
}

fn other_point(seed: u64, hash: &str) -> Vec<u8> {
    let p = G1Projective::generator() * F::from(seed * 7919 + 13);
    if hash == "poseidon" {
        <G1Projective as Hashable<Pos>>::to_bytes(&p)
    } else {
        <G1Projective as Hashable<Blake>>::to_bytes(&p)
    }
}

/// A non-identity point of the curve whose order divides the cofactor (r times a curve point outside the prime-order group).
fn torsion_point() -> G1Projective {
    use group::GroupEncoding;
    use midnight_curves::G1Affine;
    for x in 1u8..=255 {
        let mut repr = <G1Affine as GroupEncoding>::Repr::default();
        repr.as_mut()[0] = 0x80;
        repr.as_mut()[47] = x;
        let c: Option<G1Affine> = G1Affine::from_bytes_unchecked(&repr).into();
        let Some(c) = c else { continue };
        let c = G1Projective::from(c);
        let t = c * (-F::ONE) + c;
        if !bool::from(t.is_identity()) {
            return t;
        }
    }
    panic!("no curve point outside the prime-order group found");
}

/// The encoding of (the point these bytes encode) + (a point of cofactor order): a different byte string which a decoder
/// that checks group membership refuses, and which the pairing equation cannot tell from the original.
fn plus_torsion(seg: &[u8]) -> Vec<u8> {
    use group::GroupEncoding;
    use midnight_curves::G1Affine;
    let mut repr = <G1Affine as GroupEncoding>::Repr::default();
    if seg.len() != repr.as_ref().len() {
        return vec![0xff; seg.len()];
    }
    repr.as_mut().copy_from_slice(seg);
    let p: Option<G1Affine> = G1Affine::from_bytes(&repr).into();
    match p {
        Some(p) => {
            let q: G1Affine = (G1Projective::from(p) + torsion_point()).into();
            q.to_bytes().as_ref().to_vec()
        }
        None => vec![0xff; seg.len()],
    }
}

fn mutate_scalar(bytes: &[u8], m: &str) -> Vec<u8> {
    let le = scalar_le();
    let v = if le { BigUint::from_bytes_le(bytes) } else { BigUint::from_bytes_be(bytes) };
    let nv = match m {
        "other" => (v + 1u32) % modulus(),
        _ => v + modulus(), // non-canonical encoding of the same residue
    };
    let mut out = if le { nv.to_bytes_le() } else { nv.to_bytes_be() };
    if le {
        out.resize(bytes.len(), 0);
    } else {
        while out.len() < bytes.len() {
            out.insert(0, 0);
        }
    }
    out
}

struct Ctx<'a> {
    hash: String,
    params: midnight_proofs::poly::kzg::params::ParamsKZG<midnight_curves::Bls12>,
    run: &'a plonkrun::Run,
    proof: Vec<u8>,
    coms: Vec<Vec<G1Projective>>,
    plain: Vec<Vec<Vec<F>>>,
}

fn verify_with(
    ctx: &Ctx,
    vk: &plonkrun::VK,
    params: &midnight_proofs::poly::kzg::params::ParamsKZG<midnight_curves::Bls12>,
    hash: &str,
    coms: &[Vec<G1Projective>],
    plain: &[Vec<Vec<F>>],
    proof: &[u8],
) -> String {
    let _ = ctx;
    let v = if hash == "poseidon" {
        plonkrun::verify::<Pos>(params, vk, coms, plain, proof)
    } else {
        plonkrun::verify::<Blake>(params, vk, coms, plain, proof)
    };
    v.verdict
}

fn res_class(v: &str) -> &'static str {
    if v == "ok" {
        "ok"
    } else if v.starts_with("panic") {
        "panic"
    } else {
        "err"
    }
}

fn emit(out: &mut dyn Write, what: J, proof_same: bool, stmt_same: bool, key_same: bool, verdict: &str) {
    writeln!(
        out,
        "{}",
        json!({"ev":"Tamper","what":what,"proof_same":proof_same,"stmt_same":stmt_same,
               "key_same":key_same,"res":res_class(verdict),"detail":verdict})
    )
    .unwrap();
}

pub fn run_one(cache: &mut ParamCache, sc: &J, bits: bool, out: &mut dyn Write) -> Result<(), String> {
    let shape = scenario_shape(sc)?;
    let nproofs = sc["nproofs"].as_u64().unwrap_or(1) as usize;
    let hash = sc["hash"].as_str().unwrap_or("blake2b").to_string();
    let seed = sc["seed"].as_u64().unwrap_or(1);
    let run = if hash == "poseidon" {
        plonkrun::honest_run::<Pos>(cache, &shape, nproofs, seed)
    } else {
        plonkrun::honest_run::<Blake>(cache, &shape, nproofs, seed)
    }?;
    let params = cache.get(shape.k).clone();
    let mut run = run;
    // the class "proof whose last byte is zero": prove again (fresh blinding) until the encoding of the last element ends in 0x00
    if sc["seek_zero_tail"].as_bool().unwrap_or(false) {
        for s in 1..4000u64 {
            if matches!(&run.proof, Ok(p) if p.proof.last() == Some(&0)) {
                break;
            }
            crate::rec::reset_run();
            run.proof = if hash == "poseidon" {
                plonkrun::prove::<Pos>(&params, &run.keys.pk, &run.circuits, shape.committed, &run.instances, seed + 7919 * s)
            } else {
                plonkrun::prove::<Blake>(&params, &run.keys.pk, &run.circuits, shape.committed, &run.instances, seed + 7919 * s)
            };
        }
    }
    let p = match &run.proof {
        Ok(p) => p,
        Err(e) => return Err(format!("honest prover failed: {e}")),
    };
    let lay = layout(&p.events);
    let (coms, plain) = plonkrun::split_instances(&params, &run.keys.vk, shape.committed, &run.instances);
    let plain_lens: Vec<Vec<usize>> = plain.iter().map(|p| p.iter().map(|c| c.len()).collect()).collect();
    writeln!(
        out,
        "{}",
        json!({"ev":"reset","sc":sc,"hash":hash,"k":shape.k,"prooflen":p.proof.len(),
               "layout": lay.iter().map(|(o,l,k)| json!({"off":o,"len":l,"kind":k})).collect::<Vec<_>>(),
               "nproofs": nproofs, "committed": shape.committed, "plain": plain_lens, "bits": bits})
    )
    .unwrap();
    let ctx = Ctx { hash: hash.clone(), params: params.clone(), run: &run, proof: p.proof.clone(), coms, plain };
    let vk = &ctx.run.keys.vk;
    let vf = |proof: &[u8]| verify_with(&ctx, vk, &ctx.params, &ctx.hash, &ctx.coms, &ctx.plain, proof);

    // identity control: the untouched proof must be accepted
    let v = vf(&ctx.proof);
    emit(out, json!({"t":"identity"}), true, true, true, &v);

    // A. element mutations
    for (i, (off, len, kind)) in lay.iter().enumerate() {
        let muts: &[&str] = if *kind == "point" { &["other", "invalid", "signflip", "torsion"] } else { &["other", "noncanonical"] };
        for m in muts {
            let mut pr = ctx.proof.clone();
            let seg = &ctx.proof[*off..*off + *len];
            let new: Vec<u8> = match (*kind, *m) {
                ("point", "other") => other_point(seed + i as u64, &hash),
                ("point", "invalid") => vec![0xff; *len],
                ("point", "signflip") => {
                    let mut s = seg.to_vec();
                    s[0] ^= 0x20;
                    s
                }
                ("point", "torsion") => plus_torsion(seg),
                (_, mm) => mutate_scalar(seg, mm),
            };
            pr[*off..*off + *len].copy_from_slice(&new);
            let same = pr == ctx.proof;
            let v = vf(&pr);
            emit(out, json!({"t":"elem","i":i+1,"m":m,"kind":kind}), same, true, true, &v);
        }
    }
    // B. truncations: at every element boundary (dropping elements i..N) and mid-element
    for (i, (off, len, _)) in lay.iter().enumerate() {
        let v = vf(&ctx.proof[..*off]);
        emit(out, json!({"t":"trunc","at":"boundary","i":i+1}), false, true, true, &v);
        let v = vf(&ctx.proof[..*off + *len / 2]);
        emit(out, json!({"t":"trunc","at":"mid","i":i+1}), false, true, true, &v);
    }
    // B'. the last 1..3 bytes dropped (whatever they are)
    for n in 1..=3usize {
        let v = vf(&ctx.proof[..ctx.proof.len() - n]);
        emit(out, json!({"t":"trunc","at":"tail","i":n,"last_byte":ctx.proof[ctx.proof.len() - 1]}), false, true, true, &v);
    }
    // C. appended bytes
    for n in [1usize, 32, 48] {
        let mut pr = ctx.proof.clone();
        pr.extend(std::iter::repeat(0u8).take(n));
        let v = vf(&pr);
        emit(out, json!({"t":"append","n":n}), false, true, true, &v);
        // appended valid encodings rather than zeros
        let mut pr = ctx.proof.clone();
        let tail = if n == 48 { other_point(seed, &hash) } else { ctx.proof[ctx.proof.len() - n.min(ctx.proof.len())..].to_vec() };
        pr.extend(tail);
        let v = vf(&pr);
        emit(out, json!({"t":"append","n":n,"valid":true}), false, true, true, &v);
    }
    // D. public-input edits on plain columns
    for pi in 0..nproofs {
        let ncols = ctx.plain[pi].len();
        for c in 0..ncols {
            let col = ctx.plain[pi][c].clone();
            let mut edits: Vec<(&str, Vec<Vec<F>>)> = vec![];
            let base = ctx.plain[pi].clone();
            if !col.is_empty() {
                let mut e = base.clone();
                e[c][0] += F::ONE;
                edits.push(("change", e));
                let mut e = base.clone();
                e[c].pop();
                edits.push(("drop_last", e));
            }
            if col.len() >= 2 {
                let mut e = base.clone();
                e[c].swap(0, 1);
                edits.push(("swap", e));
            }
            let mut e = base.clone();
            e[c].push(F::ZERO);
            edits.push(("append_zero", e));
            // move the last value to the front of the next column: the flat
            // sequence of values is unchanged, only the lengths differ
            if c + 1 < ncols && !col.is_empty() {
                let mut e = base.clone();
                let v = e[c].pop().unwrap();
                e[c + 1].insert(0, v);
                edits.push(("move", e));
            }
            for (m, e) in edits {
                let mut pl = ctx.plain.clone();
                pl[pi] = e;
                let same = pl == ctx.plain;
                let v = verify_with(&ctx, vk, &ctx.params, &hash, &ctx.coms, &pl, &ctx.proof);
                emit(out, json!({"t":"inst","m":m,"p":pi+1,"c":c+1}), true, same, true, &v);
            }
        }
        // swap the statements of two proofs
        if nproofs >= 2 && pi + 1 < nproofs {
            let mut pl = ctx.plain.clone();
            pl.swap(pi, pi + 1);
            let mut cm = ctx.coms.clone();
            cm.swap(pi, pi + 1);
            let same = pl == ctx.plain && cm == ctx.coms;
            let v = verify_with(&ctx, vk, &ctx.params, &hash, &cm, &pl, &ctx.proof);
            emit(out, json!({"t":"inst","m":"swap_proofs","p":pi+1,"c":0}), true, same, true, &v);
        }
        // E. committed instances
        for c in 0..shape.committed {
            for m in ["other", "identity"] {
                let mut cm = ctx.coms.clone();
                cm[pi][c] = if m == "other" { cm[pi][c] + G1Projective::generator() } else { G1Projective::identity() };
                let same = cm == ctx.coms;
                let v = verify_with(&ctx, vk, &ctx.params, &hash, &cm, &ctx.plain, &ctx.proof);
                emit(out, json!({"t":"cinst","m":m,"p":pi+1,"c":c+1}), true, same, true, &v);
            }
        }
    }
    // F. wrong key / parameters / hash
    {
        let mut sh2 = shape.clone();
        sh2.seed = shape.seed.wrapping_add(1);
        let c2 = ShapeCircuit::generate(&sh2, 0);
        if let Ok(k2) = plonkrun::keygen(&params, &c2) {
            let same = k2.vk.transcript_repr() == vk.transcript_repr();
            let v = verify_with(&ctx, &k2.vk, &ctx.params, &hash, &ctx.coms, &ctx.plain, &ctx.proof);
            emit(out, json!({"t":"key","m":"other_circuit"}), true, true, same, &v);
        }
        let mut sh3 = shape.clone();
        sh3.k = shape.k + 1;
        let c3 = ShapeCircuit::generate(&sh3, 0);
        let params3 = cache.get(sh3.k).clone();
        if let Ok(k3) = plonkrun::keygen(&params3, &c3) {
            let same = k3.vk.transcript_repr() == vk.transcript_repr();
            // committed instances are commitments under the proof's own parameters
            let v = verify_with(&ctx, &k3.vk, &params3, &hash, &ctx.coms, &ctx.plain, &ctx.proof);
            emit(out, json!({"t":"key","m":"other_k"}), true, true, same, &v);
        }
        let other = if hash == "poseidon" { "blake2b" } else { "poseidon" };
        let v = verify_with(&ctx, vk, &ctx.params, other, &ctx.coms, &ctx.plain, &ctx.proof);
        emit(out, json!({"t":"key","m":"other_hash"}), true, true, false, &v);
    }
    // G. every single-bit flip (thorough)
    if bits {
        let mut nflips = 0usize;
        let mut bad: Vec<J> = vec![];
        for bit in 0..ctx.proof.len() * 8 {
            let mut pr = ctx.proof.clone();
            pr[bit / 8] ^= 1 << (bit % 8);
            let v = vf(&pr);
            nflips += 1;
            if res_class(&v) != "err" {
                bad.push(json!({"bit":bit,"res":res_class(&v),"detail":v}));
            }
        }
        writeln!(out, "{}", json!({"ev":"BitFlips","n":nflips,"not_rejected":bad})).unwrap();
    }
    writeln!(out, "{}", json!({"ev":"EndRun"})).unwrap();
    Ok(())
}

/// The standard library's own entry points (`verify`, `batch_verify` on batches of one and two) on a proof of a small
/// relation: byte-level tamper plan (appended bytes, truncations, bit flips spread over the proof, a changed public input).
pub fn run_std(sc: &J, out: &mut dyn Write) -> Result<(), String> {
    use midnight_zk_stdlib as sl;
    use rand::SeedableRng;

    use crate::rels::{self, MulRel};
    let seed = sc["seed"].as_u64().unwrap_or(3);
    let mut rng = rand_chacha::ChaCha8Rng::seed_from_u64(seed);
    let k = sl::MidnightCircuit::from_relation(&MulRel).min_k();
    let params = midnight_proofs::poly::kzg::params::ParamsKZG::<midnight_curves::Bls12>::unsafe_setup(k, &mut rng);
    let vk = sl::setup_vk(&params, &MulRel);
    let pk = sl::setup_pk(&MulRel, &vk);
    let (inst, wit) = rels::mul_case(seed % 2);
    let (inst2, wit2) = rels::mul_case((seed + 1) % 2);
    let proof = sl::prove::<MulRel, Blake>(&params, &pk, &MulRel, &inst, wit, &mut rng).map_err(|e| format!("{e:?}"))?;
    let proof2 = sl::prove::<MulRel, Blake>(&params, &pk, &MulRel, &inst2, wit2, &mut rng).map_err(|e| format!("{e:?}"))?;
    let vp = params.verifier_params();
    writeln!(out, "{}", json!({"ev":"reset","sc":sc,"entry":"stdlib","hash":"blake2b","k":k,"prooflen":proof.len(),"layout":[],
        "nproofs":0,"committed":0,"plain":[],"bits":false})).unwrap();
    let guard = |f: &dyn Fn() -> Result<(), midnight_proofs::plonk::Error>| -> String {
        match std::panic::catch_unwind(std::panic::AssertUnwindSafe(f)) {
            Ok(Ok(())) => "ok".into(),
            Ok(Err(e)) => format!("err:{e:?}").chars().take(60).collect(),
            Err(p) => format!("panic:{}", crate::plonkrun::panic_msg(p)).chars().take(60).collect(),
        }
    };
    let n = proof.len();
    let mut plan: Vec<(J, Vec<u8>, F)> = vec![(json!({"t":"identity","n":0}), proof.clone(), inst)];
    for a in [1usize, 32, 48] {
        let mut p = proof.clone();
        p.extend(std::iter::repeat(0u8).take(a));
        plan.push((json!({"t":"append","n":a}), p, inst));
    }
    for t in [1usize, 32] {
        plan.push((json!({"t":"trunc","n":t}), proof[..n - t].to_vec(), inst));
    }
    for q in 1..=8usize {
        let mut p = proof.clone();
        let pos = ((n - 1) * (q - 1) / 7 + (seed as usize % 5)).min(n - 1);
        p[pos] ^= 1 << (q % 8);
        plan.push((json!({"t":"flip","n":q,"pos":pos}), p, inst));
    }
    plan.push((json!({"t":"pi","n":0}), proof.clone(), inst + F::ONE));
    for (what, p, i) in plan.iter() {
        let (ps, ss) = (*p == proof, *i == inst);
        for entry in ["verify", "batch1", "batch2_first", "batch2_second"] {
            let v = match entry {
                "verify" => guard(&|| sl::verify::<MulRel, Blake>(&vp, &vk, i, None, p)),
                "batch1" => guard(&|| sl::batch_verify::<Blake>(&vp, &[vk.clone()], &[vec![*i]], &[p.clone()])),
                "batch2_first" => guard(&|| sl::batch_verify::<Blake>(&vp, &[vk.clone(), vk.clone()], &[vec![*i], vec![inst2]], &[p.clone(), proof2.clone()])),
                _ => guard(&|| sl::batch_verify::<Blake>(&vp, &[vk.clone(), vk.clone()], &[vec![inst2], vec![*i]], &[proof2.clone(), p.clone()])),
            };
            let mut w = what.clone();
            w["entry"] = json!(entry);
            writeln!(out, "{}", json!({"ev":"STamper","what":w,"proof_same":ps,"stmt_same":ss,"key_same":true,"res":res_class(&v),"detail":v})).unwrap();
        }
    }
    writeln!(out, "{}", json!({"ev":"EndRun"})).unwrap();
    Ok(())
}

pub fn main(args: &[String]) -> i32 {
    let scen = util::read_ndjson(&args[0]);
    let mut out = util::create(&args[1]);
    let bits = args.get(2).map(|s| s == "bits").unwrap_or(false);
    let mut cache = ParamCache::default();
    writeln!(out, "{}", json!({"ev":"header","prop":"C03","n":scen.len()})).unwrap();
    for sc in scen.iter() {
        let b = bits && sc["bits"].as_bool().unwrap_or(true);
        if sc["stdlib"].as_bool().unwrap_or(false) {
            if let Err(e) = run_std(sc, &mut out) {
                eprintln!("HARNESS-ERROR scenario {sc}: {e}");
                return 2;
            }
            continue;
        }
        if let Err(e) = run_one(&mut cache, sc, b, &mut out) {
            eprintln!("HARNESS-ERROR scenario {sc}: {e}");
            return 2;
        }
    }
    0
}
