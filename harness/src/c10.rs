//! C10 driver: calls the field types of midnight-curves on boundary operand
//! classes and logs arguments and results as integers (BigNat digit lists).

use std::{
    io::Write,
    panic::{catch_unwind, AssertUnwindSafe},
};

use ff::{BatchInvert, Field, FromUniformBytes, PrimeField, WithSmallOrderMulGroup};
use midnight_curves::{bls12_381, bn256, curve25519, k256 as k256_mod};
use num_bigint::BigUint;
use serde_json::{json, Value as J};

use crate::{gad::nat_of_big, plonkrun::panic_msg, util};

fn of_big<S: PrimeField>(b: &BigUint) -> S {
    let mut acc = S::ZERO;
    let c = S::from(256u64);
    for d in b.to_bytes_be() {
        acc = acc * c + S::from(d as u64);
    }
    acc
}

struct Log<'a> {
    out: &'a mut dyn Write,
    field: &'static str,
}
impl<'a> Log<'a> {
    fn op(&mut self, op: &str, ins: Vec<J>, f: impl FnOnce() -> J) {
        let r = catch_unwind(AssertUnwindSafe(f));
        let (out, status) = match r {
            Ok(v) => (v, "ok".to_string()),
            Err(p) => (J::Null, format!("panic:{}", panic_msg(p).chars().take(80).collect::<String>())),
        };
        writeln!(self.out, "{}", json!({"ev":"F","field":self.field,"op":op,"ins":ins,"out":out,"status":status})).unwrap();
    }
}

static DEEP: std::sync::atomic::AtomicBool = std::sync::atomic::AtomicBool::new(false);

fn operands(p: &BigUint) -> Vec<BigUint> {
    let one = BigUint::from(1u8);
    let two = BigUint::from(2u8);
    let mut v = vec![
        BigUint::from(0u8),
        one.clone(),
        two.clone(),
        p - &one,
        p - &two,
        (&one << 64) - &one,
        (&one << 64) + &one,
        (&one << 128) - &one,
        (&one << 192) - &one,
        (p - &one) / &two,
        (p + &one) / &two,
        (&one << 256u32) % p,
        ((&one << 256u32) % p).modpow(&two, p),
        ((&one << 384u32) % p),
        BigUint::from(3u8).modpow(&BigUint::from(1001u32), p),
        BigUint::from(7u8).modpow(&BigUint::from(2002u32), p),
        BigUint::from(3u8),
        BigUint::from(5u8),
    ];
    if DEEP.load(std::sync::atomic::Ordering::Relaxed) {
        // thorough tier: every 2^(64k) +- 1 and p - 2^(64k) below the modulus, all-ones limb patterns, p - 3 .. p - 9, and a
        // stream of pseudo-random elements
        for k in 1..=6u32 {
            for d in [&one << (64 * k), (&one << (64 * k)) - &one, (&one << (64 * k)) + &one] {
                v.push(&d % p);
                v.push((p - (&d % p)) % p);
            }
        }
        for d in 3u8..=9 {
            v.push(p - BigUint::from(d));
        }
        let mut x = BigUint::from(0x9e3779b97f4a7c15u64);
        for i in 0..48u32 {
            x = (&x * &x + BigUint::from(i) + (&one << (61 * (i % 7)))) % p;
            v.push(x.clone());
        }
    }
    v.sort();
    v.dedup();
    v
}

/// Every operation of a prime field type. `nat` converts an element to its integer.
fn prime_field<S>(log: &mut Log, p: &BigUint, nat: &dyn Fn(&S) -> Vec<u8>, repr_le: bool, uniform: Option<&dyn Fn(&[u8; 64]) -> S>, zeta: Option<S>)
where
    S: PrimeField,
{
    let n = |x: &S| json!(nat(x));
    let ops = operands(p);
    let small: Vec<&BigUint> = ops.iter().step_by(2).collect();
    for a in ops.iter() {
        let x: S = of_big(a);
        let ins = vec![json!(nat_of_big(a))];
        log.op("embed", ins.clone(), || n(&x));
        log.op("neg", ins.clone(), || n(&(-x)));
        log.op("square", ins.clone(), || n(&x.square()));
        log.op("double", ins.clone(), || n(&x.double()));
        log.op("invert", ins.clone(), || {
            let r: Option<S> = x.invert().into();
            json!({"some":r.is_some(),"v":r.map(|r| nat(&r))})
        });
        log.op("sqrt", ins.clone(), || {
            let r: Option<S> = x.sqrt().into();
            json!({"some":r.is_some(),"v":r.map(|r| nat(&r))})
        });
        log.op("is_zero", ins.clone(), || json!(bool::from(x.is_zero())));
        log.op("is_odd", ins.clone(), || json!(bool::from(x.is_odd())));
        log.op("cube", ins.clone(), || n(&x.cube()));
        for e in [0u64, 1, 2, 3, 65537, u64::MAX] {
            log.op("pow", vec![json!(nat_of_big(a)), json!(nat_of_big(&BigUint::from(e)))], || n(&x.pow([e])));
            log.op("pow", vec![json!(nat_of_big(a)), json!(nat_of_big(&BigUint::from(e)))], || n(&x.pow_vartime([e])));
        }
        log.op("pow", vec![json!(nat_of_big(a)), json!(nat_of_big(&((BigUint::from(u64::MAX) << 64) + 5u8)))], || n(&x.pow([5, u64::MAX])));
        // multi-limb exponents with zero limbs in every position
        for limbs in [vec![0u64, 1], vec![1, 0, 1], vec![0, 0, 0, 1], vec![7, 0, 0, 3], vec![0, 0, 9, 0]] {
            let e = limbs.iter().rev().fold(BigUint::from(0u8), |acc, l| (acc << 64) + BigUint::from(*l));
            log.op("pow", vec![json!(nat_of_big(a)), json!(nat_of_big(&e))], || n(&x.pow(&limbs)));
            log.op("pow", vec![json!(nat_of_big(a)), json!(nat_of_big(&e))], || n(&x.pow_vartime(&limbs)));
        }
        // canonical encoding round trip
        log.op("repr_roundtrip", ins.clone(), || {
            let r: Option<S> = S::from_repr(x.to_repr()).into();
            let bytes = x.to_repr().as_ref().to_vec();
            json!({"some":r.is_some(),"v":r.map(|r| nat(&r)),"bytes":bytes,"le":repr_le})
        });
        for b in small.iter() {
            let y: S = of_big(b);
            let ins = vec![json!(nat_of_big(a)), json!(nat_of_big(b))];
            log.op("add", ins.clone(), || n(&(x + y)));
            log.op("sub", ins.clone(), || n(&(x - y)));
            log.op("mul", ins.clone(), || n(&(x * y)));
            log.op("add", ins.clone(), || {
                let mut t = x;
                t += y;
                n(&t)
            });
            log.op("sub", ins.clone(), || {
                let mut t = x;
                t -= y;
                n(&t)
            });
            log.op("mul", ins.clone(), || {
                let mut t = x;
                t *= y;
                n(&t)
            });
            log.op("eq", ins.clone(), || json!(x == y));
        }
    }
    // batched inversion (zeros are left untouched)
    let mut xs: Vec<S> = ops.iter().map(|a| of_big::<S>(a)).collect();
    let before: Vec<J> = xs.iter().map(|x| n(x)).collect();
    let r = catch_unwind(AssertUnwindSafe(|| {
        xs.iter_mut().batch_invert();
        xs.clone()
    }));
    match r {
        Ok(after) => {
            for (b, a) in before.iter().zip(after.iter()) {
                log.op("batch_invert", vec![b.clone()], || n(a));
            }
        }
        Err(e) => {
            let m = panic_msg(e);
            log.op("batch_invert", before.clone(), || panic!("{m}"));
        }
    }
    // decoders: encodings at and around the modulus
    let width = S::ZERO.to_repr().as_ref().len();
    for delta in [-2i32, -1, 0, 1, 2] {
        let v = if delta < 0 { p - BigUint::from((-delta) as u32) } else { p + BigUint::from(delta as u32) };
        let mut bytes = if repr_le { v.to_bytes_le() } else { v.to_bytes_be() };
        if repr_le {
            bytes.resize(width, 0);
        } else {
            while bytes.len() < width {
                bytes.insert(0, 0);
            }
        }
        if bytes.len() != width {
            continue;
        }
        let mut repr = S::ZERO.to_repr();
        repr.as_mut().copy_from_slice(&bytes);
        log.op("from_repr", vec![json!(nat_of_big(&v))], || {
            let r: Option<S> = S::from_repr(repr).into();
            json!({"some":r.is_some(),"v":r.map(|r| nat(&r))})
        });
    }
    {
        let mut repr = S::ZERO.to_repr();
        repr.as_mut().iter_mut().for_each(|b| *b = 0xff);
        let v = BigUint::from_bytes_le(repr.as_ref());
        log.op("from_repr", vec![json!(nat_of_big(&v))], || {
            let r: Option<S> = S::from_repr(repr).into();
            json!({"some":r.is_some(),"v":r.map(|r| nat(&r))})
        });
    }
    // reduction from uniform bytes (64 bytes, little endian)
    if let Some(u) = uniform {
        let pats: Vec<[u8; 64]> = {
            let mut v = vec![[0u8; 64], [0xffu8; 64]];
            let mut a = [0u8; 64];
            a[0] = 1;
            v.push(a);
            let mut a = [0u8; 64];
            a[63] = 0x80;
            v.push(a);
            let mut a = [0u8; 64];
            a[32] = 1;
            v.push(a);
            let mut a = [0u8; 64];
            let pb = p.to_bytes_le();
            a[..pb.len()].copy_from_slice(&pb);
            v.push(a);
            let mut a = [0u8; 64];
            for (i, x) in a.iter_mut().enumerate() {
                *x = (i * 37 + 11) as u8;
            }
            v.push(a);
            v
        };
        for pat in pats {
            log.op("from_uniform_bytes", vec![json!(pat.to_vec())], || n(&u(&pat)));
        }
    }
    // published constants
    log.op("constants", vec![], || {
        json!({"modulus_str":S::MODULUS,"num_bits":S::NUM_BITS,"capacity":S::CAPACITY,"two_inv":nat(&S::TWO_INV),
            "generator":nat(&S::MULTIPLICATIVE_GENERATOR),"s":S::S,"root_of_unity":nat(&S::ROOT_OF_UNITY),
            "root_of_unity_inv":nat(&S::ROOT_OF_UNITY_INV),"delta":nat(&S::DELTA),"has_zeta":zeta.is_some(),"zeta":zeta.map(|z| nat(&z)).unwrap_or_default(),
            "one":nat(&S::ONE),"zero":nat(&S::ZERO)})
    });
}

/// Quadratic extensions with u^2 = -1: elements are pairs (c0, c1).
fn quad_field<B, E>(log: &mut Log, p: &BigUint, natb: &dyn Fn(&B) -> Vec<u8>, mk: &dyn Fn(B, B) -> E, parts: &dyn Fn(&E) -> (B, B))
where
    B: PrimeField,
    E: Field,
{
    let n = |x: &E| {
        let (a, b) = parts(x);
        json!([natb(&a), natb(&b)])
    };
    let one = BigUint::from(1u8);
    let base: Vec<BigUint> = vec![
        BigUint::from(0u8),
        one.clone(),
        p - &one,
        BigUint::from(2u8),
        BigUint::from(3u8),
        p - BigUint::from(3u8),
        BigUint::from(5u8),
        (p - &one) / BigUint::from(2u8),
        BigUint::from(3u8).modpow(&BigUint::from(1001u32), p),
        BigUint::from(7u8).modpow(&BigUint::from(2002u32), p),
    ];
    let mut elems: Vec<(BigUint, BigUint)> = vec![];
    for a in base.iter() {
        elems.push((a.clone(), BigUint::from(0u8))); // embedded base-field elements
        elems.push((BigUint::from(0u8), a.clone()));
    }
    for (i, a) in base.iter().enumerate() {
        elems.push((a.clone(), base[(i * 3 + 1) % base.len()].clone()));
    }
    elems.sort();
    elems.dedup();
    let j = |e: &(BigUint, BigUint)| json!([nat_of_big(&e.0), nat_of_big(&e.1)]);
    for a in elems.iter() {
        let x = mk(of_big(&a.0), of_big(&a.1));
        let ins = vec![j(a)];
        log.op("embed", ins.clone(), || n(&x));
        log.op("neg", ins.clone(), || n(&(-x)));
        log.op("square", ins.clone(), || n(&x.square()));
        log.op("double", ins.clone(), || n(&x.double()));
        log.op("invert", ins.clone(), || {
            let r: Option<E> = x.invert().into();
            json!({"some":r.is_some(),"v":r.map(|r| n(&r))})
        });
        log.op("sqrt", ins.clone(), || {
            let r: Option<E> = x.sqrt().into();
            json!({"some":r.is_some(),"v":r.map(|r| n(&r))})
        });
        for e in [0u64, 1, 2, 3, 65537] {
            log.op("pow", vec![j(a), json!(nat_of_big(&BigUint::from(e)))], || n(&x.pow([e])));
        }
        for b in elems.iter().step_by(3) {
            let y = mk(of_big(&b.0), of_big(&b.1));
            let ins = vec![j(a), j(b)];
            log.op("add", ins.clone(), || n(&(x + y)));
            log.op("sub", ins.clone(), || n(&(x - y)));
            log.op("mul", ins.clone(), || n(&(x * y)));
            log.op("eq", ins.clone(), || json!(x == y));
        }
    }
}

pub fn main(args: &[String]) -> i32 {
    use midnight_circuits::CircuitField;
    let mut out = util::create(&args[0]);
    let which = args.get(1).map(|s| s.as_str()).unwrap_or("all").to_string();
    let deep = args.get(2).map(|s| s == "deep").unwrap_or(false);
    DEEP.store(deep, std::sync::atomic::Ordering::Relaxed);
    writeln!(out, "{}", json!({"ev":"header","prop":"C10"})).unwrap();
    let all = which == "all";
    macro_rules! cf {
        ($name:expr, $t:ty, $le:expr, $uni:expr, $zeta:expr) => {
            if all || which == $name {
                let mut log = Log { out: &mut out, field: $name };
                let p = <$t as CircuitField>::modulus();
                let nat = |x: &$t| nat_of_big(&x.to_biguint());
                prime_field::<$t>(&mut log, &p, &nat, $le, $uni, $zeta);
            }
        };
    }
    let uni_fq = |b: &[u8; 64]| <bls12_381::Fq as FromUniformBytes<64>>::from_uniform_bytes(b);
    let uni_c25519 = |b: &[u8; 64]| <curve25519::Fp as FromUniformBytes<64>>::from_uniform_bytes(b);
    cf!("bls_fq", bls12_381::Fq, true, Some(&uni_fq), Some(<bls12_381::Fq as WithSmallOrderMulGroup<3>>::ZETA));
    cf!("bls_fp", bls12_381::Fp, true, None, Some(<bls12_381::Fp as WithSmallOrderMulGroup<3>>::ZETA));
    cf!("jub_fr", midnight_curves::Fr, true, None, None);
    if all || which == "jub_fr" {
        // the inherent (non-trait) exponentiations of the Jubjub scalar field, on four-limb exponents
        let mut log = Log { out: &mut out, field: "jub_fr" };
        let p = <midnight_curves::Fr as CircuitField>::modulus();
        for a in operands(&p).iter().step_by(3) {
            let x: midnight_curves::Fr = of_big(a);
            for limbs in [[0u64, 0, 0, 0], [1, 0, 0, 0], [0, 1, 0, 0], [1, 0, 1, 0], [0, 0, 0, 1], [7, 0, 0, 3], [0, 0, 9, 0], [u64::MAX, 0, u64::MAX, 0], [5, 6, 7, 8]] {
                let e = limbs.iter().rev().fold(BigUint::from(0u8), |acc, l| (acc << 64) + BigUint::from(*l));
                let nat = |x: &midnight_curves::Fr| nat_of_big(&x.to_biguint());
                log.op("pow", vec![json!(nat_of_big(a)), json!(nat_of_big(&e))], || json!(nat(&midnight_curves::Fr::pow(&x, &limbs))));
                log.op("pow", vec![json!(nat_of_big(a)), json!(nat_of_big(&e))], || json!(nat(&midnight_curves::Fr::pow_vartime(&x, &limbs))));
            }
        }
    }
    // the quadratic-residue test (Legendre symbol) of the fields that export it: 0 for zero, 1 for squares, -1 otherwise
    macro_rules! leg {
        ($name:expr, $t:ty) => {
            if all || which == $name {
                use midnight_curves::ff_ext::Legendre;
                let mut log = Log { out: &mut out, field: $name };
                let p = <$t as CircuitField>::modulus();
                for a in operands(&p).iter() {
                    let x: $t = of_big(a);
                    log.op("legendre", vec![json!(nat_of_big(a))], || json!(x.legendre()));
                    log.op("qr_flags", vec![json!(nat_of_big(a))], || {
                        json!({"residue": bool::from(x.ct_quadratic_residue()), "non_residue": bool::from(x.ct_quadratic_non_residue())})
                    });
                }
            }
        };
    }
    leg!("bls_fq", bls12_381::Fq);
    leg!("bls_fp", bls12_381::Fp);
    leg!("c25519_fp", curve25519::Fp);
    cf!("secp_fp", k256_mod::Fp, false, None, None);
    cf!("secp_fq", k256_mod::Fq, false, None, None);
    cf!("c25519_fp", curve25519::Fp, true, Some(&uni_c25519), Some(<curve25519::Fp as WithSmallOrderMulGroup<3>>::ZETA));
    cf!("c25519_scalar", curve25519::Scalar, true, None, None);
    let le = |x: &bn256::Fq| nat_of_big(&BigUint::from_bytes_le(x.to_repr().as_ref()));
    let ler = |x: &bn256::Fr| nat_of_big(&BigUint::from_bytes_le(x.to_repr().as_ref()));
    if all || which == "bn_fq" {
        let mut log = Log { out: &mut out, field: "bn_fq" };
        let p = BigUint::from_bytes_le((-bn256::Fq::ONE).to_repr().as_ref()) + 1u8;
        let u = |b: &[u8; 64]| <bn256::Fq as FromUniformBytes<64>>::from_uniform_bytes(b);
        prime_field::<bn256::Fq>(&mut log, &p, &le, true, Some(&u), Some(<bn256::Fq as WithSmallOrderMulGroup<3>>::ZETA));
    }
    if all || which == "bn_fr" {
        let mut log = Log { out: &mut out, field: "bn_fr" };
        let p = BigUint::from_bytes_le((-bn256::Fr::ONE).to_repr().as_ref()) + 1u8;
        let u = |b: &[u8; 64]| <bn256::Fr as FromUniformBytes<64>>::from_uniform_bytes(b);
        prime_field::<bn256::Fr>(&mut log, &p, &ler, true, Some(&u), Some(<bn256::Fr as WithSmallOrderMulGroup<3>>::ZETA));
    }
    if all || which == "bls_fp2" {
        let mut log = Log { out: &mut out, field: "bls_fp2" };
        let p = <bls12_381::Fp as CircuitField>::modulus();
        let natb = |x: &bls12_381::Fp| nat_of_big(&x.to_biguint());
        quad_field::<bls12_381::Fp, bls12_381::Fp2>(&mut log, &p, &natb, &|a, b| bls12_381::Fp2::new(a, b), &|e| (e.c0(), e.c1()));
    }
    if all || which == "bn_fq2" {
        let mut log = Log { out: &mut out, field: "bn_fq2" };
        let p = BigUint::from_bytes_le((-bn256::Fq::ONE).to_repr().as_ref()) + 1u8;
        quad_field::<bn256::Fq, bn256::Fq2>(&mut log, &p, &le, &|a, b| bn256::Fq2::new(a, b), &|e| {
            let b = e.to_bytes();
            let c0: Option<bn256::Fq> = bn256::Fq::from_bytes(b[0..32].try_into().unwrap()).into();
            let c1: Option<bn256::Fq> = bn256::Fq::from_bytes(b[32..64].try_into().unwrap()).into();
            (c0.unwrap(), c1.unwrap())
        });
        crate::c10t::bn_extras(&mut out, deep);
    }
    if all || which == "bls_fp2" {
        crate::c10t::bls_extras(&mut out);
    }
    if all || which == "bls_fp6" {
        crate::c10t::sextic::<crate::c10t::BlsTw>(&mut out, deep);
    }
    if all || which == "bls_fp12" {
        crate::c10t::duodecic::<crate::c10t::BlsTw>(&mut out, deep);
    }
    if all || which == "bn_fq6" {
        crate::c10t::sextic::<crate::c10t::BnTw>(&mut out, deep);
    }
    if all || which == "bn_fq12" {
        crate::c10t::duodecic::<crate::c10t::BnTw>(&mut out, deep);
    }
    0
}
