//! C08, instance columns read at non-zero rotations: a circuit of the generated family whose gates read a plain instance
//! column at `Rotation(r)`, proven and verified with the real prover / verifier. The verifier must accept exactly the
//! public-input vector the circuit binds: the honest vector, and no edited, rotated, shorter or longer one.

use std::io::Write;

use midnight_curves::Fq as F;
use serde_json::{json, Value as J};

use crate::{
    plonkrun::{self, Blake, ParamCache},
    shapes::Shape,
};

fn cls(v: &str) -> &'static str {
    if v == "ok" {
        "ok"
    } else if v.starts_with("panic") {
        "panic"
    } else {
        "err"
    }
}

pub fn run(sc: &J, out: &mut dyn Write) {
    let shape: Shape = match serde_json::from_value(sc["shape"].clone()) {
        Ok(s) => s,
        Err(e) => {
            writeln!(out, "{}", json!({"ev":"PubRot","harness_error":format!("shape: {e}")})).unwrap();
            return;
        }
    };
    let mut cache = ParamCache::default();
    let seed = sc["seed"].as_u64().unwrap_or(8);
    let run = match plonkrun::honest_run::<Blake>(&mut cache, &shape, 1, seed) {
        Ok(r) => r,
        Err(e) => {
            writeln!(out, "{}", json!({"ev":"PubRot","rot":shape.inst_rot,"harness_error":format!("keygen: {e}")})).unwrap();
            return;
        }
    };
    let params = cache.get(shape.k).clone();
    let proof = match &run.proof {
        Ok(p) => p.proof.clone(),
        Err(e) => {
            writeln!(out, "{}", json!({"ev":"PubRot","rot":shape.inst_rot,"mock":run.mock,"verify":format!("prover: {e}"),"edits":[],"shorter":"err","longer":"err",
                "rotated":"err","rotated_differs":false,"lens":[]})).unwrap();
            return;
        }
    };
    let vf = |inst: &Vec<Vec<Vec<F>>>| {
        let (coms, plain) = plonkrun::split_instances(&params, &run.keys.vk, shape.committed, inst);
        cls(&plonkrun::verify::<Blake>(&params, &run.keys.vk, &coms, &plain, &proof).verdict).to_string()
    };
    let honest = run.instances.clone();
    let lens: Vec<usize> = honest[0].iter().map(|c| c.len()).collect();
    let verify = vf(&honest);
    let mut edits = vec![];
    for (c, col) in honest[0].iter().enumerate().skip(shape.committed) {
        for i in 0..col.len() {
            let mut e = honest.clone();
            e[0][c][i] += F::from(1u64);
            edits.push(json!({"col":c,"i":i,"res":vf(&e)}));
        }
    }
    // the column that is read at a rotation, given rotated by one position / one value shorter / one zero longer
    let c0 = shape.committed;
    let (mut rotated, mut rotated_differs, mut shorter, mut longer) = ("err".to_string(), false, "err".to_string(), "err".to_string());
    if honest[0].len() > c0 && !honest[0][c0].is_empty() {
        let mut r = honest.clone();
        r[0][c0].rotate_left(1);
        rotated_differs = r != honest;
        rotated = vf(&r);
        let mut s = honest.clone();
        s[0][c0].pop();
        shorter = vf(&s);
        let mut l = honest.clone();
        l[0][c0].push(F::from(0u64));
        longer = vf(&l);
    }
    writeln!(out, "{}", json!({"ev":"PubRot","rot":shape.inst_rot,"lens":lens,"mock":run.mock,"verify":verify,"edits":edits,
        "shorter":shorter,"longer":longer,"rotated":rotated,"rotated_differs":rotated_differs})).unwrap();
}
