//! C20 driver, verifier-gadget half (foreign-curve back-end): the in-circuit
//! verifier must derive, from the vk identity, the inner public inputs and the
//! proof bytes, the same accumulator as the off-circuit verifier - for valid and
//! for corrupted inner proofs - and be unsatisfiable for any other claimed one.
//! The circuit is the one of the repository's own `test_verify_proof`, rebuilt
//! from the public API.

use std::{
    io::Write,
    panic::{catch_unwind, AssertUnwindSafe},
};

use ff::Field;
use group::Group;
use midnight_circuits::{
    ecc::{
        curves::CircuitCurve,
        foreign::{nb_foreign_ecc_chip_columns, ForeignEccChip, ForeignEccConfig},
    },
    field::{
        decomposition::{
            chip::{P2RDecompositionChip, P2RDecompositionConfig},
            pow2range::Pow2RangeChip,
        },
        foreign::FieldChip,
        native::NB_ARITH_COLS,
        NativeChip, NativeConfig, NativeGadget,
    },
    hash::poseidon::{PoseidonChip, PoseidonConfig, PoseidonState, NB_POSEIDON_ADVICE_COLS, NB_POSEIDON_FIXED_COLS},
    instructions::{
        hash::{HashCPU, HashInstructions},
        AssignmentInstructions, PublicInputInstructions,
    },
    testing_utils::FromScratch,
    types::{ComposableChip, Instantiable},
    verifier::{self, Accumulator, AssignedAccumulator, AssignedVk, BlstrsEmulation, SelfEmulation, VerifierGadget},
};
use midnight_proofs::{
    circuit::{Layouter, SimpleFloorPlanner, Value},
    dev::MockProver,
    plonk::{create_proof, keygen_pk, keygen_vk_with_k, prepare, Circuit, ConstraintSystem, Error},
    poly::{
        kzg::{params::ParamsKZG, KZGCommitmentScheme},
        EvaluationDomain,
    },
    transcript::{CircuitTranscript, Transcript},
};
use rand::SeedableRng;
use rand_chacha::ChaCha8Rng;
use serde_json::json;

use crate::{c04::self_instance, plonkrun::panic_msg, util};

type S = BlstrsEmulation;
type F = <S as SelfEmulation>::F;
type C = <S as SelfEmulation>::C;
type E = <S as SelfEmulation>::Engine;
type CBase = <C as CircuitCurve>::Base;
type NG = NativeGadget<F, P2RDecompositionChip<F>, NativeChip<F>>;

#[derive(Clone, Debug, Default)]
pub struct InnerCircuit {
    preimage: Value<[F; 2]>,
}

impl Circuit<F> for InnerCircuit {
    type Config = <PoseidonChip<F> as FromScratch<F>>::Config;
    type FloorPlanner = SimpleFloorPlanner;
    type Params = ();
    fn without_witnesses(&self) -> Self {
        Self::default()
    }
    fn configure(meta: &mut ConstraintSystem<F>) -> Self::Config {
        let c = meta.instance_column();
        let i = meta.instance_column();
        PoseidonChip::configure_from_scratch(meta, &[c, i])
    }
    fn synthesize(&self, config: Self::Config, mut l: impl Layouter<F>) -> Result<(), Error> {
        let native_chip = NativeChip::new_from_scratch(&config.0);
        let poseidon_chip = PoseidonChip::new_from_scratch(&config);
        let inputs = native_chip.assign_many(&mut l, &self.preimage.transpose_array())?;
        let output = poseidon_chip.hash(&mut l, &inputs)?;
        native_chip.constrain_as_public_input(&mut l, &output)?;
        native_chip.load_from_scratch(&mut l)?;
        poseidon_chip.load_from_scratch(&mut l)
    }
}

#[derive(Clone, Debug)]
pub struct VerifierCircuit {
    inner_vk: (EvaluationDomain<F>, ConstraintSystem<F>, Value<F>),
    inner_committed_instance: Value<C>,
    inner_instances: Value<[F; 1]>,
    inner_proof: Value<Vec<u8>>,
}

impl Circuit<F> for VerifierCircuit {
    type Config = (NativeConfig, P2RDecompositionConfig, ForeignEccConfig<C>, PoseidonConfig<F>);
    type FloorPlanner = SimpleFloorPlanner;
    type Params = ();
    fn without_witnesses(&self) -> Self {
        unreachable!()
    }
    fn configure(meta: &mut ConstraintSystem<F>) -> Self::Config {
        let nb_advice_cols = nb_foreign_ecc_chip_columns::<F, C, C, NG>();
        let nb_fixed_cols = NB_ARITH_COLS + 4;
        let advice_columns: Vec<_> = (0..nb_advice_cols).map(|_| meta.advice_column()).collect();
        let fixed_columns: Vec<_> = (0..nb_fixed_cols).map(|_| meta.fixed_column()).collect();
        let committed_instance_column = meta.instance_column();
        let instance_column = meta.instance_column();
        let native_config = NativeChip::configure(
            meta,
            &(
                advice_columns[..NB_ARITH_COLS].try_into().unwrap(),
                fixed_columns[..NB_ARITH_COLS + 4].try_into().unwrap(),
                [committed_instance_column, instance_column],
            ),
        );
        let core_decomp_config = {
            let pow2_config = Pow2RangeChip::configure(meta, &advice_columns[1..NB_ARITH_COLS]);
            P2RDecompositionChip::configure(meta, &(native_config.clone(), pow2_config))
        };
        let base_config = FieldChip::<F, CBase, C, NG>::configure(meta, &advice_columns);
        let curve_config = ForeignEccChip::<F, C, C, NG, NG>::configure(meta, &base_config, &advice_columns);
        let poseidon_config = PoseidonChip::configure(
            meta,
            &(
                advice_columns[..NB_POSEIDON_ADVICE_COLS].try_into().unwrap(),
                fixed_columns[..NB_POSEIDON_FIXED_COLS].try_into().unwrap(),
            ),
        );
        (native_config, core_decomp_config, curve_config, poseidon_config)
    }
    fn synthesize(&self, config: Self::Config, mut layouter: impl Layouter<F>) -> Result<(), Error> {
        let native_chip = <NativeChip<F> as ComposableChip<F>>::new(&config.0, &());
        let core_decomp_chip = P2RDecompositionChip::new(&config.1, &16);
        let native_gadget = NativeGadget::new(core_decomp_chip.clone(), native_chip.clone());
        let curve_chip = ForeignEccChip::new(&config.2, &native_gadget, &native_gadget);
        let poseidon_chip = PoseidonChip::new(&config.3, &native_chip);
        let verifier_chip = VerifierGadget::<S>::new(&curve_chip, &native_gadget, &poseidon_chip);
        let assigned_inner_vk: AssignedVk<S> =
            verifier_chip.assign_vk_as_public_input(&mut layouter, "inner_vk", &self.inner_vk.0, &self.inner_vk.1, self.inner_vk.2)?;
        let assigned_committed_instance = curve_chip.assign(&mut layouter, self.inner_committed_instance)?;
        let assigned_inner_pi = native_gadget.assign_many(&mut layouter, &self.inner_instances.transpose_array())?;
        let mut acc = verifier_chip.prepare(
            &mut layouter,
            &assigned_inner_vk,
            &[assigned_committed_instance],
            &[&assigned_inner_pi],
            self.inner_proof.clone(),
        )?;
        acc.collapse(&mut layouter, &curve_chip, &native_gadget)?;
        verifier_chip.constrain_as_public_input(&mut layouter, &acc)?;
        core_decomp_chip.load(&mut layouter)
    }
}

pub fn main(args: &[String]) -> i32 {
    let scen = util::read_ndjson(&args[0]);
    let mut out = util::create(&args[1]);
    writeln!(out, "{}", json!({"ev":"header","prop":"C20","n":scen.len(),"half":"verifier_gadget"})).unwrap();
    const K: u32 = 18;
    for sc in scen.iter() {
        let mut rng = ChaCha8Rng::seed_from_u64(sc["seed"].as_u64().unwrap_or(1));
        let inner_k = 10;
        let inner_params = ParamsKZG::<E>::unsafe_setup(inner_k, &mut rng);
        let inner_vk = keygen_vk_with_k(&inner_params, &InnerCircuit::default(), inner_k).unwrap();
        let inner_pk = keygen_pk(inner_vk.clone(), &InnerCircuit::default()).unwrap();
        let preimage = [F::random(&mut rng), F::random(&mut rng)];
        let output = <PoseidonChip<F> as HashCPU<F, F>>::hash(&preimage);
        let inner_public_inputs = vec![output];
        let inner_proof = {
            let mut t = CircuitTranscript::<PoseidonState<F>>::init();
            create_proof::<F, KZGCommitmentScheme<E>, CircuitTranscript<PoseidonState<F>>, InnerCircuit>(
                &inner_params, &inner_pk, &[InnerCircuit { preimage: Value::known(preimage) }], 1, &[&[&[], &inner_public_inputs]], &mut rng, &mut t,
            )
            .expect("inner proof");
            t.finalize()
        };
        let fixed_bases = verifier::fixed_bases::<S>("inner_vk", &inner_vk);
        // off-circuit accumulator for given proof bytes and public inputs (None if the proof does not parse)
        let off = |proof: &[u8], pis: &[F]| -> Option<(Vec<F>, bool)> {
            let r = catch_unwind(AssertUnwindSafe(|| {
                let mut t = CircuitTranscript::<PoseidonState<F>>::init_from_bytes(proof);
                let dual = prepare::<F, KZGCommitmentScheme<E>, CircuitTranscript<PoseidonState<F>>>(&inner_vk, &[&[C::identity()]], &[&[pis]], &mut t).ok()?;
                let mut acc = Accumulator::<S>::from_dual_msm(dual, "inner_vk", &fixed_bases);
                let ok = acc.check(&inner_params.s_g2().into(), &fixed_bases);
                acc.collapse();
                let mut pi = AssignedVk::<S>::as_public_input(&inner_vk);
                pi.extend(AssignedAccumulator::as_public_input(&acc));
                Some((pi, ok))
            }));
            r.ok().flatten()
        };
        // in-circuit: what the verifier circuit itself exposes, and whether it is satisfied by a given instance
        let circuit_for = |proof: &[u8], pis: &[F]| VerifierCircuit {
            inner_vk: (inner_vk.get_domain().clone(), inner_vk.cs().clone(), Value::known(inner_vk.transcript_repr())),
            inner_committed_instance: Value::known(C::identity()),
            inner_instances: Value::known([pis[0]]),
            inner_proof: Value::known(proof.to_vec()),
        };
        let in_circuit = |proof: &[u8], pis: &[F], claimed: Option<&[F]>| -> (String, Vec<F>) {
            let c = circuit_for(proof, pis);
            let r = catch_unwind(AssertUnwindSafe(|| {
                let mp = MockProver::run(K, &c, vec![vec![], claimed.map(|c| c.to_vec()).unwrap_or_default()]).map_err(|e| format!("{e:?}"))?;
                let exposed = self_instance(&mp);
                let sat = if claimed.is_some() { mp.verify().is_ok() } else { false };
                Ok::<_, String>((sat, exposed))
            }));
            match r {
                Ok(Ok((sat, exposed))) => (if sat { "sat".into() } else { "unsat".into() }, exposed),
                Ok(Err(e)) => (format!("synth_err:{}", e.chars().take(40).collect::<String>()), vec![]),
                Err(p) => (format!("panic:{}", panic_msg(p).chars().take(40).collect::<String>()), vec![]),
            }
        };
        // honest
        let (off_pi, off_ok) = off(&inner_proof, &inner_public_inputs).expect("honest proof parses");
        let (st, exposed) = in_circuit(&inner_proof, &inner_public_inputs, Some(&off_pi));
        writeln!(out, "{}", json!({"ev":"Gadget","case":"honest","status":st,"same":exposed == off_pi,"acc_check":off_ok,"n_pi":off_pi.len()})).unwrap();
        // any other claimed accumulator: single-position edits of the instance
        let positions: Vec<usize> = sc["edit_positions"].as_array().map(|a| a.iter().map(|x| x.as_u64().unwrap() as usize).collect()).unwrap_or_default();
        for p in positions {
            if p >= off_pi.len() {
                continue;
            }
            let mut e = off_pi.clone();
            e[p] += F::ONE;
            let (st, _) = in_circuit(&inner_proof, &inner_public_inputs, Some(&e));
            writeln!(out, "{}", json!({"ev":"GadgetEdit","pos":p + 1,"status":st})).unwrap();
        }
        // corrupted inner proofs and a wrong inner public input: both verifiers must agree on the accumulator
        let bytes: Vec<usize> = sc["corrupt_bytes"].as_array().map(|a| a.iter().map(|x| x.as_u64().unwrap() as usize).collect()).unwrap_or_default();
        for b in bytes {
            let mut p = inner_proof.clone();
            let idx = b % p.len();
            p[idx] ^= 1;
            let o = off(&p, &inner_public_inputs);
            let (st, exposed) = in_circuit(&p, &inner_public_inputs, None);
            writeln!(out, "{}", json!({"ev":"GadgetCorrupt","what":"proof_byte","byte":idx,"off_parses":o.is_some(),
                "in_circuit":if exposed.is_empty() { st } else { "ok".into() },
                "same":o.as_ref().map(|(pi, _)| *pi == exposed),"acc_check":o.as_ref().map(|(_, ok)| *ok)})).unwrap();
        }
        {
            let wrong = vec![output + F::ONE];
            let o = off(&inner_proof, &wrong);
            let (st, exposed) = in_circuit(&inner_proof, &wrong, None);
            writeln!(out, "{}", json!({"ev":"GadgetCorrupt","what":"public_input","byte":0,"off_parses":o.is_some(),
                "in_circuit":if exposed.is_empty() { st } else { "ok".into() },
                "same":o.as_ref().map(|(pi, _)| *pi == exposed),"acc_check":o.as_ref().map(|(_, ok)| *ok)})).unwrap();
        }
    }
    let _ = <C as Group>::identity();
    0
}
