//! C16 driver: decoding and using untrusted bytes.
//!   vh c16 layout <out.json>          base objects (hex) with their field maps
//!   vh c16 run <scen.ndjson> <out>    apply byte edits, decode, use; outcome classes

use std::{
    io::Write,
    panic::{catch_unwind, AssertUnwindSafe},
    sync::atomic::Ordering,
};

use ff::{Field, PrimeField};
use group::{prime::PrimeCurveAffine, Curve, Group, GroupEncoding};
use midnight_curves::{Bls12, Fq as F, G1Affine, G1Projective, G2Affine};
use midnight_proofs::{
    plonk::{keygen_vk_with_k, Circuit, VerifyingKey},
    poly::kzg::params::{ParamsKZG, ParamsVerifierKZG},
    utils::SerdeFormat,
};
use midnight_zk_stdlib::{self as std_lib, MidnightVK, ZkStdLibArch};
use rand::SeedableRng;
use rand_chacha::ChaCha8Rng;
use serde_json::{json, Value as J};

use crate::{
    plonkrun::{self, panic_msg, Blake, CS},
    rels::{self, MulRel, SqRel},
    shapes::{random_shape, ShapeCircuit},
    util, MAX_ALLOC,
};

fn fmt(f: &str) -> SerdeFormat {
    match f {
        "P" => SerdeFormat::Processed,
        "R" => SerdeFormat::RawBytes,
        _ => SerdeFormat::RawBytesUnchecked,
    }
}

pub struct World {
    params: ParamsKZG<Bls12>,
    mvk_mul: MidnightVK,
    mvk_sq: MidnightVK,
    proof_mul: Vec<u8>,
    inst_mul: F,
    proof_sq: Vec<u8>,
    inst_sq: (F, F),
    shape: crate::shapes::Shape,
    shape_params: ParamsKZG<Bls12>,
    shape_vk: VerifyingKey<F, CS>,
    shape_proof: Vec<u8>,
    shape_proof_layout: Vec<(usize, usize, &'static str)>,
    shape_inst: Vec<Vec<F>>,
}

pub fn world() -> World {
    let mut rng = ChaCha8Rng::seed_from_u64(0xC16);
    let k = std_lib::MidnightCircuit::from_relation(&MulRel).min_k().max(std_lib::MidnightCircuit::from_relation(&SqRel).min_k());
    let params = ParamsKZG::<Bls12>::unsafe_setup(k, &mut rng);
    let mut pm = params.clone();
    std_lib::downsize_srs_for_relation(&mut pm, &MulRel);
    let mut ps = params.clone();
    std_lib::downsize_srs_for_relation(&mut ps, &SqRel);
    let mvk_mul = std_lib::setup_vk(&pm, &MulRel);
    let mvk_sq = std_lib::setup_vk(&ps, &SqRel);
    let pk_m = std_lib::setup_pk(&MulRel, &mvk_mul);
    let pk_s = std_lib::setup_pk(&SqRel, &mvk_sq);
    let (inst_mul, wit) = rels::mul_case(0);
    let proof_mul = std_lib::prove::<MulRel, Blake>(&pm, &pk_m, &MulRel, &inst_mul, wit, &mut rng).unwrap();
    let (inst_sq, wit) = rels::sq_case(0);
    let proof_sq = std_lib::prove::<SqRel, Blake>(&ps, &pk_s, &SqRel, &inst_sq, wit, &mut rng).unwrap();
    let mut shape = random_shape(11);
    shape.k = 5;
    shape.committed = 0;
    shape.inst = 1;
    shape.inst_lens = vec![2];
    shape.inst_unused = 0;
    shape.adv = vec![3];
    shape.chal = vec![0];
    shape.perm = 2;
    shape.lookups = 1;
    let circuit = ShapeCircuit::generate(&shape, 0);
    let shape_params = ParamsKZG::<Bls12>::unsafe_setup(shape.k, &mut rng);
    let keys = plonkrun::keygen(&shape_params, &circuit).unwrap();
    let shape_inst = circuit.instance_f();
    let p = plonkrun::prove::<Blake>(&shape_params, &keys.pk, &[circuit.clone()], 0, &[shape_inst.clone()], 5).unwrap();
    World {
        params,
        mvk_mul,
        mvk_sq,
        proof_mul,
        inst_mul,
        proof_sq,
        inst_sq,
        shape,
        shape_params,
        shape_vk: keys.vk,
        shape_proof_layout: crate::c03::layout(&p.events),
        shape_proof: p.proof,
        shape_inst,
    }
}

fn field(name: &str, off: usize, len: usize, kind: &str) -> J {
    json!({"name":name,"off":off,"len":len,"kind":kind})
}

fn vk_fields(base: usize, bytes_len: usize, nfixed: usize, plen: usize, out: &mut Vec<J>) {
    out.push(field("vk_version", base, 1, "u8"));
    out.push(field("k", base + 1, 1, "u8"));
    out.push(field("nfixed", base + 2, 4, "u32"));
    let mut off = base + 6;
    let mut i = 0;
    while off + plen <= bytes_len {
        let nm = if i < nfixed { format!("fixed_com{i}") } else { format!("perm_com{}", i - nfixed) };
        out.push(field(&nm, off, plen, "g1"));
        off += plen;
        i += 1;
    }
}

pub fn layout(w: &World) -> J {
    let mut objs = vec![];
    for f in ["P", "R"] {
        let plen = if f == "P" { 48 } else { 96 };
        for (name, mvk) in [("mvk_mul", &w.mvk_mul), ("mvk_sq", &w.mvk_sq)] {
            let mut b = vec![];
            mvk.write(&mut b, fmt(f)).unwrap();
            let mut fields = vec![field("zkstd_version", 0, 4, "u32")];
            let names = ["jubjub", "poseidon", "sha2_256", "sha2_512", "sha3_256", "keccak_256", "blake2b",
                         "secp256k1", "bls12_381", "base64", "automaton"];
            // struct field order as declared
            for (i, n) in names.iter().enumerate() {
                fields.push(field(n, 4 + i, 1, "bool"));
            }
            fields.push(field("nr_pow2range_cols", 15, 1, "u8"));
            fields.push(field("max_bit_len", 16, 1, "u8"));
            fields.push(field("nb_public_inputs", 17, 4, "u32"));
            vk_fields(21, b.len(), mvk.vk().fixed_commitments().len(), plen, &mut fields);
            objs.push(json!({"obj":name,"fmt":f,"hex":util::hex(&b),"fields":fields,
                             "nfixed": mvk.vk().fixed_commitments().len()}));
        }
        let b = w.shape_vk.to_bytes(fmt(f));
        let mut fields = vec![];
        vk_fields(0, b.len(), w.shape_vk.fixed_commitments().len(), plen, &mut fields);
        objs.push(json!({"obj":"vk_shape","fmt":f,"hex":util::hex(&b),"fields":fields,
                         "nfixed": w.shape_vk.fixed_commitments().len()}));
        let mut b = vec![];
        w.params.verifier_params().write(&mut b, fmt(f)).unwrap();
        let l = b.len();
        objs.push(json!({"obj":"vparams","fmt":f,"hex":util::hex(&b),"fields":[field("s_g2", 0, l, "g2")]}));
    }
    let mut b = vec![];
    w.mvk_sq.write(&mut b, SerdeFormat::Processed).unwrap();
    b.truncate(16);
    let mut fields = vec![field("zkstd_version", 0, 4, "u32")];
    for i in 0..11 {
        fields.push(field(&format!("flag{i}"), 4 + i, 1, "bool"));
    }
    fields.push(field("nr_pow2range_cols", 15, 1, "u8"));
    objs.push(json!({"obj":"arch","fmt":"P","hex":util::hex(&b),"fields":fields}));
    // proofs: layout is the sequence of 48-byte points / 32-byte scalars; given as opaque elements of 16 bytes
    objs.push(json!({"obj":"proof_mul","fmt":"P","hex":util::hex(&w.proof_mul),"fields":[]}));
    let pf: Vec<J> = w
        .shape_proof_layout
        .iter()
        .enumerate()
        .map(|(i, (off, len, kind))| field(&format!("el{i}"), *off, *len, if *kind == "point" { "g1" } else { "scalar" }))
        .collect();
    objs.push(json!({"obj":"proof_shape","fmt":"P","hex":util::hex(&w.shape_proof),"fields":pf}));
    // special encodings
    let g = G1Projective::generator() * F::from(77);
    let mut noncanon = [0xffu8; 48];
    noncanon[0] = 0x9f; // compressed flag set, x >= p
    // on curve, outside the prime-order subgroup (compressed)
    let mut off_sub = None;
    let mut off_curve = None;
    for x in 1u64..200 {
        let mut enc = [0u8; 48];
        enc[40..48].copy_from_slice(&x.to_be_bytes());
        enc[0] |= 0x80;
        let mut repr = <G1Affine as GroupEncoding>::Repr::default();
        repr.as_mut().copy_from_slice(&enc);
        let un = <G1Affine as GroupEncoding>::from_bytes_unchecked(&repr);
        if bool::from(un.is_some()) {
            let p = un.unwrap();
            if !bool::from(p.is_torsion_free()) && off_sub.is_none() {
                off_sub = Some(enc);
            }
        } else if off_curve.is_none() {
            off_curve = Some(enc);
        }
    }
    let ga = g.to_affine();
    let specials = json!({
        "g1_P_other": util::hex(g.to_bytes().as_ref()),
        "g1_P_identity": util::hex(G1Projective::identity().to_bytes().as_ref()),
        "g1_P_allff": util::hex(&[0xffu8; 48]),
        "g1_P_noncanonical": util::hex(&noncanon),
        "g1_P_offcurve": util::hex(&off_curve.unwrap()),
        "g1_P_offsubgroup": util::hex(&off_sub.unwrap()),
        "g1_P_zeros": util::hex(&[0u8; 48]),
        "g1_R_other": util::hex(&{ let mut b = vec![]; use midnight_proofs::utils::helpers::ProcessedSerdeObject; g.write(&mut b, SerdeFormat::RawBytes).unwrap(); b }),
        "g1_R_allff": util::hex(&[0xffu8; 96]),
        "g1_R_zeros": util::hex(&[0u8; 96]),
        "g1_R_offcurve": util::hex(&{ let mut b = vec![]; use midnight_proofs::utils::helpers::ProcessedSerdeObject; g.write(&mut b, SerdeFormat::RawBytes).unwrap(); b[95] ^= 1; b }),
        "scalar_sother": util::hex(F::from(123456789).to_repr().as_ref()),
        "scalar_snoncanonical": util::hex(&{
            // p itself (little-endian repr as the transcript uses)
            let m = num_bigint::BigUint::parse_bytes(&F::MODULUS.as_bytes()[2..], 16).unwrap();
            let mut b = if F::ONE.to_repr().as_ref()[0] == 1 { m.to_bytes_le() } else { m.to_bytes_be() };
            b.resize(32, 0);
            b
        }),
        "scalar_sallff": util::hex(&[0xffu8; 32]),
        "g2_P_other": util::hex((G2Affine::generator() * F::from(5)).to_affine().to_bytes().as_ref()),
    });
    let _ = ga;
    json!({"objects": objs, "specials": specials, "S": F::S})
}

fn apply_edits(base: &[u8], edits: &[J]) -> Vec<u8> {
    let mut b = base.to_vec();
    for e in edits {
        match e["t"].as_str().unwrap() {
            "set" => {
                let off = e["off"].as_u64().unwrap() as usize;
                let v = util::unhex(e["bytes"].as_str().unwrap());
                if off + v.len() <= b.len() {
                    b[off..off + v.len()].copy_from_slice(&v);
                }
            }
            "trunc" => b.truncate(e["n"].as_u64().unwrap() as usize),
            "append" => b.extend(util::unhex(e["bytes"].as_str().unwrap())),
            "flip" => {
                let bit = e["bit"].as_u64().unwrap() as usize;
                if bit / 8 < b.len() {
                    b[bit / 8] ^= 1 << (bit % 8);
                }
            }
            "splice" => {
                let off = e["off"].as_u64().unwrap() as usize;
                let from = e["from"].as_u64().unwrap() as usize;
                let n = e["n"].as_u64().unwrap() as usize;
                if from + n <= b.len() && off + n <= b.len() {
                    let seg = b[from..from + n].to_vec();
                    b[off..off + n].copy_from_slice(&seg);
                }
            }
            _ => {}
        }
    }
    b
}

fn outcome<T>(f: impl FnOnce() -> Result<T, String>) -> (String, Option<T>, String) {
    match catch_unwind(AssertUnwindSafe(f)) {
        Ok(Ok(v)) => ("ok".into(), Some(v), String::new()),
        Ok(Err(e)) => ("err".into(), None, e.chars().take(140).collect()),
        Err(p) => ("panic".into(), None, panic_msg(p).chars().take(140).collect()),
    }
}

pub fn run_one(w: &World, base: &std::collections::HashMap<(String, String), Vec<u8>>, sc: &J) -> J {
    let obj = sc["obj"].as_str().unwrap();
    let f = sc["fmt"].as_str().unwrap_or("P");
    let rf = sc["rfmt"].as_str().unwrap_or(f);
    let edits = sc["edits"].as_array().cloned().unwrap_or_default();
    let b0 = &base[&(obj.to_string(), f.to_string())];
    let b = apply_edits(b0, &edits);
    let same = &b == b0;
    MAX_ALLOC.store(0, Ordering::SeqCst);
    let (dec, used, detail): (String, String, String) = match obj {
        "mvk_mul" | "mvk_sq" => {
            let (d, v, det) = outcome(|| MidnightVK::read(&mut &b[..], fmt(rf)).map_err(|e| format!("{e:?}")));
            let (u, det2) = match v {
                Some(vk) => {
                    let vp = w.params.verifier_params();
                    let (u, _, det2) = if obj == "mvk_mul" {
                        outcome(|| std_lib::verify::<MulRel, Blake>(&vp, &vk, &w.inst_mul, None, &w.proof_mul).map_err(|e| format!("{e:?}")))
                    } else {
                        outcome(|| std_lib::verify::<SqRel, Blake>(&vp, &vk, &w.inst_sq, None, &w.proof_sq).map_err(|e| format!("{e:?}")))
                    };
                    // and a proof of the OTHER relation against this key (raw public inputs via batch_verify)
                    let (u2, _, det3) = if obj == "mvk_mul" {
                        outcome(|| std_lib::batch_verify::<Blake>(&vp, &[vk.clone()], &[vec![w.inst_sq.0, w.inst_sq.1]], &[w.proof_sq.clone()]).map_err(|e| format!("{e:?}")))
                    } else {
                        outcome(|| std_lib::batch_verify::<Blake>(&vp, &[vk.clone()], &[vec![w.inst_mul]], &[w.proof_mul.clone()]).map_err(|e| format!("{e:?}")))
                    };
                    if u2 == "panic" {
                        ("panic".to_string(), format!("other-proof: {det3}"))
                    } else {
                        (u, det2)
                    }
                }
                None => ("skip".into(), String::new()),
            };
            (d, u, format!("{det}{det2}"))
        }
        "vk_shape" => {
            let (d, v, det) = outcome(|| {
                VerifyingKey::<F, CS>::from_bytes::<ShapeCircuit>(&b, fmt(rf), w.shape.clone()).map_err(|e| format!("{e:?}"))
            });
            let (u, det2) = match v {
                Some(vk) => {
                    let (coms, plain) = (vec![vec![]], vec![w.shape_inst.clone()]);
                    let v = plonkrun::verify::<Blake>(&w.shape_params, &vk, &coms, &plain, &w.shape_proof);
                    let c = if v.verdict == "ok" { "ok" } else if v.verdict.starts_with("panic") { "panic" } else { "err" };
                    (c.to_string(), v.verdict.chars().take(140).collect())
                }
                None => ("skip".into(), String::new()),
            };
            (d, u, format!("{det}{det2}"))
        }
        "vparams" => {
            let (d, v, det) = outcome(|| ParamsVerifierKZG::<Bls12>::read(&mut &b[..], fmt(rf)).map_err(|e| format!("{e:?}")));
            let (u, det2) = match v {
                Some(vp) => {
                    let (u, _, det2) = outcome(|| std_lib::verify::<MulRel, Blake>(&vp, &w.mvk_mul, &w.inst_mul, None, &w.proof_mul).map_err(|e| format!("{e:?}")));
                    (u, det2)
                }
                None => ("skip".into(), String::new()),
            };
            (d, u, format!("{det}{det2}"))
        }
        "arch" => {
            let (d, v, det) = outcome(|| ZkStdLibArch::read(&mut &b[..]).map_err(|e| format!("{e:?}")));
            let (u, det2) = match v {
                Some(a) => {
                    let (u, _, det2) = outcome(|| {
                        let _ = a.nb_points();
                        Ok::<(), String>(())
                    });
                    (u, det2)
                }
                None => ("skip".into(), String::new()),
            };
            (d, u, format!("{det}{det2}"))
        }
        "proof_mul" => {
            let vp = w.params.verifier_params();
            let (u, _, det) = outcome(|| std_lib::verify::<MulRel, Blake>(&vp, &w.mvk_mul, &w.inst_mul, None, &b).map_err(|e| format!("{e:?}")));
            ("ok".into(), u, det)
        }
        "proof_shape" => {
            let v = plonkrun::verify::<Blake>(&w.shape_params, &w.shape_vk, &[vec![]], &[w.shape_inst.clone()], &b);
            let c = if v.verdict == "ok" { "ok" } else if v.verdict.starts_with("panic") { "panic" } else { "err" };
            ("ok".into(), c.to_string(), v.verdict.chars().take(140).collect())
        }
        _ => ("skip".into(), "skip".into(), "unknown object".into()),
    };
    json!({"ev":"Decode","obj":obj,"fmt":f,"rfmt":rf,"field":sc["field"],"class":sc["class"],"kind":sc["kind"],
           "same":same,"len":b.len(),"decode":dec,"use":used,"detail":detail,
           "max_alloc":MAX_ALLOC.load(Ordering::SeqCst)})
}

pub fn main(args: &[String]) -> i32 {
    let w = world();
    let lay = layout(&w);
    if args[0] == "layout" {
        std::fs::write(&args[1], serde_json::to_string(&lay).unwrap()).unwrap();
        return 0;
    }
    let mut base = std::collections::HashMap::new();
    for o in lay["objects"].as_array().unwrap() {
        base.insert(
            (o["obj"].as_str().unwrap().to_string(), o["fmt"].as_str().unwrap().to_string()),
            util::unhex(o["hex"].as_str().unwrap()),
        );
    }
    let scen = util::read_ndjson(&args[1]);
    let mut out = util::create(&args[2]);
    writeln!(out, "{}", json!({"ev":"header","prop":"C16","n":scen.len()})).unwrap();
    for sc in scen.iter() {
        writeln!(out, "{}", run_one(&w, &base, sc)).unwrap();
        out.flush().unwrap();
    }
    0
}
