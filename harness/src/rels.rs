//! Small standard-library relations used by lifecycle-style checks (C15, C17, C16).

use ff::Field;
use midnight_circuits::{
    instructions::{ArithInstructions, AssignmentInstructions, PublicInputInstructions},
    types::AssignedNative,
};
use midnight_curves::Fq as F;
use midnight_proofs::{
    circuit::{Layouter, Value},
    plonk::Error,
};
use midnight_zk_stdlib::{Relation, ZkStdLib, ZkStdLibArch};

/// instance z; witness (a, b) with a * b = z
#[derive(Clone, Default, Debug)]
pub struct MulRel;

impl Relation for MulRel {
    type Instance = F;
    type Witness = (F, F);
    fn format_instance(instance: &F) -> Result<Vec<F>, Error> {
        Ok(vec![*instance])
    }
    fn circuit(
        &self,
        std_lib: &ZkStdLib,
        layouter: &mut impl Layouter<F>,
        _instance: Value<F>,
        witness: Value<(F, F)>,
    ) -> Result<(), Error> {
        let a: AssignedNative<F> = std_lib.assign(layouter, witness.map(|w| w.0))?;
        let b: AssignedNative<F> = std_lib.assign(layouter, witness.map(|w| w.1))?;
        let z = std_lib.mul(layouter, &a, &b, None)?;
        std_lib.constrain_as_public_input(layouter, &z)
    }
    fn write_relation<W: std::io::Write>(&self, _w: &mut W) -> std::io::Result<()> {
        Ok(())
    }
    fn read_relation<R: std::io::Read>(_r: &mut R) -> std::io::Result<Self> {
        Ok(MulRel)
    }
}

/// instance (u, v); witness w with u = w + 1, v = w * w; uses the Poseidon chip
/// in its architecture so that the key differs structurally from `MulRel`
#[derive(Clone, Default, Debug)]
pub struct SqRel;

impl Relation for SqRel {
    type Instance = (F, F);
    type Witness = F;
    fn format_instance(instance: &(F, F)) -> Result<Vec<F>, Error> {
        Ok(vec![instance.0, instance.1])
    }
    fn circuit(
        &self,
        std_lib: &ZkStdLib,
        layouter: &mut impl Layouter<F>,
        _instance: Value<(F, F)>,
        witness: Value<F>,
    ) -> Result<(), Error> {
        let w: AssignedNative<F> = std_lib.assign(layouter, witness)?;
        let u = std_lib.add_constant(layouter, &w, F::ONE)?;
        let v = std_lib.mul(layouter, &w, &w, None)?;
        std_lib.constrain_as_public_input(layouter, &u)?;
        std_lib.constrain_as_public_input(layouter, &v)
    }
    fn used_chips(&self) -> ZkStdLibArch {
        ZkStdLibArch { poseidon: true, ..ZkStdLibArch::default() }
    }
    fn write_relation<W: std::io::Write>(&self, _w: &mut W) -> std::io::Result<()> {
        Ok(())
    }
    fn read_relation<R: std::io::Read>(_r: &mut R) -> std::io::Result<Self> {
        Ok(SqRel)
    }
}

pub fn mul_case(i: u64) -> (F, (F, F)) {
    let a = F::from(3 + i);
    let b = F::from(11 + 2 * i);
    (a * b, (a, b))
}
pub fn sq_case(i: u64) -> ((F, F), F) {
    let w = F::from(5 + i);
    ((w + F::ONE, w * w), w)
}
