//! C06 driver: elliptic-curve gadget operations (Jubjub native chip,
//! secp256k1 and BLS12-381 G1 foreign chips of the standard library) with
//! inputs and outputs exposed as public inputs, under the gadget game.

use std::io::Write;

use ff::{Field, PrimeField};
use group::Group;
use midnight_circuits::{
    ecc::{
        foreign::ecc_chip::AssignedForeignPoint,
        native::{AssignedNativePoint, AssignedScalarOfNativeCurve},
    },
    field::foreign::{field_chip::AssignedField, params::MultiEmulationParams},
    instructions::*,
    types::{AssignedBit, AssignedByte, AssignedNative},
    CircuitField,
};
use midnight_curves::{
    k256::{self as k256_mod, K256},
    Fq as F, Fr as JubjubScalar, G1Projective, JubjubExtended, JubjubSubgroup,
};
use midnight_proofs::{
    circuit::{Layouter, Value},
    plonk::Error,
};
use midnight_zk_stdlib::{MidnightCircuit, Relation, ZkStdLib, ZkStdLibArch};
use num_bigint::BigUint;
use serde_json::{json, Value as J};

use crate::{
    gad::{self, big_of_nat, nat_of_big, note},
    util,
};

type MEP = MultiEmulationParams;

#[derive(Clone, Debug)]
pub struct EccRel {
    pub sc: J,
}

fn k_of_big<K: CircuitField>(b: &BigUint) -> K {
    let mut acc = K::ZERO;
    let c = K::from(256u64);
    for d in b.to_bytes_be() {
        acc = acc * c + K::from(d as u64);
    }
    acc
}
fn scalar_i<S: PrimeField>(k: i64) -> S {
    if k < 0 {
        -S::from((-k) as u64)
    } else {
        S::from(k as u64)
    }
}
fn usz(v: &J) -> usize {
    v.as_u64().unwrap_or(0) as usize
}

/// Everything the three curve chips have in common, so that one generic body
/// can drive them.
macro_rules! ecc_body {
    ($s:expr, $l:expr, $sc:expr, $chip:expr, $ptty:ty, $group:ty, $scalarfield:ty, $pt_of:expr,
     $assign_scalar:expr, $expose_scalar:expr, $assign_coord:expr, $expose_coord:expr, $pw:expr, $cw:expr) => {{
        let s = $s;
        let l = $l;
        let sc = $sc;
        let chip = $chip;
        let op = sc["op"].as_str().unwrap_or("");
        let dlogs: Vec<i64> = sc["pts"].as_array().map(|a| a.iter().map(|x| x.as_i64().unwrap_or(0)).collect()).unwrap_or_default();
        let scalars: Vec<BigUint> = sc["scalars"].as_array().map(|a| a.iter().map(big_of_nat).collect()).unwrap_or_default();
        let bounds: Vec<usize> = sc["bounds"].as_array().map(|a| a.iter().map(usz).collect()).unwrap_or_default();
        // inputs, exposed in the order: scalars, points
        let mut ss = vec![];
        for x in scalars.iter() {
            if op == "from_coords" || op == "msm_le_bits" || op == "msm_bytes" {
                break;
            }
            let a = $assign_scalar(l, x)?;
            $expose_scalar(l, &a)?;
            ss.push(a);
        }
        let mut ps: Vec<$ptty> = vec![];
        for d in dlogs.iter() {
            let p: $ptty = chip.assign(l, Value::known($pt_of(*d)))?;
            note('P', $pw);
            chip.constrain_as_public_input(l, &p)?;
            ps.push(p);
        }
        let out_pt = |l: &mut _, p: &$ptty| -> Result<(), Error> {
            note('P', $pw);
            chip.constrain_as_public_input(l, p)
        };
        match op {
            "pub" => {}
            "add" => { let r_ = chip.add(l, &ps[0], &ps[1])?; out_pt(l, &r_)? },
            "double" => { let r_ = chip.double(l, &ps[0])?; out_pt(l, &r_)? },
            "negate" => { let r_ = chip.negate(l, &ps[0])?; out_pt(l, &r_)? },
            "add_chain" => {
                // (P + Q) + (-Q): accumulator passing through special cases
                let t = chip.add(l, &ps[0], &ps[1])?;
                let nq = chip.negate(l, &ps[1])?;
                { let r_ = chip.add(l, &t, &nq)?; out_pt(l, &r_)? }
            }
            "mulc" => {
                let c: $scalarfield = k_of_big(&big_of_nat(&sc["params"][0]));
                { let r_ = chip.mul_by_constant(l, c, &ps[0])?; out_pt(l, &r_)? }
            }
            "msm" => { let r_ = chip.msm(l, &ss, &ps)?; out_pt(l, &r_)? },
            // bases that share cells: P with its in-circuit negation, and the same assigned point twice
            "msm_negpair" => {
                let np = chip.negate(l, &ps[0])?;
                let r_ = chip.msm(l, &ss, &[ps[0].clone(), np])?;
                out_pt(l, &r_)?
            }
            "msm_dup" => {
                let r_ = chip.msm(l, &ss, &[ps[0].clone(), ps[0].clone()])?;
                out_pt(l, &r_)?
            }
            "msm_bounded" => {
                let sb: Vec<_> = ss.iter().cloned().zip(bounds.iter().cloned()).collect();
                { let r_ = chip.msm_by_bounded_scalars(l, &sb, &ps)?; out_pt(l, &r_)? }
            }
            "is_equal" => {
                let b = chip.is_equal(l, &ps[0], &ps[1])?;
                note('b', 1);
                s.constrain_as_public_input(l, &b)?;
            }
            "assert_equal" => chip.assert_equal(l, &ps[0], &ps[1])?,
            "assert_not_equal" => chip.assert_not_equal(l, &ps[0], &ps[1])?,
            "select" => {
                let b: AssignedBit<F> = s.assign(l, Value::known(big_of_nat(&sc["params"][0]) == BigUint::from(1u8)))?;
                { let r_ = chip.select(l, &b, &ps[0], &ps[1])?; out_pt(l, &r_)? }
            }
            "coords" => {
                let x = chip.x_coordinate(&ps[0]);
                let y = chip.y_coordinate(&ps[0]);
                note('C', $cw);
                $expose_coord(l, &x)?;
                note('C', $cw);
                $expose_coord(l, &y)?;
            }
            "from_coords" => {
                let x = $assign_coord(l, &scalars[0])?;
                note('C', $cw);
                $expose_coord(l, &x)?;
                let y = $assign_coord(l, &scalars[1])?;
                note('C', $cw);
                $expose_coord(l, &y)?;
                { let r_ = chip.point_from_coordinates(l, &x, &y)?; out_pt(l, &r_)? }
            }
            other => return Err(Error::Synthesis(format!("unknown op {other}"))),
        }
        Ok(())
    }};
}

impl Relation for EccRel {
    type Instance = Vec<F>;
    type Witness = ();

    fn format_instance(instance: &Vec<F>) -> Result<Vec<F>, Error> {
        Ok(instance.clone())
    }

    fn used_chips(&self) -> ZkStdLibArch {
        let c = self.sc["curve"].as_str().unwrap_or("");
        ZkStdLibArch {
            jubjub: c == "jubjub",
            poseidon: self.sc["op"] == "htc",
            secp256k1: c == "secp256k1",
            bls12_381: c == "bls12_381_g1",
            nr_pow2range_cols: 4,
            ..ZkStdLibArch::default()
        }
    }

    fn circuit(&self, s: &ZkStdLib, l: &mut impl Layouter<F>, _i: Value<Vec<F>>, _w: Value<()>) -> Result<(), Error> {
        let sc = &self.sc;
        let op = sc["op"].as_str().unwrap_or("");
        match sc["curve"].as_str().unwrap_or("") {
            "jubjub" => {
                let j = s.jubjub();
                if op == "msm_bytes" {
                    // scalars given as little-endian bytes (values at or above the group order are allowed)
                    let mut ss = vec![];
                    for x in sc["scalars"].as_array().unwrap() {
                        let nbytes = usz(&sc["params"][0]);
                        let mut bytes = big_of_nat(x).to_bytes_le();
                        bytes.resize(nbytes, 0);
                        let ab: Vec<AssignedByte<F>> = s.assign_many(l, &bytes.iter().map(|b| Value::known(*b)).collect::<Vec<_>>())?;
                        for b in ab.iter() {
                            note('B', 1);
                            s.constrain_as_public_input(l, b)?;
                        }
                        ss.push(j.scalar_from_le_bytes(l, &ab)?);
                    }
                    let mut ps = vec![];
                    for d in sc["pts"].as_array().unwrap() {
                        let p: AssignedNativePoint<JubjubExtended> =
                            j.assign(l, Value::known(JubjubSubgroup::generator() * scalar_i::<JubjubScalar>(d.as_i64().unwrap_or(0))))?;
                        note('P', 2);
                        j.constrain_as_public_input(l, &p)?;
                        ps.push(p);
                    }
                    let r = j.msm(l, &ss, &ps)?;
                    note('P', 2);
                    return j.constrain_as_public_input(l, &r);
                }
                if op == "htc" {
                    let xs: Vec<Value<F>> = sc["scalars"].as_array().unwrap().iter().map(|x| Value::known(k_of_big::<F>(&big_of_nat(x)))).collect();
                    let ax: Vec<AssignedNative<F>> = s.assign_many(l, &xs)?;
                    for a in ax.iter() {
                        note('C', 1);
                        s.constrain_as_public_input(l, a)?;
                    }
                    let p = s.hash_to_curve(l, &ax)?;
                    note('P', 2);
                    return j.constrain_as_public_input(l, &p);
                }
                ecc_body!(
                    s, l, sc, j, AssignedNativePoint<JubjubExtended>, JubjubSubgroup, JubjubScalar,
                    |d: i64| JubjubSubgroup::generator() * scalar_i::<JubjubScalar>(d),
                    |l: &mut _, x: &BigUint| -> Result<AssignedScalarOfNativeCurve<JubjubExtended>, Error> {
                        j.assign(l, Value::known(k_of_big::<JubjubScalar>(x)))
                    },
                    |l: &mut _, a: &AssignedScalarOfNativeCurve<JubjubExtended>| -> Result<(), Error> {
                        note('S', 1);
                        j.constrain_as_public_input(l, a)
                    },
                    |l: &mut _, x: &BigUint| -> Result<AssignedNative<F>, Error> { s.assign(l, Value::known(k_of_big::<F>(x))) },
                    |l: &mut _, a: &AssignedNative<F>| -> Result<(), Error> { s.constrain_as_public_input(l, a) },
                    2, 1
                )
            }
            "secp256k1" => {
                let c = s.secp256k1_curve();
                let sf = s.secp256k1_scalar();
                let bf = c.base_field_chip();
                if op == "msm_le_bits" {
                    let mut ss = vec![];
                    for (x, n) in sc["scalars"].as_array().unwrap().iter().zip(sc["bounds"].as_array().unwrap()) {
                        let v = big_of_nat(x);
                        let bits: Vec<Value<bool>> = (0..usz(n)).map(|i| Value::known(v.bit(i as u64))).collect();
                        let ab: Vec<AssignedBit<F>> = s.assign_many(l, &bits)?;
                        for b in ab.iter() {
                            note('b', 1);
                            s.constrain_as_public_input(l, b)?;
                        }
                        ss.push(ab);
                    }
                    let mut ps = vec![];
                    for d in sc["pts"].as_array().unwrap() {
                        let p: AssignedForeignPoint<F, K256, MEP> =
                            c.assign(l, Value::known(K256::generator() * scalar_i::<k256_mod::Fq>(d.as_i64().unwrap_or(0))))?;
                        note('P', 8);
                        c.constrain_as_public_input(l, &p)?;
                        ps.push(p);
                    }
                    let r = c.msm_by_le_bits(l, &ss, &ps)?;
                    note('P', 8);
                    return c.constrain_as_public_input(l, &r);
                }
                ecc_body!(
                    s, l, sc, c, AssignedForeignPoint<F, K256, MEP>, K256, k256_mod::Fq,
                    |d: i64| K256::generator() * scalar_i::<k256_mod::Fq>(d),
                    |l: &mut _, x: &BigUint| -> Result<AssignedField<F, k256_mod::Fq, MEP>, Error> {
                        sf.assign(l, Value::known(k_of_big::<k256_mod::Fq>(x)))
                    },
                    |l: &mut _, a: &AssignedField<F, k256_mod::Fq, MEP>| -> Result<(), Error> {
                        note('S', 4);
                        sf.constrain_as_public_input(l, a)
                    },
                    |l: &mut _, x: &BigUint| -> Result<AssignedField<F, k256_mod::Fp, MEP>, Error> {
                        bf.assign(l, Value::known(k_of_big::<k256_mod::Fp>(x)))
                    },
                    |l: &mut _, a: &AssignedField<F, k256_mod::Fp, MEP>| -> Result<(), Error> { bf.constrain_as_public_input(l, a) },
                    8, 4
                )
            }
            "bls12_381_g1" => {
                let c = s.bls12_381_curve();
                let bf = c.base_field_chip();
                if op == "msm_le_bits" {
                    let mut ss = vec![];
                    for (x, n) in sc["scalars"].as_array().unwrap().iter().zip(sc["bounds"].as_array().unwrap()) {
                        let v = big_of_nat(x);
                        let bits: Vec<Value<bool>> = (0..usz(n)).map(|i| Value::known(v.bit(i as u64))).collect();
                        let ab: Vec<AssignedBit<F>> = s.assign_many(l, &bits)?;
                        for b in ab.iter() {
                            note('b', 1);
                            s.constrain_as_public_input(l, b)?;
                        }
                        ss.push(ab);
                    }
                    let mut ps = vec![];
                    for d in sc["pts"].as_array().unwrap() {
                        let p: AssignedForeignPoint<F, G1Projective, MEP> =
                            c.assign(l, Value::known(G1Projective::generator() * scalar_i::<F>(d.as_i64().unwrap_or(0))))?;
                        note('P', 14);
                        c.constrain_as_public_input(l, &p)?;
                        ps.push(p);
                    }
                    let r = c.msm_by_le_bits(l, &ss, &ps)?;
                    note('P', 14);
                    return c.constrain_as_public_input(l, &r);
                }
                if op == "in_subgroup" {
                    let d = sc["pts"][0].as_i64().unwrap_or(0);
                    let p: AssignedForeignPoint<F, G1Projective, MEP> = c.assign(l, Value::known(G1Projective::generator() * scalar_i::<F>(d)))?;
                    note('P', 14);
                    c.constrain_as_public_input(l, &p)?;
                    return c.assert_in_bls12_381_subgroup(l, &p);
                }
                ecc_body!(
                    s, l, sc, c, AssignedForeignPoint<F, G1Projective, MEP>, G1Projective, F,
                    |d: i64| G1Projective::generator() * scalar_i::<F>(d),
                    |l: &mut _, x: &BigUint| -> Result<AssignedNative<F>, Error> { s.assign(l, Value::known(k_of_big::<F>(x))) },
                    |l: &mut _, a: &AssignedNative<F>| -> Result<(), Error> {
                        note('S', 1);
                        s.constrain_as_public_input(l, a)
                    },
                    |l: &mut _, x: &BigUint| -> Result<AssignedField<F, midnight_curves::Fp, MEP>, Error> {
                        bf.assign(l, Value::known(k_of_big::<midnight_curves::Fp>(x)))
                    },
                    |l: &mut _, a: &AssignedField<F, midnight_curves::Fp, MEP>| -> Result<(), Error> { bf.constrain_as_public_input(l, a) },
                    14, 7
                )
            }
            other => Err(Error::Synthesis(format!("unknown curve {other}"))),
        }
    }

    fn write_relation<W: std::io::Write>(&self, _w: &mut W) -> std::io::Result<()> {
        Ok(())
    }
    fn read_relation<R: std::io::Read>(_r: &mut R) -> std::io::Result<Self> {
        Ok(EccRel { sc: J::Null })
    }
}

pub fn main(args: &[String]) -> i32 {
    let scen = util::read_ndjson(&args[0]);
    let mut out = util::create(&args[1]);
    writeln!(out, "{}", json!({"ev":"header","prop":"C06","n":scen.len(),"native":nat_of_big(&<F as CircuitField>::modulus())})).unwrap();
    for c in crate::consts::all() {
        let mut c = c;
        c["ev"] = json!("Curve");
        writeln!(out, "{c}").unwrap();
    }
    for sc in scen.iter() {
        let rel = EccRel { sc: sc.clone() };
        let circuit = MidnightCircuit::new(&rel, Value::known(vec![]), Value::known(()), Some(8));
        let mut sc2 = sc.clone();
        let k = match sc["k"].as_u64() {
            Some(k) if k > 0 => k as u32,
            _ => std::panic::catch_unwind(std::panic::AssertUnwindSafe(|| MidnightCircuit::from_relation(&rel).min_k())).unwrap_or(14),
        };
        sc2["k"] = json!(k);
        sc2["fam"] = json!("ecc");
        sc2["field"] = sc["curve"].clone();
        sc2["ins"] = json!([]);
        let extra = json!({"k":k,"curve":sc["curve"],"pts":sc["pts"],"scalars":sc["scalars"],"bounds":sc["bounds"]});
        // MidnightCircuit::min_k can be one short for the rows MockProver needs: probe and bump
        let mut k = k;
        for _ in 0..2 {
            let probe = gad::run_game(&circuit, k, None);
            if (probe.status == "panic" || probe.status == "synth_err") && (probe.detail.contains("usable_rows") || probe.detail.contains("NotEnoughRows")) {
                k += 1;
            } else {
                break;
            }
        }
        sc2["k"] = json!(k);
        let mut extra = extra;
        extra["k"] = json!(k);
        crate::c05::run_with_faults(&circuit, &sc2, extra, &mut out);
    }
    0
}
