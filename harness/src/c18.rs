//! C18 driver: TLC-generated IR programs and witnesses executed off-circuit
//! (`ZkirRelation::public_inputs`) and in-circuit (`MidnightCircuit` under
//! `MockProver`), with the circuit's own exposed values extracted from the
//! copy constraints to the instance column.

use std::{
    collections::HashMap,
    io::Write,
    panic::{catch_unwind, AssertUnwindSafe},
};

use ff::{Field, PrimeField};
use group::Group;
use midnight_curves::{Fq as F, Fr as JubjubScalar, JubjubSubgroup};
use midnight_proofs::{
    circuit::Value,
    dev::{CellValue, MockProver},
    plonk::Any,
};
use midnight_zk_stdlib::{MidnightCircuit, Relation};
use midnight_zkir::{Instruction, IrValue, ZkirRelation};
use num_bigint::BigUint;
use serde_json::{json, Value as J};

use crate::{plonkrun::panic_msg, util};

fn leak(s: &str) -> &'static str {
    Box::leak(s.to_string().into_boxed_str())
}

fn native_of(v: &J) -> F {
    if let Some(s) = v.get("s").and_then(|x| x.as_str()) {
        return match s {
            "minus1" => -F::ONE,
            "half" => F::TWO_INV,
            _ => F::ZERO,
        };
    }
    let i = v["v"].as_i64().unwrap_or(0);
    if i < 0 {
        -F::from((-i) as u64)
    } else {
        F::from(i as u64)
    }
}

fn value_of(v: &J) -> Result<IrValue, String> {
    Ok(match v["k"].as_str().unwrap_or("") {
        "Bool" => IrValue::Bool(v["v"].as_i64().unwrap_or(0) != 0),
        "Bytes" => IrValue::Bytes(v["v"].as_array().map(|a| a.iter().map(|x| x.as_u64().unwrap_or(0) as u8).collect()).unwrap_or_default()),
        "Native" => IrValue::Native(native_of(v)),
        "BigUint" => {
            if let Some(bits) = v.get("pow2").and_then(|x| x.as_u64()) {
                let m = v.get("minus").and_then(|x| x.as_u64()).unwrap_or(0);
                let p = v.get("plus").and_then(|x| x.as_u64()).unwrap_or(0);
                IrValue::BigUint((BigUint::from(1u8) << (bits as usize)) - BigUint::from(m) + BigUint::from(p))
            } else {
                IrValue::BigUint(BigUint::from(v["v"].as_u64().unwrap_or(0)))
            }
        }
        "Point" => {
            let k = v["v"].as_i64().unwrap_or(0);
            let s = if k < 0 { -JubjubScalar::from((-k) as u64) } else { JubjubScalar::from(k as u64) };
            IrValue::JubjubPoint(JubjubSubgroup::generator() * s)
        }
        "Scalar" => {
            if v.get("s").and_then(|x| x.as_str()) == Some("minus1") {
                IrValue::JubjubScalar(-JubjubScalar::ONE)
            } else {
                IrValue::JubjubScalar(JubjubScalar::from(v["v"].as_u64().unwrap_or(0)))
            }
        }
        other => return Err(format!("unknown value kind {other}")),
    })
}

fn cls<T, E: std::fmt::Debug>(r: std::thread::Result<Result<T, E>>) -> (&'static str, Option<T>, String) {
    match r {
        Ok(Ok(v)) => ("ok", Some(v), String::new()),
        Ok(Err(e)) => ("err", None, format!("{e:?}").chars().take(160).collect()),
        Err(p) => ("panic", None, panic_msg(p).chars().take(160).collect()),
    }
}

fn fhex(x: &F) -> String {
    util::hex(x.to_repr().as_ref())
}

/// The values the circuit itself ties to the plain instance column: follow each
/// instance cell's copy cycle to an advice/fixed cell and read its value.
fn self_instance(mp: &MockProver<F>) -> Vec<F> {
    use rayon::iter::ParallelIterator;
    let cols = mp.permutation().columns().to_vec();
    let maps: Vec<Vec<(usize, usize)>> = mp.permutation().mapping().map(|c| c.collect()).collect();
    let Some(ci) = cols.iter().position(|c| matches!(c.column_type(), Any::Instance) && c.index() == 1) else {
        return vec![];
    };
    let mut out = vec![];
    for r in 0..maps[ci].len() {
        let (mut c, mut rr) = maps[ci][r];
        if (c, rr) == (ci, r) {
            break;
        }
        let mut val = None;
        for _ in 0..10000 {
            match cols[c].column_type() {
                Any::Advice(_) => {
                    if let CellValue::Assigned(v) = mp.advice()[cols[c].index()][rr] {
                        val = Some(v);
                    }
                    break;
                }
                Any::Fixed => {
                    if let CellValue::Assigned(v) = mp.fixed()[cols[c].index()][rr] {
                        val = Some(v);
                    }
                    break;
                }
                Any::Instance => {
                    let n = maps[c][rr];
                    if n == (ci, r) {
                        break;
                    }
                    c = n.0;
                    rr = n.1;
                }
            }
        }
        out.push(val.unwrap_or(F::ZERO));
    }
    out
}

pub fn run_one(sc: &J) -> J {
    let prog_json = sc["prog"].clone();
    let instrs: Result<Vec<Instruction>, _> = serde_json::from_value(prog_json.clone());
    let instrs = match instrs {
        Ok(i) => i,
        Err(e) => return json!({"ev":"Zkir","id":sc["id"],"load":"err","detail":format!("json: {e}"),"harness_error":true}),
    };
    let mut res = json!({"ev":"Zkir","id":sc["id"],"expect":sc["expect"],"nops":instrs.len()});
    // 1. load
    let (lc, rel, ldet) = cls(catch_unwind(AssertUnwindSafe(|| ZkirRelation::from_instructions(&instrs))));
    res["load"] = json!(lc);
    res["load_detail"] = json!(ldet);
    let Some(rel) = rel else {
        res["off"] = json!("skip");
        res["circ"] = json!("skip");
        return res;
    };
    // 2. round trips
    let raw = leak(&json!({"instructions": prog_json}).to_string());
    let (jc, rel_j, _) = cls(catch_unwind(AssertUnwindSafe(|| ZkirRelation::read(raw))));
    let mut b0 = vec![];
    let wr = rel.write_relation(&mut b0).is_ok();
    let json_same = match &rel_j {
        Some(r2) => {
            let mut b = vec![];
            r2.write_relation(&mut b).is_ok() && b == b0
        }
        None => false,
    };
    let (bc, rel_b, _) = cls(catch_unwind(AssertUnwindSafe(|| ZkirRelation::read_relation(&mut &b0[..]))));
    let bin_same = match &rel_b {
        Some(r2) => {
            let mut b = vec![];
            r2.write_relation(&mut b).is_ok() && b == b0
        }
        None => false,
    };
    res["rt_json"] = json!(if jc == "ok" && json_same && wr { "same" } else { jc });
    res["rt_bin"] = json!(if bc == "ok" && bin_same { "same" } else { bc });
    // 3. witness
    let mut wit: HashMap<&'static str, IrValue> = HashMap::new();
    if let Some(m) = sc["wit"].as_object() {
        for (k, v) in m {
            match value_of(v) {
                Ok(val) => {
                    wit.insert(leak(k), val);
                }
                Err(e) => {
                    res["harness_error"] = json!(e);
                    return res;
                }
            }
        }
    }
    // 4. off-circuit
    let (oc, pis, odet) = cls(catch_unwind(AssertUnwindSafe(|| rel.public_inputs(wit.clone()))));
    res["off"] = json!(oc);
    res["off_detail"] = json!(odet);
    let enc: Option<Vec<F>> = pis.as_ref().and_then(|p| ZkirRelation::format_instance(p).ok());
    if oc == "ok" && enc.is_none() {
        res["off"] = json!("err");
        res["off_detail"] = json!("format_instance failed");
    }
    res["npub"] = json!(enc.as_ref().map(|e| e.len()));
    // 5. in-circuit
    let circ = catch_unwind(AssertUnwindSafe(|| {
        let inst = pis.clone().unwrap_or_default();
        let circuit = MidnightCircuit::new(&rel, Value::known(inst), Value::known(wit.clone()), None);
        let k = circuit.min_k();
        let mp = MockProver::run(k, &circuit, vec![vec![], vec![]]).map_err(|e| format!("synth:{e:?}"))?;
        let pi_self = self_instance(&mp);
        let mp2 = MockProver::run(k, &circuit, vec![vec![], pi_self.clone()]).map_err(|e| format!("synth:{e:?}"))?;
        let sat = verify_ok(&mp2);
        // with the off-circuit encoding and its single-position edits
        let mut enc_sat = None;
        let mut edits_rejected = None;
        if let Some(e) = &enc {
            let m = MockProver::run(k, &circuit, vec![vec![], e.clone()]).map_err(|e| format!("synth:{e:?}"))?;
            enc_sat = Some(verify_ok(&m));
            let mut all = true;
            let n = e.len();
            let picks: Vec<usize> = if n <= 6 { (0..n).collect() } else { vec![0, 1, n / 2, n - 2, n - 1] };
            for i in picks {
                let mut e2 = e.clone();
                e2[i] += F::ONE;
                let m = MockProver::run(k, &circuit, vec![vec![], e2]).map_err(|e| format!("synth:{e:?}"))?;
                if verify_ok(&m) {
                    all = false;
                }
            }
            // one more / one fewer public input
            let mut e3 = e.clone();
            e3.push(F::ZERO);
            if let Ok(m) = MockProver::run(k, &circuit, vec![vec![], e3]) {
                // trailing zero equals the padding value: allowed to be satisfiable only if it is unconstrained padding
                let _ = m;
            }
            edits_rejected = Some(all);
        }
        Ok::<_, String>((k, sat, pi_self, enc_sat, edits_rejected))
    }));
    match circ {
        Err(p) => {
            res["circ"] = json!("panic");
            res["circ_detail"] = json!(panic_msg(p).chars().take(160).collect::<String>());
        }
        Ok(Err(e)) => {
            res["circ"] = json!("synth_err");
            res["circ_detail"] = json!(e.chars().take(160).collect::<String>());
        }
        Ok(Ok((k, sat, pi_self, enc_sat, edits_rejected))) => {
            res["circ"] = json!(if sat { "sat" } else { "unsat" });
            res["k"] = json!(k);
            res["self_eq_enc"] = json!(enc.as_ref().map(|e| *e == pi_self));
            res["enc_sat"] = json!(enc_sat);
            res["edits_rejected"] = json!(edits_rejected);
            res["pi_self"] = json!(pi_self.iter().take(6).map(fhex).collect::<Vec<_>>());
        }
    }
    res["enc"] = json!(enc.map(|e| e.iter().take(6).map(fhex).collect::<Vec<_>>()));
    res
}

/// MockProver::verify, with one kind of panic turned into the verdict it interrupts: the checker found a violated gate and,
/// while RENDERING that failure, hit `unreachable!()` in proofs/src/dev/util.rs (cell_value on a queried cell that was never
/// assigned and is masked by a zero factor). The failure exists, so the verdict is "not satisfied"; any other panic is re-raised.
fn verify_ok(mp: &MockProver<F>) -> bool {
    match catch_unwind(AssertUnwindSafe(|| mp.verify().is_ok())) {
        Ok(b) => b,
        Err(p) => {
            let loc = crate::LAST_PANIC.lock().map(|g| g.clone()).unwrap_or_default();
            if loc.contains("proofs/src/dev/util.rs") {
                false
            } else {
                std::panic::resume_unwind(p)
            }
        }
    }
}

pub fn main(args: &[String]) -> i32 {
    let scen = util::read_ndjson(&args[0]);
    let mut out = util::create(&args[1]);
    writeln!(out, "{}", json!({"ev":"header","prop":"C18","n":scen.len()})).unwrap();
    for sc in scen.iter() {
        let r = run_one(sc);
        writeln!(out, "{r}").unwrap();
        out.flush().unwrap();
    }
    0
}
