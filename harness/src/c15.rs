//! C15 driver: TLC-enumerated batches replayed into
//! `midnight_zk_stdlib::batch_verify` (with a recording transcript hash),
//! `Guard::batch_verify`, and the off-circuit `Accumulator` operations.

use std::{
    collections::BTreeMap,
    io::Write,
    panic::{catch_unwind, AssertUnwindSafe},
};

use ff::Field;
use group::Group;
use midnight_circuits::verifier::{self, Accumulator, BlstrsEmulation};
use midnight_curves::{Bls12, Fq as F, G1Projective};
use midnight_proofs::{
    plonk::prepare,
    poly::{
        commitment::Guard,
        kzg::{msm::DualMSM, params::ParamsKZG, KZGCommitmentScheme},
    },
    transcript::{CircuitTranscript, Transcript},
};
use midnight_zk_stdlib::{self as std_lib, MidnightCircuit, MidnightVK, Relation};
use rand::SeedableRng;
use rand_chacha::ChaCha8Rng;
use serde_json::{json, Value as J};

use crate::{
    plonkrun::{panic_msg, Blake},
    rec::{self, RecH},
    rels::{self, MulRel, SqRel},
    util,
};

type RH = RecH<Blake>;
type S = BlstrsEmulation;

#[derive(Clone)]
pub struct Member {
    pub vk: MidnightVK,
    pub vk_name: String,
    pub pi: Vec<F>,
    pub proof: Vec<u8>,
}

pub struct World {
    pub params: ParamsKZG<Bls12>,
    pub members: BTreeMap<String, Member>,
}

fn cls(r: &Result<Result<(), String>, String>) -> &'static str {
    match r {
        Ok(Ok(())) => "ok",
        Ok(Err(_)) => "err",
        Err(_) => "panic",
    }
}

fn guard<T>(f: impl FnOnce() -> Result<(), T>) -> Result<Result<(), String>, String>
where
    T: std::fmt::Debug,
{
    match catch_unwind(AssertUnwindSafe(f)) {
        Ok(r) => Ok(r.map_err(|e| format!("{e:?}"))),
        Err(p) => Err(panic_msg(p)),
    }
}

pub fn build_world(seed: u64) -> World {
    let mut rng = ChaCha8Rng::seed_from_u64(seed);
    let kmul = MidnightCircuit::from_relation(&MulRel).min_k();
    let ksq = MidnightCircuit::from_relation(&SqRel).min_k();
    let k = kmul.max(ksq);
    let params = ParamsKZG::<Bls12>::unsafe_setup(k, &mut rng);
    let mut pm = params.clone();
    std_lib::downsize_srs_for_relation(&mut pm, &MulRel);
    let mut ps = params.clone();
    std_lib::downsize_srs_for_relation(&mut ps, &SqRel);
    let vk_m = std_lib::setup_vk(&pm, &MulRel);
    let pk_m = std_lib::setup_pk(&MulRel, &vk_m);
    let vk_s = std_lib::setup_vk(&ps, &SqRel);
    let pk_s = std_lib::setup_pk(&SqRel, &vk_s);
    let mut members = BTreeMap::new();
    for i in 0..2u64 {
        let (inst, wit) = rels::mul_case(i);
        let proof = std_lib::prove::<MulRel, Blake>(&pm, &pk_m, &MulRel, &inst, wit, &mut rng).unwrap();
        members.insert(format!("m{i}"), Member { vk: vk_m.clone(), vk_name: "vk_mul".into(), pi: vec![inst], proof });
    }
    let (inst, wit) = rels::sq_case(0);
    let proof = std_lib::prove::<SqRel, Blake>(&ps, &pk_s, &SqRel, &inst, wit, &mut rng).unwrap();
    members.insert("s0".into(), Member { vk: vk_s.clone(), vk_name: "vk_sq".into(), pi: vec![inst.0, inst.1], proof });
    // invalid members derived from m0
    let m0 = members["m0"].clone();
    let mut bad = m0.clone();
    // corrupt a scalar near the end of the proof (an evaluation): replace by another canonical scalar
    let n = bad.proof.len();
    let off = n - 48 - 32; // last q-eval before pi
    let mut sc = [0u8; 32];
    sc.copy_from_slice(&bad.proof[off..off + 32]);
    let v = Option::<F>::from(<F as ff::PrimeField>::from_repr(sc)).unwrap_or(F::ZERO) + F::ONE;
    bad.proof[off..off + 32].copy_from_slice(ff::PrimeField::to_repr(&v).as_ref());
    members.insert("badproof".into(), bad);
    let mut bad = m0.clone();
    bad.pi[0] += F::ONE;
    members.insert("badpi".into(), bad);
    // a colluding pair: the same valid proof with its final opening witness pi replaced by pi + D and by pi - D.
    // Each is invalid alone; their errors are opposite, so they cancel in any combination that weighs them equally.
    {
        use group::{Curve, GroupEncoding};
        let mut repr = <midnight_curves::G1Affine as GroupEncoding>::Repr::default();
        repr.as_mut().copy_from_slice(&m0.proof[n - 48..]);
        let pi: Option<midnight_curves::G1Affine> = midnight_curves::G1Affine::from_bytes(&repr).into();
        let pi = midnight_curves::G1Projective::from(pi.expect("the last element of a proof is a G1 point"));
        let d = <midnight_curves::G1Projective as group::Group>::generator();
        for (name, q) in [("pairA", pi + d), ("pairB", pi - d)] {
            let mut bad = m0.clone();
            bad.proof[n - 48..].copy_from_slice(q.to_affine().to_bytes().as_ref());
            members.insert(name.into(), bad);
        }
    }
    let mut bad = m0.clone();
    bad.vk = vk_s.clone();
    bad.vk_name = "vk_sq".into();
    members.insert("badvk".into(), bad); // pi length 1 vs vk expecting 2 -> InvalidInstances
    let mut bad = members["s0"].clone();
    bad.pi.pop();
    members.insert("shortpi".into(), bad);
    let mut bad = m0.clone();
    bad.proof = vec![0xff; 100];
    members.insert("garbage".into(), bad);
    let mut bad = m0.clone();
    bad.proof.truncate(n / 2);
    members.insert("truncated".into(), bad);
    let mut bad = m0;
    bad.proof.push(0);
    members.insert("trailing".into(), bad);
    World { params, members }
}

fn single_verdict(w: &World, m: &Member) -> &'static str {
    let vp = w.params.verifier_params();
    let r = guard(|| std_lib::batch_verify::<Blake>(&vp, &[m.vk.clone()], &[m.pi.clone()], &[m.proof.clone()]));
    cls(&r)
}

fn dual_msm_of(m: &Member) -> Result<DualMSM<Bls12>, String> {
    let r = catch_unwind(AssertUnwindSafe(|| {
        let mut t = CircuitTranscript::<Blake>::init_from_bytes(&m.proof);
        let g = prepare::<F, KZGCommitmentScheme<Bls12>, _>(m.vk.vk(), &[&[G1Projective::identity()]], &[&[&m.pi]], &mut t)
            .map_err(|e| format!("{e:?}"))?;
        t.assert_empty().map_err(|e| format!("{e:?}"))?;
        Ok::<_, String>(g)
    }));
    match r {
        Ok(x) => x,
        Err(p) => Err(format!("panic:{}", panic_msg(p))),
    }
}

pub fn run_batch(w: &World, sc: &J, out: &mut dyn Write) {
    let names: Vec<String> = sc["members"].as_array().unwrap().iter().map(|x| x.as_str().unwrap().to_string()).collect();
    let ms: Vec<&Member> = names.iter().map(|n| &w.members[n]).collect();
    let vp = w.params.verifier_params();
    let mismatch = sc["mismatch"].as_str().unwrap_or("none");
    let mut vks: Vec<MidnightVK> = ms.iter().map(|m| m.vk.clone()).collect();
    let mut pis: Vec<Vec<F>> = ms.iter().map(|m| m.pi.clone()).collect();
    let mut proofs: Vec<Vec<u8>> = ms.iter().map(|m| m.proof.clone()).collect();
    match mismatch {
        "vks" => {
            vks.pop();
        }
        "pis" => {
            pis.pop();
        }
        "proofs" => {
            proofs.pop();
        }
        _ => {}
    }
    let singles: Vec<&str> = ms.iter().map(|m| single_verdict(w, m)).collect();
    rec::hrec_reset();
    let r = guard(|| std_lib::batch_verify::<RH>(&vp, &vks, &pis, &proofs));
    let hev = rec::hrec_take();
    // the batching transcript is hasher 0 (created first)
    let racc: Vec<&str> = hev.iter().filter(|(id, _)| *id == 0).map(|(_, op)| *op).collect();
    // what preceded each absorb on the batching transcript: must be a squeeze on the member's own transcript
    let mut bound_after_summary = true;
    for (i, (id, op)) in hev.iter().enumerate() {
        if *id == 0 && *op == "absorb" && (i == 0 || hev[i - 1].1 != "squeeze" || hev[i - 1].0 == 0) {
            bound_after_summary = false;
        }
    }
    // Guard::batch_verify on prepared guards (members whose prepare succeeds)
    let guards: Vec<Result<DualMSM<Bls12>, String>> = ms.iter().map(|m| dual_msm_of(m)).collect();
    let gres = if mismatch == "none" && guards.iter().all(|g| g.is_ok()) {
        let gs: Vec<DualMSM<Bls12>> = guards.iter().map(|g| g.clone().unwrap()).collect();
        let ps: Vec<_> = gs.iter().map(|_| vp.clone()).collect();
        let r = guard(|| DualMSM::<Bls12>::batch_verify(gs.into_iter(), ps.iter()));
        cls(&r).to_string()
    } else if mismatch != "none" && guards.iter().all(|g| g.is_ok()) {
        let gs: Vec<DualMSM<Bls12>> = guards.iter().map(|g| g.clone().unwrap()).collect();
        let ps: Vec<_> = gs.iter().skip(1).map(|_| vp.clone()).collect();
        let r = guard(|| DualMSM::<Bls12>::batch_verify(gs.into_iter(), ps.iter()));
        cls(&r).to_string()
    } else {
        "skip".to_string()
    };
    // guards combined by hand in the two usual ways, then checked once: g0 + r g1 + r^2 g2 + ... built by scaling the
    // newcomer ("power") and by scaling the accumulator ("horner")
    let comb_res = if mismatch == "none" && !ms.is_empty() && guards.iter().all(|g| g.is_ok()) {
        let gs: Vec<DualMSM<Bls12>> = guards.iter().map(|g| g.clone().unwrap()).collect();
        let rr = F::from(0x1234_5678_9abc_def1u64);
        let power = guard(|| {
            let mut acc = gs[0].clone();
            let mut rp = rr;
            for g in gs.iter().skip(1) {
                let mut g = g.clone();
                g.scale(rp);
                acc.add_msm(g);
                rp *= rr;
            }
            if acc.check(&vp) { Ok(()) } else { Err("rejected") }
        });
        let horner = guard(|| {
            let mut acc = gs[0].clone();
            for g in gs.iter().skip(1) {
                acc.scale(rr);
                acc.add_msm(g.clone());
            }
            if acc.check(&vp) { Ok(()) } else { Err("rejected") }
        });
        json!({"power": cls(&power), "horner": cls(&horner)})
    } else {
        json!({"power": "skip", "horner": "skip"})
    };
    // Accumulator: from_dual_msm per member (own vk name), accumulate, check, collapse, check
    let acc_res = if mismatch == "none" && !ms.is_empty() && guards.iter().all(|g| g.is_ok()) {
        let r = catch_unwind(AssertUnwindSafe(|| {
            let mut fixed: BTreeMap<String, G1Projective> = BTreeMap::new();
            let mut accs = vec![];
            let mut each = vec![];
            for (m, g) in ms.iter().zip(guards.iter()) {
                let fb = verifier::fixed_bases::<S>(&m.vk_name, m.vk.vk());
                let acc = Accumulator::<S>::from_dual_msm(g.clone().unwrap(), &m.vk_name, &fb);
                each.push(acc.check(&w.params.s_g2().into(), &fb));
                fixed.extend(fb);
                accs.push(acc);
            }
            let mut acc = Accumulator::<S>::accumulate(&accs);
            let c1 = acc.check(&w.params.s_g2().into(), &fixed);
            acc.collapse();
            let c2 = acc.check(&w.params.s_g2().into(), &fixed);
            // collapse each first, then accumulate
            let mut accs2 = accs.clone();
            for a in accs2.iter_mut() {
                a.collapse();
            }
            let c3 = Accumulator::<S>::accumulate(&accs2).check(&w.params.s_g2().into(), &fixed);
            (each, c1, c2, c3)
        }));
        match r {
            Ok((each, c1, c2, c3)) => json!({"each": each, "acc": c1, "collapsed": c2, "collapse_first": c3}),
            Err(p) => json!({"panic": panic_msg(p)}),
        }
    } else {
        json!({"skip": true})
    };
    writeln!(
        out,
        "{}",
        json!({"ev":"Batch","members":names,"mismatch":mismatch,"singles":singles,"res":cls(&r),
               "detail": format!("{r:?}").chars().take(160).collect::<String>(),
               "racc":racc,"bound_after_summary":bound_after_summary,"guard_res":gres,"combined":comb_res,"acc":acc_res})
    )
    .unwrap();
}

pub fn main(args: &[String]) -> i32 {
    let scen = util::read_ndjson(&args[0]);
    let mut out = util::create(&args[1]);
    let seed: u64 = args.get(2).and_then(|s| s.parse().ok()).unwrap_or(1);
    let w = build_world(seed);
    writeln!(out, "{}", json!({"ev":"header","prop":"C15","n":scen.len(),
        "pool": w.members.keys().collect::<Vec<_>>()})).unwrap();
    // sanity of the pool itself: the harness's notion of valid / invalid members
    // (valid by construction: honest proofs with their own statement and key; invalid by construction: a changed
    // evaluation, a changed public input, another key, a dropped public input, garbage, truncation, one trailing byte);
    // the batch of one must agree with the construction - a trace line, judged by Batch_Trace
    for (name, m) in w.members.iter() {
        let v = single_verdict(&w, m);
        let expect_ok = matches!(name.as_str(), "m0" | "m1" | "s0");
        writeln!(out, "{}", json!({"ev":"Pool","name":name,"expect_ok":expect_ok,"single":v})).unwrap();
    }
    for sc in scen.iter() {
        run_batch(&w, sc, &mut out);
    }
    0
}
