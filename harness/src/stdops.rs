//! A family of standard-library relations, one per gadget operation, with
//! witnesses given as JSON values. Used by C05-C09.

use ff::{Field, PrimeField};
use group::Group;
use midnight_circuits::{
    instructions::*,
    types::{AssignedByte, AssignedNative},
};
use midnight_curves::{
    k256::{self as k256_mod, K256},
    Fq as F, Fr as JubjubScalar, JubjubExtended, JubjubSubgroup,
};
use midnight_proofs::{
    circuit::{Layouter, Value},
    plonk::Error,
};
use midnight_zk_stdlib::{Relation, ZkStdLib, ZkStdLibArch};
use num_bigint::BigUint;
use serde_json::Value as J;

#[derive(Clone, Debug)]
pub struct StdOp {
    pub op: String,
    pub n: usize,
}

fn big_of(v: &J) -> BigUint {
    if let Some(s) = v.as_str() {
        BigUint::parse_bytes(s.trim_start_matches("0x").as_bytes(), 16).unwrap_or_default()
    } else {
        BigUint::from(v.as_u64().unwrap_or(0))
    }
}
fn i64_scalar<S: PrimeField>(k: i64) -> S {
    if k < 0 {
        -S::from((-k) as u64)
    } else {
        S::from(k as u64)
    }
}
pub fn secp_scalar_of(v: &J) -> k256_mod::Fq {
    if let Some(k) = v.as_i64() {
        return i64_scalar(k);
    }
    let b = big_of(v);
    let mut acc = k256_mod::Fq::ZERO;
    for d in b.to_bytes_be() {
        acc = acc * k256_mod::Fq::from(256u64) + k256_mod::Fq::from(d as u64);
    }
    acc
}
pub fn secp_point_of(v: &J) -> K256 {
    K256::generator() * i64_scalar::<k256_mod::Fq>(v.as_i64().unwrap_or(0))
}
pub fn jub_point_of(v: &J) -> JubjubSubgroup {
    JubjubSubgroup::generator() * i64_scalar::<JubjubScalar>(v.as_i64().unwrap_or(0))
}
pub fn native_of(v: &J) -> F {
    if let Some(k) = v.as_i64() {
        return i64_scalar(k);
    }
    let b = big_of(v);
    let mut acc = F::ZERO;
    for d in b.to_bytes_be() {
        acc = acc * F::from(256u64) + F::from(d as u64);
    }
    acc
}

impl Relation for StdOp {
    type Instance = Vec<F>;
    type Witness = Vec<J>;

    fn format_instance(instance: &Vec<F>) -> Result<Vec<F>, Error> {
        Ok(instance.clone())
    }

    fn used_chips(&self) -> ZkStdLibArch {
        let o = self.op.as_str();
        ZkStdLibArch {
            jubjub: o.starts_with("jub") || o == "htc" || o == "mixpos",
            poseidon: o.starts_with("poseidon") || o == "htc" || o == "mixpos" || o.starts_with("map"),
            sha2_256: o.starts_with("sha256"),
            sha2_512: o.starts_with("sha512"),
            secp256k1: o.starts_with("secp"),
            bls12_381: o.starts_with("bls"),
            nr_pow2range_cols: 4,
            ..ZkStdLibArch::default()
        }
    }

    fn circuit(
        &self,
        s: &ZkStdLib,
        l: &mut impl Layouter<F>,
        _instance: Value<Vec<F>>,
        witness: Value<Vec<J>>,
    ) -> Result<(), Error> {
        let w = |i: usize| witness.clone().map(move |w| w[i].clone());
        let o = self.op.as_str();
        if let Some(rest) = o.strip_prefix("nat_") {
            let x: AssignedNative<F> = s.assign(l, w(0).map(|v| native_of(&v)))?;
            match rest {
                "is_zero" => {
                    let b = s.is_zero(l, &x)?;
                    s.constrain_as_public_input(l, &b)?;
                }
                "inv0" => {
                    let r = s.inv0(l, &x)?;
                    s.constrain_as_public_input(l, &r)?;
                }
                "is_equal" => {
                    let y: AssignedNative<F> = s.assign(l, w(1).map(|v| native_of(&v)))?;
                    let b = s.is_equal(l, &x, &y)?;
                    s.constrain_as_public_input(l, &b)?;
                }
                "to_bytes" => {
                    let bytes = s.assigned_to_le_bytes(l, &x, Some(self.n))?;
                    for b in bytes.iter() {
                        s.constrain_as_public_input(l, b)?;
                    }
                }
                "sgn0" => {
                    let b = s.sgn0(l, &x)?;
                    s.constrain_as_public_input(l, &b)?;
                }
                _ => return Err(Error::Synthesis(format!("unknown op {o}"))),
            }
            return Ok(());
        }
        if let Some(rest) = o.strip_prefix("jub_") {
            let j = s.jubjub();
            let p = j.assign(l, w(0).map(|v| jub_point_of(&v)))?;
            let r = match rest {
                "add" => {
                    let q = j.assign(l, w(1).map(|v| jub_point_of(&v)))?;
                    j.add(l, &p, &q)?
                }
                "double" => j.double(l, &p)?,
                "negate" => j.negate(l, &p)?,
                "mulc" => j.mul_by_constant(l, JubjubScalar::from(self.n as u64), &p)?,
                "msm" => {
                    let q = j.assign(l, w(1).map(|v| jub_point_of(&v)))?;
                    let s1 = j.assign(l, w(2).map(|v| i64_scalar::<JubjubScalar>(v.as_i64().unwrap_or(0))))?;
                    let s2 = j.assign(l, w(3).map(|v| i64_scalar::<JubjubScalar>(v.as_i64().unwrap_or(0))))?;
                    j.msm(l, &[s1, s2], &[p, q])?
                }
                "pub" => p,
                _ => return Err(Error::Synthesis(format!("unknown op {o}"))),
            };
            return j.constrain_as_public_input(l, &r);
        }
        if let Some(rest) = o.strip_prefix("secpf_") {
            // emulated field: secp256k1 scalar field over the native field
            let c = s.secp256k1_scalar();
            let x = c.assign(l, w(0).map(|v| secp_scalar_of(&v)))?;
            let y = c.assign(l, w(1).map(|v| secp_scalar_of(&v)))?;
            let r = match rest {
                "add" => c.add(l, &x, &y)?,
                "sub" => c.sub(l, &x, &y)?,
                "mul" => c.mul(l, &x, &y, None)?,
                "neg" => c.neg(l, &x)?,
                "inv0" => c.inv0(l, &x)?,
                "addsub" => {
                    // a chain that leaves the element un-normalised
                    let t = c.add(l, &x, &y)?;
                    let t = c.add(l, &t, &y)?;
                    c.sub(l, &t, &x)?
                }
                "is_equal" => {
                    let b = c.is_equal(l, &x, &y)?;
                    return s.constrain_as_public_input(l, &b);
                }
                "is_zero" => {
                    let b = c.is_zero(l, &x)?;
                    return s.constrain_as_public_input(l, &b);
                }
                "pub" => x,
                _ => return Err(Error::Synthesis(format!("unknown op {o}"))),
            };
            return c.constrain_as_public_input(l, &r);
        }
        if let Some(rest) = o.strip_prefix("secp_") {
            let c = s.secp256k1_curve();
            let p = c.assign(l, w(0).map(|v| secp_point_of(&v)))?;
            let r = match rest {
                "add" => {
                    let q = c.assign(l, w(1).map(|v| secp_point_of(&v)))?;
                    c.add(l, &p, &q)?
                }
                "double" => c.double(l, &p)?,
                "negate" => c.negate(l, &p)?,
                "mulc" => c.mul_by_constant(l, k256_mod::Fq::from(self.n as u64), &p)?,
                "pub" => p,
                _ => return Err(Error::Synthesis(format!("unknown op {o}"))),
            };
            return c.constrain_as_public_input(l, &r);
        }
        if let Some(rest) = o.strip_prefix("bytes_") {
            // bytes obtained in several ways, read as native values (the cells keep whatever range knowledge the gadget has
            // recorded about them), then operations whose layout depends on that knowledge; n = the bound in bits
            let nb = self.n as u32;
            let (x, y): (AssignedNative<F>, AssignedNative<F>) = match rest {
                "assigned_lt" | "assigned_bound" => {
                    let bs: Vec<AssignedByte<F>> =
                        s.assign_many(l, &[w(0).map(|v| v.as_u64().unwrap_or(0) as u8), w(1).map(|v| v.as_u64().unwrap_or(0) as u8)])?;
                    (bs[0].clone().into(), bs[1].clone().into())
                }
                "decomposed_lt" => {
                    let a: AssignedNative<F> = s.assign(l, w(0).map(|v| F::from(v.as_u64().unwrap_or(0))))?;
                    let b: AssignedNative<F> = s.assign(l, w(1).map(|v| F::from(v.as_u64().unwrap_or(0))))?;
                    let ab = s.assigned_to_le_bytes(l, &a, Some(2))?;
                    let bb = s.assigned_to_le_bytes(l, &b, Some(2))?;
                    (ab[0].clone().into(), bb[0].clone().into())
                }
                _ => {
                    // "selected_lt": a witness bit chooses between two bytes
                    let bs: Vec<AssignedByte<F>> =
                        s.assign_many(l, &[w(0).map(|v| v.as_u64().unwrap_or(0) as u8), w(1).map(|v| v.as_u64().unwrap_or(0) as u8)])?;
                    let c: midnight_circuits::types::AssignedBit<F> = s.assign(l, w(0).map(|v| v.as_u64().unwrap_or(0) % 2 == 1))?;
                    let z = s.select(l, &c, &bs[0], &bs[1])?;
                    (z.into(), bs[1].clone().into())
                }
            };
            if rest == "assigned_bound" {
                s.assert_lower_than_fixed(l, &x, &(BigUint::from(1u8) << nb))?;
                return s.constrain_as_public_input(l, &y);
            }
            let c = s.lower_than(l, &x, &y, nb)?;
            s.constrain_as_public_input(l, &c)?;
            return s.constrain_as_public_input(l, &x);
        }
        if let Some(rest) = o.strip_prefix("bigsel_") {
            // two big integers with DIFFERENT size bounds (n and 2n - 8 bits), a condition bit that picks one of them
            // (select / cond_swap), then an operation whose layout depends on the bounds of its operand
            let g = s.biguint();
            let (nb, nb2) = (self.n as u32, 2 * self.n as u32 - 8);
            let x = g.assign_biguint(l, w(0).map(|v| big_of(&v)), nb)?;
            let y = g.assign_biguint(l, w(1).map(|v| big_of(&v)), nb2)?;
            let b: midnight_circuits::types::AssignedBit<F> = s.assign(l, w(2).map(|v| v.as_u64().unwrap_or(0) == 1))?;
            let r = match rest {
                "mul" | "add" | "lower_than" => g.select(l, &b, &x, &y)?,
                _ => g.cond_swap(l, &b, &x, &y)?.0,
            };
            match rest {
                "mul" | "swap_mul" => {
                    let m = g.mul(l, &r, &r)?;
                    let c = g.lower_than(l, &x, &m)?;
                    s.constrain_as_public_input(l, &c)?;
                }
                "add" => {
                    let m = g.add(l, &r, &x)?;
                    let c = g.lower_than(l, &m, &y)?;
                    s.constrain_as_public_input(l, &c)?;
                }
                _ => {
                    let c = g.lower_than(l, &r, &x)?;
                    s.constrain_as_public_input(l, &c)?;
                }
            }
            return Ok(());
        }
        if let Some(rest) = o.strip_prefix("big_") {
            let g = s.biguint();
            let nb = self.n as u32;
            let x = g.assign_biguint(l, w(0).map(|v| big_of(&v)), nb)?;
            let y = g.assign_biguint(l, w(1).map(|v| big_of(&v)), nb)?;
            match rest {
                "add" => {
                    let r = g.add(l, &x, &y)?;
                    g.constrain_as_public_input(l, &r, nb + 1)?;
                }
                "sub" => {
                    let r = g.sub(l, &x, &y)?;
                    g.constrain_as_public_input(l, &r, nb)?;
                }
                "mul" => {
                    let r = g.mul(l, &x, &y)?;
                    g.constrain_as_public_input(l, &r, 2 * nb)?;
                }
                "div_rem" => {
                    let (q, r) = g.div_rem(l, &x, &y)?;
                    g.constrain_as_public_input(l, &q, nb)?;
                    g.constrain_as_public_input(l, &r, nb)?;
                }
                "lower_than" => {
                    let b = g.lower_than(l, &x, &y)?;
                    s.constrain_as_public_input(l, &b)?;
                }
                _ => return Err(Error::Synthesis(format!("unknown op {o}"))),
            }
            return Ok(());
        }
        if o == "map_insert" || o == "map_get" {
            // a map that holds (1, 5); the witness is the key (and the value to insert)
            use midnight_circuits::{
                hash::poseidon::PoseidonChip,
                instructions::map::{MapCPU, MapInstructions},
                map::cpu::MapMt,
            };
            let mut map = s.map_gadget().clone();
            let init = w(0).map(|_| {
                let mut m = MapMt::<F, PoseidonChip<F>>::new(&F::from(0u64));
                m.insert(&F::from(1u64), &F::from(5u64));
                m
            });
            map.init(l, init)?;
            let k: AssignedNative<F> = s.assign(l, w(0).map(|v| native_of(&v)))?;
            if o == "map_insert" {
                let v: AssignedNative<F> = s.assign(l, w(1).map(|v| native_of(&v)))?;
                map.insert(l, &k, &v)?;
            } else {
                let v = map.get(l, &k)?;
                s.constrain_as_public_input(l, &v)?;
            }
            return s.constrain_as_public_input(l, &map.succinct_repr());
        }
        if o == "mixpos" {
            // something that occupies the higher advice columns deeper than the lower ones,
            // followed by a Poseidon hash
            let j = s.jubjub();
            let p = j.assign(l, w(0).map(|v| jub_point_of(&v)))?;
            let q = j.double(l, &p)?;
            let r = j.add(l, &p, &q)?;
            j.constrain_as_public_input(l, &r)?;
            let xs: Vec<Value<F>> = (0..self.n).map(|i| w(1).map(move |v| native_of(&v[i]))).collect();
            let ax: Vec<AssignedNative<F>> = s.assign_many(l, &xs)?;
            let h = s.poseidon(l, &ax)?;
            return s.constrain_as_public_input(l, &h);
        }
        if o == "sha256" || o == "poseidon" {
            if o == "sha256" {
                let bytes: Vec<Value<u8>> = (0..self.n).map(|i| w(0).map(move |v| v[i].as_u64().unwrap_or(0) as u8)).collect();
                let ab: Vec<AssignedByte<F>> = s.assign_many(l, &bytes)?;
                let h = s.sha2_256(l, &ab)?;
                for b in h.iter() {
                    s.constrain_as_public_input(l, b)?;
                }
            } else {
                let xs: Vec<Value<F>> = (0..self.n).map(|i| w(0).map(move |v| native_of(&v[i]))).collect();
                let ax: Vec<AssignedNative<F>> = s.assign_many(l, &xs)?;
                let h = s.poseidon(l, &ax)?;
                s.constrain_as_public_input(l, &h)?;
            }
            return Ok(());
        }
        Err(Error::Synthesis(format!("unknown op {o}")))
    }

    fn write_relation<W: std::io::Write>(&self, _w: &mut W) -> std::io::Result<()> {
        Ok(())
    }
    fn read_relation<R: std::io::Read>(_r: &mut R) -> std::io::Result<Self> {
        Ok(StdOp { op: "nat_is_zero".into(), n: 0 })
    }
}

#[allow(dead_code)]
pub fn _unused(_: JubjubExtended) {}
