//! C14 driver: replay TLC-generated multi-opening scenarios through the public
//! API (`commit`, `multi_open`, `multi_prepare`, `VerifierQuery::{new, from_parts}`).

use std::{
    io::Write,
    panic::{catch_unwind, AssertUnwindSafe},
};

use ff::Field;
use midnight_curves::{Bls12, Fq as F, G1Projective};
use midnight_proofs::{
    poly::{
        commitment::{Guard, PolynomialCommitmentScheme},
        kzg::params::ParamsKZG,
        Coeff, CommitmentLabel, Error as PolyError, EvaluationDomain, Polynomial, ProverQuery,
        VerifierQuery,
    },
    transcript::{CircuitTranscript, Transcript},
    utils::arithmetic::eval_polynomial,
};
use rand::{Rng, SeedableRng};
use rand_chacha::ChaCha8Rng;
use serde_json::{json, Value as J};

use crate::{
    plonkrun::{panic_msg, Blake, ParamCache, CS},
    rec::{self, RecT},
    util,
};

type Poly = Polynomial<F, Coeff>;

fn rand_poly(dom: &EvaluationDomain<F>, rng: &mut ChaCha8Rng, class: &str) -> Poly {
    let n = 1usize << dom.k();
    let v: Vec<F> = match class {
        "zero" => vec![F::ZERO; n],
        "const" => {
            let mut v = vec![F::ZERO; n];
            v[0] = F::from(rng.gen_range(1..1000u64));
            v
        }
        _ => (0..n).map(|_| F::random(&mut *rng)).collect(),
    };
    dom.coeff_from_vec(v)
}

struct Outcome {
    res: String,
    detail: String,
    nsets_seen: i64,
}

#[allow(clippy::too_many_arguments)]
fn run_scenario(
    params: &ParamsKZG<Bls12>,
    k: u32,
    pql: &[(usize, usize)],
    corrupt: &[J],
    variant: &str,
    seed: u64,
) -> Outcome {
    let mut rng = ChaCha8Rng::seed_from_u64(seed);
    let dom = EvaluationDomain::<F>::new(1, k);
    let n = 1u64 << k;
    let nref = pql.iter().map(|q| q.0).max().unwrap_or(0);
    let npt = pql.iter().map(|q| q.1).max().unwrap_or(0);
    // chopped variant: first reference queried at exactly one point
    // "twinN": the first TWO such references are chopped into the same N pieces (identical piece values, given to the
    // verifier behind distinct references)
    let singles: Vec<usize> = (1..=nref).filter(|r| pql.iter().filter(|q| q.0 == *r).count() == 1).collect();
    let chopped_refs: Vec<usize> = if variant.starts_with("chopped") {
        singles.iter().take(1).cloned().collect()
    } else if variant.starts_with("twin") {
        singles.iter().take(2).cloned().collect()
    } else {
        vec![]
    };
    let pieces_n: usize = variant.strip_prefix("chopped").or(variant.strip_prefix("twin")).and_then(|s| s.parse().ok()).unwrap_or(2);
    let points: Vec<F> = (0..=npt + 2).map(|_| F::random(&mut rng)).collect();
    let mut polys: Vec<Poly> = vec![];
    let mut piece_polys: Vec<Poly> = vec![];
    for r in 1..=nref + 2 {
        let class = match (variant, r) {
            ("special", 1) => "zero",
            ("special", 2) => "const",
            _ => "rand",
        };
        let mut p = rand_poly(&dom, &mut rng, class);
        if variant == "identical" && r == 2 {
            p = dom.coeff_from_vec(polys[0].to_vec());
        }
        if chopped_refs.contains(&r) {
            // P(X) = sum_i s^i h_i(X) with s = x^(n-1), x the (single) opening point
            let x = points[pql.iter().find(|q| q.0 == r).unwrap().1];
            let s = x.pow_vartime([n - 1]);
            if piece_polys.is_empty() {
                piece_polys = (0..pieces_n).map(|_| rand_poly(&dom, &mut rng, "rand")).collect();
            }
            let mut acc = vec![F::ZERO; n as usize];
            let mut sc = F::ONE;
            for h in piece_polys.iter() {
                for (a, c) in acc.iter_mut().zip(h.iter()) {
                    *a += sc * c;
                }
                sc *= s;
            }
            p = dom.coeff_from_vec(acc);
        }
        polys.push(p);
    }
    let coms: Vec<G1Projective> = polys.iter().map(|p| CS::commit(params, p)).collect();
    let piece_coms: Vec<G1Projective> = piece_polys.iter().map(|p| CS::commit(params, p)).collect();
    let ckind = corrupt[0].as_str().unwrap_or("none").to_string();
    let cidx = corrupt.get(1).and_then(|v| v.as_u64()).map(|v| v as usize - 1);

    // ---------------- prover
    let mut plist: Vec<(usize, usize)> = pql.to_vec();
    if ckind == "pdup" {
        plist.push(pql[0]);
    }
    rec::reset_run();
    rec::start_side();
    let pres = catch_unwind(AssertUnwindSafe(|| {
        let mut t = RecT::<CircuitTranscript<Blake>>::init();
        for c in coms.iter().take(nref) {
            t.write(c).unwrap();
        }
        for c in piece_coms.iter() {
            t.write(c).unwrap();
        }
        for q in pql.iter() {
            t.write(&eval_polynomial(&polys[q.0 - 1], points[q.1])).unwrap();
        }
        let queries: Vec<ProverQuery<F>> =
            plist.iter().map(|q| ProverQuery::new(points[q.1], &polys[q.0 - 1])).collect();
        CS::multi_open(params, &queries, &mut t).map(|_| t.finalize())
    }));
    let pev = rec::take_side();
    let mut proof = match pres {
        Err(p) => return Outcome { res: "panic".into(), detail: format!("prover: {}", panic_msg(p)), nsets_seen: -1 },
        Ok(Err(PolyError::DuplicatedQuery)) => {
            return Outcome { res: "DuplicatedQuery".into(), detail: "prover".into(), nsets_seen: -1 }
        }
        Ok(Err(e)) => return Outcome { res: "reject".into(), detail: format!("prover: {e:?}"), nsets_seen: -1 },
        Ok(Ok(p)) => p,
    };
    // layout of the opening part: after nref+pieces points and |pql| scalars
    let head = nref + piece_coms.len() + pql.len();
    let writes: Vec<_> = pev.iter().filter(|e| e.op == "write").collect();
    let nsets_seen = writes.len() as i64 - head as i64 - 2;
    let off_of = |idx: usize| writes[..idx].iter().map(|e| e.len).sum::<usize>();
    if ckind == "proof" {
        let which = corrupt[1].as_str().unwrap_or("f");
        let idx = match which {
            "f" => head,
            "qeval" => head + 1,
            _ => writes.len() - 1,
        };
        let off = off_of(idx);
        // replace by another valid encoding of the same kind
        if writes[idx].kind == "point" {
            let other = G1Projective::from(coms[0]) + coms[nref];
            let b = <G1Projective as midnight_proofs::transcript::Hashable<Blake>>::to_bytes(&other);
            proof[off..off + b.len()].copy_from_slice(&b);
        } else {
            let v: F = <F as midnight_proofs::transcript::Hashable<Blake>>::read(&mut &proof[off..off + 32]).unwrap();
            let b = <F as midnight_proofs::transcript::Hashable<Blake>>::to_bytes(&(v + F::ONE));
            proof[off..off + 32].copy_from_slice(&b);
        }
    }

    // ---------------- verifier
    let vres = catch_unwind(AssertUnwindSafe(|| {
        let mut t = RecT::<CircuitTranscript<Blake>>::init_from_bytes(&proof);
        let rcoms: Vec<G1Projective> = (0..nref).map(|_| t.read().unwrap()).collect();
        let rpieces: Vec<G1Projective> = (0..piece_coms.len()).map(|_| t.read().unwrap()).collect();
        let evals: Vec<F> = (0..pql.len()).map(|_| t.read().unwrap()).collect();
        let fresh_com = coms[nref];
        let mut vq: Vec<VerifierQuery<F, CS>> = vec![];
        let mut vlist: Vec<(usize, usize, F)> =
            pql.iter().zip(evals.iter()).map(|(q, e)| (q.0, q.1, *e)).collect();
        match (ckind.as_str(), cidx) {
            ("dup", _) | ("pdup", _) => vlist.push(vlist[0]),
            ("eval", Some(i)) => vlist[i].2 += F::ONE,
            ("point", Some(i)) => vlist[i].1 = npt + 1,
            ("com", Some(i)) => vlist[i].0 = nref + 1,
            ("point_used", Some(i)) => {
                let cur = vlist[i].1;
                let o = pql.iter().map(|q| q.1).filter(|p| *p != cur).min();
                vlist[i].1 = o.unwrap_or(npt + 1);
            }
            ("com_used", Some(i)) => {
                let cur = vlist[i].0;
                let o = pql.iter().map(|q| q.0).filter(|p| *p != cur).min();
                vlist[i].0 = o.unwrap_or(nref + 1);
            }
            _ => {}
        }
        let rpieces_copy = rpieces.clone();
        let part_refs: Vec<&G1Projective> = rpieces.iter().collect();
        let part_refs2: Vec<&G1Projective> = rpieces_copy.iter().collect();
        for (r, p, e) in vlist.iter() {
            if chopped_refs.contains(r) {
                let parts = if chopped_refs.first() == Some(r) { &part_refs } else { &part_refs2 };
                vq.push(VerifierQuery::from_parts(points[*p], CommitmentLabel::NoLabel, parts, *e, n));
            } else {
                let c = if *r == nref + 1 { &fresh_com } else { &rcoms[*r - 1] };
                vq.push(VerifierQuery::new(points[*p], CommitmentLabel::NoLabel, c, *e));
            }
        }
        let g = CS::multi_prepare(&vq, &mut t)?;
        t.assert_empty().map_err(|_| PolyError::OpeningError)?;
        g.verify(&params.verifier_params())
    }));
    match vres {
        Err(p) => Outcome { res: "panic".into(), detail: format!("verifier: {}", panic_msg(p)), nsets_seen },
        Ok(Err(PolyError::DuplicatedQuery)) => Outcome { res: "DuplicatedQuery".into(), detail: "verifier".into(), nsets_seen },
        Ok(Err(e)) => Outcome { res: "reject".into(), detail: format!("{e:?}"), nsets_seen },
        Ok(Ok(())) => Outcome { res: "ok".into(), detail: String::new(), nsets_seen },
    }
}

pub fn main(args: &[String]) -> i32 {
    let scen = util::read_ndjson(&args[0]);
    let mut out = util::create(&args[1]);
    let mut cache = ParamCache::default();
    writeln!(out, "{}", json!({"ev":"header","prop":"C14","n":scen.len()})).unwrap();
    for sc in scen.iter() {
        let pql: Vec<(usize, usize)> = sc["pql"]
            .as_array()
            .unwrap()
            .iter()
            .map(|q| (q[0].as_u64().unwrap() as usize, q[1].as_u64().unwrap() as usize))
            .collect();
        let corrupt = sc["corrupt"].as_array().unwrap().clone();
        let k = sc["k"].as_u64().unwrap_or(4) as u32;
        let variant = sc["variant"].as_str().unwrap_or("rand");
        let seed = sc["seed"].as_u64().unwrap_or(1);
        let params = cache.get(k).clone();
        let o = run_scenario(&params, k, &pql, &corrupt, variant, seed);
        writeln!(
            out,
            "{}",
            json!({"ev":"Kzg","pql":sc["pql"],"corrupt":sc["corrupt"],"variant":variant,"k":k,"seed":seed,
                   "res":o.res,"detail":o.detail,"nsets_seen":o.nsets_seen})
        )
        .unwrap();
    }
    0
}
