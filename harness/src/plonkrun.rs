//! Driving the real prover and verifier on `ShapeCircuit`s under recording
//! transcripts. Shared by C01, C02, C03, C15, C17.

use std::{
    collections::HashMap,
    panic::{catch_unwind, AssertUnwindSafe},
};

use midnight_circuits::hash::poseidon::PoseidonState;
use midnight_curves::{Bls12, Fq as F, G1Projective};
use midnight_proofs::{
    dev::MockProver,
    plonk::{
        commit_to_instances, create_proof, keygen_pk, keygen_vk_with_k, prepare, Any, ProvingKey,
        VerifyingKey,
    },
    poly::{
        commitment::Guard,
        kzg::{params::ParamsKZG, KZGCommitmentScheme},
    },
    transcript::{CircuitTranscript, Hashable, Sampleable, Transcript, TranscriptHash},
};
use rand::SeedableRng;
use rand_chacha::ChaCha8Rng;
use serde_json::{json, Value as J};

use crate::{
    rec::{self, RecT, TEvent},
    shapes::{Shape, ShapeCircuit},
};

pub type CS = KZGCommitmentScheme<Bls12>;
pub type VK = VerifyingKey<F, CS>;
pub type PK = ProvingKey<F, CS>;

#[derive(Default)]
pub struct ParamCache(pub HashMap<u32, ParamsKZG<Bls12>>);

impl ParamCache {
    pub fn get(&mut self, k: u32) -> &ParamsKZG<Bls12> {
        self.0.entry(k).or_insert_with(|| {
            let mut rng = ChaCha8Rng::seed_from_u64(0xC0FFEE + k as u64);
            ParamsKZG::unsafe_setup(k, &mut rng)
        })
    }
}

pub fn panic_msg(e: Box<dyn std::any::Any + Send>) -> String {
    if let Some(s) = e.downcast_ref::<&str>() {
        s.to_string()
    } else if let Some(s) = e.downcast_ref::<String>() {
        s.clone()
    } else {
        "panic".into()
    }
}

/// The shape of the constraint system as the *code* sees it (read back from
/// `vk.cs()`), in the vocabulary of the `FiatShamir` specification.
pub fn real_shape(vk: &VK, nproofs: usize, committed: usize, plain_lens: &[Vec<usize>]) -> J {
    let cs = vk.cs();
    let phases_adv = cs.advice_column_phase();
    let phases_ch = cs.challenge_phase();
    let nph = phases_adv.iter().copied().max().map(|m| m as usize + 1).unwrap_or(1);
    let phases: Vec<J> = (0..nph)
        .map(|p| {
            json!({
                "adv": phases_adv.iter().filter(|&&x| x as usize == p).count(),
                "ch": phases_ch.iter().filter(|&&x| x as usize == p).count(),
            })
        })
        .collect();
    let q = |c: usize, r: i32| json!([c, r]);
    let perm_cols = cs.permutation().get_columns().len();
    let degree = cs.degree();
    json!({
        "nproofs": nproofs,
        "committed": committed,
        "plain": plain_lens,
        "phases": phases,
        "nlookups": cs.lookups().len(),
        "permcols": perm_cols,
        "chunk": degree - 2,
        "ntrash": cs.trashcans().len(),
        "nquot": degree - 1,
        "blinding": cs.blinding_factors(),
        "instq": cs.instance_queries().iter().map(|(c, r)| q(c.index(), r.0)).collect::<Vec<_>>(),
        "advq": cs.advice_queries().iter().map(|(c, r)| q(c.index(), r.0)).collect::<Vec<_>>(),
        "fixq": cs.fixed_queries().iter().map(|(c, r)| q(c.index(), r.0)).collect::<Vec<_>>(),
        "permadv": cs.permutation().get_columns().iter().filter(|c| matches!(c.column_type(), Any::Advice(_))).count(),
    })
}

pub struct Keys {
    pub vk: VK,
    pub pk: PK,
}

pub fn keygen(params: &ParamsKZG<Bls12>, circuit: &ShapeCircuit) -> Result<Keys, String> {
    let empty = {
        use midnight_proofs::plonk::Circuit;
        circuit.without_witnesses()
    };
    let vk = keygen_vk_with_k::<F, CS, _>(params, &empty, circuit.shape.k)
        .map_err(|e| format!("keygen_vk: {e:?}"))?;
    let pk = keygen_pk(vk.clone(), &empty).map_err(|e| format!("keygen_pk: {e:?}"))?;
    Ok(Keys { vk, pk })
}

pub fn mock_verdict(circuit: &ShapeCircuit, instance: &[Vec<F>]) -> String {
    let r = catch_unwind(AssertUnwindSafe(|| {
        MockProver::run(circuit.shape.k, circuit, instance.to_vec())
            .map_err(|e| format!("{e:?}"))
            .and_then(|p| p.verify().map_err(|e| format!("{} failures: {:?}", e.len(), e.first())))
    }));
    match r {
        Ok(Ok(())) => "ok".into(),
        Ok(Err(e)) => format!("err:{e}"),
        Err(p) => format!("panic:{}", panic_msg(p)),
    }
}

pub struct ProveOut {
    pub proof: Vec<u8>,
    pub events: Vec<TEvent>,
}

/// Run the real prover. `instances[p][col]` are full (prover-side) vectors.
pub fn prove<H>(
    params: &ParamsKZG<Bls12>,
    pk: &PK,
    circuits: &[ShapeCircuit],
    committed: usize,
    instances: &[Vec<Vec<F>>],
    seed: u64,
) -> Result<ProveOut, String>
where
    H: TranscriptHash,
    F: Hashable<H> + Sampleable<H>,
    G1Projective: Hashable<H>,
{
    prove_any::<H, ShapeCircuit>(params, pk, circuits, committed, instances, seed)
}

pub fn prove_any<H, C: midnight_proofs::plonk::Circuit<F>>(
    params: &ParamsKZG<Bls12>,
    pk: &PK,
    circuits: &[C],
    committed: usize,
    instances: &[Vec<Vec<F>>],
    seed: u64,
) -> Result<ProveOut, String>
where
    H: TranscriptHash,
    F: Hashable<H> + Sampleable<H>,
    G1Projective: Hashable<H>,
{
    let inst_refs: Vec<Vec<&[F]>> =
        instances.iter().map(|p| p.iter().map(|c| &c[..]).collect()).collect();
    let inst_refs2: Vec<&[&[F]]> = inst_refs.iter().map(|p| &p[..]).collect();
    let mut rng = ChaCha8Rng::seed_from_u64(seed);
    rec::start_side();
    let r = catch_unwind(AssertUnwindSafe(|| {
        let mut t = RecT::<CircuitTranscript<H>>::init();
        create_proof::<F, CS, _, _>(params, pk, circuits, committed, &inst_refs2, &mut rng, &mut t)
            .map(|_| t.finalize())
            .map_err(|e| format!("{e:?}"))
    }));
    let events = rec::take_side();
    match r {
        Ok(Ok(proof)) => Ok(ProveOut { proof, events }),
        Ok(Err(e)) => Err(format!("err:{e}")),
        Err(p) => Err(format!("panic:{}", panic_msg(p))),
    }
}

pub struct VerifyOut {
    pub verdict: String, // ok | err:<..> | panic:<..>
    pub events: Vec<TEvent>,
}

/// Run the real verifier: `prepare`, `assert_empty`, `verify`.
pub fn verify<H>(
    params: &ParamsKZG<Bls12>,
    vk: &VK,
    committed: &[Vec<G1Projective>],
    plain: &[Vec<Vec<F>>],
    proof: &[u8],
) -> VerifyOut
where
    H: TranscriptHash,
    F: Hashable<H> + Sampleable<H>,
    G1Projective: Hashable<H>,
{
    let com_refs: Vec<&[G1Projective]> = committed.iter().map(|c| &c[..]).collect();
    let plain_refs: Vec<Vec<&[F]>> =
        plain.iter().map(|p| p.iter().map(|c| &c[..]).collect()).collect();
    let plain_refs2: Vec<&[&[F]]> = plain_refs.iter().map(|p| &p[..]).collect();
    rec::start_side();
    let r = catch_unwind(AssertUnwindSafe(|| {
        let mut t = RecT::<CircuitTranscript<H>>::init_from_bytes(proof);
        let guard = prepare::<F, CS, _>(vk, &com_refs, &plain_refs2, &mut t)
            .map_err(|e| format!("prepare:{e:?}"))?;
        t.assert_empty().map_err(|e| format!("trailing:{e:?}"))?;
        guard.verify(&params.verifier_params()).map_err(|e| format!("verify:{e:?}"))
    }));
    let events = rec::take_side();
    let verdict = match r {
        Ok(Ok(())) => "ok".into(),
        Ok(Err(e)) => format!("err:{e}"),
        Err(p) => format!("panic:{}", panic_msg(p)),
    };
    VerifyOut { verdict, events }
}

pub fn split_instances(
    params: &ParamsKZG<Bls12>,
    vk: &VK,
    committed: usize,
    instances: &[Vec<Vec<F>>],
) -> (Vec<Vec<G1Projective>>, Vec<Vec<Vec<F>>>) {
    let coms = instances
        .iter()
        .map(|p| {
            p.iter()
                .take(committed)
                .map(|c| commit_to_instances::<F, CS>(params, vk.get_domain(), c))
                .collect()
        })
        .collect();
    let plain = instances.iter().map(|p| p.iter().skip(committed).cloned().collect()).collect();
    (coms, plain)
}

/// A complete honest run for one scenario.
pub struct Run {
    pub circuits: Vec<ShapeCircuit>,
    pub instances: Vec<Vec<Vec<F>>>,
    pub keys: Keys,
    pub real_shape: J,
    pub mock: Vec<String>,
    pub proof: Result<ProveOut, String>,
}

pub fn honest_run<H>(
    cache: &mut ParamCache,
    shape: &Shape,
    nproofs: usize,
    seed: u64,
) -> Result<Run, String>
where
    H: TranscriptHash,
    F: Hashable<H> + Sampleable<H>,
    G1Projective: Hashable<H>,
{
    let circuits: Vec<ShapeCircuit> =
        (0..nproofs).map(|i| ShapeCircuit::generate(shape, i as u64)).collect();
    let instances: Vec<Vec<Vec<F>>> = circuits.iter().map(|c| c.instance_f()).collect();
    let params = cache.get(shape.k).clone();
    let keys = keygen(&params, &circuits[0])?;
    let plain_lens: Vec<Vec<usize>> = instances
        .iter()
        .map(|p| p.iter().skip(shape.committed).map(|c| c.len()).collect())
        .collect();
    let real_shape = real_shape(&keys.vk, nproofs, shape.committed, &plain_lens);
    let mock = circuits
        .iter()
        .zip(instances.iter())
        .map(|(c, i)| mock_verdict(c, i))
        .collect();
    rec::reset_run();
    let proof = prove::<H>(&params, &keys.pk, &circuits, shape.committed, &instances, seed);
    Ok(Run { circuits, instances, keys, real_shape, mock, proof })
}

pub fn run_hash_dispatch<T>(
    hash: &str,
    blake: impl FnOnce() -> T,
    poseidon: impl FnOnce() -> T,
) -> T {
    if hash == "poseidon" {
        poseidon()
    } else {
        blake()
    }
}

pub type Blake = blake2b_simd::State;
pub type Pos = PoseidonState<F>;
