//! C13 driver: replays TLC-generated lists of pairs (a_i.G1, b_i.G2) into every
//! pairing entry point of both engines and reports the discrete logarithm of
//! each result to the base e(G1, G2) (found by search in a small window).

use std::{
    io::Write,
    panic::{catch_unwind, AssertUnwindSafe},
};

use ff::{Field, PrimeField};
use group::{prime::PrimeCurveAffine, Curve, Group};
use midnight_curves::{bn256, Bls12};
use pairing::{Engine, MillerLoopResult, MultiMillerLoop, PairingCurveAffine};
use serde_json::{json, Value as J};

use crate::{plonkrun::panic_msg, util};

fn si<S: PrimeField>(k: i64) -> S {
    if k < 0 {
        -S::from((-k) as u64)
    } else {
        S::from(k as u64)
    }
}

const WINDOW: i64 = 80;

fn dlog<G: Group>(base: &G, x: &G) -> J {
    let mut pos = G::identity();
    let mut neg = G::identity();
    for k in 0..=WINDOW {
        if &pos == x {
            return json!(k);
        }
        if &neg == x {
            return json!(-k);
        }
        pos += base;
        neg -= base;
    }
    json!("none")
}

fn guard(f: impl FnOnce() -> J) -> J {
    match catch_unwind(AssertUnwindSafe(f)) {
        Ok(v) => v,
        Err(p) => json!(format!("panic:{}", panic_msg(p).chars().take(60).collect::<String>())),
    }
}

fn run_engine<E>(name: &str, scen: &[J], out: &mut dyn Write)
where
    E: MultiMillerLoop,
    E::G1Affine: PairingCurveAffine<Pair = E::G2Affine, PairingResult = E::Gt>,
    E::G2Affine: PairingCurveAffine<Pair = E::G1Affine, PairingResult = E::Gt>,
    E::G2Prepared: From<E::G2Affine>,
{
    let g1 = E::G1::generator();
    let g2 = E::G2::generator();
    let gt = E::pairing(&g1.to_affine(), &g2.to_affine());
    // laws of the target group on its generator
    let r_minus_1 = -E::Fr::ONE;
    writeln!(out, "{}", json!({"ev":"Gt","engine":name,
        "gen_is_identity": bool::from(gt.is_identity()),
        "gen_times_r_is_identity": bool::from((gt * r_minus_1 + gt).is_identity()),
        "gen_plus_neg_is_identity": bool::from((gt + (-gt)).is_identity()),
        "double_is_add": gt.double() == gt + gt,
        "scalar_3": dlog(&gt, &(gt * E::Fr::from(3u64))),
        "scalar_neg2": dlog(&gt, &(gt * si::<E::Fr>(-2)))})).unwrap();
    for sc in scen {
        let terms: Vec<(i64, i64)> = sc["terms"].as_array().unwrap().iter().map(|t| (t[0].as_i64().unwrap(), t[1].as_i64().unwrap())).collect();
        let ps: Vec<E::G1Affine> = terms.iter().map(|(a, _)| (g1 * si::<E::Fr>(*a)).to_affine()).collect();
        let qs: Vec<E::G2Affine> = terms.iter().map(|(_, b)| (g2 * si::<E::Fr>(*b)).to_affine()).collect();
        let prepared: Vec<E::G2Prepared> = qs.iter().map(|q| E::G2Prepared::from(*q)).collect();
        let product = guard(|| {
            let mut acc = E::Gt::identity();
            for (p, q) in ps.iter().zip(qs.iter()) {
                acc += E::pairing(p, q);
            }
            dlog(&gt, &acc)
        });
        let multi = guard(|| {
            let refs: Vec<(&E::G1Affine, &E::G2Prepared)> = ps.iter().zip(prepared.iter()).collect();
            dlog(&gt, &E::multi_miller_loop(&refs).final_exponentiation())
        });
        let multi_rev = guard(|| {
            let refs: Vec<(&E::G1Affine, &E::G2Prepared)> = ps.iter().zip(prepared.iter()).rev().collect();
            dlog(&gt, &E::multi_miller_loop(&refs).final_exponentiation())
        });
        let with12 = guard(|| {
            let mut acc = E::Gt::identity();
            for (p, q) in ps.iter().zip(qs.iter()) {
                acc += p.pairing_with(q);
            }
            dlog(&gt, &acc)
        });
        let with21 = guard(|| {
            let mut acc = E::Gt::identity();
            for (p, q) in ps.iter().zip(qs.iter()) {
                acc += q.pairing_with(p);
            }
            dlog(&gt, &acc)
        });
        let identity_flags: Vec<bool> = ps.iter().zip(qs.iter()).map(|(p, q)| bool::from(E::pairing(p, q).is_identity())).collect();
        writeln!(out, "{}", json!({"ev":"Pair","engine":name,"terms":sc["terms"],"expect":sc["expect"],
            "product":product,"multi":multi,"multi_reversed":multi_rev,"pairing_with_g1":with12,"pairing_with_g2":with21,
            "single_is_identity":identity_flags})).unwrap();
    }
    let _ = E::G1Affine::identity();
}

pub fn main(args: &[String]) -> i32 {
    let scen = util::read_ndjson(&args[0]);
    let mut out = util::create(&args[1]);
    writeln!(out, "{}", json!({"ev":"header","prop":"C13","n":scen.len(),"window":WINDOW})).unwrap();
    run_engine::<Bls12>("bls12_381", &scen, &mut out);
    run_engine::<bn256::Bn256>("bn256", &scen, &mut out);
    0
}
