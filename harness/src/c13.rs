//! C13 driver: replays TLC-generated lists of pairs (a_i.G1, b_i.G2) into every
//! pairing entry point of both engines and reports the discrete logarithm of
//! each result to the base e(G1, G2) (found by search in a small window).

use std::{
    io::Write,
    panic::{catch_unwind, AssertUnwindSafe},
};

use ff::{Field, PrimeField};
use group::{prime::PrimeCurveAffine, Curve, Group};
use midnight_curves::{bn256, Bls12};
use pairing::{Engine, MillerLoopResult, MultiMillerLoop, PairingCurveAffine};
use serde_json::{json, Value as J};

use crate::{plonkrun::panic_msg, util};

fn si<S: PrimeField>(k: i64) -> S {
    if k < 0 {
        -S::from((-k) as u64)
    } else {
        S::from(k as u64)
    }
}

const WINDOW: i64 = 80;

fn dlog<G: Group>(base: &G, x: &G) -> J {
    let mut pos = G::identity();
    let mut neg = G::identity();
    for k in 0..=WINDOW {
        if &pos == x {
            return json!(k);
        }
        if &neg == x {
            return json!(-k);
        }
        pos += base;
        neg -= base;
    }
    json!(999_999) // not a power of the base within the window (an integer, so that the trace stays uniformly typed)
}

thread_local! {
    static PANICS: std::cell::RefCell<Vec<String>> = const { std::cell::RefCell::new(vec![]) };
}
/// a panic is reported as the integer 888888 (the trace stays uniformly typed); its message goes to the event's `panics`
fn guard(f: impl FnOnce() -> J) -> J {
    match catch_unwind(AssertUnwindSafe(f)) {
        Ok(v) => v,
        Err(p) => {
            PANICS.with(|l| l.borrow_mut().push(panic_msg(p).chars().take(80).collect::<String>()));
            json!(888_888)
        }
    }
}
fn take_panics() -> Vec<String> {
    PANICS.with(|l| std::mem::take(&mut *l.borrow_mut()))
}

fn run_engine<E>(name: &str, scen: &[J], out: &mut dyn Write)
where
    E: MultiMillerLoop,
    E::G1Affine: PairingCurveAffine<Pair = E::G2Affine, PairingResult = E::Gt>,
    E::G2Affine: PairingCurveAffine<Pair = E::G1Affine, PairingResult = E::Gt>,
    E::G2Prepared: From<E::G2Affine>,
{
    let g1 = E::G1::generator();
    let g2 = E::G2::generator();
    let gt = E::pairing(&g1.to_affine(), &g2.to_affine());
    // laws of the target group on its generator
    let r_minus_1 = -E::Fr::ONE;
    writeln!(out, "{}", json!({"ev":"Gt","engine":name,
        "gen_is_identity": bool::from(gt.is_identity()),
        "gen_times_r_is_identity": bool::from((gt * r_minus_1 + gt).is_identity()),
        "gen_plus_neg_is_identity": bool::from((gt + (-gt)).is_identity()),
        "double_is_add": gt.double() == gt + gt,
        "scalar_3": dlog(&gt, &(gt * E::Fr::from(3u64))),
        "scalar_neg2": dlog(&gt, &(gt * si::<E::Fr>(-2)))})).unwrap();
    for sc in scen {
        let terms: Vec<(i64, i64)> = sc["terms"].as_array().unwrap().iter().map(|t| (t[0].as_i64().unwrap(), t[1].as_i64().unwrap())).collect();
        let ps: Vec<E::G1Affine> = terms.iter().map(|(a, _)| (g1 * si::<E::Fr>(*a)).to_affine()).collect();
        let qs: Vec<E::G2Affine> = terms.iter().map(|(_, b)| (g2 * si::<E::Fr>(*b)).to_affine()).collect();
        let prepared: Vec<E::G2Prepared> = qs.iter().map(|q| E::G2Prepared::from(*q)).collect();
        let product = guard(|| {
            let mut acc = E::Gt::identity();
            for (p, q) in ps.iter().zip(qs.iter()) {
                acc += E::pairing(p, q);
            }
            dlog(&gt, &acc)
        });
        let multi = guard(|| {
            let refs: Vec<(&E::G1Affine, &E::G2Prepared)> = ps.iter().zip(prepared.iter()).collect();
            dlog(&gt, &E::multi_miller_loop(&refs).final_exponentiation())
        });
        let multi_rev = guard(|| {
            let refs: Vec<(&E::G1Affine, &E::G2Prepared)> = ps.iter().zip(prepared.iter()).rev().collect();
            dlog(&gt, &E::multi_miller_loop(&refs).final_exponentiation())
        });
        let with12 = guard(|| {
            let mut acc = E::Gt::identity();
            for (p, q) in ps.iter().zip(qs.iter()) {
                acc += p.pairing_with(q);
            }
            dlog(&gt, &acc)
        });
        let with21 = guard(|| {
            let mut acc = E::Gt::identity();
            for (p, q) in ps.iter().zip(qs.iter()) {
                acc += q.pairing_with(p);
            }
            dlog(&gt, &acc)
        });
        let pair_panics = take_panics();
        // Miller-loop results of the single pairs combined with every operator form, then one final exponentiation
        let mls = |f: &dyn Fn(E::Result, E::Result) -> E::Result| {
            guard(|| {
                let mut acc = E::Result::default();
                for (p, q) in ps.iter().zip(prepared.iter()) {
                    acc = f(acc, E::multi_miller_loop(&[(p, q)]));
                }
                dlog(&gt, &acc.final_exponentiation())
            })
        };
        let ml_add = mls(&|a, b| a + b);
        let ml_add_ref = mls(&|a, b| a + &b);
        let ml_assign = mls(&|mut a, b| {
            a += b;
            a
        });
        let ml_assign_ref = mls(&|mut a, b| {
            a += &b;
            a
        });
        let ml_panics = take_panics();
        let identity_flags: Vec<bool> = ps.iter().zip(qs.iter()).map(|(p, q)| bool::from(E::pairing(p, q).is_identity())).collect();
        writeln!(out, "{}", json!({"ev":"Pair","engine":name,"terms":sc["terms"],"expect":sc["expect"],
            "product":product,"multi":multi,"multi_reversed":multi_rev,"pairing_with_g1":with12,"pairing_with_g2":with21,
            "single_is_identity":identity_flags,"panics":pair_panics})).unwrap();
        writeln!(out, "{}", json!({"ev":"PairML","engine":name,"terms":sc["terms"],"expect":sc["expect"],
            "ml_add":ml_add,"ml_add_ref":ml_add_ref,"ml_assign":ml_assign,"ml_assign_ref":ml_assign_ref,"panics":ml_panics})).unwrap();
    }
    let _ = E::G1Affine::identity();
}

/// Target-group arithmetic on coefficients: Gt values of pairings e(a.G1, b.G2), the group operations of Gt and the final
/// exponentiation, logged as elements of Fp12 (nested coefficient arrays) for the tower arithmetic of Tower.tla.
fn gt_values<E, T>(name: &str, deep: bool, out: &mut dyn Write, to_d: &dyn Fn(&E::Gt) -> T::D, ml_to_d: &dyn Fn(&E::Result) -> T::D)
where
    E: MultiMillerLoop,
    E::G2Prepared: From<E::G2Affine>,
    T: crate::c10t::Tw,
{
    use crate::{c10t::d_json, gad::nat_of_big};
    use num_bigint::BigUint;
    let g1 = E::G1::generator();
    let g2 = E::G2::generator();
    let pair = |a: i64, b: i64| E::pairing(&(g1 * si::<E::Fr>(a)).to_affine(), &(g2 * si::<E::Fr>(b)).to_affine());
    let base = pair(1, 1);
    let bj = d_json::<T>(&to_d(&base));
    let dj = |g: &E::Gt| d_json::<T>(&to_d(g));
    let mut emit = |op: &str, ins: Vec<J>, extra: J, o: J| {
        writeln!(out, "{}", json!({"ev":"GtF","engine":name,"op":op,"base":bj,"ins":ins,"x":extra,"out":o})).unwrap();
    };
    let ab: Vec<(i64, i64)> = if deep { vec![(1, 1), (2, 3), (-1, 5), (0, 3), (3, 0), (0, 0), (-2, -7), (40, 41)] } else { vec![(1, 1), (2, 3), (-1, 5), (0, 3), (3, 0)] };
    let vals: Vec<E::Gt> = ab.iter().map(|(a, b)| pair(*a, *b)).collect();
    for ((a, b), g) in ab.iter().zip(vals.iter()) {
        emit("pairing", vec![], json!({"a":a,"b":b}), dj(g));
    }
    emit("identity", vec![], json!({}), dj(&E::Gt::identity()));
    // sums of no and of one element, by value and by reference
    emit("sum0", vec![], json!({}), dj(&Vec::<E::Gt>::new().iter().sum::<E::Gt>()));
    emit("sum0", vec![], json!({}), dj(&Vec::<E::Gt>::new().into_iter().sum::<E::Gt>()));
    emit("sum1", vec![dj(&vals[1])], json!({}), dj(&[vals[1]].iter().sum::<E::Gt>()));
    for (i, x) in vals.iter().enumerate() {
        emit("neg", vec![dj(x)], json!({}), dj(&(-*x)));
        emit("double", vec![dj(x)], json!({}), dj(&x.double()));
        emit("is_identity", vec![dj(x)], json!({}), json!(bool::from(x.is_identity())));
        for y in vals.iter().skip(i % 2).step_by(2) {
            emit("add", vec![dj(x), dj(y)], json!({}), dj(&(*x + *y)));
            emit("sub", vec![dj(x), dj(y)], json!({}), dj(&(*x - *y)));
            emit("eq", vec![dj(x), dj(y)], json!({}), json!(x == y));
        }
        emit("sum3", vec![dj(x), dj(&vals[0]), dj(&vals[1])], json!({}), dj(&[*x, vals[0], vals[1]].iter().sum::<E::Gt>()));
    }
    // scalar multiplication over the scalar classes
    let r = BigUint::from_bytes_le((-E::Fr::ONE).to_repr().as_ref()) + 1u8;
    let one = BigUint::from(1u8);
    let mut scalars = vec![BigUint::from(0u8), one.clone(), BigUint::from(2u8), &r - &one, &one << 128, BigUint::from(3u8).modpow(&BigUint::from(777u32), &r)];
    if deep {
        scalars.push(&r - BigUint::from(2u8));
        scalars.push((&one << 254) + &one);
    }
    for x in vals.iter().take(if deep { 3 } else { 2 }) {
        for s in scalars.iter() {
            let mut sv = E::Fr::ZERO;
            for d in s.to_bytes_be() {
                sv = sv * E::Fr::from(256u64) + E::Fr::from(d as u64);
            }
            emit("mul", vec![dj(x)], json!({"scalar":nat_of_big(s)}), dj(&(*x * sv)));
        }
    }
    // final exponentiation of Miller-loop outputs
    let lists: Vec<Vec<(i64, i64)>> = if deep { vec![vec![(1, 1)], vec![(2, 3), (-1, 5)], vec![(1, 0)], vec![]] } else { vec![vec![(2, 3), (-1, 5)]] };
    for ts in lists {
        let ps: Vec<E::G1Affine> = ts.iter().map(|(a, _)| (g1 * si::<E::Fr>(*a)).to_affine()).collect();
        let qs: Vec<E::G2Prepared> = ts.iter().map(|(_, b)| E::G2Prepared::from((g2 * si::<E::Fr>(*b)).to_affine())).collect();
        let refs: Vec<(&E::G1Affine, &E::G2Prepared)> = ps.iter().zip(qs.iter()).collect();
        let ml = E::multi_miller_loop(&refs);
        let fe = ml.final_exponentiation();
        emit("final_exp", vec![d_json::<T>(&ml_to_d(&ml))], json!({"terms":ts.iter().map(|(a, b)| json!([a, b])).collect::<Vec<_>>()}), dj(&fe));
    }
}

pub fn main(args: &[String]) -> i32 {
    let scen = util::read_ndjson(&args[0]);
    let mut out = util::create(&args[1]);
    writeln!(out, "{}", json!({"ev":"header","prop":"C13","n":scen.len(),"window":WINDOW})).unwrap();
    run_engine::<Bls12>("bls12_381", &scen, &mut out);
    run_engine::<bn256::Bn256>("bn256", &scen, &mut out);
    let mode = args.get(2).map(|s| s.as_str()).unwrap_or("");
    let deep = mode == "deep";
    if mode == "gt" || deep {
        use crate::c10t::{hex_numbers, BlsTw, BnTw};
        let bls_gt = |g: &midnight_curves::Gt| midnight_curves::bls12_381::Fp12::from(*g);
        let bls_ml = |m: &midnight_curves::MillerLoopResult| {
            let n = hex_numbers(&format!("{m:?}"));
            assert_eq!(n.len(), 12, "unexpected Debug rendering of MillerLoopResult");
            let d = BlsTw::d_of(&n);
            assert!(format!("{m:?}").contains(&format!("{d:?}")), "Debug rendering of MillerLoopResult does not name its coefficients");
            d
        };
        gt_values::<Bls12, BlsTw>("bls12_381", deep, &mut out, &bls_gt, &bls_ml);
        let bn_gt = |g: &bn256::Gt| {
            let n = hex_numbers(&format!("{g:?}"));
            assert_eq!(n.len(), 12, "unexpected Debug rendering of Gt");
            let d = BnTw::d_of(&n);
            assert!(format!("{g:?}").contains(&format!("{d:?}")), "Debug rendering of Gt does not name its coefficients");
            d
        };
        let bn_ml = |m: &bn256::Fq12| *m;
        gt_values::<bn256::Bn256, BnTw>("bn256", deep, &mut out, &bn_gt, &bn_ml);
        // pairings of points given by their coordinates, for the first-principles ate pairing of AtePairing.tla
        {
            use crate::{c10t::d_json, gad::nat_of_big};
            use midnight_circuits::CircuitField;
            use num_bigint::BigUint;
            let ab: Vec<(i64, i64)> = if deep { vec![(1, 1), (2, 3), (-5, 7), (0, 1), (1, 0)] } else { vec![(1, 1), (-3, 2), (0, 1)] };
            let q2 = |c0: BigUint, c1: BigUint| json!([nat_of_big(&c0), nat_of_big(&c1)]);
            for (a, b) in ab.iter() {
                let p = (midnight_curves::G1Projective::generator() * si::<midnight_curves::Fq>(*a)).to_affine();
                let q = (midnight_curves::G2Projective::generator() * si::<midnight_curves::Fq>(*b)).to_affine();
                let pj = if bool::from(p.is_identity()) { json!({"id":true,"x":[],"y":[]}) } else { json!({"id":false,"x":nat_of_big(&p.x().to_biguint()),"y":nat_of_big(&p.y().to_biguint())}) };
                let qj = if bool::from(q.is_identity()) {
                    json!({"id":true,"x":[[],[]],"y":[[],[]]})
                } else {
                    json!({"id":false,"x":q2(q.x().c0().to_biguint(), q.x().c1().to_biguint()),"y":q2(q.y().c0().to_biguint(), q.y().c1().to_biguint())})
                };
                let o = Bls12::pairing(&p, &q);
                writeln!(out, "{}", json!({"ev":"PairPt","engine":"bls12_381","a":a,"b":b,"p":pj,"q":qj,"out":d_json::<BlsTw>(&bls_gt(&o))})).unwrap();
            }
            let le = |x: &bn256::Fq| BigUint::from_bytes_le(x.to_repr().as_ref());
            let q2b = |x: &bn256::Fq2| {
                let b = x.to_bytes();
                q2(BigUint::from_bytes_le(&b[0..32]), BigUint::from_bytes_le(&b[32..64]))
            };
            for (a, b) in ab.iter() {
                let p = (bn256::G1::generator() * si::<bn256::Fr>(*a)).to_affine();
                let q = (bn256::G2::generator() * si::<bn256::Fr>(*b)).to_affine();
                let pj = if bool::from(p.is_identity()) { json!({"id":true,"x":[],"y":[]}) } else { json!({"id":false,"x":nat_of_big(&le(&p.x)),"y":nat_of_big(&le(&p.y))}) };
                let qj = if bool::from(q.is_identity()) { json!({"id":true,"x":[[],[]],"y":[[],[]]}) } else { json!({"id":false,"x":q2b(&q.x),"y":q2b(&q.y)}) };
                let o = bn256::Bn256::pairing(&p, &q);
                writeln!(out, "{}", json!({"ev":"PairPt","engine":"bn256","a":a,"b":b,"p":pj,"q":qj,"out":d_json::<BnTw>(&bn_gt(&o))})).unwrap();
            }
        }
    }
    0
}
