use std::{fs::File, io::{BufRead, BufReader, BufWriter}};
use serde_json::Value as J;

pub fn read_ndjson(path: &str) -> Vec<J> {
    let f = File::open(path).unwrap_or_else(|e| panic!("open {path}: {e}"));
    BufReader::new(f)
        .lines()
        .map(|l| l.unwrap())
        .filter(|l| !l.trim().is_empty())
        .map(|l| serde_json::from_str(&l).unwrap_or_else(|e| panic!("bad json line {l}: {e}")))
        .collect()
}
pub fn create(path: &str) -> BufWriter<File> {
    BufWriter::new(File::create(path).unwrap_or_else(|e| panic!("create {path}: {e}")))
}
pub fn hex(b: &[u8]) -> String {
    b.iter().map(|x| format!("{x:02x}")).collect()
}
pub fn unhex(s: &str) -> Vec<u8> {
    (0..s.len() / 2).map(|i| u8::from_str_radix(&s[2 * i..2 * i + 2], 16).unwrap()).collect()
}
