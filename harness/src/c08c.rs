//! C08 driver, committed instances: a relation exposing `np` plain and `nc` committed public inputs through the
//! standard library; the count stored in the verifying key and the verdicts of the real verifier on the exact
//! vector, on shorter / longer vectors and on a changed commitment.

use std::io::Write;

use ff::Field;
use group::Curve;
use midnight_circuits::{
    instructions::{public_input::CommittedInstanceInstructions, *},
    types::AssignedNative,
};
use midnight_curves::{Fq as F, G1Affine, G1Projective};
use midnight_proofs::{
    circuit::{Layouter, Value},
    plonk::{commit_to_instances, Error},
    poly::kzg::{params::ParamsKZG, KZGCommitmentScheme},
};
use midnight_zk_stdlib::{self as sl, MidnightCircuit, Relation, ZkStdLib, ZkStdLibArch};
use rand::SeedableRng;
use serde_json::{json, Value as J};

use crate::plonkrun::{panic_msg, Blake};

#[derive(Clone)]
struct CommRel {
    np: usize,
    nc: usize,
}
impl Relation for CommRel {
    type Instance = Vec<F>;
    type Witness = Vec<F>;
    fn format_instance(i: &Vec<F>) -> Result<Vec<F>, Error> {
        Ok(i.clone())
    }
    fn format_committed_instances(w: &Vec<F>) -> Vec<F> {
        w.clone()
    }
    fn used_chips(&self) -> ZkStdLibArch {
        ZkStdLibArch::default()
    }
    fn circuit(&self, s: &ZkStdLib, l: &mut impl Layouter<F>, i: Value<Vec<F>>, w: Value<Vec<F>>) -> Result<(), Error> {
        let xs: Vec<AssignedNative<F>> = s.assign_many(l, &i.transpose_vec(self.np))?;
        for x in xs.iter() {
            s.constrain_as_public_input(l, x)?;
        }
        let ws: Vec<AssignedNative<F>> = s.assign_many(l, &w.transpose_vec(self.nc))?;
        for x in ws.iter() {
            s.constrain_as_committed_public_input(l, x)?;
        }
        Ok(())
    }
    fn write_relation<W: std::io::Write>(&self, _w: &mut W) -> std::io::Result<()> {
        Ok(())
    }
    fn read_relation<R: std::io::Read>(_r: &mut R) -> std::io::Result<Self> {
        unimplemented!()
    }
}

pub fn run(sc: &J, out: &mut dyn Write) {
    let (np, nc) = (sc["np"].as_u64().unwrap_or(2) as usize, sc["nc"].as_u64().unwrap_or(1) as usize);
    let r = std::panic::catch_unwind(|| {
        let mut rng = rand_chacha::ChaCha8Rng::seed_from_u64(sc["seed"].as_u64().unwrap_or(8));
        let rel = CommRel { np, nc };
        let k = MidnightCircuit::from_relation(&rel).min_k();
        let params = ParamsKZG::<midnight_curves::Bls12>::unsafe_setup(k, &mut rng);
        let vk = sl::setup_vk(&params, &rel);
        let pk = sl::setup_pk(&rel, &vk);
        let mut bytes = vec![];
        vk.write(&mut bytes, midnight_proofs::utils::SerdeFormat::RawBytes).unwrap();
        let mut arch = vec![];
        rel.used_chips().write(&mut arch).unwrap();
        let o = arch.len() + 1;
        let vk_nb = u32::from_le_bytes([bytes[o], bytes[o + 1], bytes[o + 2], bytes[o + 3]]);
        let plain: Vec<F> = (0..np).map(|i| F::from(100 + i as u64)).collect();
        let comm: Vec<F> = (0..nc).map(|i| F::from(7 + 3 * i as u64)).collect();
        let c: G1Affine = commit_to_instances::<_, KZGCommitmentScheme<_>>(&params, vk.vk().get_domain(), &comm).into();
        let other: G1Affine = (G1Projective::from(c) + G1Projective::from(c)).to_affine();
        let proof = sl::prove::<CommRel, Blake>(&params, &pk, &rel, &plain, comm.clone(), &mut rng).map_err(|e| format!("prove {e:?}"));
        let vp = params.verifier_params();
        let res = |r: Result<(), Error>| match r {
            Ok(()) => "ok".to_string(),
            Err(e) => format!("err:{e:?}").chars().take(60).collect(),
        };
        match proof {
            Err(e) => json!({"ev":"PubC","np":np,"nc":nc,"vk_nb":vk_nb,"verify":e,"verify_shorter":"n/a","verify_longer":"n/a","verify_padded":"n/a","verify_other_commitment":"n/a","verify_no_commitment":"n/a"}),
            Ok(p) => {
                let mut longer = plain.clone();
                longer.push(F::ZERO);
                let mut padded = plain.clone();
                padded.extend(std::iter::repeat(F::ZERO).take(nc));
                json!({"ev":"PubC","np":np,"nc":nc,"vk_nb":vk_nb,
                    "verify":res(sl::verify::<CommRel, Blake>(&vp, &vk, &plain, Some(c), &p)),
                    "verify_shorter":if plain.is_empty() { "n/a".into() } else { res(sl::verify::<CommRel, Blake>(&vp, &vk, &plain[..np - 1].to_vec(), Some(c), &p)) },
                    "verify_longer":res(sl::verify::<CommRel, Blake>(&vp, &vk, &longer, Some(c), &p)),
                    "verify_padded":if nc == 0 { "n/a".into() } else { res(sl::verify::<CommRel, Blake>(&vp, &vk, &padded, Some(c), &p)) },
                    "verify_other_commitment":if nc == 0 { "n/a".into() } else { res(sl::verify::<CommRel, Blake>(&vp, &vk, &plain, Some(other), &p)) },
                    "verify_no_commitment":if nc == 0 { "n/a".into() } else { res(sl::verify::<CommRel, Blake>(&vp, &vk, &plain, None, &p)) }})
            }
        }
    });
    match r {
        Ok(ev) => writeln!(out, "{ev}").unwrap(),
        Err(p) => writeln!(out, "{}", json!({"ev":"PubC","np":np,"nc":nc,"vk_nb":0,"verify":format!("panic:{}", panic_msg(p)),"verify_shorter":"n/a","verify_longer":"n/a","verify_padded":"n/a","verify_other_commitment":"n/a","verify_no_commitment":"n/a"})).unwrap(),
    }
}
