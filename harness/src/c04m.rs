//! C04 driver, map half: sessions of the key-value map gadget (init from an off-circuit map, insert, get) run
//! in-circuit through the standard library, with the succinct representation exposed after every step and the
//! keys, values and results exposed as public inputs; the off-circuit MapMt is run alongside.

use std::io::Write;

use midnight_circuits::{
    hash::poseidon::{constants::PoseidonField, PoseidonChip},
    instructions::{
        map::{MapCPU, MapInstructions},
        AssignmentInstructions, PublicInputInstructions,
    },
    map::cpu::MapMt,
    types::AssignedNative,
    CircuitField,
};
use midnight_curves::Fq as F;
use midnight_proofs::{
    circuit::{Layouter, Value},
    plonk::Error,
};
use midnight_zk_stdlib::{MidnightCircuit, Relation, ZkStdLib, ZkStdLibArch};
use serde_json::{json, Value as J};

use crate::{
    gad::{self, big_of_nat, nat_of_big, nat_of_f, nats_json},
    util,
};

type Map = MapMt<F, PoseidonChip<F>>;

fn fe(v: &J) -> F {
    let b = big_of_nat(v);
    let mut acc = F::from(0u64);
    for d in b.to_bytes_be() {
        acc = acc * F::from(256u64) + F::from(d as u64);
    }
    acc
}

#[derive(Clone)]
struct MapRel {
    sc: J,
}

fn initial_map(sc: &J) -> Map {
    let mut m = Map::new(&F::from(0u64));
    for e in sc["init"].as_array().cloned().unwrap_or_default() {
        m.insert(&fe(&e[0]), &fe(&e[1]));
    }
    m
}

impl Relation for MapRel {
    type Instance = Vec<F>;
    type Witness = ();
    fn format_instance(i: &Vec<F>) -> Result<Vec<F>, Error> {
        Ok(i.clone())
    }
    fn used_chips(&self) -> ZkStdLibArch {
        ZkStdLibArch { poseidon: true, ..ZkStdLibArch::default() }
    }
    fn circuit(&self, s: &ZkStdLib, l: &mut impl Layouter<F>, _i: Value<Vec<F>>, _w: Value<()>) -> Result<(), Error> {
        let mut map = s.map_gadget().clone();
        map.init(l, Value::known(initial_map(&self.sc)))?;
        gad::note('n', 1);
        s.constrain_as_public_input(l, &map.succinct_repr())?;
        for op in self.sc["ops"].as_array().cloned().unwrap_or_default() {
            let k: AssignedNative<F> = s.assign(l, Value::known(fe(&op["k"])))?;
            gad::note('n', 1);
            s.constrain_as_public_input(l, &k)?;
            if op["op"] == "insert" {
                let v: AssignedNative<F> = s.assign(l, Value::known(fe(&op["v"])))?;
                gad::note('n', 1);
                s.constrain_as_public_input(l, &v)?;
                map.insert(l, &k, &v)?;
                gad::note('n', 1);
                s.constrain_as_public_input(l, &map.succinct_repr())?;
            } else {
                let v = map.get(l, &k)?;
                gad::note('n', 1);
                s.constrain_as_public_input(l, &v)?;
            }
        }
        Ok(())
    }
    fn write_relation<W: std::io::Write>(&self, _w: &mut W) -> std::io::Result<()> {
        Ok(())
    }
    fn read_relation<R: std::io::Read>(_r: &mut R) -> std::io::Result<Self> {
        unimplemented!()
    }
}

pub fn main(args: &[String]) -> i32 {
    let scen = util::read_ndjson(&args[0]);
    let mut out = util::create(&args[1]);
    let f = |x: &F| nat_of_big(&x.to_biguint());
    writeln!(out, "{}", json!({"ev":"header","prop":"C04","part":"map","native":nat_of_big(&<F as CircuitField>::modulus())})).unwrap();
    writeln!(out, "{}", json!({"ev":"PoseidonConstants",
        "mds": <F as PoseidonField>::MDS.iter().map(|r| r.iter().map(f).collect::<Vec<_>>()).collect::<Vec<_>>(),
        "rc": <F as PoseidonField>::ROUND_CONSTANTS.iter().map(|r| r.iter().map(f).collect::<Vec<_>>()).collect::<Vec<_>>()})).unwrap();
    for sc in scen.iter() {
        // the off-circuit map run alongside: root after init and after every insert, value of every get
        let mut cpu = vec![];
        let mut m = initial_map(sc);
        cpu.push(nat_of_f(&m.succinct_repr()));
        for op in sc["ops"].as_array().cloned().unwrap_or_default() {
            if op["op"] == "insert" {
                m.insert(&fe(&op["k"]), &fe(&op["v"]));
                cpu.push(nat_of_f(&m.succinct_repr()));
            } else {
                cpu.push(nat_of_f(&m.get(&fe(&op["k"]))));
            }
        }
        let rel = MapRel { sc: sc.clone() };
        let k = sc["kk"].as_u64().map(|k| k as u32).unwrap_or_else(|| MidnightCircuit::from_relation(&rel).min_k());
        let circuit = MidnightCircuit::new(&rel, Value::known(vec![]), Value::known(()), Some(8));
        let mut emit = |r: &gad::RunOut, tamper: J| {
            writeln!(out, "{}", json!({"ev":"Map","init":sc["init"],"ops":sc["ops"],"cpu":cpu,"tamper":tamper,"tampered":!tamper.is_null(),
                "status":r.status,"exposed":nats_json(&r.exposed),"nassign":r.nassign,"k":k,"detail":r.detail.chars().take(160).collect::<String>()})).unwrap();
        };
        let mut base = gad::run_game(&circuit, k, None);
        let mut k = k;
        // MidnightCircuit::min_k can be one short of what the synthesis needs (reported as an observation in DESIGN.md)
        if base.status != "sat" && (base.detail.contains("NotEnoughRows") || base.detail.contains("usable_rows")) {
            k += 1;
            base = gad::run_game(&circuit, k, None);
        }
        emit(&base, J::Null);
        if let Some(idx) = sc["tamper_at"].as_array() {
            for i in idx {
                // positions are given as thousandths of the number of assignments
                let pos = (i.as_u64().unwrap_or(0) as usize * base.nassign / 1000).min(base.nassign.saturating_sub(1));
                for fs in sc["faults"].as_array().cloned().unwrap_or_else(|| vec![json!("plus1")]) {
                    let fs = fs.as_str().unwrap().to_string();
                    let r = gad::run_game(&circuit, k, Some((pos, gad::fault_of(&fs))));
                    emit(&r, json!({"i":pos,"fault":fs}));
                }
            }
        }
    }
    0
}
