//! C05 driver: emulated-field (`FieldChip`) and big-unsigned-integer
//! (`BigUintGadget`) operations on the deployed native field, inputs and
//! outputs exposed as public inputs, under the gadget game of `gad.rs`.

use std::io::Write;

use ff::Field;
use midnight_circuits::{
    biguint::biguint_gadget::BigUintGadget,
    field::{
        decomposition::chip::P2RDecompositionChip,
        foreign::{field_chip::FieldChipConfig, nb_field_chip_columns, params::{FieldEmulationParams, MultiEmulationParams}, FieldChip},
        AssignedNative, NativeChip, NativeGadget,
    },
    instructions::*,
    testing_utils::FromScratch,
    types::{AssignedBit, AssignedByte},
    CircuitField,
};
use midnight_curves::Fq as F;
use midnight_proofs::{
    circuit::{Layouter, SimpleFloorPlanner, Value},
    plonk::{Circuit, ConstraintSystem, Error},
};
use num_bigint::BigUint;
use serde_json::{json, Value as J};

use crate::{
    gad::{self, big_of_nat, nat_of_big, nats_json},
    util,
};

type NG = NativeGadget<F, P2RDecompositionChip<F>, NativeChip<F>>;
type MEP = MultiEmulationParams;
type FC<K> = FieldChip<F, K, MEP, NG>;

fn k_of_big<K: CircuitField>(b: &BigUint) -> K {
    let mut acc = K::ZERO;
    let c = K::from(256u64);
    for d in b.to_bytes_be() {
        acc = acc * c + K::from(d as u64);
    }
    acc
}

#[derive(Clone, Debug)]
pub struct FOp<K> {
    pub op: String,
    pub params: Vec<BigUint>,
    pub ins: Vec<BigUint>,
    pub known: bool,
    _m: std::marker::PhantomData<K>,
}

/// input kinds: 'F' emulated element, 'b' bit, 'B' byte
pub fn f_in_kinds(op: &str, params: &[BigUint]) -> Vec<char> {
    let n = |i: usize| params.get(i).map(|b| b.iter_u64_digits().next().unwrap_or(0) as usize).unwrap_or(0);
    match op {
        "add" | "sub" | "mul" | "div" | "is_equal" | "is_not_equal" | "assert_equal" | "assert_not_equal" | "addsub" | "unnorm_eq"
        | "unnorm_pub" | "lincomb" | "unnorm_mul" | "unnorm_iszero" | "unnorm_subsub" => vec!['F', 'F'],
        "neg" | "inv" | "inv0" | "add_constant" | "mul_by_constant" | "is_zero" | "is_equal_to_fixed" | "to_le_bits" | "to_le_bits_nc"
        | "to_le_bytes" | "assert_non_zero" | "pub" | "assign_pub" | "unnorm_bits" | "square" => vec!['F'],
        "select" => vec!['b', 'F', 'F'],
        "unnorm_subeq" => vec!['F', 'F', 'F'],
        "from_le_bits" => vec!['b'; n(0)],
        "from_le_bytes" => vec!['B'; n(0)],
        _ => vec![],
    }
}

enum Out<K: CircuitField>
where
    MEP: FieldEmulationParams<F, K>,
{
    Fe(midnight_circuits::field::foreign::field_chip::AssignedField<F, K, MEP>),
    B(AssignedBit<F>),
    By(AssignedByte<F>),
}

impl<K: CircuitField> Circuit<F> for FOp<K>
where
    MEP: FieldEmulationParams<F, K>,
{
    type Config = (<NG as FromScratch<F>>::Config, FieldChipConfig);
    type FloorPlanner = SimpleFloorPlanner;
    type Params = ();
    fn without_witnesses(&self) -> Self {
        let mut c = self.clone();
        c.known = false;
        c
    }
    fn configure(meta: &mut ConstraintSystem<F>) -> Self::Config {
        let c = meta.instance_column();
        let i = meta.instance_column();
        let ngc = NG::configure_from_scratch(meta, &[c, i]);
        let cols = (0..nb_field_chip_columns::<F, K, MEP>()).map(|_| meta.advice_column()).collect::<Vec<_>>();
        (ngc, FC::<K>::configure(meta, &cols))
    }
    fn synthesize(&self, config: Self::Config, mut l: impl Layouter<F>) -> Result<(), Error> {
        let ng = NG::new_from_scratch(&config.0);
        let fc = FC::<K>::new(&config.1, &ng);
        let l = &mut l;
        let kinds = f_in_kinds(&self.op, &self.params);
        let op = self.op.as_str();
        let mut fs = vec![];
        let mut bs: Vec<AssignedBit<F>> = vec![];
        let mut bys: Vec<AssignedByte<F>> = vec![];
        for (i, k) in kinds.iter().enumerate() {
            let v = if self.known { Value::known(self.ins[i].clone()) } else { Value::unknown() };
            match k {
                'F' => {
                    let x = if op == "assign_pub" {
                        gad::note('F', <MEP as FieldEmulationParams<F, K>>::NB_LIMBS);
                        fc.assign_as_public_input(l, v.map(|b| k_of_big::<K>(&b)))?
                    } else {
                        let x = fc.assign(l, v.map(|b| k_of_big::<K>(&b)))?;
                        gad::note('F', <MEP as FieldEmulationParams<F, K>>::NB_LIMBS);
                        fc.constrain_as_public_input(l, &x)?;
                        x
                    };
                    fs.push(x);
                }
                'b' => {
                    let b: AssignedBit<F> = ng.assign(l, v.map(|b| b == BigUint::from(1u8)))?;
                    gad::note('b', 1);
                    ng.constrain_as_public_input(l, &b)?;
                    bs.push(b);
                }
                _ => {
                    let b: AssignedByte<F> = ng.assign(l, v.map(|b| b.iter_u32_digits().next().unwrap_or(0) as u8))?;
                    gad::note('B', 1);
                    ng.constrain_as_public_input(l, &b)?;
                    bys.push(b);
                }
            }
        }
        let p = |i: usize| k_of_big::<K>(&self.params[i]);
        let pu = |i: usize| self.params[i].iter_u64_digits().next().unwrap_or(0) as usize;
        let mut outs: Vec<Out<K>> = vec![];
        match op {
            "add" => outs.push(Out::Fe(fc.add(l, &fs[0], &fs[1])?)),
            "sub" => outs.push(Out::Fe(fc.sub(l, &fs[0], &fs[1])?)),
            "mul" => outs.push(Out::Fe(fc.mul(l, &fs[0], &fs[1], None)?)),
            "square" => outs.push(Out::Fe(fc.mul(l, &fs[0], &fs[0], None)?)),
            "div" => outs.push(Out::Fe(fc.div(l, &fs[0], &fs[1])?)),
            "neg" => outs.push(Out::Fe(fc.neg(l, &fs[0])?)),
            "inv" => outs.push(Out::Fe(fc.inv(l, &fs[0])?)),
            "inv0" => outs.push(Out::Fe(fc.inv0(l, &fs[0])?)),
            "add_constant" => outs.push(Out::Fe(fc.add_constant(l, &fs[0], p(0))?)),
            "mul_by_constant" => outs.push(Out::Fe(fc.mul_by_constant(l, &fs[0], p(0))?)),
            "lincomb" => outs.push(Out::Fe(fc.linear_combination(l, &[(p(0), fs[0].clone()), (p(1), fs[1].clone())], p(2))?)),
            "is_equal" => outs.push(Out::B(fc.is_equal(l, &fs[0], &fs[1])?)),
            "is_not_equal" => outs.push(Out::B(fc.is_not_equal(l, &fs[0], &fs[1])?)),
            "is_zero" => outs.push(Out::B(fc.is_zero(l, &fs[0])?)),
            "is_equal_to_fixed" => outs.push(Out::B(fc.is_equal_to_fixed(l, &fs[0], p(0))?)),
            "assert_equal" => fc.assert_equal(l, &fs[0], &fs[1])?,
            "assert_not_equal" => fc.assert_not_equal(l, &fs[0], &fs[1])?,
            "assert_non_zero" => fc.assert_non_zero(l, &fs[0])?,
            "select" => outs.push(Out::Fe(fc.select(l, &bs[0], &fs[0], &fs[1])?)),
            "pub" | "assign_pub" => {}
            // chains that leave elements un-normalised before the operation of interest
            "addsub" => {
                let t = fc.add(l, &fs[0], &fs[1])?;
                let t = fc.add(l, &t, &fs[1])?;
                outs.push(Out::Fe(fc.sub(l, &t, &fs[0])?));
            }
            "unnorm_pub" => {
                let t = fc.add(l, &fs[0], &fs[1])?;
                let t = fc.add(l, &t, &fs[1])?;
                outs.push(Out::Fe(t));
            }
            "unnorm_eq" => {
                // (x + y) - y  versus  x: two representations of one residue
                let t = fc.add(l, &fs[0], &fs[1])?;
                let t = fc.sub(l, &t, &fs[1])?;
                outs.push(Out::B(fc.is_equal(l, &t, &fs[0])?));
                // and x + y versus y
                let u = fc.add(l, &fs[0], &fs[1])?;
                outs.push(Out::B(fc.is_equal(l, &u, &fs[1])?));
            }
            "unnorm_subsub" => {
                // x - (x - y): the subtrahend is itself an un-normalised difference
                let t = fc.sub(l, &fs[0], &fs[1])?;
                let u = fc.sub(l, &fs[0], &t)?;
                outs.push(Out::B(fc.is_equal(l, &u, &fs[1])?));
                let v = fc.sub(l, &fs[1], &t)?;
                outs.push(Out::B(fc.is_zero(l, &v)?));
                outs.push(Out::Fe(u));
            }
            "unnorm_subeq" => {
                let t = fc.sub(l, &fs[1], &fs[2])?;
                outs.push(Out::B(fc.is_equal(l, &fs[0], &t)?));
                outs.push(Out::B(fc.is_not_equal(l, &fs[0], &t)?));
                let d = fc.sub(l, &fs[0], &t)?;
                outs.push(Out::B(fc.is_zero(l, &d)?));
            }
            "unnorm_iszero" => {
                let t = fc.sub(l, &fs[0], &fs[1])?;
                outs.push(Out::B(fc.is_zero(l, &t)?));
            }
            "unnorm_mul" => {
                let t = fc.add(l, &fs[0], &fs[1])?;
                let u = fc.sub(l, &fs[0], &fs[1])?;
                outs.push(Out::Fe(fc.mul(l, &t, &u, None)?));
            }
            "unnorm_bits" => {
                let t = fc.add(l, &fs[0], &fs[0])?;
                for b in fc.assigned_to_le_bits(l, &t, None, true)? {
                    outs.push(Out::B(b));
                }
            }
            "to_le_bits" | "to_le_bits_nc" => {
                let nb = if pu(0) == 0 { None } else { Some(pu(0)) };
                for b in fc.assigned_to_le_bits(l, &fs[0], nb, op == "to_le_bits")? {
                    outs.push(Out::B(b));
                }
            }
            "to_le_bytes" => {
                let nb = if pu(0) == 0 { None } else { Some(pu(0)) };
                for b in fc.assigned_to_le_bytes(l, &fs[0], nb)? {
                    outs.push(Out::By(b));
                }
            }
            "from_le_bits" => outs.push(Out::Fe(fc.assigned_from_le_bits(l, &bs)?)),
            "from_le_bytes" => outs.push(Out::Fe(fc.assigned_from_le_bytes(l, &bys)?)),
            other => return Err(Error::Synthesis(format!("unknown op {other}"))),
        }
        for o in outs.iter() {
            match o {
                Out::Fe(x) => {
                    gad::note('F', <MEP as FieldEmulationParams<F, K>>::NB_LIMBS);
                    fc.constrain_as_public_input(l, x)?
                }
                Out::B(b) => {
                    gad::note('b', 1);
                    ng.constrain_as_public_input(l, b)?
                }
                Out::By(b) => {
                    gad::note('B', 1);
                    ng.constrain_as_public_input(l, b)?
                }
            }
        }
        ng.load_from_scratch(l)
    }
}

// ---------------------------------------------------------------------------
// BigUint gadget

#[derive(Clone, Debug)]
pub struct BOp {
    pub op: String,
    pub nbits: Vec<u32>, // declared widths of the inputs
    pub params: Vec<BigUint>,
    pub ins: Vec<BigUint>,
    pub known: bool,
}

pub fn b_in_count(op: &str) -> usize {
    match op {
        "add" | "sub" | "mul" | "div_rem" | "lower_than" | "is_equal" | "assert_equal" | "addmul" | "unnorm_eq" | "unnorm_lt" => 2,
        "mod_exp" => 2, // x, modulus; exponent is a parameter
        "to_le_bits" | "to_le_bytes" | "pub" | "is_equal_to_fixed" | "roundtrip_bits" | "roundtrip_bytes" => 1,
        "select" => 3,
        _ => 0,
    }
}

impl Circuit<F> for BOp {
    type Config = <NG as FromScratch<F>>::Config;
    type FloorPlanner = SimpleFloorPlanner;
    type Params = ();
    fn without_witnesses(&self) -> Self {
        let mut c = self.clone();
        c.known = false;
        c
    }
    fn configure(meta: &mut ConstraintSystem<F>) -> Self::Config {
        let c = meta.instance_column();
        let i = meta.instance_column();
        NG::configure_from_scratch(meta, &[c, i])
    }
    fn synthesize(&self, config: Self::Config, mut l: impl Layouter<F>) -> Result<(), Error> {
        let ng = NG::new_from_scratch(&config);
        let g = BigUintGadget::<F, NG>::new(&ng);
        let l = &mut l;
        let op = self.op.as_str();
        let v = |i: usize| if self.known { Value::known(self.ins[i].clone()) } else { Value::unknown() };
        let mut xs = vec![];
        let mut sel: Option<AssignedBit<F>> = None;
        let n = b_in_count(op);
        for i in 0..n {
            if op == "select" && i == 0 {
                let b: AssignedBit<F> = ng.assign(l, v(0).map(|b| b == BigUint::from(1u8)))?;
                gad::note('b', 1);
                ng.constrain_as_public_input(l, &b)?;
                sel = Some(b);
                continue;
            }
            let x = g.assign_biguint(l, v(i), self.nbits[i])?;
            let nb = x.nb_bits();
            gad::note('U', nb);
            g.constrain_as_public_input(l, &x, nb)?;
            xs.push(x);
        }
        match op {
            "add" => { let t_ = g.add(l, &xs[0], &xs[1])?; let nb_ = t_.nb_bits(); gad::note('U', nb_); g.constrain_as_public_input(l, &t_, nb_)? },
            "sub" => { let t_ = g.sub(l, &xs[0], &xs[1])?; let nb_ = t_.nb_bits(); gad::note('U', nb_); g.constrain_as_public_input(l, &t_, nb_)? },
            "mul" => { let t_ = g.mul(l, &xs[0], &xs[1])?; let nb_ = t_.nb_bits(); gad::note('U', nb_); g.constrain_as_public_input(l, &t_, nb_)? },
            "addmul" => {
                // (x + y) * y: multiplication of an un-normalised operand
                let t = g.add(l, &xs[0], &xs[1])?;
                { let t_ = g.mul(l, &t, &xs[1])?; let nb_ = t_.nb_bits(); gad::note('U', nb_); g.constrain_as_public_input(l, &t_, nb_)? }
            }
            "div_rem" => {
                let (q, r) = g.div_rem(l, &xs[0], &xs[1])?;
                { let nb_ = q.nb_bits(); gad::note('U', nb_); g.constrain_as_public_input(l, &q, nb_)? };
                { let nb_ = r.nb_bits(); gad::note('U', nb_); g.constrain_as_public_input(l, &r, nb_)? };
            }
            "mod_exp" => {
                let e = self.params[0].iter_u64_digits().next().unwrap_or(0);
                { let t_ = g.mod_exp(l, &xs[0], e, &xs[1])?; let nb_ = t_.nb_bits(); gad::note('U', nb_); g.constrain_as_public_input(l, &t_, nb_)? }
            }
            "lower_than" => {
                let b = g.lower_than(l, &xs[0], &xs[1])?;
                gad::note('b', 1);
                ng.constrain_as_public_input(l, &b)?;
            }
            "unnorm_lt" => {
                // x + y < y + y  iff  x < y
                let t = g.add(l, &xs[0], &xs[1])?;
                let u = g.add(l, &xs[1], &xs[1])?;
                let b = g.lower_than(l, &t, &u)?;
                gad::note('b', 1);
                ng.constrain_as_public_input(l, &b)?;
            }
            "is_equal" => {
                let b = g.is_equal(l, &xs[0], &xs[1])?;
                gad::note('b', 1);
                ng.constrain_as_public_input(l, &b)?;
            }
            "unnorm_eq" => {
                // x + y == y + x (always), x + y == y + y (iff x = y)
                let t = g.add(l, &xs[0], &xs[1])?;
                let u = g.add(l, &xs[1], &xs[0])?;
                let w = g.add(l, &xs[1], &xs[1])?;
                let b = g.is_equal(l, &t, &u)?;
                gad::note('b', 1);
                ng.constrain_as_public_input(l, &b)?;
                let b = g.is_equal(l, &t, &w)?;
                gad::note('b', 1);
                ng.constrain_as_public_input(l, &b)?;
            }
            "is_equal_to_fixed" => {
                let b = g.is_equal_to_fixed(l, &xs[0], self.params[0].clone())?;
                gad::note('b', 1);
                ng.constrain_as_public_input(l, &b)?;
            }
            "assert_equal" => g.assert_equal(l, &xs[0], &xs[1])?,
            "select" => { let t_ = g.select(l, sel.as_ref().unwrap(), &xs[0], &xs[1])?; let nb_ = t_.nb_bits(); gad::note('U', nb_); g.constrain_as_public_input(l, &t_, nb_)? },
            "to_le_bits" => {
                for b in g.to_le_bits(l, &xs[0])? {
                    gad::note('b', 1);
                    ng.constrain_as_public_input(l, &b)?;
                }
            }
            "to_le_bytes" => {
                for b in g.to_le_bytes(l, &xs[0])? {
                    gad::note('B', 1);
                    ng.constrain_as_public_input(l, &b)?;
                }
            }
            "roundtrip_bits" => {
                let bits = g.to_le_bits(l, &xs[0])?;
                { let t_ = g.from_le_bits(l, &bits)?; let nb_ = t_.nb_bits(); gad::note('U', nb_); g.constrain_as_public_input(l, &t_, nb_)? }
            }
            "roundtrip_bytes" => {
                let bytes = g.to_le_bytes(l, &xs[0])?;
                { let t_ = g.from_le_bytes(l, &bytes)?; let nb_ = t_.nb_bits(); gad::note('U', nb_); g.constrain_as_public_input(l, &t_, nb_)? }
            }
            "pub" => {}
            other => return Err(Error::Synthesis(format!("unknown op {other}"))),
        }
        ng.load_from_scratch(l)
    }
}

// ---------------------------------------------------------------------------

fn bigs(v: &J) -> Vec<BigUint> {
    v.as_array().map(|a| a.iter().map(big_of_nat).collect()).unwrap_or_default()
}

pub fn emit(out: &mut dyn Write, sc: &J, extra: J, r: &gad::RunOut, tamper: J) {
    let mut e = json!({"ev":"Op","fam":sc["fam"],"field":sc["field"],"op":sc["op"],"params":sc["params"],"ins":sc["ins"],
        "tamper":tamper,"status":r.status,"exposed":nats_json(&r.exposed),"nassign":r.nassign,"detail":r.detail,"layout":gad::layout_json(&r.layout)});
    for (k, v) in extra.as_object().unwrap() {
        e[k] = v.clone();
    }
    writeln!(out, "{e}").unwrap();
}

pub fn run_with_faults<C: Circuit<F>>(c: &C, sc: &J, extra: J, out: &mut dyn Write) {
    let k = sc["k"].as_u64().unwrap_or(11) as u32;
    let base = gad::run_game(c, k, None);
    emit(out, sc, extra.clone(), &base, J::Null);
    if let Some(faults) = sc["faults"].as_array() {
        let maxi = sc["max_index"].as_u64().unwrap_or(1_000_000) as usize;
        let stride = if sc["spread"].as_bool().unwrap_or(false) {
            (base.nassign / maxi.max(1)).max(1)
        } else {
            sc["stride"].as_u64().unwrap_or(1).max(1) as usize
        };
        let off = sc["offset"].as_u64().unwrap_or(0) as usize;
        let min_index = sc["min_index"].as_u64().unwrap_or(0) as usize;
        let mut i = min_index + off % stride;
        let mut done = 0;
        while i < base.nassign && done < maxi {
            for f in faults {
                let fs = f.as_str().unwrap();
                let r = gad::run_game(c, k, Some((i, gad::fault_of(fs))));
                emit(out, sc, extra.clone(), &r, json!({"i":i,"fault":fs}));
            }
            i += stride;
            done += 1;
        }
    }
}

fn run_field<K: CircuitField>(sc: &J, out: &mut dyn Write)
where
    MEP: FieldEmulationParams<F, K>,
{
    let c = FOp::<K> {
        op: sc["op"].as_str().unwrap().into(),
        params: bigs(&sc["params"]),
        ins: bigs(&sc["ins"]),
        known: true,
        _m: Default::default(),
    };
    let kinds: Vec<String> = f_in_kinds(&c.op, &c.params).iter().map(|c| c.to_string()).collect();
    run_with_faults(&c, sc, json!({"kin":kinds}), out);
}

fn header_field<K: CircuitField>(name: &str, out: &mut dyn Write)
where
    MEP: FieldEmulationParams<F, K>,
{
    let m: BigUint = K::modulus();
    writeln!(out, "{}", json!({"ev":"Params","field":name,"modulus":nat_of_big(&m),
        "lb":<MEP as FieldEmulationParams<F, K>>::LOG2_BASE,"nl":<MEP as FieldEmulationParams<F, K>>::NB_LIMBS,
        "numbits":K::NUM_BITS})).unwrap();
}

pub fn main(args: &[String]) -> i32 {
    let scen = util::read_ndjson(&args[1]);
    let mut out = util::create(&args[2]);
    if args[0] != "run" {
        return 2;
    }
    writeln!(out, "{}", json!({"ev":"header","prop":"C05","n":scen.len(),"native":nat_of_big(&<F as CircuitField>::modulus())})).unwrap();
    header_field::<midnight_curves::k256::Fp>("secp_p", &mut out);
    header_field::<midnight_curves::k256::Fq>("secp_n", &mut out);
    header_field::<midnight_curves::Fp>("bls_p", &mut out);
    header_field::<midnight_curves::curve25519::Fp>("c25519_p", &mut out);
    header_field::<midnight_curves::curve25519::Scalar>("c25519_l", &mut out);
    for sc in scen.iter() {
        if sc["fam"] == "big" {
            let c = BOp {
                op: sc["op"].as_str().unwrap().into(),
                nbits: sc["nbits"].as_array().map(|a| a.iter().map(|x| x.as_u64().unwrap() as u32).collect()).unwrap_or_default(),
                params: bigs(&sc["params"]),
                ins: bigs(&sc["ins"]),
                known: true,
            };
            run_with_faults(&c, sc, json!({"nbits":sc["nbits"]}), &mut out);
            continue;
        }
        match sc["field"].as_str().unwrap_or("") {
            "secp_p" => run_field::<midnight_curves::k256::Fp>(sc, &mut out),
            "secp_n" => run_field::<midnight_curves::k256::Fq>(sc, &mut out),
            "bls_p" => run_field::<midnight_curves::Fp>(sc, &mut out),
            "c25519_p" => run_field::<midnight_curves::curve25519::Fp>(sc, &mut out),
            "c25519_l" => run_field::<midnight_curves::curve25519::Scalar>(sc, &mut out),
            _ => return 2,
        }
    }
    let _ = (AssignedNative::<F>::value, F::ZERO);
    0
}
