//! C09 driver: record the structural part of a synthesis (fixed cells,
//! selectors, copies, cell usage, instance queries, region count) through a
//! recording `Assignment`, for unknown and for concrete witnesses.

use std::{
    collections::BTreeSet,
    io::Write,
    marker::PhantomData,
    panic::{catch_unwind, AssertUnwindSafe},
};

use ff::{Field, PrimeField};
use midnight_curves::Fq as F;
use midnight_proofs::{
    circuit::Value,
    plonk::{
        Advice, Any, Assignment, Challenge, Circuit, Column, ConstraintSystem, Error, Fixed,
        FloorPlanner, Instance, Selector,
    },
    utils::rational::Rational,
};
use midnight_zk_stdlib::MidnightCircuit;
use serde_json::{json, Value as J};

use crate::{c04::OpCircuit, plonkrun::panic_msg, stdops::StdOp, toy::Fp, util};

#[derive(Default)]
pub struct Structure {
    pub selectors: BTreeSet<(usize, usize)>,
    pub fixed: BTreeSet<(usize, usize, Vec<u8>)>,
    pub copies: BTreeSet<((u8, usize, usize), (u8, usize, usize))>,
    pub advice_cells: BTreeSet<(usize, usize)>,
    pub instance_queries: BTreeSet<(usize, usize)>,
    pub fills: BTreeSet<(usize, usize, Vec<u8>)>,
    pub regions: usize,
}

impl Structure {
    pub fn digest(&self) -> String {
        let mut st = blake2b_simd::Params::new().hash_length(16).to_state();
        let mut feed = |tag: &str, s: String| {
            st.update(tag.as_bytes());
            st.update(s.as_bytes());
        };
        feed("sel", format!("{:?}", self.selectors));
        feed("fix", format!("{:?}", self.fixed));
        feed("cp", format!("{:?}", self.copies));
        // column and row usage of the advice area: the height of every advice column.
        // (Which individual cells are written may legitimately depend on whether the
        // witness is known: e.g. hint cells assigned inside `Value::map`.)
        feed("adv", format!("{:?}", self.advice_heights()));
        feed("iq", format!("{:?}", self.instance_queries));
        feed("fill", format!("{:?}", self.fills));
        feed("reg", format!("{}", self.regions));
        util::hex(st.finalize().as_bytes())
    }
    pub fn advice_heights(&self) -> std::collections::BTreeMap<usize, usize> {
        let mut h = std::collections::BTreeMap::new();
        for (c, r) in self.advice_cells.iter() {
            let e = h.entry(*c).or_insert(0usize);
            *e = (*e).max(*r + 1);
        }
        h
    }
    pub fn counts(&self) -> J {
        json!({"selectors": self.selectors.len(), "fixed": self.fixed.len(), "copies": self.copies.len(),
               "advice_columns": self.advice_heights().len(),
               "advice_rows": self.advice_heights().values().copied().max().unwrap_or(0),
               "instance_queries": self.instance_queries.len(),
               "fills": self.fills.len(), "regions": self.regions})
    }
    /// first structural difference with another run (for diagnostics)
    pub fn diff(&self, o: &Structure) -> String {
        macro_rules! d {
            ($f:ident) => {
                if self.$f != o.$f {
                    let a: Vec<_> = self.$f.symmetric_difference(&o.$f).take(3).collect();
                    return format!("{}: {:?}", stringify!($f), a);
                }
            };
        }
        d!(selectors);
        d!(fixed);
        d!(copies);
        if self.advice_heights() != o.advice_heights() {
            return format!("advice column heights {:?} vs {:?}", self.advice_heights(), o.advice_heights());
        }
        d!(instance_queries);
        d!(fills);
        if self.regions != o.regions {
            return format!("regions {} vs {}", self.regions, o.regions);
        }
        String::new()
    }
}

struct RecAssign<'a, Fd: Field> {
    s: Structure,
    instance: &'a [Vec<Fd>],
    _m: PhantomData<Fd>,
}

fn anyc(c: &Column<Any>) -> u8 {
    match c.column_type() {
        Any::Advice(_) => 0,
        Any::Fixed => 1,
        Any::Instance => 2,
    }
}

impl<Fd: PrimeField> Assignment<Fd> for RecAssign<'_, Fd> {
    fn enter_region<NR, N>(&mut self, _: N)
    where
        NR: Into<String>,
        N: FnOnce() -> NR,
    {
        self.s.regions += 1;
    }
    fn annotate_column<A, AR>(&mut self, _: A, _: Column<Any>)
    where
        A: FnOnce() -> AR,
        AR: Into<String>,
    {
    }
    fn exit_region(&mut self) {}
    fn enable_selector<A, AR>(&mut self, _: A, s: &Selector, row: usize) -> Result<(), Error>
    where
        A: FnOnce() -> AR,
        AR: Into<String>,
    {
        self.s.selectors.insert((s.index(), row));
        Ok(())
    }
    fn query_instance(&self, column: Column<Instance>, row: usize) -> Result<Value<Fd>, Error> {
        Ok(self
            .instance
            .get(column.index())
            .and_then(|c| c.get(row))
            .map(|v| Value::known(*v))
            .unwrap_or_else(Value::unknown))
    }
    fn assign_advice<V, VR, A, AR>(&mut self, _: A, column: Column<Advice>, row: usize, to: V) -> Result<(), Error>
    where
        V: FnOnce() -> Value<VR>,
        VR: Into<Rational<Fd>>,
        A: FnOnce() -> AR,
        AR: Into<String>,
    {
        // evaluate the closure as the prover would: data-dependent branches inside it run
        let _ = to();
        self.s.advice_cells.insert((column.index(), row));
        Ok(())
    }
    fn assign_fixed<V, VR, A, AR>(&mut self, _: A, column: Column<Fixed>, row: usize, to: V) -> Result<(), Error>
    where
        V: FnOnce() -> Value<VR>,
        VR: Into<Rational<Fd>>,
        A: FnOnce() -> AR,
        AR: Into<String>,
    {
        let mut bytes = vec![0xEEu8];
        to().into_field().evaluate().map(|v| bytes = v.to_repr().as_ref().to_vec());
        self.s.fixed.insert((column.index(), row, bytes));
        Ok(())
    }
    fn copy(&mut self, lc: Column<Any>, lr: usize, rc: Column<Any>, rr: usize) -> Result<(), Error> {
        let a = (anyc(&lc), lc.index(), lr);
        let b = (anyc(&rc), rc.index(), rr);
        self.s.copies.insert(if a <= b { (a, b) } else { (b, a) });
        Ok(())
    }
    fn fill_from_row(&mut self, column: Column<Fixed>, row: usize, to: Value<Rational<Fd>>) -> Result<(), Error> {
        let mut bytes = vec![0xEEu8];
        to.evaluate().map(|v| bytes = v.to_repr().as_ref().to_vec());
        self.s.fills.insert((column.index(), row, bytes));
        Ok(())
    }
    fn get_challenge(&self, _: Challenge) -> Value<Fd> {
        Value::unknown()
    }
    fn push_namespace<NR, N>(&mut self, _: N)
    where
        NR: Into<String>,
        N: FnOnce() -> NR,
    {
    }
    fn pop_namespace(&mut self, _: Option<String>) {}
}

pub fn structure_of<Fd: PrimeField + Ord + ff::FromUniformBytes<64>, C: Circuit<Fd>>(
    circuit: &C,
    instance: &[Vec<Fd>],
) -> Result<Structure, String> {
    let r = catch_unwind(AssertUnwindSafe(|| {
        let mut cs = ConstraintSystem::<Fd>::default();
        let config = C::configure_with_params(&mut cs, circuit.params());
        let mut rec = RecAssign { s: Structure::default(), instance, _m: PhantomData };
        C::FloorPlanner::synthesize(&mut rec, circuit, config, cs.constants().clone()).map_err(|e| format!("{e:?}"))?;
        Ok::<_, String>(rec.s)
    }));
    match r {
        Ok(x) => x,
        Err(p) => Err(format!("panic:{}", panic_msg(p))),
    }
}

fn emit(out: &mut dyn Write, circuit: &str, label: &str, base: &Option<Structure>, s: Result<Structure, String>) -> Option<Structure> {
    match s {
        Ok(st) => {
            let diff = base.as_ref().map(|b| b.diff(&st)).unwrap_or_default();
            let cells_differ = base.as_ref().map(|b| b.advice_cells != st.advice_cells).unwrap_or(false);
            writeln!(out, "{}", json!({"ev":"Structure","circuit":circuit,"witness":label,"res":"ok",
                "digest":st.digest(),"counts":st.counts(),"diff":diff,"advice_cells":st.advice_cells.len(),
                "advice_cell_set_differs":cells_differ})).unwrap();
            Some(st)
        }
        Err(e) => {
            writeln!(out, "{}", json!({"ev":"Structure","circuit":circuit,"witness":label,"res":"err","digest":"-",
                "counts":{},"diff":e.chars().take(200).collect::<String>()})).unwrap();
            None
        }
    }
}

pub fn main(args: &[String]) -> i32 {
    let scen = util::read_ndjson(&args[0]);
    let mut out = util::create(&args[1]);
    writeln!(out, "{}", json!({"ev":"header","prop":"C09","n":scen.len()})).unwrap();
    for sc in scen.iter() {
        let name = sc["name"].as_str().unwrap_or("?").to_string();
        match sc["kind"].as_str().unwrap() {
            "stdop" => {
                let rel = StdOp { op: sc["op"].as_str().unwrap().into(), n: sc["n"].as_u64().unwrap_or(0) as usize };
                let mk = |w: Option<Vec<J>>| {
                    MidnightCircuit::new(&rel, Value::unknown(), w.map(Value::known).unwrap_or_else(Value::unknown), Some(8))
                };
                let base = emit(&mut out, &name, "unknown", &None, structure_of(&mk(None), &[]));
                for (i, w) in sc["witnesses"].as_array().unwrap().iter().enumerate() {
                    let wv: Vec<J> = w.as_array().unwrap().clone();
                    emit(&mut out, &name, &format!("w{i}:{w}"), &base, structure_of(&mk(Some(wv)), &[]));
                }
                // keys generated without a witness must verify honest proofs
                if sc["prove"].as_bool().unwrap_or(false) {
                    let w0: Vec<J> = sc["witnesses"][0].as_array().unwrap().clone();
                    let r = catch_unwind(AssertUnwindSafe(|| {
                        use midnight_zk_stdlib as sl;
                        use rand::SeedableRng;
                        let mut rng = rand_chacha::ChaCha8Rng::seed_from_u64(9);
                        let k = MidnightCircuit::from_relation(&rel).min_k();
                        let params = midnight_proofs::poly::kzg::params::ParamsKZG::<midnight_curves::Bls12>::unsafe_setup(k, &mut rng);
                        let vk = sl::setup_vk(&params, &rel);
                        let pk = sl::setup_pk(&rel, &vk);
                        // the instance: what the circuit itself exposes for this witness
                        let circuit = MidnightCircuit::new(&rel, Value::known(vec![]), Value::known(w0.clone()), Some(8));
                        let mp = midnight_proofs::dev::MockProver::run(k, &circuit, vec![vec![], vec![]]).map_err(|e| format!("{e:?}"))?;
                        let inst = crate::c04::self_instance(&mp);
                        let proof = sl::prove::<StdOp, crate::plonkrun::Blake>(&params, &pk, &rel, &inst, w0.clone(), &mut rng).map_err(|e| format!("prove {e:?}"))?;
                        sl::verify::<StdOp, crate::plonkrun::Blake>(&params.verifier_params(), &vk, &inst, None, &proof).map_err(|e| format!("verify {e:?}"))
                    }));
                    let (res, det) = match r {
                        Ok(Ok(())) => ("ok", String::new()),
                        Ok(Err(e)) => ("err", e),
                        Err(p) => ("panic", panic_msg(p)),
                    };
                    writeln!(out, "{}", json!({"ev":"Prove","circuit":name,"res":res,"detail":det.chars().take(200).collect::<String>()})).unwrap();
                }
            }
            "toyop" => {
                let params: Vec<u64> = sc["params"].as_array().map(|a| a.iter().map(|x| x.as_u64().unwrap()).collect()).unwrap_or_default();
                let nin = crate::c04::in_kinds(sc["op"].as_str().unwrap(), &params).len();
                let unk = {
                    let mut c = OpCircuit::<Fp<12289>>::new(sc["op"].as_str().unwrap(), &params, &vec![0; nin]);
                    c.known = false;
                    c
                };
                let base = emit(&mut out, &name, "unknown", &None, structure_of(&unk, &[]));
                for (i, w) in sc["witnesses"].as_array().unwrap().iter().enumerate() {
                    let ins: Vec<u64> = w.as_array().unwrap().iter().map(|x| x.as_u64().unwrap()).collect();
                    let c = OpCircuit::<Fp<12289>>::new(sc["op"].as_str().unwrap(), &params, &ins);
                    emit(&mut out, &name, &format!("w{i}:{w}"), &base, structure_of(&c, &[]));
                }
            }
            _ => {}
        }
    }
    let _ = F::ZERO;
    0
}
