//! C02 driver: for each scenario, extract the real constraint system, then for
//! every planned fault judge the faulted assignment three ways: `MockProver`,
//! the real prover+verifier, and (by TLC, from the logged tables)
//! `ConstraintSystem!Satisfied`.

use std::io::Write;

use midnight_curves::Fq as F;
use midnight_proofs::dev::MockProver;
use rand::{Rng, SeedableRng};
use rand_chacha::ChaCha8Rng;
use serde_json::{json, Value as J};

use crate::{
    c01::scenario_shape,
    extract::{self},
    fault::{self, FaultPlan, Faulted},
    plonkrun::{self, Blake, ParamCache, CS},
    shapes::ShapeCircuit,
    util,
};
use midnight_proofs::plonk::{keygen_pk, keygen_vk_with_k, Circuit};

fn mock(c: &Faulted<ShapeCircuit>, inst: &[Vec<F>]) -> (String, Option<MockProver<F>>) {
    let r = std::panic::catch_unwind(std::panic::AssertUnwindSafe(|| {
        MockProver::run(c.0.shape.k, c, inst.to_vec()).map_err(|e| format!("{e:?}"))
    }));
    match r {
        Ok(Ok(mp)) => {
            let v = std::panic::catch_unwind(std::panic::AssertUnwindSafe(|| mp.verify()));
            match v {
                Ok(Ok(())) => ("ok".into(), Some(mp)),
                Ok(Err(e)) => (format!("err:{} failures; first: {}", e.len(), e[0]), Some(mp)),
                Err(p) => (format!("panic:{}", plonkrun::panic_msg(p)), Some(mp)),
            }
        }
        Ok(Err(e)) => (format!("err:run:{e}"), None),
        Err(p) => (format!("panic:{}", plonkrun::panic_msg(p)), None),
    }
}

fn class(v: &str) -> &'static str {
    if v == "ok" {
        "ok"
    } else if v.starts_with("panic") {
        "panic"
    } else {
        "err"
    }
}

pub fn run_one(cache: &mut ParamCache, sc: &J, out: &mut dyn Write) -> Result<(), String> {
    let shape = scenario_shape(sc)?;
    let seed = sc["seed"].as_u64().unwrap_or(1);
    let maxf = sc["max_faults"].as_u64().unwrap_or(60) as usize;
    let mut rng = ChaCha8Rng::seed_from_u64(seed);
    let base = ShapeCircuit::generate(&shape, 0);
    let circuit = Faulted(base.clone());
    let instance = base.instance_f();
    let params = cache.get(shape.k).clone();
    fault::clear_plan();
    let empty = circuit.without_witnesses();
    let vk = keygen_vk_with_k::<F, CS, _>(&params, &empty, shape.k).map_err(|e| format!("vk {e:?}"))?;
    let pk = keygen_pk(vk.clone(), &empty).map_err(|e| format!("pk {e:?}"))?;

    // honest extraction
    let (mv, mp) = mock(&circuit, &instance);
    let mp = mp.ok_or("mock run failed")?;
    if mv != "ok" {
        return Err(format!("honest circuit unsatisfied: {mv}"));
    }
    let assigned = fault::assigned_cells();
    let mut big = false;
    let cs = extract::cs_json(&mp, &mut big);
    let (fixed, advice, inst) = extract::tables_json(&mp, &mut big);
    if big {
        return Err("constraint system has non-small values".into());
    }
    let usable = mp.usable_rows().end;
    writeln!(
        out,
        "{}",
        json!({"ev":"reset","sc":sc,"cs":cs,"fixed":fixed,"advice":advice,"instance":inst,
               "nassigned":assigned.len()})
    )
    .unwrap();

    // fault plan: (what, FaultPlan, instance override)
    let mut plans: Vec<(J, FaultPlan, Option<Vec<Vec<F>>>)> = vec![];
    plans.push((json!({"t":"none"}), FaultPlan::default(), None));
    let mut cells = assigned.clone();
    cells.sort();
    cells.dedup();
    for (c, r) in cells.iter() {
        for kind in ["plus1", "zero", "plus3"] {
            plans.push((
                json!({"t":"advice","col":c,"row":r,"kind":kind}),
                FaultPlan { target: Some((*c, *r, kind.into())), extra: vec![] },
                None,
            ));
        }
    }
    // swap with the neighbour below (both assigned): set both via target+extra is not
    // expressible; emulate by two-cell overwrite through `extra` on assigned cells is
    // refused by MockProver (double assignment is allowed: last write wins)
    // unused cells in usable rows: must NOT cause rejection
    let ncols = mp.advice().len();
    let mut unused: Vec<(usize, usize)> = vec![];
    for c in 0..ncols {
        for r in 0..usable {
            if !cells.contains(&(c, r)) && cells.iter().any(|(cc, _)| *cc == c) {
                unused.push((c, r));
            }
        }
    }
    for _ in 0..8.min(unused.len()) {
        let (c, r) = unused[rng.gen_range(0..unused.len())];
        plans.push((
            json!({"t":"unused","col":c,"row":r,"val":5}),
            FaultPlan { target: None, extra: vec![(c, r, 5)] },
            None,
        ));
    }
    // instance cells
    for (j, col) in instance.iter().enumerate() {
        for (r, _) in col.iter().enumerate() {
            let mut i2 = instance.clone();
            i2[j][r] += F::from(1);
            plans.push((json!({"t":"instance","col":j,"row":r,"kind":"plus1"}), FaultPlan::default(), Some(i2)));
        }
    }
    // sample down to max_faults, always keeping the control and instance faults
    if plans.len() > maxf {
        let keep: Vec<usize> = {
            let mut idx: Vec<usize> = (1..plans.len()).collect();
            for i in (1..idx.len()).rev() {
                let j = rng.gen_range(0..=i);
                idx.swap(i, j);
            }
            let mut k: Vec<usize> = idx.into_iter().take(maxf - 1).collect();
            k.push(0);
            k.sort();
            k
        };
        plans = keep.into_iter().map(|i| plans[i].clone()).collect();
    }

    for (what, plan, inst_over) in plans {
        let inst_now = inst_over.clone().unwrap_or_else(|| instance.clone());
        fault::set_plan(plan.clone());
        let (mv, mp2) = mock(&circuit, &inst_now);
        // the faulted tables as MockProver holds them
        let mut big = false;
        let (adv2, inst2) = match &mp2 {
            Some(m) => {
                let (_, a, i) = extract::tables_json(m, &mut big);
                (a, i)
            }
            None => (json!(null), json!(null)),
        };
        // real prover + verifier
        let real = {
            let pr = plonkrun::prove_any::<Blake, _>(&params, &pk, &[circuit.clone()], shape.committed, &[inst_now.clone()], seed);
            match pr {
                Err(e) => format!("noproof:{e}"),
                Ok(p) => {
                    fault::clear_plan();
                    let (coms, plain) = plonkrun::split_instances(&params, &vk, shape.committed, &[inst_now.clone()]);
                    plonkrun::verify::<Blake>(&params, &vk, &coms, &plain, &p.proof).verdict
                }
            }
        };
        fault::clear_plan();
        let realc = if real.starts_with("noproof") { "noproof" } else { class(&real) };
        writeln!(
            out,
            "{}",
            json!({"ev":"Judge","what":what,"advice":adv2,"instance":inst2,"big":big,
                   "mock":class(&mv),"real":realc,"mock_detail":mv.chars().take(200).collect::<String>(),
                   "real_detail":real.chars().take(200).collect::<String>()})
        )
        .unwrap();
    }
    writeln!(out, "{}", json!({"ev":"EndRun"})).unwrap();
    Ok(())
}

pub fn main(args: &[String]) -> i32 {
    let scen = util::read_ndjson(&args[0]);
    let mut out = util::create(&args[1]);
    let mut cache = ParamCache::default();
    writeln!(out, "{}", json!({"ev":"header","prop":"C02","n":scen.len()})).unwrap();
    for sc in scen.iter() {
        if let Err(e) = run_one(&mut cache, sc, &mut out) {
            eprintln!("HARNESS-ERROR scenario {sc}: {e}");
            return 2;
        }
    }
    0
}
