//! C11 driver: calls the curve library's group operations in every mix of
//! representations, scalar multiplication, summation, batch normalisation and
//! the encodings, and logs arguments and results as affine coordinates.

use std::{
    io::Write,
    panic::{catch_unwind, AssertUnwindSafe},
};

use ff::{Field, PrimeField};
use group::{prime::PrimeCurveAffine, Curve, Group, GroupEncoding};
use midnight_circuits::{ecc::curves::CircuitCurve, CircuitField};
use midnight_curves::{
    bn256,
    curve25519::{self, Curve25519},
    k256::{self as k256_mod, K256Affine, K256},
    Fq as BlsFr, Fr as JubFr, G1Affine, G1Projective, JubjubAffine, JubjubExtended, JubjubSubgroup,
};
use num_bigint::BigUint;
use serde_json::{json, Value as J};

use crate::{gad::nat_of_big, plonkrun::panic_msg, util};

fn scalar_i<S: PrimeField>(k: i64) -> S {
    if k < 0 {
        -S::from((-k) as u64)
    } else {
        S::from(k as u64)
    }
}
fn s_of_big<S: PrimeField>(b: &BigUint) -> S {
    let mut acc = S::ZERO;
    let c = S::from(256u64);
    for d in b.to_bytes_be() {
        acc = acc * c + S::from(d as u64);
    }
    acc
}
fn pt_json(c: Option<(BigUint, BigUint)>) -> J {
    match c {
        Some((x, y)) => json!({"id":false,"x":nat_of_big(&x),"y":nat_of_big(&y)}),
        None => json!({"id":true,"x":[],"y":[]}),
    }
}
fn cc<C: CircuitCurve>(p: C, is_id: bool) -> J {
    if is_id {
        return pt_json(None);
    }
    pt_json(p.coordinates().map(|(x, y)| (x.to_biguint(), y.to_biguint())))
}
fn le_big<T: PrimeField>(x: &T) -> BigUint {
    BigUint::from_bytes_le(x.to_repr().as_ref())
}

struct Log<'a> {
    out: &'a mut dyn Write,
    curve: &'static str,
}
impl<'a> Log<'a> {
    fn op(&mut self, op: &str, ins: Vec<J>, scalars: Vec<BigUint>, f: impl FnOnce() -> J) {
        let r = catch_unwind(AssertUnwindSafe(f));
        let (out, status) = match r {
            Ok(v) => (v, "ok".to_string()),
            Err(p) => (J::Null, format!("panic:{}", panic_msg(p).chars().take(80).collect::<String>())),
        };
        writeln!(self.out, "{}", json!({"ev":"G","curve":self.curve,"op":op,"ins":ins,
            "scalars":scalars.iter().map(nat_of_big).collect::<Vec<_>>(),"out":out,"status":status})).unwrap();
    }
}

const DLOGS: [i64; 8] = [0, 1, 2, 3, -1, -2, 5, 1000];
static DEEP: std::sync::atomic::AtomicBool = std::sync::atomic::AtomicBool::new(false);

fn pairs() -> Vec<(i64, i64)> {
    let mut v = vec![];
    let deep = DEEP.load(std::sync::atomic::Ordering::Relaxed);
    for a in DLOGS {
        for b in DLOGS {
            // (thorough tier: every pair of the menu)
            if deep || [0, 1, 3, -1].contains(&a) || a == b || a == -b {
                v.push((a, b));
            }
        }
    }
    v
}

fn scalar_menu(r: &BigUint) -> Vec<BigUint> {
    let one = BigUint::from(1u8);
    let mut v = scalar_menu_base(r);
    if DEEP.load(std::sync::atomic::Ordering::Relaxed) {
        for k in [1u32, 2, 3] {
            v.push((&one << (64 * k)) - &one);
            v.push(&one << (64 * k));
        }
        v.push((r - &one) / BigUint::from(2u8));
        v.push((r + &one) / BigUint::from(2u8));
        for e in [3001u32, 4001, 5001] {
            v.push(BigUint::from(5u8).modpow(&BigUint::from(e), r));
        }
    }
    v
}
fn scalar_menu_base(r: &BigUint) -> Vec<BigUint> {
    let one = BigUint::from(1u8);
    vec![
        BigUint::from(0u8),
        one.clone(),
        BigUint::from(2u8),
        r - &one,
        r - BigUint::from(2u8),
        (&one << 128) - &one,
        &one << 128,
        BigUint::from(3u8).modpow(&BigUint::from(2001u32), r),
    ]
}

/// Encoding laws that need no model of the format: decode(encode(P)) = P; whatever a checked decoder
/// accepts re-encodes to the same bytes and is a point of the group; single-bit corruptions.
fn codec<P, A>(log: &mut Log, pts: &[(i64, P)], to_j: &dyn Fn(&P) -> J, unchecked: bool)
where
    P: Group + GroupEncoding + Curve<AffineRepr = A>,
    A: GroupEncoding + Into<P> + Copy,
{
    for (k, p) in pts {
        let bytes = p.to_bytes();
        let b: Vec<u8> = bytes.as_ref().to_vec();
        let back: Option<P> = P::from_bytes(&bytes).into();
        log.op("codec_roundtrip", vec![to_j(p)], vec![], || {
            json!({"dlog":k,"len":b.len(),"decoded":back.as_ref().map(|q| to_j(q)),"same":back.as_ref().map(|q| q == p)})
        });
        // affine encoding agrees with the projective one
        let ab = p.to_affine().to_bytes();
        log.op("codec_affine_same_bytes", vec![to_j(p)], vec![], || json!({"same": ab.as_ref() == bytes.as_ref()}));
        // corruptions: every bit of the first and last two bytes, and one bit per other byte
        let n = b.len();
        for byte in 0..n {
            let bits: Vec<u8> = if byte < 2 || byte >= n - 2 { (0..8).collect() } else { vec![(byte % 8) as u8] };
            for bit in bits {
                let mut c = bytes;
                c.as_mut()[byte] ^= 1 << bit;
                let dec: Option<P> = P::from_bytes(&c).into();
                let reenc = dec.as_ref().map(|q| q.to_bytes().as_ref() == c.as_ref());
                let dec_un: Option<bool> = if unchecked {
                    let d: Option<P> = P::from_bytes_unchecked(&c).into();
                    Some(d.is_some())
                } else {
                    None
                };
                log.op("codec_corrupt", vec![to_j(p)], vec![], || {
                    json!({"byte":byte,"bit":bit,"accepted":dec.is_some(),"decoded":dec.as_ref().map(|q| to_j(q)),
                        "reencodes_same":reenc,"unchecked_accepted":dec_un})
                });
            }
        }
    }
}

macro_rules! common_ops {
    ($log:expr, $P:ty, $A:ty, $S:ty, $r:expr, $to_j:expr) => {{
        let log = $log;
        let g = <$P>::generator();
        let pt = |k: i64| g * scalar_i::<$S>(k);
        let to_j = $to_j;
        for (a, b) in pairs() {
            let (p, q) = (pt(a), pt(b));
            let (pa, qa): ($A, $A) = (p.to_affine(), q.to_affine());
            let ins = vec![to_j(&p), to_j(&q)];
            log.op("add", ins.clone(), vec![], || to_j(&(p + q)));
            log.op("add", ins.clone(), vec![], || to_j(&(p + qa)));
            log.op("add", ins.clone(), vec![], || {
                let mut t = p;
                t += q;
                to_j(&t)
            });
            log.op("add", ins.clone(), vec![], || {
                let mut t = p;
                t += qa;
                to_j(&t)
            });
            log.op("sub", ins.clone(), vec![], || to_j(&(p - q)));
            log.op("sub", ins.clone(), vec![], || to_j(&(p - qa)));
            log.op("sub", ins.clone(), vec![], || {
                let mut t = p;
                t -= q;
                to_j(&t)
            });
            log.op("sub", ins.clone(), vec![], || {
                let mut t = p;
                t -= qa;
                to_j(&t)
            });
            log.op("sum3", ins.clone(), vec![], || to_j(&[p, q, p].iter().sum::<$P>()));
            log.op("eq", ins.clone(), vec![], || json!(p == q));
            let _ = pa;
        }
        for a in DLOGS {
            let p = pt(a);
            let pa: $A = p.to_affine();
            let ins = vec![to_j(&p)];
            log.op("double", ins.clone(), vec![], || to_j(&p.double()));
            log.op("neg", ins.clone(), vec![], || to_j(&(-p)));
            log.op("is_identity", ins.clone(), vec![], || json!(bool::from(p.is_identity())));
            log.op("affine_roundtrip", ins.clone(), vec![], || to_j(&<$P>::from(pa)));
            for s in scalar_menu(&$r) {
                let sv: $S = s_of_big(&s);
                log.op("mul", ins.clone(), vec![s.clone()], || to_j(&(p * sv)));
                log.op("mul", ins.clone(), vec![s.clone()], || {
                    let mut t = p;
                    t *= sv;
                    to_j(&t)
                });
            }
        }
        // batch normalisation: no identity, and the identity first, in the middle, last, twice, everywhere
        let base: Vec<$P> = DLOGS.iter().filter(|k| **k != 0).map(|k| pt(*k) + pt(1) - pt(1)).collect();
        let id = <$P>::identity();
        let n = base.len();
        let mut lists: Vec<Vec<$P>> = vec![base.clone()];
        for pos in [0, 1, n / 2, n - 1, n] {
            let mut l = base.clone();
            l.insert(pos, id);
            lists.push(l);
        }
        let mut l = base.clone();
        l.insert(n, id);
        l.insert(2, id);
        lists.push(l);
        lists.push(vec![id, id]);
        lists.push(vec![base[0], id]);
        lists.push(vec![id]);
        lists.push(vec![]);
        for ps in lists {
            let r = catch_unwind(AssertUnwindSafe(|| {
                let mut outs: Vec<$A> = ps.iter().map(|_| <$P>::generator().to_affine()).collect();
                <$P>::batch_normalize(&ps, &mut outs);
                outs
            }));
            match r {
                Ok(outs) => {
                    for (p, a) in ps.iter().zip(outs.iter()) {
                        log.op("batch_normalize", vec![to_j(p)], vec![], || to_j(&<$P>::from(*a)));
                    }
                }
                Err(e) => {
                    let msg = panic_msg(e);
                    log.op("batch_normalize", ps.iter().map(|p| to_j(p)).collect(), vec![], || panic!("{msg}"));
                }
            }
        }
    }};
}

macro_rules! extra_ops {
    ($log:expr, $P:ty, $A:ty, $S:ty, $r:expr, $to_j:expr) => {{
        let log = $log;
        let g = <$P>::generator();
        let pt = |k: i64| g * scalar_i::<$S>(k);
        let to_j = $to_j;
        for (a, b) in pairs() {
            let (p, q) = (pt(a), pt(b));
            let ins = vec![to_j(&p), to_j(&q)];
            log.op("add", ins.clone(), vec![], || to_j(&(&p + &q)));
            log.op("sub", ins.clone(), vec![], || to_j(&(&p - &q)));
        }
        for a in DLOGS {
            let p = pt(a);
            let pa: $A = p.to_affine();
            let ins = vec![to_j(&p)];
            log.op("neg", ins.clone(), vec![], || to_j(&<$P>::from(-pa)));
            for s in scalar_menu(&$r) {
                let sv: $S = s_of_big(&s);
                log.op("mul", ins.clone(), vec![s.clone()], || to_j(&(pa * sv)));
            }
        }
    }};
}

/// coordinate accessors and constructors of CurveExt (points with z != 1: results of additions)
macro_rules! jacobian_ops {
    ($log:expr, $P:ty, $pts:expr, $to_j:expr, $fb:expr, $nine:expr, $tw7:expr, $three:expr) => {{
        use midnight_curves::CurveExt;
        let log = $log;
        let to_j = $to_j;
        let fb = $fb;
        let g = <$P>::generator();
        for (k, p) in $pts.iter() {
            let q = *p + g - g;
            log.op("jacobian", vec![to_j(&q)], vec![], || {
                let (x, y, z) = q.jacobian_coordinates();
                json!({"X":fb(&x),"Y":fb(&y),"Z":fb(&z),"dlog":k})
            });
            log.op("new_jacobian_roundtrip", vec![to_j(&q)], vec![], || {
                let (x, y, z) = q.jacobian_coordinates();
                let r: Option<$P> = <$P>::new_jacobian(x, y, z).into();
                json!({"some":r.is_some(),"point":r.map(|r| to_j(&r))})
            });
            log.op("new_jacobian_scaled", vec![to_j(&q)], vec![], || {
                // (x, y, 1) scaled by lambda = 3: (9x, 27y, 3) names the same point
                let (x1, y1, z1) = <$P>::from(q.to_affine()).jacobian_coordinates();
                let _ = z1;
                let r: Option<$P> = <$P>::new_jacobian(x1 * $nine, y1 * $tw7, $three).into();
                json!({"some":r.is_some(),"point":r.map(|r| to_j(&r))})
            });
        }
    }};
}

fn q2j(c0: BigUint, c1: BigUint) -> J {
    json!([nat_of_big(&c0), nat_of_big(&c1)])
}

pub fn main(args: &[String]) -> i32 {
    let mut out = util::create(&args[0]);
    let which = args.get(1).map(|s| s.as_str()).unwrap_or("all").to_string();
    DEEP.store(args.get(2).map(|s| s == "deep").unwrap_or(false), std::sync::atomic::Ordering::Relaxed);
    writeln!(out, "{}", json!({"ev":"header","prop":"C11"})).unwrap();
    for c in crate::consts::all() {
        let mut c = c;
        c["ev"] = json!("Curve");
        writeln!(out, "{c}").unwrap();
    }
    if which == "all" || which == "bls12_381_g1" {
        let mut log = Log { out: &mut out, curve: "bls12_381_g1" };
        let to_j = |p: &G1Projective| cc(*p, bool::from(p.is_identity()));
        let r = <BlsFr as CircuitField>::modulus();
        common_ops!(&mut log, G1Projective, G1Affine, BlsFr, r, to_j);
        extra_ops!(&mut log, G1Projective, G1Affine, BlsFr, r, to_j);
        // operator forms special to G1: affine + projective, affine - projective
        let g = G1Projective::generator();
        for (a, b) in pairs() {
            let (p, q) = (g * scalar_i::<BlsFr>(a), g * scalar_i::<BlsFr>(b));
            let (pa, qa) = (p.to_affine(), q.to_affine());
            let ins = vec![to_j(&p), to_j(&q)];
            log.op("add", ins.clone(), vec![], || to_j(&(&pa + &q)));
            log.op("add", ins.clone(), vec![], || to_j(&(&p + &qa)));
            log.op("sub", ins.clone(), vec![], || to_j(&(&pa - &q)));
            log.op("sub", ins.clone(), vec![], || to_j(&(&p - &qa)));
        }
        let pts: Vec<(i64, G1Projective)> = DLOGS.iter().map(|k| (*k, g * scalar_i::<BlsFr>(*k))).collect();
        // coordinate accessors and constructors (points with z != 1: results of additions)
        for (k, p) in pts.iter() {
            use midnight_curves::CurveExt;
            let q = *p + g - g;
            let fb = |x: &midnight_curves::Fp| nat_of_big(&x.to_biguint());
            log.op("jacobian", vec![to_j(&q)], vec![], || {
                let (x, y, z) = q.jacobian_coordinates();
                json!({"X":fb(&x),"Y":fb(&y),"Z":fb(&z),"dlog":k})
            });
            log.op("new_jacobian_roundtrip", vec![to_j(&q)], vec![], || {
                let (x, y, z) = q.jacobian_coordinates();
                let r: Option<G1Projective> = G1Projective::new_jacobian(x, y, z).into();
                json!({"some":r.is_some(),"point":r.map(|r| to_j(&r))})
            });
            log.op("new_jacobian_scaled", vec![to_j(&q)], vec![], || {
                // (x, y, 1) scaled by lambda = 3: (9x, 27y, 3) names the same point
                let a = q.to_affine();
                let (x, y) = (a.x() * midnight_curves::Fp::from(9u64), a.y() * midnight_curves::Fp::from(27u64));
                let r: Option<G1Projective> = G1Projective::new_jacobian(x, y, midnight_curves::Fp::from(3u64)).into();
                json!({"some":r.is_some(),"point":r.map(|r| to_j(&r))})
            });
        }
        codec::<G1Projective, G1Affine>(&mut log, &pts, &to_j, true);
    }
    if which == "all" || which == "secp256k1" {
        let mut log = Log { out: &mut out, curve: "secp256k1" };
        let to_j = |p: &K256| cc(*p, bool::from(p.is_identity()));
        let r = <k256_mod::Fq as CircuitField>::modulus();
        common_ops!(&mut log, K256, K256Affine, k256_mod::Fq, r, to_j);
        let g = K256::generator();
        let pts: Vec<(i64, K256)> = DLOGS.iter().map(|k| (*k, g * scalar_i::<k256_mod::Fq>(*k))).collect();
        codec::<K256, K256Affine>(&mut log, &pts, &to_j, false);
    }
    if which == "all" || which == "jubjub" {
        let mut log = Log { out: &mut out, curve: "jubjub" };
        let to_j = |p: &JubjubExtended| cc(*p, false);
        let r = <JubFr as CircuitField>::modulus();
        common_ops!(&mut log, JubjubExtended, JubjubAffine, JubFr, r, to_j);
        extra_ops!(&mut log, JubjubExtended, JubjubAffine, JubFr, r, to_j);
        // the prime-order subgroup type and affine + affine
        let g = JubjubSubgroup::generator();
        for (a, b) in pairs() {
            let (p, q) = (g * scalar_i::<JubFr>(a), g * scalar_i::<JubFr>(b));
            let (pe, qe): (JubjubExtended, JubjubExtended) = (p.into(), q.into());
            let ins = vec![to_j(&pe), to_j(&qe)];
            log.op("add", ins.clone(), vec![], || to_j(&(p + q).into()));
            log.op("sub", ins.clone(), vec![], || to_j(&(p - q).into()));
            log.op("add", ins.clone(), vec![], || to_j(&(pe + q)));
            log.op("sub", ins.clone(), vec![], || to_j(&(pe - q)));
            log.op("add", ins.clone(), vec![], || to_j(&(pe.to_affine() + qe.to_affine())));
            log.op("sub", ins.clone(), vec![], || to_j(&(pe.to_affine() - qe.to_affine())));
        }
        let ge = JubjubExtended::generator();
        let pts: Vec<(i64, JubjubExtended)> = DLOGS.iter().map(|k| (*k, ge * scalar_i::<JubFr>(*k))).collect();
        codec::<JubjubExtended, JubjubAffine>(&mut log, &pts, &to_j, true);
        // points outside the prime-order subgroup (cofactor 8): the points of order 2, 4 and 8 and their sums with subgroup
        // points; group law, predicates, cofactor clearing, and the decoders of the three point types
        {
            use group::cofactor::CofactorGroup;
            use midnight_curves::Fq as Base;
            let minus_one = -Base::ONE;
            let i4: Base = Option::<Base>::from(minus_one.sqrt()).expect("-1 is a square in the Jubjub base field");
            let t2 = JubjubExtended::from(JubjubAffine::from_raw_unchecked(Base::ZERO, minus_one));
            let t4 = JubjubExtended::from(JubjubAffine::from_raw_unchecked(i4, Base::ZERO));
            // the torsion part of a point outside the subgroup: P - [1/8]([8] P)
            let eight_inv: JubFr = Option::<JubFr>::from(JubFr::from(8u64).invert()).unwrap();
            let mut t8 = None;
            for y in 2u64..60 {
                let mut b = [0u8; 32];
                b[0] = y as u8;
                if let Some(p) = Option::<JubjubAffine>::from(JubjubAffine::from_bytes(b)) {
                    let p = JubjubExtended::from(p);
                    let t = p - p.mul_by_cofactor() * eight_inv;
                    if !bool::from(t.double().double().is_identity()) {
                        t8 = Some(t);
                        break;
                    }
                }
            }
            let mut tors = vec![t2, t4, t2 + t4];
            if let Some(t) = t8 {
                tors.push(t);
                tors.push(t + t2);
            }
            let subs = [ge, ge * scalar_i::<JubFr>(5), JubjubExtended::identity()];
            let mut mixed: Vec<JubjubExtended> = tors.clone();
            for t in tors.iter() {
                for s_ in subs.iter().take(2) {
                    mixed.push(*t + *s_);
                }
            }
            for p in mixed.iter() {
                let ins = vec![to_j(p)];
                log.op("double", ins.clone(), vec![], || to_j(&p.double()));
                log.op("neg", ins.clone(), vec![], || to_j(&(-*p)));
                log.op("mul_by_cofactor", ins.clone(), vec![], || to_j(&p.mul_by_cofactor()));
                log.op("clear_cofactor", ins.clone(), vec![], || to_j(&p.clear_cofactor().into()));
                log.op("torsion_flags", ins.clone(), vec![], || {
                    json!({"small_order":bool::from(p.is_small_order()),"torsion_free":bool::from(p.is_torsion_free()),"prime_order":bool::from(p.is_prime_order()),
                        "into_subgroup":Option::<JubjubSubgroup>::from(CofactorGroup::into_subgroup(*p)).is_some()})
                });
                for s in scalar_menu(&r).iter().take(5) {
                    let sv: JubFr = s_of_big(s);
                    log.op("mul", ins.clone(), vec![s.clone()], || to_j(&(*p * sv)));
                }
                for q in mixed.iter().step_by(2).chain(subs.iter()) {
                    let ins = vec![to_j(p), to_j(q)];
                    log.op("add", ins.clone(), vec![], || to_j(&(*p + *q)));
                    log.op("add", ins.clone(), vec![], || to_j(&(*p + q.to_affine())));
                    log.op("sub", ins.clone(), vec![], || to_j(&(*p - *q)));
                    log.op("eq", ins.clone(), vec![], || json!(p == q));
                }
                // decoders: the extended / affine types take any curve point, the subgroup type only subgroup points
                let bytes = p.to_bytes();
                log.op("decode_outside", ins.clone(), vec![], || {
                    let e: Option<JubjubExtended> = JubjubExtended::from_bytes(&bytes).into();
                    let a: Option<JubjubAffine> = <JubjubAffine as GroupEncoding>::from_bytes(&bytes).into();
                    let s_: Option<JubjubSubgroup> = JubjubSubgroup::from_bytes(&bytes).into();
                    json!({"extended":e.map(|e| to_j(&e)),"affine":a.map(|a| to_j(&JubjubExtended::from(a))),"subgroup_accepts":s_.is_some()})
                });
            }
        }
    }
    if which == "all" || which == "curve25519" {
        let mut log = Log { out: &mut out, curve: "curve25519" };
        let to_j = |p: &Curve25519| cc(*p, false);
        let r = <curve25519::Scalar as CircuitField>::modulus();
        common_ops!(&mut log, Curve25519, curve25519::Curve25519Affine, curve25519::Scalar, r, to_j);
    }
    if which == "all" || which == "bn256_g1" {
        let mut log = Log { out: &mut out, curve: "bn256_g1" };
        let to_j = |p: &bn256::G1| {
            if bool::from(p.is_identity()) {
                pt_json(None)
            } else {
                let a = p.to_affine();
                pt_json(Some((le_big(&a.x), le_big(&a.y))))
            }
        };
        let r = BigUint::from_bytes_le(&(-bn256::Fr::ONE).to_repr().as_ref().to_vec()) + BigUint::from(1u8);
        common_ops!(&mut log, bn256::G1, bn256::G1Affine, bn256::Fr, r, to_j);
        extra_ops!(&mut log, bn256::G1, bn256::G1Affine, bn256::Fr, r, to_j);
        let g = bn256::G1::generator();
        let pts: Vec<(i64, bn256::G1)> = DLOGS.iter().map(|k| (*k, g * scalar_i::<bn256::Fr>(*k))).collect();
        let fb = |x: &bn256::Fq| nat_of_big(&le_big(x));
        let f = |n: u64| bn256::Fq::from(n);
        jacobian_ops!(&mut log, bn256::G1, pts, to_j, fb, f(9), f(27), f(3));
        codec::<bn256::G1, bn256::G1Affine>(&mut log, &pts, &to_j, true);
    }
    if which == "all" || which == "bls12_381_g2" {
        use midnight_curves::{bls12_381::Fp2, G2Affine, G2Projective};
        let mut log = Log { out: &mut out, curve: "bls12_381_g2" };
        let fb = |x: &Fp2| q2j(x.c0().to_biguint(), x.c1().to_biguint());
        let to_j = |p: &G2Projective| {
            if bool::from(p.is_identity()) {
                json!({"id":true,"x":[[],[]],"y":[[],[]]})
            } else {
                let a = p.to_affine();
                json!({"id":false,"x":fb(&a.x()),"y":fb(&a.y())})
            }
        };
        let r = <BlsFr as CircuitField>::modulus();
        let g = G2Projective::generator();
        log.op("g2_constants", vec![to_j(&g)], vec![], || json!({"generator":to_j(&g)}));
        common_ops!(&mut log, G2Projective, G2Affine, BlsFr, r, to_j);
        extra_ops!(&mut log, G2Projective, G2Affine, BlsFr, r, to_j);
        for (a, b) in pairs() {
            let (p, q) = (g * scalar_i::<BlsFr>(a), g * scalar_i::<BlsFr>(b));
            let (pa, qa) = (p.to_affine(), q.to_affine());
            let ins = vec![to_j(&p), to_j(&q)];
            log.op("add", ins.clone(), vec![], || to_j(&(&pa + &q)));
            log.op("add", ins.clone(), vec![], || to_j(&(&p + &qa)));
            log.op("sub", ins.clone(), vec![], || to_j(&(&pa - &q)));
            log.op("sub", ins.clone(), vec![], || to_j(&(&p - &qa)));
        }
        let pts: Vec<(i64, G2Projective)> = DLOGS.iter().map(|k| (*k, g * scalar_i::<BlsFr>(*k))).collect();
        let f = |n: u64| Fp2::from(n);
        jacobian_ops!(&mut log, G2Projective, pts, to_j, fb, f(9), f(27), f(3));
        codec::<G2Projective, G2Affine>(&mut log, &pts, &to_j, true);
    }
    if which == "all" || which == "bn256_g2" {
        let mut log = Log { out: &mut out, curve: "bn256_g2" };
        let fb = |x: &bn256::Fq2| {
            let b = x.to_bytes();
            q2j(BigUint::from_bytes_le(&b[0..32]), BigUint::from_bytes_le(&b[32..64]))
        };
        let to_j = |p: &bn256::G2| {
            if bool::from(p.is_identity()) {
                json!({"id":true,"x":[[],[]],"y":[[],[]]})
            } else {
                let a = p.to_affine();
                json!({"id":false,"x":fb(&a.x),"y":fb(&a.y)})
            }
        };
        let r = BigUint::from_bytes_le(&(-bn256::Fr::ONE).to_repr().as_ref().to_vec()) + BigUint::from(1u8);
        let g = bn256::G2::generator();
        log.op("g2_constants", vec![to_j(&g)], vec![], || json!({"generator":to_j(&g)}));
        common_ops!(&mut log, bn256::G2, bn256::G2Affine, bn256::Fr, r, to_j);
        extra_ops!(&mut log, bn256::G2, bn256::G2Affine, bn256::Fr, r, to_j);
        let pts: Vec<(i64, bn256::G2)> = DLOGS.iter().map(|k| (*k, g * scalar_i::<bn256::Fr>(*k))).collect();
        let f = |n: u64| bn256::Fq2::from(n);
        jacobian_ops!(&mut log, bn256::G2, pts, to_j, fb, f(9), f(27), f(3));
        codec::<bn256::G2, bn256::G2Affine>(&mut log, &pts, &to_j, true);
    }
    let _ = (curve25519::CURVE_D, le_big::<BlsFr>);
    0
}
