//! C10 driver, tower half: Fp2 extras (Frobenius, norm, ordering, byte encodings, uniform reduction), Fp6 and Fp12
//! of BLS12-381 and BN254 - every operation with its arguments and result as nested coefficient arrays.

use std::{
    io::Write,
    panic::{catch_unwind, AssertUnwindSafe},
};

use ff::{Field, FromUniformBytes, PrimeField, WithSmallOrderMulGroup};
use midnight_circuits::CircuitField;
use midnight_curves::{
    bls12_381::{self as bls, Fp, Fp12, Fp2, Fp6},
    bn256::{self, Fq, Fq12, Fq2, Fq6},
    ff_ext::{cubic::CubicSparseMul, quadratic::QuadSparseMul, ExtField, Legendre},
};
use num_bigint::BigUint;
use serde_json::{json, Value as J};

use crate::{gad::nat_of_big, plonkrun::panic_msg};

pub struct Log<'a> {
    pub out: &'a mut dyn Write,
    pub field: &'static str,
}
impl<'a> Log<'a> {
    pub fn op(&mut self, op: &str, ins: Vec<J>, k: Option<usize>, f: impl FnOnce() -> J) {
        let r = catch_unwind(AssertUnwindSafe(f));
        let (out, status) = match r {
            Ok(v) => (v, "ok".to_string()),
            Err(p) => (J::Null, format!("panic:{}", panic_msg(p).chars().take(80).collect::<String>())),
        };
        writeln!(self.out, "{}", json!({"ev":"F","field":self.field,"op":op,"ins":ins,"k":k.unwrap_or(0),"out":out,"status":status})).unwrap();
    }
}

/// One tower: conversions between the library's types and coefficient vectors over the base prime field (as BigUint).
pub trait Tw {
    type B: PrimeField;
    type Q: Field + Copy;
    type S: Field + Copy;
    type D: Field + Copy;
    const NAMES: [&'static str; 3];
    fn p() -> BigUint;
    fn b_of(x: &BigUint) -> Self::B;
    fn b_to(x: &Self::B) -> BigUint;
    fn q_new(a: Self::B, b: Self::B) -> Self::Q;
    fn q_parts(x: &Self::Q) -> [Self::B; 2];
    fn s_new(a: Self::Q, b: Self::Q, c: Self::Q) -> Self::S;
    fn s_parts(x: &Self::S) -> [Self::Q; 3];
    fn d_new(a: Self::S, b: Self::S) -> Self::D;
    fn d_parts(x: &Self::D) -> [Self::S; 2];
    fn q_frob(x: &Self::Q, k: usize) -> Self::Q;
    fn q_mul_nr(x: &Self::Q) -> Self::Q;
    fn s_frob(x: &Self::S, k: usize) -> Self::S;
    fn s_mul_nr(x: &Self::S) -> Self::S;
    fn d_frob(x: &Self::D, k: usize) -> Self::D;
    fn d_conj(x: &Self::D) -> Self::D;
}

fn big_of_b<B: PrimeField>(b: &BigUint) -> B {
    let mut acc = B::ZERO;
    let c = B::from(256u64);
    for d in b.to_bytes_be() {
        acc = acc * c + B::from(d as u64);
    }
    acc
}

pub struct BlsTw;
impl BlsTw {
    pub fn d_of(n: &[BigUint]) -> Fp12 {
        let q = |o: usize| Fp2::new(big_of_b(&n[o]), big_of_b(&n[o + 1]));
        let s = |o: usize| Fp6::new(q(o), q(o + 2), q(o + 4));
        Fp12::new(s(0), s(6))
    }
}
impl Tw for BlsTw {
    type B = Fp;
    type Q = Fp2;
    type S = Fp6;
    type D = Fp12;
    const NAMES: [&'static str; 3] = ["bls_fp2", "bls_fp6", "bls_fp12"];
    fn p() -> BigUint {
        <Fp as CircuitField>::modulus()
    }
    fn b_of(x: &BigUint) -> Fp {
        big_of_b(x)
    }
    fn b_to(x: &Fp) -> BigUint {
        x.to_biguint()
    }
    fn q_new(a: Fp, b: Fp) -> Fp2 {
        Fp2::new(a, b)
    }
    fn q_parts(x: &Fp2) -> [Fp; 2] {
        [x.c0(), x.c1()]
    }
    fn s_new(a: Fp2, b: Fp2, c: Fp2) -> Fp6 {
        Fp6::new(a, b, c)
    }
    fn s_parts(x: &Fp6) -> [Fp2; 3] {
        [x.c0(), x.c1(), x.c2()]
    }
    fn d_new(a: Fp6, b: Fp6) -> Fp12 {
        Fp12::new(a, b)
    }
    fn d_parts(x: &Fp12) -> [Fp6; 2] {
        [x.c0(), x.c1()]
    }
    fn q_frob(x: &Fp2, k: usize) -> Fp2 {
        let mut y = *x;
        y.frobenius_map(k);
        y
    }
    fn q_mul_nr(x: &Fp2) -> Fp2 {
        let mut y = *x;
        y.mul_by_nonresidue();
        y
    }
    fn s_frob(x: &Fp6, k: usize) -> Fp6 {
        let mut y = *x;
        y.frobenius_map(k);
        y
    }
    fn s_mul_nr(x: &Fp6) -> Fp6 {
        let mut y = *x;
        y.mul_by_nonresidue();
        y
    }
    fn d_frob(x: &Fp12, k: usize) -> Fp12 {
        let mut y = *x;
        y.frobenius_map(k);
        y
    }
    fn d_conj(x: &Fp12) -> Fp12 {
        let mut y = *x;
        y.conjugate();
        y
    }
}

/// the hexadecimal numbers of a derived Debug rendering, in order
pub fn hex_numbers(s: &str) -> Vec<BigUint> {
    let mut out = vec![];
    let b = s.as_bytes();
    let mut i = 0;
    while i + 1 < b.len() {
        if b[i] == b'0' && b[i + 1] == b'x' {
            let mut j = i + 2;
            while j < b.len() && (b[j] as char).is_ascii_hexdigit() {
                j += 1;
            }
            out.push(BigUint::parse_bytes(&b[i + 2..j], 16).unwrap_or_default());
            i = j;
        } else {
            i += 1;
        }
    }
    out
}

pub struct BnTw;
impl BnTw {
    pub fn d_of(n: &[BigUint]) -> Fq12 {
        let s = |o: usize| Fq6::new(Self::q_of(&n[o..o + 2]), Self::q_of(&n[o + 2..o + 4]), Self::q_of(&n[o + 4..o + 6]));
        Fq12::new(s(0), s(6))
    }
    fn q_of(n: &[BigUint]) -> Fq2 {
        Fq2::new(big_of_b(&n[0]), big_of_b(&n[1]))
    }
}
impl Tw for BnTw {
    type B = Fq;
    type Q = Fq2;
    type S = Fq6;
    type D = Fq12;
    const NAMES: [&'static str; 3] = ["bn_fq2", "bn_fq6", "bn_fq12"];
    fn p() -> BigUint {
        BigUint::from_bytes_le((-Fq::ONE).to_repr().as_ref()) + 1u8
    }
    fn b_of(x: &BigUint) -> Fq {
        big_of_b(x)
    }
    fn b_to(x: &Fq) -> BigUint {
        BigUint::from_bytes_le(x.to_repr().as_ref())
    }
    fn q_new(a: Fq, b: Fq) -> Fq2 {
        Fq2::new(a, b)
    }
    fn q_parts(x: &Fq2) -> [Fq; 2] {
        let b = x.to_bytes();
        let c0: Option<Fq> = Fq::from_bytes(b[0..32].try_into().unwrap()).into();
        let c1: Option<Fq> = Fq::from_bytes(b[32..64].try_into().unwrap()).into();
        [c0.unwrap(), c1.unwrap()]
    }
    fn s_new(a: Fq2, b: Fq2, c: Fq2) -> Fq6 {
        Fq6::new(a, b, c)
    }
    // the coefficients of Fq6 / Fq12 are not exposed: they are read off the derived Debug rendering and
    // checked by rebuilding the element
    fn s_parts(x: &Fq6) -> [Fq2; 3] {
        let n = hex_numbers(&format!("{x:?}"));
        assert_eq!(n.len(), 6, "unexpected Debug rendering of Fq6");
        let r = [Self::q_of(&n[0..2]), Self::q_of(&n[2..4]), Self::q_of(&n[4..6])];
        assert!(Fq6::new(r[0], r[1], r[2]) == *x, "Debug rendering of Fq6 does not name its coefficients");
        r
    }
    fn d_new(a: Fq6, b: Fq6) -> Fq12 {
        Fq12::new(a, b)
    }
    fn d_parts(x: &Fq12) -> [Fq6; 2] {
        let n = hex_numbers(&format!("{x:?}"));
        assert_eq!(n.len(), 12, "unexpected Debug rendering of Fq12");
        let s = |o: usize| Fq6::new(Self::q_of(&n[o..o + 2]), Self::q_of(&n[o + 2..o + 4]), Self::q_of(&n[o + 4..o + 6]));
        let r = [s(0), s(6)];
        assert!(Fq12::new(r[0], r[1]) == *x, "Debug rendering of Fq12 does not name its coefficients");
        r
    }
    fn q_frob(x: &Fq2, k: usize) -> Fq2 {
        let mut y = *x;
        y.frobenius_map(k);
        y
    }
    fn q_mul_nr(x: &Fq2) -> Fq2 {
        ExtField::mul_by_nonresidue(x)
    }
    fn s_frob(x: &Fq6, k: usize) -> Fq6 {
        let mut y = *x;
        y.frobenius_map(k);
        y
    }
    fn s_mul_nr(x: &Fq6) -> Fq6 {
        ExtField::mul_by_nonresidue(x)
    }
    fn d_frob(x: &Fq12, k: usize) -> Fq12 {
        let mut y = *x;
        y.frobenius_map(k);
        y
    }
    fn d_conj(x: &Fq12) -> Fq12 {
        let mut y = *x;
        y.conjugate();
        y
    }
}

type Q2 = (BigUint, BigUint);

fn base_menu(p: &BigUint) -> Vec<BigUint> {
    let one = BigUint::from(1u8);
    vec![
        BigUint::from(0u8),
        one.clone(),
        p - &one,
        BigUint::from(2u8),
        (p - &one) / BigUint::from(2u8),
        (p + &one) / BigUint::from(2u8),
        (&one << 64) - &one,
        &one << 64,
        (&one << 128) + &one,
        BigUint::from(3u8).modpow(&BigUint::from(1001u32), p),
        BigUint::from(7u8).modpow(&BigUint::from(2002u32), p),
        BigUint::from(5u8).modpow(&BigUint::from(3003u32), p),
    ]
}

fn qj(q: &Q2) -> J {
    json!([nat_of_big(&q.0), nat_of_big(&q.1)])
}
fn q_json<T: Tw>(x: &T::Q) -> J {
    let [a, b] = T::q_parts(x);
    json!([nat_of_big(&T::b_to(&a)), nat_of_big(&T::b_to(&b))])
}
fn s_json<T: Tw>(x: &T::S) -> J {
    let p = T::s_parts(x);
    json!([q_json::<T>(&p[0]), q_json::<T>(&p[1]), q_json::<T>(&p[2])])
}
pub fn d_json<T: Tw>(x: &T::D) -> J {
    let p = T::d_parts(x);
    json!([s_json::<T>(&p[0]), s_json::<T>(&p[1])])
}
fn q_mk<T: Tw>(q: &Q2) -> T::Q {
    T::q_new(T::b_of(&q.0), T::b_of(&q.1))
}

/// Fp2 elements: pairs from the base menu (embedded elements, pure imaginary, mixed)
fn q_menu(p: &BigUint, n: usize) -> Vec<Q2> {
    let b = base_menu(p);
    let z = BigUint::from(0u8);
    let mut v: Vec<Q2> = vec![(z.clone(), z.clone()), (b[1].clone(), z.clone()), (z.clone(), b[1].clone()), (b[2].clone(), b[2].clone())];
    for i in 0..b.len() {
        v.push((b[i].clone(), b[(i * 5 + 3) % b.len()].clone()));
    }
    v.truncate(n.max(4));
    v
}

pub fn sextic<T: Tw>(out: &mut dyn Write, deep: bool)
where
    T::S: std::ops::Mul<Output = T::S> + std::ops::Add<Output = T::S> + std::ops::Sub<Output = T::S> + std::ops::Neg<Output = T::S> + PartialEq,
{
    let mut log = Log { out, field: T::NAMES[1] };
    let p = T::p();
    let qm = q_menu(&p, 16);
    let zq: Q2 = (BigUint::from(0u8), BigUint::from(0u8));
    // elements: zero, one, pure coefficients, mixed
    let mut elems: Vec<[Q2; 3]> = vec![
        [zq.clone(), zq.clone(), zq.clone()],
        [qm[1].clone(), zq.clone(), zq.clone()],
        [zq.clone(), qm[1].clone(), zq.clone()],
        [zq.clone(), zq.clone(), qm[1].clone()],
        [qm[3].clone(), qm[3].clone(), qm[3].clone()],
    ];
    for i in 0..(if deep { 12 } else { 6 }) {
        elems.push([qm[(i + 4) % qm.len()].clone(), qm[(3 * i + 5) % qm.len()].clone(), qm[(7 * i + 6) % qm.len()].clone()]);
    }
    let mk = |e: &[Q2; 3]| T::s_new(q_mk::<T>(&e[0]), q_mk::<T>(&e[1]), q_mk::<T>(&e[2]));
    let ej = |e: &[Q2; 3]| json!([qj(&e[0]), qj(&e[1]), qj(&e[2])]);
    log.op("constants", vec![ej(&elems[0])], None, || json!({"zero":s_json::<T>(&T::S::ZERO),"one":s_json::<T>(&T::S::ONE)}));
    for (i, a) in elems.iter().enumerate() {
        let x = mk(a);
        let ins = vec![ej(a)];
        log.op("embed", ins.clone(), None, || s_json::<T>(&x));
        log.op("neg", ins.clone(), None, || s_json::<T>(&(-x)));
        log.op("square", ins.clone(), None, || s_json::<T>(&x.square()));
        log.op("double", ins.clone(), None, || s_json::<T>(&x.double()));
        log.op("is_zero", ins.clone(), None, || json!(bool::from(x.is_zero())));
        log.op("mul_by_nonresidue", ins.clone(), None, || s_json::<T>(&T::s_mul_nr(&x)));
        log.op("invert", ins.clone(), None, || {
            let r: Option<T::S> = x.invert().into();
            json!({"some":r.is_some(),"v":r.map(|r| s_json::<T>(&r))})
        });
        for k in if deep { (0..=13).collect::<Vec<_>>() } else { vec![0, 1, 2, 3, 5, 6, 7] } {
            log.op("frobenius", ins.clone(), Some(k), || s_json::<T>(&T::s_frob(&x, k)));
        }
        for (j, b) in elems.iter().enumerate() {
            if !(deep || (i + j) % 3 == 0 || j < 2) {
                continue;
            }
            let y = mk(b);
            let ins = vec![ej(a), ej(b)];
            log.op("add", ins.clone(), None, || s_json::<T>(&(x + y)));
            log.op("sub", ins.clone(), None, || s_json::<T>(&(x - y)));
            log.op("mul", ins.clone(), None, || s_json::<T>(&(x * y)));
            log.op("eq", ins.clone(), None, || json!(x == y));
        }
    }
}

pub fn duodecic<T: Tw>(out: &mut dyn Write, deep: bool)
where
    T::D: std::ops::Mul<Output = T::D> + std::ops::Add<Output = T::D> + std::ops::Sub<Output = T::D> + std::ops::Neg<Output = T::D> + PartialEq,
{
    let mut log = Log { out, field: T::NAMES[2] };
    let p = T::p();
    let qm = q_menu(&p, 16);
    let zq: Q2 = (BigUint::from(0u8), BigUint::from(0u8));
    type E = [[Q2; 3]; 2];
    let zs = [zq.clone(), zq.clone(), zq.clone()];
    let mut elems: Vec<E> = vec![
        [zs.clone(), zs.clone()],
        [[qm[1].clone(), zq.clone(), zq.clone()], zs.clone()],
        [zs.clone(), [qm[1].clone(), zq.clone(), zq.clone()]],
        [[zq.clone(), qm[1].clone(), zq.clone()], [zq.clone(), zq.clone(), qm[3].clone()]],
    ];
    for i in 0..(if deep { 10 } else { 5 }) {
        let g = |o: usize| qm[(o * (i + 2) + i + 4) % qm.len()].clone();
        elems.push([[g(1), g(3), g(5)], [g(7), g(9), g(11)]]);
    }
    let mks = |e: &[Q2; 3]| T::s_new(q_mk::<T>(&e[0]), q_mk::<T>(&e[1]), q_mk::<T>(&e[2]));
    let mk = |e: &E| T::d_new(mks(&e[0]), mks(&e[1]));
    let sj = |e: &[Q2; 3]| json!([qj(&e[0]), qj(&e[1]), qj(&e[2])]);
    let ej = |e: &E| json!([sj(&e[0]), sj(&e[1])]);
    log.op("constants", vec![ej(&elems[0])], None, || json!({"zero":d_json::<T>(&T::D::ZERO),"one":d_json::<T>(&T::D::ONE)}));
    for (i, a) in elems.iter().enumerate() {
        let x = mk(a);
        let ins = vec![ej(a)];
        log.op("embed", ins.clone(), None, || d_json::<T>(&x));
        log.op("neg", ins.clone(), None, || d_json::<T>(&(-x)));
        log.op("square", ins.clone(), None, || d_json::<T>(&x.square()));
        log.op("double", ins.clone(), None, || d_json::<T>(&x.double()));
        log.op("is_zero", ins.clone(), None, || json!(bool::from(x.is_zero())));
        log.op("conjugate", ins.clone(), None, || d_json::<T>(&T::d_conj(&x)));
        log.op("invert", ins.clone(), None, || {
            let r: Option<T::D> = x.invert().into();
            json!({"some":r.is_some(),"v":r.map(|r| d_json::<T>(&r))})
        });
        for e in [0u64, 1, 2, 3, 65537] {
            if i % 3 == 0 || deep {
                log.op("pow", vec![ej(a), json!(nat_of_big(&BigUint::from(e)))], None, || d_json::<T>(&x.pow([e])));
            }
        }
        for k in if deep { (0..=13).collect::<Vec<_>>() } else { vec![0, 1, 2, 3, 4, 6, 11, 12] } {
            log.op("frobenius", ins.clone(), Some(k), || d_json::<T>(&T::d_frob(&x, k)));
        }
        for (j, b) in elems.iter().enumerate() {
            if !(deep || (i + j) % 3 == 0 || j < 2) {
                continue;
            }
            let y = mk(b);
            let ins = vec![ej(a), ej(b)];
            log.op("add", ins.clone(), None, || d_json::<T>(&(x + y)));
            log.op("sub", ins.clone(), None, || d_json::<T>(&(x - y)));
            log.op("mul", ins.clone(), None, || d_json::<T>(&(x * y)));
            log.op("eq", ins.clone(), None, || json!(x == y));
        }
    }
}

/// BN254 only: sparse multiplications, cyclotomic squaring, and the Fq2 encodings / ordering / uniform reduction
pub fn bn_extras(out: &mut dyn Write, deep: bool) {
    type T = BnTw;
    let p = T::p();
    let qm = q_menu(&p, 16);
    // Fq2
    {
        let mut log = Log { out: &mut *out, field: "bn_fq2" };
        log.op("constants", vec![qj(&qm[0])], None, || {
            json!({"zero":q_json::<T>(&Fq2::ZERO),"one":q_json::<T>(&Fq2::ONE),"has_zeta":true,"zeta":q_json::<T>(&<Fq2 as WithSmallOrderMulGroup<3>>::ZETA),
                "has_two_inv":true,"two_inv":q_json::<T>(&<Fq2 as PrimeField>::TWO_INV)})
        });
        // Fq2 also implements PrimeField: the constants it publishes there
        log.op("prime_constants", vec![qj(&qm[0])], None, || {
            json!({"s":<Fq2 as PrimeField>::S,"generator":q_json::<T>(&<Fq2 as PrimeField>::MULTIPLICATIVE_GENERATOR),
                "root_of_unity":q_json::<T>(&<Fq2 as PrimeField>::ROOT_OF_UNITY),"root_of_unity_inv":q_json::<T>(&<Fq2 as PrimeField>::ROOT_OF_UNITY_INV),
                "delta":q_json::<T>(&<Fq2 as PrimeField>::DELTA),"num_bits":<Fq2 as PrimeField>::NUM_BITS,"capacity":<Fq2 as PrimeField>::CAPACITY})
        });
        for (i, a) in qm.iter().enumerate() {
            let x = q_mk::<T>(a);
            let ins = vec![qj(a)];
            for k in [0usize, 1, 2, 3] {
                log.op("frobenius", ins.clone(), Some(k), || q_json::<T>(&T::q_frob(&x, k)));
            }
            log.op("conjugate", ins.clone(), None, || {
                let mut y = x;
                y.conjugate();
                q_json::<T>(&y)
            });
            log.op("norm", ins.clone(), None, || json!(nat_of_big(&T::b_to(&x.norm()))));
            log.op("mul_by_nonresidue", ins.clone(), None, || q_json::<T>(&T::q_mul_nr(&x)));
            log.op("is_square", ins.clone(), None, || json!(x.legendre() != -1));
            log.op("legendre", ins.clone(), None, || json!(x.legendre()));
            log.op("lex_largest", ins.clone(), None, || json!(bool::from(x.lexicographically_largest())));
            log.op("bytes_roundtrip", ins.clone(), None, || {
                let b = x.to_bytes();
                let r: Option<Fq2> = Fq2::from_bytes(&b).into();
                json!({"some":r.is_some(),"v":r.map(|r| q_json::<T>(&r)),"c0":b[0..32].to_vec(),"c1":b[32..64].to_vec()})
            });
            for b in qm.iter().skip(i % 3).step_by(3) {
                let y = q_mk::<T>(b);
                log.op("cmp", vec![qj(a), qj(b)], None, || json!(match x.cmp(&y) {
                    std::cmp::Ordering::Less => -1,
                    std::cmp::Ordering::Equal => 0,
                    std::cmp::Ordering::Greater => 1,
                }));
            }
        }
        // checked decoders at and around the modulus, in either coefficient
        let one = BigUint::from(1u8);
        let around: Vec<BigUint> = vec![BigUint::from(0u8), &p - &one, p.clone(), &p + &one, (&one << 256) - &one, &one << 255];
        for c0 in around.iter() {
            for c1 in around.iter() {
                let le = |v: &BigUint| {
                    let mut b = v.to_bytes_le();
                    b.resize(32, 0);
                    b
                };
                let mut bytes = [0u8; 64];
                bytes[..32].copy_from_slice(&le(c0));
                bytes[32..].copy_from_slice(&le(c1));
                let ins = vec![json!([nat_of_big(c0), nat_of_big(c1)])];
                log.op("from_bytes", ins.clone(), None, || {
                    let r: Option<Fq2> = Fq2::from_bytes(&bytes).into();
                    json!({"some":r.is_some(),"v":r.map(|r| q_json::<T>(&r))})
                });
                log.op("from_repr", ins.clone(), None, || {
                    let mut repr = <Fq2 as PrimeField>::Repr::default();
                    repr.as_mut().copy_from_slice(&bytes);
                    let r: Option<Fq2> = Fq2::from_repr(repr).into();
                    json!({"some":r.is_some(),"v":r.map(|r| q_json::<T>(&r))})
                });
            }
        }
        // reduction from 96 uniform bytes
        let mut pats: Vec<[u8; 96]> = vec![[0u8; 96], [0xff; 96]];
        let mut a = [0u8; 96];
        a[0] = 1;
        pats.push(a);
        let mut a = [0u8; 96];
        a[95] = 0x80;
        pats.push(a);
        let mut a = [0u8; 96];
        a[47] = 1;
        a[48] = 2;
        pats.push(a);
        for s in 0..(if deep { 12u8 } else { 4 }) {
            let mut a = [0u8; 96];
            for (i, v) in a.iter_mut().enumerate() {
                *v = (i as u8).wrapping_mul(37).wrapping_add(s.wrapping_mul(101)).rotate_left((i % 7) as u32);
            }
            pats.push(a);
        }
        for pat in pats {
            log.op("from_uniform_bytes", vec![json!(pat.to_vec())], None, || q_json::<T>(&<Fq2 as FromUniformBytes<96>>::from_uniform_bytes(&pat)));
        }
    }
    // Fq6 sparse multiplications
    {
        let mut log = Log { out: &mut *out, field: "bn_fq6" };
        for i in 0..(if deep { 10 } else { 4 }) {
            let g = |o: usize| qm[(o * (i + 1) + 2 * i + 3) % qm.len()].clone();
            let a = [g(1), g(2), g(3)];
            let x = Fq6::new(q_mk::<T>(&a[0]), q_mk::<T>(&a[1]), q_mk::<T>(&a[2]));
            let (c0, c1) = (g(5), g(7));
            let aj = json!([qj(&a[0]), qj(&a[1]), qj(&a[2])]);
            log.op("mul_by_1", vec![aj.clone(), qj(&c1)], None, || s_json::<T>(&<Fq6 as CubicSparseMul>::mul_by_1(&x, &q_mk::<T>(&c1))));
            log.op("mul_by_01", vec![aj.clone(), qj(&c0), qj(&c1)], None, || {
                s_json::<T>(&<Fq6 as CubicSparseMul>::mul_by_01(&x, &q_mk::<T>(&c0), &q_mk::<T>(&c1)))
            });
        }
    }
    // Fq12 sparse multiplications and cyclotomic squaring
    {
        let mut log = Log { out: &mut *out, field: "bn_fq12" };
        for i in 0..(if deep { 10 } else { 4 }) {
            let g = |o: usize| qm[(o * (i + 1) + 3 * i + 1) % qm.len()].clone();
            let s = |o: usize| Fq6::new(q_mk::<T>(&g(o)), q_mk::<T>(&g(o + 1)), q_mk::<T>(&g(o + 2)));
            let x = Fq12::new(s(1), s(4));
            let xj = d_json::<T>(&x);
            let (a, b, c) = (g(8), g(9), g(10));
            log.op("mul_by_014", vec![xj.clone(), qj(&a), qj(&b), qj(&c)], None, || {
                let mut y = x;
                <Fq12 as QuadSparseMul>::mul_by_014(&mut y, &q_mk::<T>(&a), &q_mk::<T>(&b), &q_mk::<T>(&c));
                d_json::<T>(&y)
            });
            log.op("mul_by_034", vec![xj.clone(), qj(&a), qj(&b), qj(&c)], None, || {
                let mut y = x;
                <Fq12 as QuadSparseMul>::mul_by_034(&mut y, &q_mk::<T>(&a), &q_mk::<T>(&b), &q_mk::<T>(&c));
                d_json::<T>(&y)
            });
            // an element of the cyclotomic subgroup: x^((p^6 - 1)(p^2 + 1))
            if bool::from(x.is_zero()) {
                continue;
            }
            let mut u = x;
            u.conjugate();
            let u = u * x.invert().unwrap();
            let mut c = u;
            c.frobenius_map(2);
            let c = c * u;
            log.op("cyclotomic_square", vec![d_json::<T>(&c)], None, || {
                let mut y = c;
                y.cyclotomic_square();
                d_json::<T>(&y)
            });
        }
    }
}

/// BLS12-381 Fp2 extras
pub fn bls_extras(out: &mut dyn Write) {
    type T = BlsTw;
    let p = T::p();
    let qm = q_menu(&p, 16);
    let mut log = Log { out, field: "bls_fp2" };
    log.op("constants", vec![qj(&qm[0])], None, || {
        json!({"zero":q_json::<T>(&Fp2::ZERO),"one":q_json::<T>(&Fp2::ONE),"has_zeta":true,"zeta":q_json::<T>(&<Fp2 as WithSmallOrderMulGroup<3>>::ZETA),"has_two_inv":false})
    });
    for (i, a) in qm.iter().enumerate() {
        let x = q_mk::<T>(a);
        let ins = vec![qj(a)];
        for k in [0usize, 1, 2, 3] {
            log.op("frobenius", ins.clone(), Some(k), || q_json::<T>(&T::q_frob(&x, k)));
        }
        log.op("norm", ins.clone(), None, || json!(nat_of_big(&T::b_to(&x.norm()))));
        log.op("mul_by_nonresidue", ins.clone(), None, || q_json::<T>(&T::q_mul_nr(&x)));
        log.op("is_square", ins.clone(), None, || json!(x.is_quad_res()));
        for b in qm.iter().skip(i % 3).step_by(3) {
            let y = q_mk::<T>(b);
            log.op("cmp", vec![qj(a), qj(b)], None, || json!(match x.cmp(&y) {
                std::cmp::Ordering::Less => -1,
                std::cmp::Ordering::Equal => 0,
                std::cmp::Ordering::Greater => 1,
            }));
        }
    }
    let _ = (bls::Fp::ZERO, bn256::Fq::ZERO);
}
