//! A runtime-parameterised circuit family (`ShapeCircuit`, `Params = Shape`).
//!
//! A `Shape` is a set of generator knobs (printed by TLC as JSON, or drawn from
//! a seed); `ShapeCircuit` turns it into a PLONKish circuit exercising custom
//! gates of chosen degree and rotations, fixed-table and `lookup_any` lookups,
//! copy constraints (advice-advice, advice-instance, advice-constant), additive
//! selector (trash) arguments, up to three phases with challenges, blinded and
//! unblinded advice, committed and plain instance columns. Witnesses are solved
//! forward, so every generated instance is satisfiable, and all first-phase
//! values are small integers.

use ff::Field;
use midnight_curves::Fq as F;
use midnight_proofs::{
    circuit::{Layouter, SimpleFloorPlanner, Value},
    plonk::{
        Advice, Challenge, Circuit, Column, ConstraintSystem, Constraints, Error, Expression,
        FirstPhase, Fixed, Instance, SecondPhase, Selector, TableColumn, ThirdPhase,
    },
    poly::Rotation,
};
use rand::{Rng, SeedableRng};
use rand_chacha::ChaCha8Rng;
use serde::{Deserialize, Serialize};

#[derive(Clone, Debug, Default, Serialize, Deserialize, PartialEq, Eq)]
pub struct Shape {
    pub k: u32,
    /// advice columns per phase (len 1..=3); phase 0 gets at least 3
    pub adv: Vec<usize>,
    /// challenges usable after phase i (len == adv.len())
    pub chal: Vec<usize>,
    /// number of unblinded extra columns among the phase-0 extras
    #[serde(default)]
    pub unblinded: usize,
    /// number of instance columns (0..=3); the first `committed` are committed
    pub inst: usize,
    pub committed: usize,
    /// lengths of the instance columns
    pub inst_lens: Vec<usize>,
    /// number of trailing instance columns the circuit never references (no
    /// gate, no equality): bound to the proof by the transcript only
    #[serde(default)]
    pub inst_unused: usize,
    /// constraint-system degree to reach (3..=6)
    pub deg: usize,
    /// rotation of the product cell in the mul gate (0 or 1) and of the pow gate (0 or -1)
    #[serde(default)]
    pub rot_mul: i32,
    #[serde(default)]
    pub rot_pow: i32,
    /// bind the first rows of the used instance columns to advice cells by copy
    /// constraints (advice column j, row r  ==  instance column j, row r)
    /// instead of a gate
    #[serde(default)]
    pub inst_copy: bool,
    /// if non-zero, a first gate queries a[0] at this rotation before any other
    /// query is registered (so the first opening point is not x itself)
    #[serde(default)]
    pub first_rot: i32,
    /// rotation at which the "inst" gates query their instance column
    /// (advice row r == instance row r + inst_rot)
    #[serde(default)]
    pub inst_rot: i32,
    /// number of fixed-table lookups (0..=2) and lookup_any arguments (0..=1)
    pub lookups: usize,
    #[serde(default)]
    pub lookup_any: usize,
    /// fixed tables without the all-zero entry: values are shifted by one, the default (padding) value is 1,
    /// and the lookup input is q * x + (1 - q) so that inactive rows look up the default
    #[serde(default)]
    pub tbl_nozero: bool,
    /// the circuit consists of one region that fills every usable row and enables a gate on the last one
    #[serde(default)]
    pub fill_last: bool,
    /// the "fx" operations write their fixed cell twice: a non-zero value first, then the final one (zero for the
    /// operations at even positions)
    #[serde(default)]
    pub fx_overwrite: bool,
    /// "copy" operations assign their first cell as a fraction with deferred inversion (`Rational`): x as (3x)/3, and every
    /// other one the value zero as 7/0 (a deferred inverse of zero, which evaluates to zero)
    #[serde(default)]
    pub rational: bool,
    /// every advice column and every lookup table column carries an annotation (names only: they must not influence keys)
    #[serde(default)]
    pub annotate: bool,
    /// number of additive-selector (trash) arguments (0..=2)
    pub trash: usize,
    /// number of advice columns with equality enabled (0..=3); instance columns
    /// and the constants column are added when `perm > 0`
    pub perm: usize,
    /// seed for op list and witness values
    #[serde(default)]
    pub seed: u64,
    /// number of random ops to try to place
    #[serde(default)]
    pub ops: usize,
}

impl Shape {
    pub fn phases(&self) -> usize {
        self.adv.len()
    }
    pub fn inst_used(&self) -> usize {
        self.inst - self.inst_unused.min(self.inst)
    }
    pub fn a0(&self) -> usize {
        self.adv[0].max(3).max(self.inst)
    }
}

#[derive(Clone, Debug)]
pub struct ShapeConfig {
    pub shape: Shape,
    pub a: Vec<Column<Advice>>,       // phase-0 advice (>= 3)
    pub b: Vec<Column<Advice>>,       // phase-1 advice
    pub c: Vec<Column<Advice>>,       // phase-2 advice
    pub inst: Vec<Column<Instance>>,
    pub consts: Option<Column<Fixed>>,
    pub fx: Column<Fixed>,
    pub s_mul: Selector,
    pub s_pow: Selector,
    pub s_inst: Vec<Selector>,
    pub s_extra: Vec<Selector>,
    pub s_fx: Selector,
    pub s_b: Vec<Selector>,
    pub s_c: Vec<Selector>,
    pub ch0: Vec<Challenge>,
    pub ch1: Vec<Challenge>,
    pub ch2: Vec<Challenge>,
    pub tables: Vec<TableColumn>,
    pub q_lookup: Vec<Selector>,
    pub q_any_in: Option<Selector>,
    pub q_any_tbl: Option<Selector>,
    pub s_trash: Vec<Selector>,
}

/// One forward-solved operation, occupying its own region.
#[derive(Clone, Debug, Serialize, Deserialize, PartialEq, Eq)]
pub enum Op {
    /// first region: a_j[row] = inst_j[row]
    InstRows,
    Mul { x: u64, y: u64 },
    Pow { x: u64 },
    Extra { j: usize, x: u64 },
    Fx { x: u64 },
    PhaseB { j: usize, x: u64 },
    PhaseC { j: usize, x: u64 },
    Lookup { i: usize, v: u64 },
    AnyTbl { v: u64 },
    AnyIn { v: u64 },
    Trash { j: usize, x: u64 },
    Copy { x: u64 },
    CopyInst { j: usize, row: usize },
    CopyConst { c: u64 },
    /// one region as tall as the usable rows, with the mul gate enabled (and satisfied) on its first and on its LAST row
    Tall { rows: usize, x: u64, y: u64 },
}

impl Op {
    pub fn rows(&self, sh: &Shape) -> usize {
        match self {
            Op::InstRows => sh.inst_lens.iter().take(sh.inst_used()).copied().max().unwrap_or(0),
            Op::Tall { rows, .. } => *rows,
            Op::Mul { .. } => 1 + sh.rot_mul as usize,
            Op::Pow { .. } => 1 + (-sh.rot_pow) as usize,
            Op::Extra { .. } => 3,
            Op::Copy { .. } => 2,
            _ => 1,
        }
    }
}

/// A fault injected at assignment time: (op index, slot within the op) -> delta.
#[derive(Clone, Debug, Default, Serialize, Deserialize, PartialEq, Eq)]
pub struct Fault {
    pub op: usize,
    pub slot: usize,
    /// "plus1" | "zero" | "rand"
    pub kind: String,
}

#[derive(Clone, Debug, Default)]
pub struct ShapeCircuit {
    pub shape: Shape,
    pub ops: Vec<Op>,
    pub instance: Vec<Vec<u64>>,
    pub witness: bool,
    pub fault: Option<Fault>,
}

pub const TABLE_BITS: usize = 2;

pub fn table_value(i: usize, idx: u64) -> u64 {
    idx * (i as u64 + 1)
}

impl ShapeCircuit {
    /// Build ops, witness values and instance vectors from the shape's seed.
    pub fn generate(shape: &Shape, variant: u64) -> Self {
        // `srng` decides structure (must be identical for all proofs under one key);
        // `rng` decides witness and instance values (vary per proof).
        let mut srng = ChaCha8Rng::seed_from_u64(shape.seed);
        let mut rng = ChaCha8Rng::seed_from_u64(
            shape.seed ^ ((variant + 1).wrapping_mul(0x9e3779b97f4a7c15)),
        );
        let sh = shape.clone();
        let mut instance: Vec<Vec<u64>> = sh
            .inst_lens
            .iter()
            .map(|&l| (0..l).map(|_| rng.gen_range(0..50)).collect())
            .collect();
        instance.truncate(sh.inst);
        while instance.len() < sh.inst {
            instance.push(vec![]);
        }
        // usable rows estimate: cs built once to get blinding factors
        let mut cs = ConstraintSystem::<F>::default();
        let _ = ShapeCircuit::configure_with_params(&mut cs, sh.clone());
        let n = 1usize << sh.k;
        let usable = n - (cs.blinding_factors() + 1);
        let mut ops = vec![];
        let mut rows = 0usize;
        if sh.fill_last {
            let (x, y) = (rng.gen_range(1..40u64), rng.gen_range(1..40u64));
            return ShapeCircuit { shape: sh, ops: vec![Op::Tall { rows: usable, x, y }], instance, witness: true, fault: None };
        }
        if sh.inst_used() > 0 {
            ops.push(Op::InstRows);
            rows += Op::InstRows.rows(&sh);
        }
        // mandatory one op per feature, then random ones
        let mut menu: Vec<u8> = vec![0, 1, 3];
        for _ in 0..(sh.a0() - 3) {
            menu.push(2);
        }
        if sh.phases() > 1 {
            menu.push(4);
        }
        if sh.phases() > 2 {
            menu.push(5);
        }
        for _ in 0..sh.lookups {
            menu.push(6);
        }
        if sh.lookup_any > 0 {
            menu.push(7);
            menu.push(8);
        }
        for _ in 0..sh.trash {
            menu.push(9);
        }
        if sh.perm >= 2 {
            menu.push(10);
            if sh.rational {
                // two consecutive copy operations: one at an even position (the value zero as 7/0), one at an odd one
                menu.push(10);
            }
        }
        if sh.perm >= 1 {
            menu.push(12);
            if instance.iter().take(sh.inst_used()).any(|c| !c.is_empty()) {
                menu.push(11);
            }
        }
        let mut any_vals: Vec<u64> = vec![];
        let mut count = vec![0usize; 16];
        let total = menu.len() + sh.ops;
        for t in 0..total {
            let m = if t < menu.len() { menu[t] } else { menu[srng.gen_range(0..menu.len())] };
            let x: u64 = rng.gen_range(0..40);
            let y: u64 = rng.gen_range(0..40);
            let sx: u64 = srng.gen_range(0..40);
            let sy: u64 = srng.gen_range(0..40);
            let c = count[m as usize];
            let op = match m {
                0 => Op::Mul { x, y },
                1 => Op::Pow { x: x % 8 },
                2 => Op::Extra { j: c % (sh.a0() - 3), x },
                3 => Op::Fx { x: sx },
                4 => Op::PhaseB { j: c % sh.adv[1].max(1), x },
                5 => Op::PhaseC { j: c % sh.adv[2].max(1), x },
                6 => {
                    let i = c % sh.lookups;
                    Op::Lookup { i, v: table_value(i, x % (1 << TABLE_BITS)) + sh.tbl_nozero as u64 }
                }
                7 => {
                    any_vals.push(x + 1);
                    Op::AnyTbl { v: x + 1 }
                }
                8 => {
                    if any_vals.is_empty() {
                        Op::AnyIn { v: 0 }
                    } else {
                        Op::AnyIn { v: any_vals[(y as usize) % any_vals.len()] }
                    }
                }
                9 => Op::Trash { j: c % sh.trash, x },
                10 => Op::Copy { x },
                11 => {
                    let js: Vec<usize> =
                        (0..sh.inst_used()).filter(|&j| !instance[j].is_empty()).collect();
                    let j = js[(sx as usize) % js.len()];
                    Op::CopyInst { j, row: (sy as usize) % instance[j].len() }
                }
                _ => Op::CopyConst { c: sx % 5 },
            };
            let h = op.rows(&sh);
            if rows + h > usable {
                if t < menu.len() {
                    continue;
                } else {
                    break;
                }
            }
            rows += h;
            count[m as usize] += 1;
            ops.push(op);
        }
        ShapeCircuit { shape: sh, ops, instance, witness: true, fault: None }
    }

    pub fn instance_f(&self) -> Vec<Vec<F>> {
        self.instance.iter().map(|c| c.iter().map(|&v| F::from(v)).collect()).collect()
    }

    fn val(&self, op: usize, slot: usize, v: F) -> Value<F> {
        if !self.witness {
            return Value::unknown();
        }
        if let Some(f) = &self.fault {
            if f.op == op && f.slot == slot {
                let nv = match f.kind.as_str() {
                    "plus1" => v + F::ONE,
                    "zero" => {
                        if v == F::ZERO {
                            F::from(7)
                        } else {
                            F::ZERO
                        }
                    }
                    _ => v + F::from(1234567),
                };
                return Value::known(nv);
            }
        }
        Value::known(v)
    }

    /// Number of advice assignment slots per op (for fault plans).
    pub fn slots(&self, op: &Op) -> usize {
        match op {
            Op::InstRows => self
                .instance
                .iter()
                .take(self.shape.inst_used())
                .map(|c| c.len())
                .sum(),
            Op::Tall { .. } => 6,
            Op::Mul { .. } => 3,
            Op::Pow { .. } => 2,
            Op::Extra { .. } => 2,
            Op::Fx { .. } => 1,
            Op::PhaseB { .. } => 2,
            Op::PhaseC { .. } => 3,
            Op::Lookup { .. } => 1,
            Op::AnyTbl { .. } => 1,
            Op::AnyIn { .. } => 1,
            Op::Trash { .. } => 3,
            Op::Copy { .. } => 2,
            Op::CopyInst { .. } => 1,
            Op::CopyConst { .. } => 1,
        }
    }
}

fn pow_u(x: F, d: usize) -> F {
    let mut r = F::ONE;
    for _ in 0..d {
        r *= x;
    }
    r
}

impl Circuit<F> for ShapeCircuit {
    type Config = ShapeConfig;
    type FloorPlanner = SimpleFloorPlanner;
    type Params = Shape;

    fn without_witnesses(&self) -> Self {
        let mut c = self.clone();
        c.witness = false;
        c.fault = None;
        c
    }

    fn params(&self) -> Shape {
        self.shape.clone()
    }

    fn configure(_meta: &mut ConstraintSystem<F>) -> ShapeConfig {
        unreachable!("ShapeCircuit needs params")
    }

    fn configure_with_params(meta: &mut ConstraintSystem<F>, sh: Shape) -> ShapeConfig {
        let a0 = sh.a0();
        // instance columns first (committed ones are the first `committed`)
        let inst: Vec<Column<Instance>> = (0..sh.inst).map(|_| meta.instance_column()).collect();
        let n_unbl = sh.unblinded.min(a0 - 3);
        let a: Vec<Column<Advice>> = (0..a0)
            .map(|i| {
                if i >= 3 && i - 3 < n_unbl {
                    meta.unblinded_advice_column_in(FirstPhase)
                } else {
                    meta.advice_column_in(FirstPhase)
                }
            })
            .collect();
        let ch0: Vec<Challenge> = (0..sh.chal.first().copied().unwrap_or(0))
            .map(|_| meta.challenge_usable_after(FirstPhase))
            .collect();
        let b: Vec<Column<Advice>> = if sh.phases() > 1 {
            (0..sh.adv[1].max(1)).map(|_| meta.advice_column_in(SecondPhase)).collect()
        } else {
            vec![]
        };
        let ch1: Vec<Challenge> = if sh.phases() > 1 {
            (0..sh.chal[1]).map(|_| meta.challenge_usable_after(SecondPhase)).collect()
        } else {
            vec![]
        };
        let c: Vec<Column<Advice>> = if sh.phases() > 2 {
            (0..sh.adv[2].max(1)).map(|_| meta.advice_column_in(ThirdPhase)).collect()
        } else {
            vec![]
        };
        let ch2: Vec<Challenge> = if sh.phases() > 2 {
            (0..sh.chal[2]).map(|_| meta.challenge_usable_after(ThirdPhase)).collect()
        } else {
            vec![]
        };
        let fx = meta.fixed_column();
        let consts = if sh.perm > 0 {
            let cc = meta.fixed_column();
            meta.enable_constant(cc);
            let neq = if sh.inst_copy { sh.perm.min(3).max(sh.inst_used()) } else { sh.perm.min(3) };
            for col in a.iter().take(neq) {
                meta.enable_equality(*col);
            }
            for col in inst.iter().take(sh.inst_used()) {
                meta.enable_equality(*col);
            }
            Some(cc)
        } else {
            None
        };

        let s_mul = meta.selector();
        let s_pow = meta.selector();
        let s_fx = meta.selector();
        let s_inst: Vec<Selector> = (0..sh.inst_used()).map(|_| meta.selector()).collect();
        let s_extra: Vec<Selector> = (3..a0).map(|_| meta.selector()).collect();
        let s_b: Vec<Selector> = b.iter().map(|_| meta.selector()).collect();
        let s_c: Vec<Selector> = c.iter().map(|_| meta.selector()).collect();

        let rot_mul = Rotation(sh.rot_mul);
        let rot_pow = Rotation(sh.rot_pow);
        let d = sh.deg.clamp(3, 6) - 1;
        if sh.first_rot != 0 {
            let fr = Rotation(sh.first_rot);
            let s_never = meta.selector();
            meta.create_gate("first_rot", |m| {
                let x1 = m.query_advice(a[0], fr);
                Constraints::with_selector(s_never, vec![x1.clone() - x1])
            });
        }
        meta.create_gate("mul", |m| {
            let x = m.query_advice(a[0], Rotation::cur());
            let y = m.query_advice(a[1], Rotation::cur());
            let z = m.query_advice(a[2], rot_mul);
            Constraints::with_selector(s_mul, vec![x * y - z])
        });
        meta.create_gate("pow", |m| {
            let x = m.query_advice(a[0], Rotation::cur());
            let z = m.query_advice(a[1], rot_pow);
            let mut p = x.clone();
            for _ in 1..d {
                p = p * x.clone();
            }
            Constraints::with_selector(s_pow, vec![p - z])
        });
        meta.create_gate("fx", |m| {
            let x = m.query_advice(a[2], Rotation::cur());
            let f = m.query_fixed(fx, Rotation::cur());
            Constraints::with_selector(s_fx, vec![x - f])
        });
        for j in 0..sh.inst_used() {
            meta.create_gate("inst", |m| {
                let x = m.query_advice(a[j], Rotation::cur());
                let i = m.query_instance(inst[j], Rotation(sh.inst_rot));
                Constraints::with_selector(s_inst[j], vec![x - i])
            });
        }
        for (jj, col) in a.iter().enumerate().skip(3) {
            let j = jj - 3;
            meta.create_gate("extra", |m| {
                let x = m.query_advice(a[0], Rotation::cur());
                let e = m.query_advice(*col, Rotation(2));
                Constraints::with_selector(
                    s_extra[j],
                    vec![e - x - Expression::Constant(F::from(j as u64 + 1))],
                )
            });
        }
        for (j, col) in b.iter().enumerate() {
            let chs = ch0.clone();
            meta.create_gate("phase_b", |m| {
                let x = m.query_advice(a[0], Rotation::cur());
                let bb = m.query_advice(*col, Rotation::cur());
                let rhs = if chs.is_empty() {
                    x + Expression::Constant(F::ONE)
                } else {
                    m.query_challenge(chs[j % chs.len()]) * x
                };
                Constraints::with_selector(s_b[j], vec![bb - rhs])
            });
        }
        for (j, col) in c.iter().enumerate() {
            let chs = ch1.clone();
            let b0 = b[0];
            meta.create_gate("phase_c", |m| {
                let x = m.query_advice(a[0], Rotation::cur());
                let bb = m.query_advice(b0, Rotation::cur());
                let cc = m.query_advice(*col, Rotation::cur());
                let rhs = if chs.is_empty() {
                    bb + x
                } else {
                    m.query_challenge(chs[j % chs.len()]) * bb + x
                };
                Constraints::with_selector(s_c[j], vec![cc - rhs])
            });
        }
        // a dangling gate reading last-phase challenges so they are used
        if let Some(&chl) = ch2.first() {
            let s_last = s_c[0];
            let c0 = c[0];
            meta.create_gate("ch2", |m| {
                let cc = m.query_advice(c0, Rotation::cur());
                let e = m.query_challenge(chl);
                Constraints::with_selector(s_last, vec![(cc.clone() - cc) * e])
            });
        }

        let mut tables = vec![];
        if sh.annotate {
            for (i, col) in a.iter().enumerate() {
                meta.annotate_lookup_any_column(*col, || format!("advice {i} of the first phase"));
            }
        }
        let mut q_lookup = vec![];
        for i in 0..sh.lookups {
            let t = meta.lookup_table_column();
            if sh.annotate {
                meta.annotate_lookup_column(t, || format!("table {i}"));
            }
            let q = meta.complex_selector();
            let col = a[i % 3];
            meta.lookup("tbl", |m| {
                let q = m.query_selector(q);
                let x = m.query_advice(col, Rotation::cur());
                if sh.tbl_nozero {
                    let one = Expression::Constant(F::ONE);
                    vec![(q.clone() * x + (one - q), t)]
                } else {
                    vec![(q * x, t)]
                }
            });
            tables.push(t);
            q_lookup.push(q);
        }
        let (q_any_in, q_any_tbl) = if sh.lookup_any > 0 {
            let qi = meta.complex_selector();
            let qt = meta.complex_selector();
            let cross = sh.lookup_any == 2;
            meta.lookup_any("any", |m| {
                let qi = m.query_selector(qi);
                let qt = m.query_selector(qt);
                let x = m.query_advice(a[0], Rotation::cur());
                let t = m.query_advice(a[1], Rotation::cur());
                if cross {
                    // two pairs whose highest-degree input and highest-degree table expression sit in DIFFERENT pairs:
                    // (x^2, x) must be a row (s, t^2) of the table, i.e. x = t^2 and s = t^4
                    let s = m.query_advice(a[2], Rotation::cur());
                    vec![(qi.clone() * x.clone() * x.clone(), qt.clone() * s), (qi * x, qt * t.clone() * t)]
                } else {
                    vec![(qi * x, qt * t)]
                }
            });
            (Some(qi), Some(qt))
        } else {
            (None, None)
        };
        let mut s_trash = vec![];
        for j in 0..sh.trash {
            let s = meta.complex_selector();
            meta.create_gate("trash", |m| {
                let x = m.query_advice(a[0], Rotation::cur());
                let y = m.query_advice(a[1], Rotation::cur());
                let z = m.query_advice(a[2], Rotation::cur());
                let mut cs = vec![x.clone() - y];
                if j % 2 == 1 {
                    cs.push(z - x.clone() * x);
                }
                Constraints::with_additive_selector(s, cs)
            });
            s_trash.push(s);
        }

        ShapeConfig {
            shape: sh,
            a,
            b,
            c,
            inst,
            consts,
            fx,
            s_mul,
            s_pow,
            s_inst,
            s_extra,
            s_fx,
            s_b,
            s_c,
            ch0,
            ch1,
            ch2,
            tables,
            q_lookup,
            q_any_in,
            q_any_tbl,
            s_trash,
        }
    }

    fn synthesize(&self, cfg: ShapeConfig, mut layouter: impl Layouter<F>) -> Result<(), Error> {
        let sh = &self.shape;
        let d = sh.deg.clamp(3, 6) - 1;
        let ch0: Vec<Value<F>> = cfg.ch0.iter().map(|c| layouter.get_challenge(*c)).collect();
        let ch1: Vec<Value<F>> = cfg.ch1.iter().map(|c| layouter.get_challenge(*c)).collect();
        for (i, t) in cfg.tables.iter().enumerate() {
            layouter.assign_table(
                || "tbl",
                |mut tb| {
                    for r in 0..(1usize << TABLE_BITS) {
                        tb.assign_cell(
                            || "t",
                            *t,
                            r,
                            || Value::known(F::from(table_value(i, r as u64) + sh.tbl_nozero as u64)),
                        )?;
                    }
                    Ok(())
                },
            )?;
        }
        for (oi, op) in self.ops.iter().enumerate() {
            let mut inst_copies = vec![];
            layouter.assign_region(
                || "op",
                |mut r| {
                    inst_copies.clear();
                    match op {
                        Op::InstRows => {
                            let mut slot = 0;
                            for (j, col) in
                                self.instance.iter().enumerate().take(sh.inst_used())
                            {
                                for (row, v) in col.iter().enumerate() {
                                    let by_copy = sh.inst_copy && sh.perm > 0;
                                    // by gate: advice row r holds instance row r + inst_rot (where that row exists)
                                    let src = row as i64 + if by_copy { 0 } else { sh.inst_rot as i64 };
                                    let v = if src >= 0 && (src as usize) < col.len() { &col[src as usize] } else { v };
                                    if !by_copy && src >= 0 && (src as usize) < col.len() {
                                        cfg.s_inst[j].enable(&mut r, row)?;
                                    }
                                    let c = r.assign_advice(|| "i", cfg.a[j], row, || {
                                        self.val(oi, slot, F::from(*v))
                                    })?;
                                    if by_copy {
                                        inst_copies.push((c.cell(), cfg.inst[j], row));
                                    }
                                    slot += 1;
                                }
                            }
                        }
                        Op::Tall { rows, x, y } => {
                            let (xf, yf) = (F::from(*x), F::from(*y));
                            for (slot, row) in [(0usize, 0usize), (3, *rows - 1)] {
                                cfg.s_mul.enable(&mut r, row)?;
                                r.assign_advice(|| "x", cfg.a[0], row, || self.val(oi, slot, xf))?;
                                r.assign_advice(|| "y", cfg.a[1], row, || self.val(oi, slot + 1, yf))?;
                                r.assign_advice(|| "z", cfg.a[2], row, || self.val(oi, slot + 2, xf * yf))?;
                            }
                        }
                        Op::Mul { x, y } => {
                            cfg.s_mul.enable(&mut r, 0)?;
                            let (x, y) = (F::from(*x), F::from(*y));
                            r.assign_advice(|| "x", cfg.a[0], 0, || self.val(oi, 0, x))?;
                            r.assign_advice(|| "y", cfg.a[1], 0, || self.val(oi, 1, y))?;
                            r.assign_advice(|| "z", cfg.a[2], sh.rot_mul as usize, || {
                                self.val(oi, 2, x * y)
                            })?;
                        }
                        Op::Pow { x } => {
                            let off = (-sh.rot_pow) as usize;
                            cfg.s_pow.enable(&mut r, off)?;
                            let x = F::from(*x);
                            r.assign_advice(|| "x", cfg.a[0], off, || self.val(oi, 0, x))?;
                            r.assign_advice(|| "z", cfg.a[1], 0, || self.val(oi, 1, pow_u(x, d)))?;
                        }
                        Op::Extra { j, x } => {
                            cfg.s_extra[*j].enable(&mut r, 0)?;
                            let xf = F::from(*x);
                            r.assign_advice(|| "x", cfg.a[0], 0, || self.val(oi, 0, xf))?;
                            r.assign_advice(|| "e", cfg.a[3 + j], 2, || {
                                self.val(oi, 1, xf + F::from(*j as u64 + 1))
                            })?;
                        }
                        Op::Fx { x } => {
                            cfg.s_fx.enable(&mut r, 0)?;
                            let mut xf = F::from(*x);
                            if sh.fx_overwrite {
                                r.assign_fixed(|| "f0", cfg.fx, 0, || Value::known(xf + F::from(7u64)))?;
                                if oi % 2 == 0 {
                                    xf = F::ZERO;
                                }
                            }
                            r.assign_fixed(|| "f", cfg.fx, 0, || Value::known(xf))?;
                            r.assign_advice(|| "x", cfg.a[2], 0, || self.val(oi, 0, xf))?;
                        }
                        Op::PhaseB { j, x } => {
                            cfg.s_b[*j].enable(&mut r, 0)?;
                            let xf = F::from(*x);
                            r.assign_advice(|| "x", cfg.a[0], 0, || self.val(oi, 0, xf))?;
                            let bv = if ch0.is_empty() {
                                Value::known(xf + F::ONE)
                            } else {
                                ch0[j % ch0.len()].map(|c| c * xf)
                            };
                            r.assign_advice(|| "b", cfg.b[*j], 0, || {
                                bv.and_then(|v| self.val(oi, 1, v))
                            })?;
                        }
                        Op::PhaseC { j, x } => {
                            cfg.s_c[*j].enable(&mut r, 0)?;
                            let xf = F::from(*x);
                            r.assign_advice(|| "x", cfg.a[0], 0, || self.val(oi, 0, xf))?;
                            let bv = Value::known(F::from(3 * *x + 1));
                            r.assign_advice(|| "b", cfg.b[0], 0, || {
                                bv.and_then(|v| self.val(oi, 1, v))
                            })?;
                            let cv = if ch1.is_empty() {
                                bv.map(|b| b + xf)
                            } else {
                                ch1[j % ch1.len()].zip(bv).map(|(c, b)| c * b + xf)
                            };
                            r.assign_advice(|| "c", cfg.c[*j], 0, || {
                                cv.and_then(|v| self.val(oi, 2, v))
                            })?;
                        }
                        Op::Lookup { i, v } => {
                            cfg.q_lookup[*i].enable(&mut r, 0)?;
                            r.assign_advice(|| "l", cfg.a[i % 3], 0, || {
                                self.val(oi, 0, F::from(*v))
                            })?;
                        }
                        Op::AnyTbl { v } => {
                            cfg.q_any_tbl.unwrap().enable(&mut r, 0)?;
                            r.assign_advice(|| "t", cfg.a[1], 0, || self.val(oi, 0, F::from(*v)))?;
                            if self.shape.lookup_any == 2 {
                                let v2 = F::from(*v) * F::from(*v);
                                r.assign_advice(|| "s", cfg.a[2], 0, || self.val(oi, 1, v2 * v2))?;
                            }
                        }
                        Op::AnyIn { v } => {
                            cfg.q_any_in.unwrap().enable(&mut r, 0)?;
                            let xv = if self.shape.lookup_any == 2 { F::from(*v) * F::from(*v) } else { F::from(*v) };
                            r.assign_advice(|| "x", cfg.a[0], 0, || self.val(oi, 0, xv))?;
                        }
                        Op::Trash { j, x } => {
                            cfg.s_trash[*j].enable(&mut r, 0)?;
                            let xf = F::from(*x);
                            r.assign_advice(|| "x", cfg.a[0], 0, || self.val(oi, 0, xf))?;
                            r.assign_advice(|| "y", cfg.a[1], 0, || self.val(oi, 1, xf))?;
                            r.assign_advice(|| "z", cfg.a[2], 0, || self.val(oi, 2, xf * xf))?;
                        }
                        Op::Copy { x } if self.shape.rational => {
                            use midnight_proofs::utils::rational::Rational;
                            let xf = if oi % 2 == 0 { F::ZERO } else { F::from(*x) };
                            let three = F::from(3u64);
                            let c1 = r.assign_advice(
                                || "x",
                                cfg.a[0],
                                0,
                                || self.val(oi, 0, xf).map(|v| if v == F::ZERO { Rational::Rational(F::from(7u64), F::ZERO) } else { Rational::Rational(v * three, three) }),
                            )?;
                            let c2 = r.assign_advice(|| "y", cfg.a[1], 1, || self.val(oi, 1, xf))?;
                            r.constrain_equal(c1.cell(), c2.cell())?;
                        }
                        Op::Copy { x } => {
                            let xf = F::from(*x);
                            let c1 = r.assign_advice(|| "x", cfg.a[0], 0, || self.val(oi, 0, xf))?;
                            let c2 = r.assign_advice(|| "y", cfg.a[1], 1, || self.val(oi, 1, xf))?;
                            r.constrain_equal(c1.cell(), c2.cell())?;
                        }
                        Op::CopyInst { j, row } => {
                            let v = F::from(self.instance[*j][*row]);
                            let c1 = r.assign_advice(|| "x", cfg.a[0], 0, || self.val(oi, 0, v))?;
                            inst_copies.push((c1.cell(), cfg.inst[*j], *row));
                        }
                        Op::CopyConst { c } => {
                            let v = F::from(*c);
                            let c1 = r.assign_advice(|| "x", cfg.a[0], 0, || self.val(oi, 0, v))?;
                            r.constrain_constant(c1.cell(), v)?;
                        }
                    }
                    Ok(())
                },
            )?;
            for (cell, col, row) in inst_copies {
                layouter.constrain_instance(cell, col, row)?;
            }
        }
        Ok(())
    }
}

/// Random shape from a seed (used when TLC does not supply one).
pub fn random_shape(seed: u64) -> Shape {
    let mut rng = ChaCha8Rng::seed_from_u64(seed);
    let phases = rng.gen_range(1..=3usize);
    let adv: Vec<usize> = (0..phases).map(|i| if i == 0 { rng.gen_range(3..=5) } else { rng.gen_range(1..=2) }).collect();
    let chal: Vec<usize> = (0..phases).map(|_| rng.gen_range(0..=2)).collect();
    let inst = rng.gen_range(0..=3usize);
    let committed = rng.gen_range(0..=inst.min(2));
    let inst_lens = (0..inst).map(|_| rng.gen_range(0..=3)).collect();
    Shape {
        k: rng.gen_range(5..=7),
        unblinded: rng.gen_range(0..=1),
        adv,
        chal,
        inst,
        committed,
        inst_lens,
        inst_unused: if inst > committed { rng.gen_range(0..=(inst - committed)) } else { 0 },
        deg: rng.gen_range(3..=6),
        rot_mul: rng.gen_range(0..=1),
        rot_pow: -rng.gen_range(0..=1),
        first_rot: [0, 0, 1, -1][rng.gen_range(0..4)],
        inst_rot: [0, 0, 1, -1, 2][rng.gen_range(0..5)],
        inst_copy: rng.gen_range(0..3) == 0,
        lookups: rng.gen_range(0..=2),
        lookup_any: rng.gen_range(0..=1),
        tbl_nozero: rng.gen_range(0..3) == 0,
        fx_overwrite: rng.gen_range(0..3) == 0,
        fill_last: false,
        annotate: seed % 3 == 0,
        rational: seed % 4 == 1,
        trash: rng.gen_range(0..=2),
        perm: rng.gen_range(0..=3),
        seed,
        ops: rng.gen_range(0..=6),
    }
}
