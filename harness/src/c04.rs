//! C04 driver: native-field gadget operations run on toy fields (the real,
//! generic `NativeGadget` code) with inputs and outputs exposed as public
//! inputs; the values the circuit itself exposes are extracted from its copy
//! constraints, with and without a consistent tamper (hook H1).

use std::{
    io::Write,
    panic::{catch_unwind, AssertUnwindSafe},
};

use ff::PrimeField;
use midnight_circuits::{
    field::{decomposition::chip::P2RDecompositionChip, NativeChip, NativeGadget},
    instructions::*,
    testing_utils::FromScratch,
    types::{AssignedBit, AssignedNative},
    CircuitField,
};
use midnight_proofs::{
    circuit::{Layouter, SimpleFloorPlanner, Value},
    dev::{CellValue, MockProver},
    plonk::{Any, Circuit, ConstraintSystem, Error},
    verif_hook::{self, Fault},
};
use num_bigint::BigUint;
use serde_json::{json, Value as J};

use crate::{extract, plonkrun::panic_msg, toy::Fp, util};

type NG<T> = NativeGadget<T, P2RDecompositionChip<T>, NativeChip<T>>;

#[derive(Clone, Debug)]
pub struct OpCircuit<T> {
    pub op: String,
    pub params: Vec<u64>,
    pub ins: Vec<u64>,
    pub known: bool,
    _m: std::marker::PhantomData<T>,
}

impl<T> OpCircuit<T> {
    pub fn new(op: &str, params: &[u64], ins: &[u64]) -> Self {
        OpCircuit { op: op.into(), params: params.to_vec(), ins: ins.to_vec(), known: true, _m: Default::default() }
    }
}

/// input kinds of an operation: 'n' native, 'b' bit
pub fn in_kinds(op: &str, params: &[u64]) -> Vec<char> {
    match op {
        "add" | "sub" | "mul" | "div" | "is_equal" | "is_not_equal" | "lower_than" | "geq" | "band" | "bor" | "bxor" => vec!['n', 'n'],
        "neg" | "inv" | "inv0" | "square" | "add_constant" | "mul_by_constant" | "is_zero" | "is_equal_to_fixed"
        | "to_le_bits" | "to_le_bytes" | "sgn0" | "assert_lower_than_fixed" | "div_rem" | "bnot" | "lower_than_fixed"
        | "bounded" | "range2" => vec!['n'],
        "lincomb" | "add_and_mul" => vec!['n', 'n', 'n'],
        // arithmetic with a chosen operand source: params = [opcode, has_m, m, mode, c]; mode 0: two witnesses
        "arith_src" => vec!['n'; if params.get(3).copied().unwrap_or(0) == 0 { 2 } else { 1 }],
        "and" | "or" | "xor" => vec!['b'; params.first().copied().unwrap_or(2) as usize],
        "not" => vec!['b'],
        "select" | "cond_swap" => vec!['b', 'n', 'n'],
        "from_le_bits" => vec!['b'; params[0] as usize],
        _ => vec![],
    }
}

enum Out<T: CircuitField> {
    N(AssignedNative<T>),
    B(AssignedBit<T>),
}

impl<T: CircuitField + Ord> Circuit<T> for OpCircuit<T> {
    type Config = <NG<T> as FromScratch<T>>::Config;
    type FloorPlanner = SimpleFloorPlanner;
    type Params = ();
    fn without_witnesses(&self) -> Self {
        let mut c = self.clone();
        c.known = false;
        c
    }
    fn configure(meta: &mut ConstraintSystem<T>) -> Self::Config {
        let c = meta.instance_column();
        let i = meta.instance_column();
        NG::<T>::configure_from_scratch(meta, &[c, i])
    }
    fn synthesize(&self, config: Self::Config, mut l: impl Layouter<T>) -> Result<(), Error> {
        let ng = NG::<T>::new_from_scratch(&config);
        let kinds = in_kinds(&self.op, &self.params);
        let val = |i: usize| if self.known { Value::known(T::from(self.ins[i])) } else { Value::unknown() };
        let mut ns: Vec<AssignedNative<T>> = vec![];
        let mut bs: Vec<AssignedBit<T>> = vec![];
        for (i, k) in kinds.iter().enumerate() {
            if *k == 'n' {
                let x: AssignedNative<T> = ng.assign(&mut l, val(i))?;
                ng.constrain_as_public_input(&mut l, &x)?;
                ns.push(x);
            } else {
                let b: AssignedBit<T> = ng.assign(&mut l, val(i).map(|v| v == T::ONE))?;
                ng.constrain_as_public_input(&mut l, &b)?;
                bs.push(b);
            }
        }
        let p = |i: usize| T::from(self.params[i]);
        let pu = |i: usize| self.params[i] as usize;
        let mut outs: Vec<Out<T>> = vec![];
        if self.op.starts_with("vec_") {
            // params: [shape, n, l, d_1..d_l, (l2, e_1..e_l2)]; the vectors are private inputs (they cannot be exposed)
            use midnight_circuits::vec::{vector_gadget::VectorGadget, AssignedVector};
            let vg = VectorGadget::new(&ng);
            let lv = pu(2);
            let data: Vec<T> = (0..lv).map(|i| p(3 + i)).collect();
            let second: Vec<T> = if self.params.len() > 3 + lv {
                let l2 = pu(3 + lv);
                (0..l2).map(|i| p(4 + lv + i)).collect()
            } else {
                vec![]
            };
            let val = |d: &Vec<T>| if self.known { Value::known(d.clone()) } else { Value::unknown() };
            macro_rules! shape {
                ($m:expr, $a:expr, $l2:expr) => {{
                    let v: AssignedVector<T, AssignedNative<T>, $m, $a> = vg.assign_with_filler(&mut l, val(&data), Some(T::from(7u64)))?;
                    let expose_info = |l: &mut _, v: &AssignedVector<T, AssignedNative<T>, $m, $a>, outs: &mut Vec<Out<T>>| -> Result<(), Error> {
                        let (st, en) = vg.get_limits(l, v)?;
                        outs.push(Out::N(st));
                        outs.push(Out::N(en));
                        for b in vg.padding_flag(l, v)? {
                            outs.push(Out::B(b));
                        }
                        Ok(())
                    };
                    match self.op.as_str() {
                        "vec_only" => {}
                        "vec_only2" => {
                            let _w: AssignedVector<T, AssignedNative<T>, $m, $a> = vg.assign_with_filler(&mut l, val(&second), Some(T::from(9u64)))?;
                        }
                        "vec_only2r" => {
                            let _w: AssignedVector<T, AssignedNative<T>, $l2, $a> = vg.assign_with_filler(&mut l, val(&second), Some(T::from(9u64)))?;
                        }
                        "vec_info" => expose_info(&mut l, &v, &mut outs)?,
                        "vec_trim" => {
                            let w: AssignedVector<T, AssignedNative<T>, $m, $a> = vg.assign_with_filler(&mut l, val(&second), Some(T::from(9u64)))?;
                            let t = vg.trim_beginning(&mut l, &v, pu(1))?;
                            expose_info(&mut l, &t, &mut outs)?;
                            outs.push(Out::B(vg.is_equal(&mut l, &t, &w)?));
                        }
                        "vec_trim_only" => {
                            // the trim alone (nothing downstream re-checks the length)
                            let _t = vg.trim_beginning(&mut l, &v, pu(1))?;
                        }
                        "vec_eq" => {
                            let w: AssignedVector<T, AssignedNative<T>, $m, $a> = vg.assign_with_filler(&mut l, val(&second), Some(T::from(9u64)))?;
                            outs.push(Out::B(vg.is_equal(&mut l, &v, &w)?));
                        }
                        "vec_resize" => {
                            let w: AssignedVector<T, AssignedNative<T>, $l2, $a> = vg.assign_with_filler(&mut l, val(&second), Some(T::from(9u64)))?;
                            let t: AssignedVector<T, AssignedNative<T>, $l2, $a> = vg.resize(&mut l, v)?;
                            let (st, en) = vg.get_limits(&mut l, &t)?;
                            outs.push(Out::N(st));
                            outs.push(Out::N(en));
                            for b in vg.padding_flag(&mut l, &t)? {
                                outs.push(Out::B(b));
                            }
                            outs.push(Out::B(vg.is_equal(&mut l, &t, &w)?));
                        }
                        other => return Err(Error::Synthesis(format!("unknown op {other}"))),
                    }
                }};
            }
            match pu(0) {
                0 => shape!(8, 2, 12),
                _ => shape!(12, 4, 16),
            }
            for o in outs.iter() {
                match o {
                    Out::N(x) => ng.constrain_as_public_input(&mut l, x)?,
                    Out::B(b) => ng.constrain_as_public_input(&mut l, b)?,
                }
            }
            return ng.load_from_scratch(&mut l);
        }
        match self.op.as_str() {
            "add" => outs.push(Out::N(ng.add(&mut l, &ns[0], &ns[1])?)),
            "sub" => outs.push(Out::N(ng.sub(&mut l, &ns[0], &ns[1])?)),
            "mul" => outs.push(Out::N(ng.mul(&mut l, &ns[0], &ns[1], None)?)),
            "div" => outs.push(Out::N(ng.div(&mut l, &ns[0], &ns[1])?)),
            "neg" => outs.push(Out::N(ng.neg(&mut l, &ns[0])?)),
            "inv" => outs.push(Out::N(ng.inv(&mut l, &ns[0])?)),
            "inv0" => outs.push(Out::N(ng.inv0(&mut l, &ns[0])?)),
            "square" => outs.push(Out::N(ng.square(&mut l, &ns[0])?)),
            "add_constant" => outs.push(Out::N(ng.add_constant(&mut l, &ns[0], p(0))?)),
            "mul_by_constant" => outs.push(Out::N(ng.mul_by_constant(&mut l, &ns[0], p(0))?)),
            "lincomb" => outs.push(Out::N(ng.linear_combination(
                &mut l,
                &[(p(0), ns[0].clone()), (p(1), ns[1].clone()), (p(2), ns[2].clone())],
                p(3),
            )?)),
            "arith_src" => {
                // mode 1: the second operand is the fixed-constant cell of value c, mode 2: the first one is
                let fixed = if pu(3) != 0 { Some(ng.assign_fixed(&mut l, p(4))?) } else { None };
                let (a, b) = match pu(3) {
                    0 => (ns[0].clone(), ns[1].clone()),
                    1 => (ns[0].clone(), fixed.unwrap()),
                    _ => (fixed.unwrap(), ns[0].clone()),
                };
                let r = match pu(0) {
                    0 => ng.add(&mut l, &a, &b)?,
                    1 => ng.sub(&mut l, &a, &b)?,
                    _ => ng.mul(&mut l, &a, &b, if pu(1) == 1 { Some(p(2)) } else { None })?,
                };
                outs.push(Out::N(r));
            }
            "add_and_mul" => outs.push(Out::N(ng.add_and_mul(&mut l, (p(0), &ns[0]), (p(1), &ns[1]), (p(2), &ns[2]), p(3), p(4))?)),
            "is_zero" => outs.push(Out::B(ng.is_zero(&mut l, &ns[0])?)),
            "is_equal" => outs.push(Out::B(ng.is_equal(&mut l, &ns[0], &ns[1])?)),
            "is_not_equal" => outs.push(Out::B(ng.is_not_equal(&mut l, &ns[0], &ns[1])?)),
            "is_equal_to_fixed" => outs.push(Out::B(ng.is_equal_to_fixed(&mut l, &ns[0], p(0))?)),
            "and" => outs.push(Out::B(ng.and(&mut l, &bs)?)),
            "or" => outs.push(Out::B(ng.or(&mut l, &bs)?)),
            "xor" => outs.push(Out::B(ng.xor(&mut l, &bs)?)),
            "not" => outs.push(Out::B(ng.not(&mut l, &bs[0])?)),
            "select" => outs.push(Out::N(ng.select(&mut l, &bs[0], &ns[0], &ns[1])?)),
            "cond_swap" => {
                let (a, b) = ng.cond_swap(&mut l, &bs[0], &ns[0], &ns[1])?;
                outs.push(Out::N(a));
                outs.push(Out::N(b));
            }
            "to_le_bits" => {
                let nb = if self.params[0] == 0 { None } else { Some(pu(0)) };
                for b in ng.assigned_to_le_bits(&mut l, &ns[0], nb, self.params[1] == 1)? {
                    outs.push(Out::B(b));
                }
            }
            "to_le_bytes" => {
                let nb = if self.params[0] == 0 { None } else { Some(pu(0)) };
                for b in ng.assigned_to_le_bytes(&mut l, &ns[0], nb)? {
                    let n: AssignedNative<T> = ng.convert(&mut l, &b)?;
                    outs.push(Out::N(n));
                }
            }
            "from_le_bits" => outs.push(Out::N(ng.assigned_from_le_bits(&mut l, &bs)?)),
            "bounded" => {
                let b = ng.bounded_of_element(&mut l, pu(0), &ns[0])?;
                outs.push(Out::N(ng.element_of_bounded(&mut l, &b)?));
            }
            "range2" => {
                // two successive range checks on the same cell
                ng.assert_lower_than_fixed(&mut l, &ns[0], &BigUint::from(self.params[0]))?;
                ng.assert_lower_than_fixed(&mut l, &ns[0], &BigUint::from(self.params[1]))?;
            }
            "lower_than" | "geq" => {
                // params: [bound] or [bound of x, bound of y]
                let x = ng.bounded_of_element(&mut l, pu(0), &ns[0])?;
                let y = ng.bounded_of_element(&mut l, if self.params.len() > 1 { pu(1) } else { pu(0) }, &ns[1])?;
                let b = if self.op == "lower_than" { ng.lower_than(&mut l, &x, &y)? } else { ng.geq(&mut l, &x, &y)? };
                outs.push(Out::B(b));
            }
            "lower_than_fixed" => {
                let x = ng.bounded_of_element(&mut l, pu(0), &ns[0])?;
                outs.push(Out::B(ng.lower_than_fixed(&mut l, &x, p(1))?));
            }
            "sgn0" => outs.push(Out::B(ng.sgn0(&mut l, &ns[0])?)),
            "assert_lower_than_fixed" => ng.assert_lower_than_fixed(&mut l, &ns[0], &BigUint::from(self.params[0]))?,
            "div_rem" => {
                let (q, r) = ng.div_rem(&mut l, &ns[0], BigUint::from(self.params[0]), None)?;
                outs.push(Out::N(q));
                outs.push(Out::N(r));
            }
            "band" => outs.push(Out::N(ng.band(&mut l, &ns[0], &ns[1], pu(0))?)),
            "bor" => outs.push(Out::N(ng.bor(&mut l, &ns[0], &ns[1], pu(0))?)),
            "bxor" => outs.push(Out::N(ng.bxor(&mut l, &ns[0], &ns[1], pu(0))?)),
            "bnot" => outs.push(Out::N(ng.bnot(&mut l, &ns[0], pu(0))?)),
            other => return Err(Error::Synthesis(format!("unknown op {other}"))),
        }
        for o in outs.iter() {
            match o {
                Out::N(x) => ng.constrain_as_public_input(&mut l, x)?,
                Out::B(b) => ng.constrain_as_public_input(&mut l, b)?,
            }
        }
        ng.load_from_scratch(&mut l)
    }
}

fn to_u64<T: PrimeField>(v: &T) -> u64 {
    let r = v.to_repr();
    let b = r.as_ref();
    let mut a = [0u8; 8];
    a.copy_from_slice(&b[..8]);
    u64::from_le_bytes(a)
}

/// values the circuit ties to the plain instance column (column index 1)
pub fn self_instance<T: CircuitField + Ord + ff::FromUniformBytes<64>>(mp: &MockProver<T>) -> Vec<T> {
    use rayon::iter::ParallelIterator;
    let cols = mp.permutation().columns().to_vec();
    let maps: Vec<Vec<(usize, usize)>> = mp.permutation().mapping().map(|c| c.collect()).collect();
    let Some(ci) = cols.iter().position(|c| matches!(c.column_type(), Any::Instance) && c.index() == 1) else {
        return vec![];
    };
    let mut out = vec![];
    for r in 0..maps[ci].len() {
        let (mut c, mut rr) = maps[ci][r];
        if (c, rr) == (ci, r) {
            break;
        }
        let mut val = None;
        for _ in 0..10000 {
            match cols[c].column_type() {
                Any::Advice(_) => {
                    if let CellValue::Assigned(v) = mp.advice()[cols[c].index()][rr] {
                        val = Some(v);
                    }
                    break;
                }
                Any::Fixed => {
                    if let CellValue::Assigned(v) = mp.fixed()[cols[c].index()][rr] {
                        val = Some(v);
                    }
                    break;
                }
                Any::Instance => {
                    let n = maps[c][rr];
                    if n == (ci, r) {
                        break;
                    }
                    c = n.0;
                    rr = n.1;
                }
            }
        }
        out.push(val.unwrap_or(T::ZERO));
    }
    out
}

/// For every row of the plain instance column: the advice (or fixed) cell it is copy-constrained to.
pub fn exposed_cells<T: CircuitField + Ord + ff::FromUniformBytes<64>>(mp: &MockProver<T>) -> Vec<(String, usize, usize)> {
    use rayon::iter::ParallelIterator;
    let cols = mp.permutation().columns().to_vec();
    let maps: Vec<Vec<(usize, usize)>> = mp.permutation().mapping().map(|c| c.collect()).collect();
    let Some(ci) = cols.iter().position(|c| matches!(c.column_type(), Any::Instance) && c.index() == 1) else {
        return vec![];
    };
    let mut out = vec![];
    for r in 0..maps[ci].len() {
        let (mut c, mut rr) = maps[ci][r];
        if (c, rr) == (ci, r) {
            break;
        }
        for _ in 0..10000 {
            match cols[c].column_type() {
                Any::Advice(_) => {
                    out.push(("advice".to_string(), cols[c].index(), rr));
                    break;
                }
                Any::Fixed => {
                    out.push(("fixed".to_string(), cols[c].index(), rr));
                    break;
                }
                Any::Instance => {
                    let n = maps[c][rr];
                    if n == (ci, r) {
                        break;
                    }
                    c = n.0;
                    rr = n.1;
                }
            }
        }
    }
    out
}

struct RunOut {
    status: String, // sat | unsat | synth_err | panic
    exposed: Vec<u64>,
    nassign: usize,
    detail: String,
}

fn run_once<T: CircuitField + Ord + ff::FromUniformBytes<64>>(c: &OpCircuit<T>, k: u32, tamper: Option<(usize, Fault)>) -> RunOut {
    let r = catch_unwind(AssertUnwindSafe(|| {
        verif_hook::reset(tamper.clone(), false);
        let mp = MockProver::run(k, c, vec![vec![], vec![]]).map_err(|e| format!("{e:?}"))?;
        let (n, _) = verif_hook::take_log();
        let pi = self_instance(&mp);
        verif_hook::reset(tamper.clone(), false);
        let mp2 = MockProver::run(k, c, vec![vec![], pi.clone()]).map_err(|e| format!("{e:?}"))?;
        verif_hook::reset(None, false);
        let sat = mp2.verify().is_ok();
        Ok::<_, String>((sat, pi.iter().map(to_u64).collect::<Vec<_>>(), n))
    }));
    verif_hook::reset(None, false);
    match r {
        Ok(Ok((sat, exposed, n))) => RunOut { status: if sat { "sat".into() } else { "unsat".into() }, exposed, nassign: n, detail: String::new() },
        Ok(Err(e)) => RunOut { status: "synth_err".into(), exposed: vec![], nassign: 0, detail: e.chars().take(120).collect() },
        Err(p) => RunOut { status: "panic".into(), exposed: vec![], nassign: 0, detail: panic_msg(p).chars().take(120).collect() },
    }
}

fn fault_of(s: &str) -> Fault {
    match s {
        "plus1" => Fault::Plus1,
        "minus1" => Fault::Minus1,
        "zero" => Fault::Zero,
        "oneminus" => Fault::OneMinus,
        "random" => Fault::Random,
        x if x.starts_with("pow2_") => Fault::PlusPow2(x[5..].parse().unwrap_or(1)),
        _ => Fault::Plus1,
    }
}

fn run_scenarios<T: CircuitField + Ord + ff::FromUniformBytes<64>>(scen: &[J], pmod: u64, out: &mut dyn Write) {
    for sc in scen {
        let op = sc["op"].as_str().unwrap();
        let params: Vec<u64> = sc["params"].as_array().map(|a| a.iter().map(|x| x.as_u64().unwrap()).collect()).unwrap_or_default();
        let ins: Vec<u64> = sc["ins"].as_array().map(|a| a.iter().map(|x| x.as_u64().unwrap()).collect()).unwrap_or_default();
        let k = sc["k"].as_u64().unwrap_or(10) as u32;
        let c = OpCircuit::<T>::new(op, &params, &ins);
        let nin = ins.len();
        let base = run_once(&c, k, None);
        writeln!(out, "{}", json!({"ev":"Op","p":pmod,"op":op,"params":params,"ins":ins,"nin":nin,"tamper":J::Null,
            "status":base.status,"exposed":base.exposed,"nassign":base.nassign,"detail":base.detail})).unwrap();
        if let Some(faults) = sc["faults"].as_array() {
            let maxi = sc["max_index"].as_u64().unwrap_or(1_000_000) as usize;
            // vectors are private inputs: faults start after their own assignments
            let min_index = if op.starts_with("vec_") {
                let mut only = OpCircuit::<T>::new("vec_only", &params, &ins);
                if op == "vec_eq" || op == "vec_trim" {
                    only.op = "vec_only2".into();
                }
                if op == "vec_resize" {
                    only.op = "vec_only2r".into();
                }
                run_once(&only, k, None).nassign
            } else {
                0
            };
            for i in min_index..base.nassign.min(min_index + maxi) {
                for f in faults {
                    let fs = f.as_str().unwrap();
                    let r = run_once(&c, k, Some((i, fault_of(fs))));
                    writeln!(out, "{}", json!({"ev":"Op","p":pmod,"op":op,"params":params,"ins":ins,"nin":nin,
                        "tamper":{"i":i,"fault":fs},"status":r.status,"exposed":r.exposed,"nassign":r.nassign,"detail":r.detail})).unwrap();
                }
            }
        }
    }
}

/// Extract the constraint system of a one-operation circuit over a tiny field.
fn extract_case<T: CircuitField + Ord + ff::FromUniformBytes<64>>(sc: &J, pmod: u64) -> J {
    let op = sc["op"].as_str().unwrap();
    let params: Vec<u64> = sc["params"].as_array().map(|a| a.iter().map(|x| x.as_u64().unwrap()).collect()).unwrap_or_default();
    let kinds = in_kinds(op, &params);
    let ins: Vec<u64> = kinds.iter().map(|_| 1).collect();
    let k = sc["k"].as_u64().unwrap_or(6) as u32;
    let c = OpCircuit::<T>::new(op, &params, &ins);
    let r = catch_unwind(AssertUnwindSafe(|| {
        verif_hook::reset(None, true);
        let mp = MockProver::run(k, &c, vec![vec![], vec![]]).map_err(|e| format!("{e:?}"))?;
        let (_, log) = verif_hook::take_log();
        verif_hook::reset(None, false);
        let mut big = false;
        let cs = extract::cs_json(&mp, &mut big);
        let (fixed, advice, inst) = extract::tables_json(&mp, &mut big);
        let nexposed = self_instance(&mp).len();
        // absolute positions of the assigned advice cells, and the advice cell every exposed instance row is tied to
        let mut assigned: Vec<(usize, usize)> = vec![];
        for (c, col) in mp.advice().iter().enumerate() {
            for (r, v) in col.iter().enumerate() {
                if matches!(v, CellValue::Assigned(_)) {
                    assigned.push((c, r));
                }
            }
        }
        let expose = exposed_cells(&mp);
        let mut cells: Vec<(usize, usize)> = log.iter().map(|(_, c, r)| (*c, *r)).collect();
        cells.sort();
        cells.dedup();
        Ok::<_, String>(json!({"op":op,"params":params,"p":pmod,"nin":kinds.len(),"kinds":kinds.iter().map(|c| c.to_string()).collect::<Vec<_>>(),
            "nexposed":nexposed,"assigned":assigned,"expose":expose,"cs":cs,"fixed":fixed,"advice":advice,"instance":inst,"cells":cells}))
    }));
    match r {
        Ok(Ok(j)) => j,
        Ok(Err(e)) => json!({"op":op,"error":e}),
        Err(p) => json!({"op":op,"error":panic_msg(p)}),
    }
}

pub fn main(args: &[String]) -> i32 {
    let mode = args[0].as_str();
    let scen = util::read_ndjson(&args[1]);
    let mut out = util::create(&args[2]);
    match mode {
        "run" => {
            writeln!(out, "{}", json!({"ev":"header","prop":"C04","n":scen.len()})).unwrap();
            run_scenarios::<Fp<12289>>(&scen, 12289, &mut out);
        }
        "extract" => {
            for sc in scen.iter() {
                let j = match sc["p"].as_u64().unwrap_or(7) {
                    5 => extract_case::<Fp<5>>(sc, 5),
                    7 => extract_case::<Fp<7>>(sc, 7),
                    13 => extract_case::<Fp<13>>(sc, 13),
                    _ => extract_case::<Fp<12289>>(sc, 12289),
                };
                writeln!(out, "{j}").unwrap();
            }
        }
        _ => return 2,
    }
    0
}
