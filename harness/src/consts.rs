//! Prints the curve constants the CODE uses (generators, coefficients, orders) as BigNat
//! digit lists; the specifications carry their own copies and the trace specs compare.
use ff::{Field, PrimeField};
use group::Group;
use midnight_circuits::{ecc::curves::{CircuitCurve, EdwardsCurve, WeierstrassCurve}, CircuitField};
use midnight_curves::{k256::K256, G1Projective, JubjubExtended, JubjubSubgroup};
use serde_json::{json, Value as J};

use crate::gad::nat_of_big;

fn nb<T: CircuitField>(x: &T) -> Vec<u8> {
    nat_of_big(&x.to_biguint())
}

pub fn weier<C: WeierstrassCurve>(name: &str) -> J
where
    C::CryptographicGroup: Group,
{
    let g: C = C::CryptographicGroup::generator().into();
    let (x, y) = g.coordinates().unwrap();
    json!({"curve":name,"form":"weierstrass","p":nat_of_big(&<C::Base as CircuitField>::modulus()),
        "r":nat_of_big(&<C::ScalarField as CircuitField>::modulus()),"a":nb(&C::A),"b":nb(&C::B),"gx":nb(&x),"gy":nb(&y),
        "bits_subgroup":C::NUM_BITS_SUBGROUP})
}

pub fn edwards<C: EdwardsCurve>(name: &str) -> J {
    let g: C = C::CryptographicGroup::generator().into();
    let (x, y) = g.coordinates().unwrap();
    json!({"curve":name,"form":"edwards","p":nat_of_big(&<C::Base as CircuitField>::modulus()),
        "r":nat_of_big(&<C::ScalarField as CircuitField>::modulus()),"a":nb(&C::A),"d":nb(&C::D),"gx":nb(&x),"gy":nb(&y),
        "bits_subgroup":C::NUM_BITS_SUBGROUP,"cofactor":C::COFACTOR as u64})
}

pub fn all() -> Vec<J> {
    let mut v = vec![weier::<K256>("secp256k1"), weier::<G1Projective>("bls12_381_g1"), edwards::<JubjubExtended>("jubjub"),
        edwards::<midnight_curves::curve25519::Curve25519>("curve25519")];
    {
        use midnight_curves::bn256;
        use group::Curve;
        let le = |x: &bn256::Fq| num_bigint::BigUint::from_bytes_le(x.to_repr().as_ref());
        let g = bn256::G1::generator().to_affine();
        let p = le(&(-bn256::Fq::ONE)) + 1u8;
        let r = num_bigint::BigUint::from_bytes_le((-bn256::Fr::ONE).to_repr().as_ref()) + 1u8;
        v.push(json!({"curve":"bn256_g1","form":"weierstrass","p":nat_of_big(&p),"r":nat_of_big(&r),"a":[],"b":[3],
            "gx":nat_of_big(&le(&g.x)),"gy":nat_of_big(&le(&g.y)),"bits_subgroup":254}));
    }
    v
}

pub fn main(_args: &[String]) -> i32 {
    for j in all() {
        println!("{j}");
    }
    let _ = (JubjubSubgroup::identity(), <midnight_curves::Fq as Field>::ZERO, <midnight_curves::Fq as PrimeField>::NUM_BITS);
    0
}
