//! Prints the curve constants the CODE uses (generators, coefficients, orders) as BigNat
//! digit lists; the specifications carry their own copies and the trace specs compare.
use ff::{Field, PrimeField};
use group::Group;
use midnight_circuits::{ecc::curves::{CircuitCurve, EdwardsCurve, WeierstrassCurve}, CircuitField};
use midnight_curves::{k256::K256, G1Projective, JubjubExtended, JubjubSubgroup};
use serde_json::{json, Value as J};

use crate::gad::nat_of_big;

fn nb<T: CircuitField>(x: &T) -> Vec<u8> {
    nat_of_big(&x.to_biguint())
}

pub fn weier<C: WeierstrassCurve>(name: &str) -> J
where
    C::CryptographicGroup: Group,
{
    let g: C = C::CryptographicGroup::generator().into();
    let (x, y) = g.coordinates().unwrap();
    json!({"curve":name,"form":"weierstrass","p":nat_of_big(&<C::Base as CircuitField>::modulus()),
        "r":nat_of_big(&<C::ScalarField as CircuitField>::modulus()),"a":nb(&C::A),"b":nb(&C::B),"gx":nb(&x),"gy":nb(&y),
        "bits_subgroup":C::NUM_BITS_SUBGROUP})
}

pub fn edwards<C: EdwardsCurve>(name: &str) -> J {
    let g: C = C::CryptographicGroup::generator().into();
    let (x, y) = g.coordinates().unwrap();
    json!({"curve":name,"form":"edwards","p":nat_of_big(&<C::Base as CircuitField>::modulus()),
        "r":nat_of_big(&<C::ScalarField as CircuitField>::modulus()),"a":nb(&C::A),"d":nb(&C::D),"gx":nb(&x),"gy":nb(&y),
        "bits_subgroup":C::NUM_BITS_SUBGROUP,"cofactor":C::COFACTOR as u64})
}

pub fn all() -> Vec<J> {
    vec![weier::<K256>("secp256k1"), weier::<G1Projective>("bls12_381_g1"), edwards::<JubjubExtended>("jubjub")]
}

pub fn main(_args: &[String]) -> i32 {
    for j in all() {
        println!("{j}");
    }
    let _ = (JubjubSubgroup::identity(), <midnight_curves::Fq as Field>::ZERO, <midnight_curves::Fq as PrimeField>::NUM_BITS);
    0
}
