mod c01;
mod c02;
mod extract;
mod c03;
mod c04;
mod c04m;
mod c05;
mod c06;
mod c06h;
mod c07;
mod c08;
mod c08a;
mod c08c;
mod c08r;
mod consts;
mod gad;
mod c09;
mod c10;
mod c10t;
mod c11;
mod c12;
mod c13;
mod c14;
mod c15;
mod c16;
mod c17;
mod c18;
mod c19;
mod c20;
mod c20g;
mod fault;
mod plonkrun;
mod rec;
mod rels;
mod shapes;
mod stdops;
mod toy;
mod util;

use std::{
    alloc::{GlobalAlloc, Layout, System},
    sync::atomic::{AtomicUsize, Ordering},
};

/// Largest single allocation requested since the counter was last reset.
pub static MAX_ALLOC: AtomicUsize = AtomicUsize::new(0);

struct Track;
unsafe impl GlobalAlloc for Track {
    unsafe fn alloc(&self, l: Layout) -> *mut u8 {
        MAX_ALLOC.fetch_max(l.size(), Ordering::Relaxed);
        System.alloc(l)
    }
    unsafe fn dealloc(&self, p: *mut u8, l: Layout) {
        System.dealloc(p, l)
    }
    unsafe fn realloc(&self, p: *mut u8, l: Layout, n: usize) -> *mut u8 {
        MAX_ALLOC.fetch_max(n, Ordering::Relaxed);
        System.realloc(p, l, n)
    }
    unsafe fn alloc_zeroed(&self, l: Layout) -> *mut u8 {
        MAX_ALLOC.fetch_max(l.size(), Ordering::Relaxed);
        System.alloc_zeroed(l)
    }
}
#[global_allocator]
static GLOBAL: Track = Track;

/// Source location of the most recent panic (file:line), for drivers that must tell where a caught panic came from.
pub static LAST_PANIC: std::sync::Mutex<String> = std::sync::Mutex::new(String::new());

fn main() {
    // panics inside code under test are data; keep the default hook quiet
    let verbose = std::env::var("VH_PANIC_LOG").is_ok();
    std::panic::set_hook(Box::new(move |info| {
        if let Some(l) = info.location() {
            if let Ok(mut g) = LAST_PANIC.lock() {
                *g = format!("{}:{}", l.file(), l.line());
            }
        }
        if verbose {
            eprintln!("PANIC: {info}");
        }
    }));
    let args: Vec<String> = std::env::args().collect();
    if args.len() < 2 {
        eprintln!("usage: vh <cmd> args..");
        std::process::exit(2);
    }
    let rest = &args[2..];
    let code = match args[1].as_str() {
        "c01" => c01::main(rest),
        "c02" => c02::main(rest),
        "c03" => c03::main(rest),
        "c04" => c04::main(rest),
        "c04m" => c04m::main(rest),
        "c06h" => c06h::main(rest),
        "c05" => c05::main(rest),
        "consts" => consts::main(rest),
        "c06" => c06::main(rest),
        "c07" => c07::main(rest),
        "c08" => c08::main(rest),
        "c09" => c09::main(rest),
        "c10" => c10::main(rest),
        "c11" => c11::main(rest),
        "c12" => c12::main(rest),
        "c13" => c13::main(rest),
        "c14" => c14::main(rest),
        "c15" => c15::main(rest),
        "c16" => c16::main(rest),
        "c17" => c17::main(rest),
        "c18" => c18::main(rest),
        "c19" => c19::main(rest),
        "c20" => c20::main(rest),
        "c20g" => c20g::main(rest),
        "randshape" => {
            let seed: u64 = rest[0].parse().unwrap();
            println!("{}", serde_json::to_string(&shapes::random_shape(seed)).unwrap());
            0
        }
        other => {
            eprintln!("unknown command {other}");
            2
        }
    };
    std::process::exit(code);
}
