//! C07 driver: hash gadgets (standard library: SHA-256, SHA-512, SHA3-256,
//! Keccak-256, BLAKE2b, Poseidon; stand-alone: variable-length SHA-256 with
//! adversarial filler) with message and digest exposed as public inputs, under
//! the gadget game; plus the off-circuit Poseidon (hash and transcript sponge)
//! and the Poseidon constants the code publishes.

use std::io::Write;

use ff::Field;
use midnight_circuits::{
    field::{decomposition::chip::P2RDecompositionChip, NativeChip, NativeGadget},
    hash::{
        poseidon::{constants::PoseidonField, PoseidonChip, PoseidonState},
        sha256::{Sha256Chip, VarLenSha256Gadget},
    },
    instructions::{hash::{HashCPU, VarHashInstructions}, *},
    testing_utils::FromScratch,
    types::{AssignedByte, AssignedNative},
    vec::{vector_gadget::VectorGadget, AssignedVector},
    CircuitField,
};
use midnight_curves::Fq as F;
use midnight_proofs::{
    circuit::{Layouter, SimpleFloorPlanner, Value},
    plonk::{Circuit, ConstraintSystem, Error},
    transcript::TranscriptHash,
};
use midnight_zk_stdlib::{MidnightCircuit, Relation, ZkStdLib, ZkStdLibArch};
use num_bigint::BigUint;
use serde_json::{json, Value as J};

use crate::{
    gad::{self, big_of_nat, nat_of_big, note},
    util,
};

type NG = NativeGadget<F, P2RDecompositionChip<F>, NativeChip<F>>;

fn bytes_of(sc: &J) -> Vec<u8> {
    sc["msg"].as_array().map(|a| a.iter().map(|x| x.as_u64().unwrap_or(0) as u8).collect()).unwrap_or_default()
}
fn k_of_big(b: &BigUint) -> F {
    let mut acc = F::ZERO;
    let c = F::from(256u64);
    for d in b.to_bytes_be() {
        acc = acc * c + F::from(d as u64);
    }
    acc
}

#[derive(Clone, Debug)]
pub struct HashRel {
    pub sc: J,
}

impl Relation for HashRel {
    type Instance = Vec<F>;
    type Witness = ();
    fn format_instance(instance: &Vec<F>) -> Result<Vec<F>, Error> {
        Ok(instance.clone())
    }
    fn used_chips(&self) -> ZkStdLibArch {
        let a = self.sc["alg"].as_str().unwrap_or("");
        ZkStdLibArch {
            poseidon: a == "poseidon",
            sha2_256: a == "sha256",
            sha2_512: a == "sha512",
            sha3_256: a == "sha3_256",
            keccak_256: a == "keccak_256",
            blake2b: a.starts_with("blake2b"),
            nr_pow2range_cols: 4,
            ..ZkStdLibArch::default()
        }
    }
    fn circuit(&self, s: &ZkStdLib, l: &mut impl Layouter<F>, _i: Value<Vec<F>>, _w: Value<()>) -> Result<(), Error> {
        let alg = self.sc["alg"].as_str().unwrap_or("");
        if alg == "poseidon" {
            let xs: Vec<Value<F>> = self.sc["inputs"].as_array().unwrap().iter().map(|x| Value::known(k_of_big(&big_of_nat(x)))).collect();
            let ax: Vec<AssignedNative<F>> = s.assign_many(l, &xs)?;
            for a in ax.iter() {
                note('n', 1);
                s.constrain_as_public_input(l, a)?;
            }
            let h = s.poseidon(l, &ax)?;
            note('n', 1);
            return s.constrain_as_public_input(l, &h);
        }
        let msg = bytes_of(&self.sc);
        let ab: Vec<AssignedByte<F>> = s.assign_many(l, &msg.iter().map(|b| Value::known(*b)).collect::<Vec<_>>())?;
        for b in ab.iter() {
            note('B', 1);
            s.constrain_as_public_input(l, b)?;
        }
        let out: Vec<AssignedByte<F>> = match alg {
            "sha256" => s.sha2_256(l, &ab)?.to_vec(),
            "sha512" => s.sha2_512(l, &ab)?.to_vec(),
            "sha3_256" => s.sha3_256(l, &ab)?.to_vec(),
            "keccak_256" => s.keccak_256(l, &ab)?.to_vec(),
            "blake2b_256" => s.blake2b_256(l, &ab)?.to_vec(),
            "blake2b_512" => s.blake2b_512(l, &ab)?.to_vec(),
            other => return Err(Error::Synthesis(format!("unknown alg {other}"))),
        };
        for b in out.iter() {
            note('B', 1);
            s.constrain_as_public_input(l, b)?;
        }
        Ok(())
    }
    fn write_relation<W: std::io::Write>(&self, _w: &mut W) -> std::io::Result<()> {
        Ok(())
    }
    fn read_relation<R: std::io::Read>(_r: &mut R) -> std::io::Result<Self> {
        Ok(HashRel { sc: J::Null })
    }
}

/// Variable-length SHA-256 of a vector with bound M, actual data `msg`, filler byte `filler`.
#[derive(Clone, Debug)]
pub struct VarSha<const M: usize> {
    pub msg: Vec<u8>,
    pub filler: u8,
    pub hash: bool,
}

impl<const M: usize> Circuit<F> for VarSha<M> {
    type Config = <VarLenSha256Gadget<F> as FromScratch<F>>::Config;
    type FloorPlanner = SimpleFloorPlanner;
    type Params = ();
    fn without_witnesses(&self) -> Self {
        self.clone()
    }
    fn configure(meta: &mut ConstraintSystem<F>) -> Self::Config {
        let c = meta.instance_column();
        let i = meta.instance_column();
        VarLenSha256Gadget::<F>::configure_from_scratch(meta, &[c, i])
    }
    fn synthesize(&self, config: Self::Config, mut l: impl Layouter<F>) -> Result<(), Error> {
        let g = VarLenSha256Gadget::<F>::new_from_scratch(&config);
        let ng = <NG as FromScratch<F>>::new_from_scratch(&sha_ng_config(&config));
        let vg = VectorGadget::new(&ng);
        let l = &mut l;
        let v: AssignedVector<F, AssignedByte<F>, M, 64> = vg.assign_with_filler(l, Value::known(self.msg.clone()), Some(self.filler))?;
        if self.hash {
            let out: [AssignedByte<F>; 32] = <VarLenSha256Gadget<F> as VarHashInstructions<F, M, AssignedByte<F>, [AssignedByte<F>; 32], 64>>::varhash(&g, l, &v)?;
            for b in out.iter() {
                note('B', 1);
                ng.constrain_as_public_input(l, b)?;
            }
        }
        g.load_from_scratch(l)
    }
}

/// Variable-length Poseidon: a vector of at most M field elements (aligned to the rate), filled with `filler` around the data
#[derive(Clone, Debug)]
pub struct VarPos<const M: usize> {
    pub elems: Vec<F>,
    pub filler: F,
    pub hash: bool,
}

impl<const M: usize> Circuit<F> for VarPos<M> {
    type Config = <midnight_circuits::hash::poseidon::VarLenPoseidonGadget<F> as FromScratch<F>>::Config;
    type FloorPlanner = SimpleFloorPlanner;
    type Params = ();
    fn without_witnesses(&self) -> Self {
        self.clone()
    }
    fn configure(meta: &mut ConstraintSystem<F>) -> Self::Config {
        let c = meta.instance_column();
        let i = meta.instance_column();
        midnight_circuits::hash::poseidon::VarLenPoseidonGadget::<F>::configure_from_scratch(meta, &[c, i])
    }
    fn synthesize(&self, config: Self::Config, mut l: impl Layouter<F>) -> Result<(), Error> {
        use midnight_circuits::hash::poseidon::VarLenPoseidonGadget;
        let g = VarLenPoseidonGadget::<F>::new_from_scratch(&config);
        let ng = <NG as FromScratch<F>>::new_from_scratch(&config.0);
        let vg = VectorGadget::new(&ng);
        let l = &mut l;
        let v: AssignedVector<F, AssignedNative<F>, M, 2> = vg.assign_with_filler(l, Value::known(self.elems.clone()), Some(self.filler))?;
        if self.hash {
            let out: AssignedNative<F> = <VarLenPoseidonGadget<F> as VarHashInstructions<F, M, AssignedNative<F>, AssignedNative<F>, 2>>::varhash(&g, l, &v)?;
            note('n', 1);
            ng.constrain_as_public_input(l, &out)?;
        }
        g.load_from_scratch(l)
    }
}

fn run_varpos<const M: usize>(sc: &J, out: &mut dyn Write) {
    let elems: Vec<F> = sc["inputs"].as_array().unwrap().iter().map(|x| k_of_big(&big_of_nat(x))).collect();
    let filler: F = k_of_big(&big_of_nat(&sc["filler"]));
    let k = sc["k"].as_u64().unwrap_or(12) as u32;
    let only = VarPos::<M> { elems: elems.clone(), filler, hash: false };
    let base_only = gad::run_game(&only, k, None);
    let c = VarPos::<M> { elems, filler, hash: true };
    let mut sc2 = sc.clone();
    sc2["fam"] = json!("hash");
    sc2["field"] = json!("none");
    sc2["op"] = sc["alg"].clone();
    sc2["params"] = json!([]);
    sc2["ins"] = json!([]);
    sc2["min_index"] = json!(base_only.nassign);
    let extra = json!({"alg":sc["alg"],"msg":[],"inputs":sc["inputs"],"maxlen":M,"filler_elem":sc["filler"],"nin":0,"vec_assignments":base_only.nassign});
    crate::c05::run_with_faults(&c, &sc2, extra, out);
}

/// RIPEMD-160 (stand-alone chip): message and digest bytes exposed
#[derive(Clone, Debug)]
pub struct RipeCircuit {
    pub msg: Vec<u8>,
}

impl Circuit<F> for RipeCircuit {
    type Config = <midnight_circuits::hash::ripemd160::RipeMD160Chip<F> as FromScratch<F>>::Config;
    type FloorPlanner = SimpleFloorPlanner;
    type Params = ();
    fn without_witnesses(&self) -> Self {
        self.clone()
    }
    fn configure(meta: &mut ConstraintSystem<F>) -> Self::Config {
        let c = meta.instance_column();
        let i = meta.instance_column();
        midnight_circuits::hash::ripemd160::RipeMD160Chip::<F>::configure_from_scratch(meta, &[c, i])
    }
    fn synthesize(&self, config: Self::Config, mut l: impl Layouter<F>) -> Result<(), Error> {
        use midnight_circuits::{hash::ripemd160::RipeMD160Chip, instructions::HashInstructions};
        let chip = RipeMD160Chip::<F>::new_from_scratch(&config);
        let ng = <NG as FromScratch<F>>::new_from_scratch(&config.1);
        let l = &mut l;
        let ab: Vec<AssignedByte<F>> = ng.assign_many(l, &self.msg.iter().map(|b| Value::known(*b)).collect::<Vec<_>>())?;
        for b in ab.iter() {
            note('B', 1);
            ng.constrain_as_public_input(l, b)?;
        }
        let out: [AssignedByte<F>; 20] = chip.hash(l, &ab)?;
        for b in out.iter() {
            note('B', 1);
            ng.constrain_as_public_input(l, b)?;
        }
        chip.load_from_scratch(l)
    }
}

fn run_ripemd(sc: &J, out: &mut dyn Write) {
    use ripemd::Digest;
    let msg = bytes_of(sc);
    let c = RipeCircuit { msg: msg.clone() };
    let mut sc2 = sc.clone();
    sc2["fam"] = json!("hash");
    sc2["field"] = json!("none");
    sc2["op"] = sc["alg"].clone();
    sc2["params"] = json!([]);
    sc2["ins"] = json!([]);
    if sc2["k"].is_null() {
        let blocks = (msg.len() + 9 + 63) / 64;
        sc2["k"] = json!(if blocks <= 3 { 14 } else if blocks <= 7 { 15 } else { 16 });
    }
    let reference: Vec<u8> = ripemd::Ripemd160::digest(&msg).to_vec();
    let extra = json!({"alg":sc["alg"],"msg":msg,"inputs":[],"nin":msg.len(),"reference":reference,"k":sc2["k"]});
    crate::c05::run_with_faults(&c, &sc2, extra, out);
}

fn sha_ng_config(c: &<VarLenSha256Gadget<F> as FromScratch<F>>::Config) -> <NG as FromScratch<F>>::Config {
    c.1.clone()
}

fn run_varsha<const M: usize>(sc: &J, out: &mut dyn Write) {
    let msg = bytes_of(sc);
    let filler = sc["filler"].as_u64().unwrap_or(0) as u8;
    let k = sc["k"].as_u64().unwrap_or(16) as u32;
    // number of assignments made by the vector alone: faults start after it (the vector is the prover's input)
    let only = VarSha::<M> { msg: msg.clone(), filler, hash: false };
    let base_only = gad::run_game(&only, k, None);
    let c = VarSha::<M> { msg: msg.clone(), filler, hash: true };
    let mut sc2 = sc.clone();
    sc2["fam"] = json!("hash");
    sc2["field"] = json!("none");
    sc2["op"] = sc["alg"].clone();
    sc2["params"] = json!([]);
    sc2["ins"] = json!([]);
    sc2["min_index"] = json!(base_only.nassign);
    let extra = json!({"alg":sc["alg"],"msg":msg,"maxlen":M,"filler":filler,"nin":0,"vec_assignments":base_only.nassign});
    crate::c05::run_with_faults(&c, &sc2, extra, out);
}

/// A sponge session run in-circuit: absorbed elements and squeezed outputs are exposed.
#[derive(Clone, Debug)]
pub struct SpongeCircuit {
    pub len: i64,
    pub ops: Vec<J>,
}

impl Circuit<F> for SpongeCircuit {
    type Config = <PoseidonChip<F> as FromScratch<F>>::Config;
    type FloorPlanner = SimpleFloorPlanner;
    type Params = ();
    fn without_witnesses(&self) -> Self {
        self.clone()
    }
    fn configure(meta: &mut ConstraintSystem<F>) -> Self::Config {
        let c = meta.instance_column();
        let i = meta.instance_column();
        PoseidonChip::configure_from_scratch(meta, &[c, i])
    }
    fn synthesize(&self, config: Self::Config, mut l: impl Layouter<F>) -> Result<(), Error> {
        use midnight_circuits::instructions::SpongeInstructions;
        let native_chip = NativeChip::new_from_scratch(&config.0);
        let chip = PoseidonChip::new_from_scratch(&config);
        let l = &mut l;
        let mut st = chip.init(l, if self.len < 0 { None } else { Some(self.len as usize) })?;
        for op in self.ops.iter() {
            if op[0] == "absorb" {
                let xs: Vec<Value<F>> = op[1].as_array().unwrap().iter().map(|x| Value::known(k_of_big(&big_of_nat(x)))).collect();
                let ax: Vec<AssignedNative<F>> = native_chip.assign_many(l, &xs)?;
                chip.absorb(l, &mut st, &ax)?;
            } else {
                let o = chip.squeeze(l, &mut st)?;
                note('n', 1);
                native_chip.constrain_as_public_input(l, &o)?;
            }
        }
        native_chip.load_from_scratch(l)?;
        chip.load_from_scratch(l)
    }
}

fn sponge_session(sc: &J, out: &mut dyn Write) {
    use midnight_circuits::instructions::SpongeCPU;
    let len = sc["len"].as_i64().unwrap_or(-1);
    let ops: Vec<J> = sc["ops"].as_array().cloned().unwrap_or_default();
    let f = |x: &F| nat_of_big(&x.to_biguint());
    // off-circuit
    let cpu = std::panic::catch_unwind(std::panic::AssertUnwindSafe(|| {
        let mut st = <PoseidonChip<F> as SpongeCPU<F, F>>::init(if len < 0 { None } else { Some(len as usize) });
        let mut outs = vec![];
        for op in ops.iter() {
            if op[0] == "absorb" {
                let xs: Vec<F> = op[1].as_array().unwrap().iter().map(|x| k_of_big(&big_of_nat(x))).collect();
                <PoseidonChip<F> as SpongeCPU<F, F>>::absorb(&mut st, &xs);
            } else {
                outs.push(f(&<PoseidonChip<F> as SpongeCPU<F, F>>::squeeze(&mut st)));
            }
        }
        outs
    }));
    match cpu {
        Ok(outs) => writeln!(out, "{}", json!({"ev":"Sponge","impl":"cpu","len":len,"ops":ops,"outs":outs,"status":"ok"})).unwrap(),
        Err(_) => writeln!(out, "{}", json!({"ev":"Sponge","impl":"cpu","len":len,"ops":ops,"outs":[],"status":"panic"})).unwrap(),
    }
    // in-circuit
    let c = SpongeCircuit { len, ops: ops.clone() };
    let r = gad::run_game(&c, sc["k"].as_u64().unwrap_or(9) as u32, None);
    writeln!(out, "{}", json!({"ev":"Sponge","impl":"circuit","len":len,"ops":ops,"outs":gad::nats_json(&r.exposed),"status":r.status,"detail":r.detail})).unwrap();
}

fn poseidon_consts() -> J {
    let f = |x: &F| nat_of_big(&x.to_biguint());
    json!({"ev":"PoseidonConstants",
        "mds": <F as PoseidonField>::MDS.iter().map(|r| r.iter().map(f).collect::<Vec<_>>()).collect::<Vec<_>>(),
        "rc": <F as PoseidonField>::ROUND_CONSTANTS.iter().map(|r| r.iter().map(f).collect::<Vec<_>>()).collect::<Vec<_>>()})
}

pub fn main(args: &[String]) -> i32 {
    let scen = util::read_ndjson(&args[0]);
    let mut out = util::create(&args[1]);
    writeln!(out, "{}", json!({"ev":"header","prop":"C07","n":scen.len(),"native":nat_of_big(&<F as CircuitField>::modulus())})).unwrap();
    writeln!(out, "{}", poseidon_consts()).unwrap();
    for sc in scen.iter() {
        let alg = sc["alg"].as_str().unwrap_or("");
        match alg {
            "sha256_varlen" => match sc["maxlen"].as_u64().unwrap_or(128) {
                128 => run_varsha::<128>(sc, &mut out),
                256 => run_varsha::<256>(sc, &mut out),
                _ => run_varsha::<192>(sc, &mut out),
            },
            "sponge" => sponge_session(sc, &mut out),
            "ripemd160" => run_ripemd(sc, &mut out),
            "poseidon_varlen" => match sc["maxlen"].as_u64().unwrap_or(8) {
                4 => run_varpos::<4>(sc, &mut out),
                8 => run_varpos::<8>(sc, &mut out),
                _ => run_varpos::<12>(sc, &mut out),
            },
            "poseidon_cpu" => {
                // off-circuit: fixed-length hash, and the transcript sponge (no length, padding with the count)
                let xs: Vec<F> = sc["inputs"].as_array().unwrap().iter().map(|x| k_of_big(&big_of_nat(x))).collect();
                let f = |x: &F| nat_of_big(&x.to_biguint());
                let h = <PoseidonChip<F> as HashCPU<F, F>>::hash(&xs);
                let mut st = <PoseidonState<F> as TranscriptHash>::init();
                TranscriptHash::absorb(&mut st, &xs);
                let t1 = TranscriptHash::squeeze(&mut st);
                writeln!(out, "{}", json!({"ev":"PoseidonCpu","inputs":sc["inputs"],"hash":f(&h),"transcript_squeeze":f(&t1)})).unwrap();
            }
            _ => {
                let rel = HashRel { sc: sc.clone() };
                let circuit = MidnightCircuit::new(&rel, Value::known(vec![]), Value::known(()), Some(8));
                let mut k = match sc["k"].as_u64() {
                    Some(k) if k > 0 => k as u32,
                    _ => std::panic::catch_unwind(std::panic::AssertUnwindSafe(|| MidnightCircuit::from_relation(&rel).min_k())).unwrap_or(15),
                };
                for _ in 0..2 {
                    let probe = gad::run_game(&circuit, k, None);
                    if (probe.status == "panic" || probe.status == "synth_err") && (probe.detail.contains("usable_rows") || probe.detail.contains("NotEnoughRows")) {
                        k += 1;
                    } else {
                        break;
                    }
                }
                // reference digests from independent crates (used by the trace spec only for the algorithms it does not define)
                let msg = bytes_of(sc);
                let reference: Vec<u8> = match alg {
                    "sha3_256" => { use sha3::Digest; sha3::Sha3_256::digest(&msg).to_vec() }
                    "keccak_256" => { use sha3::Digest; sha3::Keccak256::digest(&msg).to_vec() }
                    "blake2b_256" => blake2b_simd::Params::new().hash_length(32).hash(&msg).as_bytes().to_vec(),
                    "blake2b_512" => blake2b_simd::Params::new().hash_length(64).hash(&msg).as_bytes().to_vec(),
                    _ => vec![],
                };
                let mut sc2 = sc.clone();
                sc2["fam"] = json!("hash");
                sc2["field"] = json!("none");
                sc2["op"] = sc["alg"].clone();
                sc2["params"] = json!([]);
                sc2["ins"] = json!([]);
                sc2["k"] = json!(k);
                let nin = if alg == "poseidon" { sc["inputs"].as_array().map(|a| a.len()).unwrap_or(0) } else { msg.len() };
                let extra = json!({"alg":alg,"msg":msg,"inputs":sc["inputs"],"nin":nin,"reference":reference,"k":k});
                crate::c05::run_with_faults(&circuit, &sc2, extra, &mut out);
            }
        }
    }
    let _ = Sha256Chip::<F>::new_from_scratch;
    0
}
