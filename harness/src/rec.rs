//! Hook-free recorders: wrapper types implementing the repository's public
//! traits and logging one event per specification action.

use std::{cell::RefCell, collections::HashMap};

use midnight_proofs::transcript::{Hashable, Sampleable, Transcript, TranscriptHash};
use serde_json::{json, Value as J};

/// One transcript operation, as seen by a specification action.
#[derive(Clone, Debug)]
pub struct TEvent {
    pub op: &'static str,   // common | write | read | squeeze
    pub kind: &'static str, // point | scalar | u32 | other | challenge
    pub id: usize,          // interned value id (per run)
    pub len: usize,         // byte length of the element in the proof (0 for common/squeeze)
}

#[derive(Default)]
pub struct Recorder {
    pub events: Vec<TEvent>,
    intern: HashMap<Vec<u8>, usize>,
    /// Running digest of everything absorbed so far on the current side: a
    /// challenge is identified with (the intern id of) the absorbed prefix.
    prefix: Vec<u8>,
    pub enabled: bool,
}

thread_local! {
    pub static REC: RefCell<Recorder> = RefCell::new(Recorder::default());
}

impl Recorder {
    fn id_of(&mut self, bytes: &[u8]) -> usize {
        let n = self.intern.len() + 1;
        *self.intern.entry(bytes.to_vec()).or_insert(n)
    }
}

/// Start recording a new side (prover or verifier). Interned ids persist across
/// sides of one run so equal values get equal ids; `reset_run` clears them.
pub fn start_side() {
    REC.with(|r| {
        let mut r = r.borrow_mut();
        r.events.clear();
        r.prefix.clear();
        r.enabled = true;
    })
}
pub fn take_side() -> Vec<TEvent> {
    REC.with(|r| {
        let mut r = r.borrow_mut();
        r.enabled = false;
        std::mem::take(&mut r.events)
    })
}
pub fn reset_run() {
    REC.with(|r| {
        let mut r = r.borrow_mut();
        r.events.clear();
        r.intern.clear();
        r.prefix.clear();
        r.enabled = false;
    })
}

fn kind_of<H>() -> &'static str {
    let n = std::any::type_name::<H>();
    if n.ends_with("G1Projective") || n.ends_with("::G1") || n.ends_with("G1Affine") {
        "point"
    } else if n.ends_with("::Fq") || n.ends_with("::Fr") || n.ends_with("Scalar") {
        "scalar"
    } else if n == "u32" {
        "u32"
    } else {
        "other"
    }
}

fn log(op: &'static str, kind: &'static str, bytes: &[u8], in_proof: bool) {
    REC.with(|r| {
        let mut r = r.borrow_mut();
        if !r.enabled {
            return;
        }
        let id = r.id_of(bytes);
        // absorbed prefix digest
        let mut st = blake2b_simd::Params::new().hash_length(32).to_state();
        st.update(&r.prefix);
        st.update(&[bytes.len() as u8]);
        st.update(bytes);
        r.prefix = st.finalize().as_bytes().to_vec();
        r.events.push(TEvent {
            op,
            kind,
            id,
            len: if in_proof { bytes.len() } else { 0 },
        });
    })
}

fn log_squeeze() {
    REC.with(|r| {
        let mut r = r.borrow_mut();
        if !r.enabled {
            return;
        }
        let mut key = b"challenge:".to_vec();
        key.extend_from_slice(&r.prefix.clone());
        let id = r.id_of(&key);
        // squeezing changes the sponge state: fold it into the prefix
        let mut st = blake2b_simd::Params::new().hash_length(32).to_state();
        st.update(&r.prefix);
        st.update(b"squeeze");
        r.prefix = st.finalize().as_bytes().to_vec();
        r.events.push(TEvent {
            op: "squeeze",
            kind: "challenge",
            id,
            len: 0,
        });
    })
}

/// Recording transcript: wraps any `Transcript`.
#[derive(Clone)]
pub struct RecT<T: Transcript>(pub T);

impl<T: Transcript> Transcript for RecT<T> {
    type Hash = T::Hash;
    fn init() -> Self {
        RecT(T::init())
    }
    fn init_from_bytes(b: &[u8]) -> Self {
        RecT(T::init_from_bytes(b))
    }
    fn squeeze_challenge<S: Sampleable<Self::Hash>>(&mut self) -> S {
        log_squeeze();
        self.0.squeeze_challenge()
    }
    fn common<H: Hashable<Self::Hash>>(&mut self, input: &H) -> std::io::Result<()> {
        log("common", kind_of::<H>(), &input.to_bytes(), false);
        self.0.common(input)
    }
    fn read<H: Hashable<Self::Hash>>(&mut self) -> std::io::Result<H> {
        let v: H = self.0.read()?;
        log("read", kind_of::<H>(), &v.to_bytes(), true);
        Ok(v)
    }
    fn write<H: Hashable<Self::Hash>>(&mut self, input: &H) -> std::io::Result<()> {
        log("write", kind_of::<H>(), &input.to_bytes(), true);
        self.0.write(input)
    }
    fn finalize(self) -> Vec<u8> {
        self.0.finalize()
    }
    fn assert_empty(&mut self) -> std::io::Result<()> {
        self.0.assert_empty()
    }
}

/// Recording transcript hash: wraps any `TranscriptHash` (for code paths that
/// hard-wire `CircuitTranscript<H>`, like `midnight_zk_stdlib::{prove, verify,
/// batch_verify}`). Every hasher created by `init` gets a fresh id; events are
/// (id, op) in program order.
#[derive(Clone)]
pub struct RecH<H: TranscriptHash>(pub H, pub usize);

thread_local! {
    pub static HREC: RefCell<(usize, Vec<(usize, &'static str)>)> = const { RefCell::new((0, Vec::new())) };
}

pub fn hrec_reset() {
    HREC.with(|r| *r.borrow_mut() = (0, Vec::new()));
}
pub fn hrec_take() -> Vec<(usize, &'static str)> {
    HREC.with(|r| std::mem::take(&mut r.borrow_mut().1))
}

impl<H: TranscriptHash> TranscriptHash for RecH<H> {
    type Input = H::Input;
    type Output = H::Output;
    fn init() -> Self {
        let id = HREC.with(|r| {
            let mut r = r.borrow_mut();
            let id = r.0;
            r.0 += 1;
            r.1.push((id, "init"));
            id
        });
        RecH(H::init(), id)
    }
    fn absorb(&mut self, input: &Self::Input) {
        HREC.with(|r| r.borrow_mut().1.push((self.1, "absorb")));
        self.0.absorb(input)
    }
    fn squeeze(&mut self) -> Self::Output {
        HREC.with(|r| r.borrow_mut().1.push((self.1, "squeeze")));
        self.0.squeeze()
    }
}

type B2 = blake2b_simd::State;
impl Hashable<RecH<B2>> for midnight_curves::Fq {
    fn to_input(&self) -> Vec<u8> {
        <Self as Hashable<B2>>::to_input(self)
    }
    fn to_bytes(&self) -> Vec<u8> {
        <Self as Hashable<B2>>::to_bytes(self)
    }
    fn read(buffer: &mut impl std::io::Read) -> std::io::Result<Self> {
        <Self as Hashable<B2>>::read(buffer)
    }
}
impl Hashable<RecH<B2>> for midnight_curves::G1Projective {
    fn to_input(&self) -> Vec<u8> {
        <Self as Hashable<B2>>::to_input(self)
    }
    fn to_bytes(&self) -> Vec<u8> {
        <Self as Hashable<B2>>::to_bytes(self)
    }
    fn read(buffer: &mut impl std::io::Read) -> std::io::Result<Self> {
        <Self as Hashable<B2>>::read(buffer)
    }
}
impl Sampleable<RecH<B2>> for midnight_curves::Fq {
    fn sample(out: Vec<u8>) -> Self {
        <Self as Sampleable<B2>>::sample(out)
    }
}

pub fn tevents_json(side: &str, evs: &[TEvent]) -> Vec<J> {
    evs.iter()
        .map(|e| json!({"ev":"T","side":side,"op":e.op,"kind":e.kind,"id":e.id,"len":e.len}))
        .collect()
}
