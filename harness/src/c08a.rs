//! C08 driver, accumulator half: an accumulator (two MSMs over BLS12-381 G1
//! with named fixed-base scalars) is witnessed in-circuit from a list of
//! fixed-base names in a chosen order, exposed as public input by the verifier
//! gadget, and compared with the off-circuit `as_public_input` encoding.

use std::{
    collections::BTreeMap,
    io::Write,
    panic::{catch_unwind, AssertUnwindSafe},
};

use ff::Field;
use group::Group;
use midnight_circuits::{
    ecc::{
        curves::CircuitCurve,
        foreign::{nb_foreign_ecc_chip_columns, ForeignEccChip, ForeignEccConfig},
    },
    field::{
        decomposition::{
            chip::{P2RDecompositionChip, P2RDecompositionConfig},
            pow2range::Pow2RangeChip,
        },
        foreign::FieldChip,
        native::NB_ARITH_COLS,
        NativeChip, NativeConfig, NativeGadget,
    },
    hash::poseidon::{PoseidonChip, PoseidonConfig, NB_POSEIDON_ADVICE_COLS, NB_POSEIDON_FIXED_COLS},
    instructions::*,
    types::{ComposableChip, Instantiable},
    verifier::{self, Accumulator, AssignedAccumulator, BlstrsEmulation, Msm, SelfEmulation, VerifierGadget},
    CircuitField,
};
use midnight_proofs::{
    circuit::{Layouter, SimpleFloorPlanner, Value},
    plonk::{Circuit, ConstraintSystem, Error},
};
use rand::{seq::SliceRandom, SeedableRng};
use rand_chacha::ChaCha8Rng;
use serde_json::{json, Value as J};

use crate::{
    gad::{self, nat_of_big, nat_of_f, nats_json},
    plonkrun::panic_msg,
};

type S = BlstrsEmulation;
type F = <S as SelfEmulation>::F;
type C = <S as SelfEmulation>::C;
type CBase = <C as CircuitCurve>::Base;
type NG = NativeGadget<F, P2RDecompositionChip<F>, NativeChip<F>>;

#[derive(Clone, Debug)]
struct AccCircuit {
    lhs_names: Vec<String>,
    rhs_names: Vec<String>,
    lhs_len: usize,
    rhs_len: usize,
    acc: Accumulator<S>,
}

impl Circuit<F> for AccCircuit {
    type Config = (NativeConfig, P2RDecompositionConfig, ForeignEccConfig<C>, PoseidonConfig<F>);
    type FloorPlanner = SimpleFloorPlanner;
    type Params = ();

    fn without_witnesses(&self) -> Self {
        unreachable!()
    }

    fn configure(meta: &mut ConstraintSystem<F>) -> Self::Config {
        let nb_advice_cols = nb_foreign_ecc_chip_columns::<F, C, C, NG>();
        let nb_fixed_cols = NB_ARITH_COLS + 4;
        let advice_columns: Vec<_> = (0..nb_advice_cols).map(|_| meta.advice_column()).collect();
        let fixed_columns: Vec<_> = (0..nb_fixed_cols).map(|_| meta.fixed_column()).collect();
        let committed_instance_column = meta.instance_column();
        let instance_column = meta.instance_column();
        let native_config = NativeChip::configure(
            meta,
            &(
                advice_columns[..NB_ARITH_COLS].try_into().unwrap(),
                fixed_columns[..NB_ARITH_COLS + 4].try_into().unwrap(),
                [committed_instance_column, instance_column],
            ),
        );
        let core_decomp_config = {
            let pow2_config = Pow2RangeChip::configure(meta, &advice_columns[1..NB_ARITH_COLS]);
            P2RDecompositionChip::configure(meta, &(native_config.clone(), pow2_config))
        };
        let base_config = FieldChip::<F, CBase, C, NG>::configure(meta, &advice_columns);
        let curve_config = ForeignEccChip::<F, C, C, NG, NG>::configure(meta, &base_config, &advice_columns);
        let poseidon_config = PoseidonChip::configure(
            meta,
            &(
                advice_columns[..NB_POSEIDON_ADVICE_COLS].try_into().unwrap(),
                fixed_columns[..NB_POSEIDON_FIXED_COLS].try_into().unwrap(),
            ),
        );
        (native_config, core_decomp_config, curve_config, poseidon_config)
    }

    fn synthesize(&self, config: Self::Config, mut layouter: impl Layouter<F>) -> Result<(), Error> {
        let native_chip = <NativeChip<F> as ComposableChip<F>>::new(&config.0, &());
        let core_decomp_chip = P2RDecompositionChip::new(&config.1, &8usize);
        let scalar_chip = NativeGadget::new(core_decomp_chip.clone(), native_chip.clone());
        let curve_chip = ForeignEccChip::new(&config.2, &scalar_chip, &scalar_chip);
        let poseidon_chip = PoseidonChip::new(&config.3, &native_chip);
        let verifier_chip = VerifierGadget::<S>::new(&curve_chip, &scalar_chip, &poseidon_chip);
        let acc = AssignedAccumulator::<S>::assign(
            &mut layouter,
            &curve_chip,
            &scalar_chip,
            self.lhs_len,
            self.rhs_len,
            &self.lhs_names,
            &self.rhs_names,
            Value::known(self.acc.clone()),
        )?;
        verifier_chip.constrain_as_public_input(&mut layouter, &acc)?;
        core_decomp_chip.load(&mut layouter)
    }
}

fn pt(p: &C) -> J {
    if bool::from(p.is_identity()) {
        json!({"id":true,"x":[],"y":[]})
    } else {
        let (x, y) = p.coordinates().unwrap();
        json!({"id":false,"x":nat_of_big(&x.to_biguint()),"y":nat_of_big(&y.to_biguint())})
    }
}

fn order(names: &mut Vec<String>, how: &str, rng: &mut ChaCha8Rng) {
    match how {
        "sorted" => names.sort(),
        "reversed" => {
            names.sort();
            names.reverse()
        }
        "shuffled" => names.shuffle(rng),
        _ => {} // "canonical": the order verifier::fixed_base_names returns
    }
}

fn msm_json(m: &Msm<S>, bases: &[C], scalars: &[F], fixed: &BTreeMap<String, F>) -> J {
    let _ = m;
    json!({"bases":bases.iter().map(pt).collect::<Vec<_>>(),"scalars":scalars.iter().map(nat_of_f).collect::<Vec<_>>(),
        "fixed":fixed.iter().map(|(n, v)| json!({"name":n.as_bytes().to_vec(),"v":nat_of_f(v)})).collect::<Vec<_>>()})
}

pub fn run(sc: &J, out: &mut dyn Write) {
    let (nf, np) = (sc["nfixed"].as_u64().unwrap_or(3) as usize, sc["nperm"].as_u64().unwrap_or(2) as usize);
    let (ll, rl) = (sc["lhs_len"].as_u64().unwrap_or(1) as usize, sc["rhs_len"].as_u64().unwrap_or(1) as usize);
    let lhs_fixed = sc["lhs_fixed"].as_bool().unwrap_or(false);
    let how = sc["order"].as_str().unwrap_or("canonical").to_string();
    let k = sc["k"].as_u64().unwrap_or(13) as u32;
    let mut rng = ChaCha8Rng::seed_from_u64(sc["seed"].as_u64().unwrap_or(8));
    let r = catch_unwind(AssertUnwindSafe(|| {
        let canonical = verifier::fixed_base_names::<S>("vk", nf, np);
        let mut rhs_names = canonical.clone();
        order(&mut rhs_names, &how, &mut rng);
        let mut lhs_names = if lhs_fixed { canonical.clone() } else { vec![] };
        order(&mut lhs_names, &how, &mut rng);
        // all fixed-base scalars distinct; a few of them at the boundaries of the native field
        let scal = |i: usize| match i % 7 {
            5 => -F::ONE,
            6 => F::ZERO,
            _ => F::from(1000 + i as u64),
        };
        let rhs_fixed: BTreeMap<String, F> = canonical.iter().enumerate().map(|(i, n)| (n.clone(), scal(i))).collect();
        let lhs_fixed_m: BTreeMap<String, F> = lhs_names.iter().enumerate().map(|(i, n)| (n.clone(), scal(i + 3))).collect();
        let pts = |n: usize, rng: &mut ChaCha8Rng| -> Vec<C> { (0..n).map(|i| if i == 2 { C::identity() } else { C::random(&mut *rng) }).collect() };
        let (lb, rb) = (pts(ll, &mut rng), pts(rl, &mut rng));
        let ls: Vec<F> = (0..ll).map(|_| F::random(&mut rng)).collect();
        let rs: Vec<F> = (0..rl).map(|i| if i == 1 { -F::ONE } else { F::random(&mut rng) }).collect();
        let lhs = Msm::<S>::new(&lb, &ls, &lhs_fixed_m);
        let rhs = Msm::<S>::new(&rb, &rs, &rhs_fixed);
        let lj = msm_json(&lhs, &lb, &ls, &lhs_fixed_m);
        let rj = msm_json(&rhs, &rb, &rs, &rhs_fixed);
        let acc = Accumulator::<S>::new(lhs, rhs);
        let enc = AssignedAccumulator::<S>::as_public_input(&acc);
        let circuit = AccCircuit { lhs_names: lhs_names.clone(), rhs_names: rhs_names.clone(), lhs_len: ll, rhs_len: rl, acc };
        let base = gad::run_game(&circuit, k, None);
        let status_enc = gad::sat_with(&circuit, k, &enc);
        let mut edits = vec![];
        let max_edits = sc["max_edits"].as_u64().unwrap_or(12) as usize;
        let stride = (enc.len() / max_edits.max(1)).max(1);
        let mut pos = sc["offset"].as_u64().unwrap_or(0) as usize % stride;
        while pos < enc.len() {
            let mut e = enc.clone();
            e[pos] += F::ONE;
            edits.push(json!({"pos":pos + 1,"how":"plus1","status":gad::sat_with(&circuit, k, &e)}));
            pos += stride;
        }
        // swapping two different fixed-base scalars of the vector must not satisfy the circuit either
        let n = enc.len();
        if n >= 2 && enc[n - 1] != enc[n - 2] {
            let mut e = enc.clone();
            e.swap(n - 1, n - 2);
            edits.push(json!({"pos":n,"how":"swap_last_two","status":gad::sat_with(&circuit, k, &e)}));
        }
        let names_sorted = {
            let mut s = rhs_names.clone();
            s.sort();
            s == rhs_names
        };
        json!({"ev":"Acc","nfixed":nf,"nperm":np,"order":how,"names":rhs_names.iter().map(|n| n.as_bytes().to_vec()).collect::<Vec<_>>(),
            "names_sorted":names_sorted,
            "lhs":lj,"rhs":rj,"offchain":nats_json(&enc),"exposed":nats_json(&base.exposed),"status":base.status,"status_enc":status_enc,
            "edits":edits,"k":k,"detail":base.detail})
    }));
    match r {
        Ok(ev) => writeln!(out, "{ev}").unwrap(),
        Err(p) => writeln!(out, "{}", json!({"ev":"Acc","nfixed":nf,"nperm":np,"order":how,"names":[],"names_sorted":false,
            "lhs":{"bases":[],"scalars":[],"fixed":[]},"rhs":{"bases":[],"scalars":[],"fixed":[]},"offchain":[],"exposed":[],
            "status":"panic","status_enc":"panic","edits":[],"k":k,"detail":panic_msg(p).chars().take(200).collect::<String>()})).unwrap(),
    }
}
