//! C12 driver.
//!  * `msm`: multi-scalar multiplications whose scalars and bases follow named
//!    patterns (mirrored in spec/Msm.tla), through every entry point and under
//!    rayon pools of several sizes; results logged as affine coordinates.
//!  * `fft`: FFT, evaluation-domain conversions and polynomial helpers over the
//!    toy field F_12289 (the real, generic code), logged as small integers.

use std::{
    io::Write,
    panic::{catch_unwind, AssertUnwindSafe},
};

use ff::{Field, PrimeField, WithSmallOrderMulGroup};
use group::{prime::PrimeCurveAffine, Curve, Group};
use midnight_circuits::{ecc::curves::CircuitCurve, CircuitField};
use midnight_curves::{
    bn256,
    fft::best_fft,
    msm::{msm_best, msm_parallel, msm_serial},
    Fq as BlsFr, G1Affine, G1Projective,
};
use midnight_proofs::{
    poly::{EvaluationDomain, Rotation},
    utils::arithmetic::{compute_inner_product, eval_polynomial, kate_division, lagrange_interpolate},
};
use num_bigint::BigUint;
use serde_json::{json, Value as J};

use crate::{gad::nat_of_big, plonkrun::panic_msg, toy::Fp, util};

type T = Fp<12289>;

fn si<S: PrimeField>(k: i64) -> S {
    if k < 0 {
        -S::from((-k) as u64)
    } else {
        S::from(k as u64)
    }
}

/// base pattern: the discrete logarithm of the i-th base (0-based i)
pub fn base_dlog(pat: &str, i: usize) -> i64 {
    let i = i as i64;
    match pat {
        "gen" => 1,
        "identity" => 0,
        "seq" => (i % 17) - 8,
        "repeated" => 1 + (i % 3),
        "opposite" => {
            let m = 1 + ((i / 2) % 5);
            if i % 2 == 0 {
                m
            } else {
                -m
            }
        }
        "dup_pairs" => ((i / 2) % 50) + 1,
        _ => 1,
    }
}

/// scalar pattern (0-based i), as an element of the scalar field
pub fn scalar_of<S: PrimeField>(pat: &str, i: usize) -> S {
    let pow3 = |e: u64| S::from(3u64).pow_vartime([e]);
    match pat {
        "zero" => S::ZERO,
        "one" => S::ONE,
        "minus_one" => -S::ONE,
        "two" => S::from(2u64),
        "pow3" => pow3(1000 + i as u64),
        "alt" => {
            if i % 2 == 0 {
                -S::ONE
            } else {
                pow3(1000 + i as u64)
            }
        }
        "dup_pairs" => pow3(1000 + (i / 2) as u64),
        "small" => S::from(((i * 7 + 3) % 11) as u64),
        "byte_top" => S::from((128 + (i * 37) % 128) as u64),
        "word_top" => S::from((65520 + i % 16) as u64),
        "three_top" => S::from((16776960 + i % 251) as u64),
        "short_mix" => S::from([200u64, 65520, 8388608, 5][i % 4]),
        _ => S::ONE,
    }
}

fn with_pool<R: Send>(threads: usize, f: impl FnOnce() -> R + Send) -> R {
    rayon::ThreadPoolBuilder::new().num_threads(threads).build().unwrap().install(f)
}

fn guard(f: impl FnOnce() -> J) -> J {
    match catch_unwind(AssertUnwindSafe(f)) {
        Ok(v) => v,
        Err(p) => json!({"panic":panic_msg(p).chars().take(80).collect::<String>()}),
    }
}

fn msm_bls(sc: &J, out: &mut dyn Write) {
    let n = sc["n"].as_u64().unwrap() as usize;
    let (sp, bp) = (sc["scal"].as_str().unwrap(), sc["base"].as_str().unwrap());
    let threads = sc["threads"].as_u64().unwrap_or(4) as usize;
    let g = G1Projective::generator();
    let table: Vec<G1Affine> = (-60i64..=60).map(|k| (g * si::<BlsFr>(k)).to_affine()).collect();
    let bases: Vec<G1Affine> = (0..n).map(|i| table[(base_dlog(bp, i) + 60) as usize]).collect();
    let scalars: Vec<BlsFr> = (0..n).map(|i| scalar_of::<BlsFr>(sp, i)).collect();
    let pj = |p: G1Projective| {
        if bool::from(p.is_identity()) {
            json!({"id":true,"x":[],"y":[]})
        } else {
            let (x, y) = p.coordinates().unwrap();
            json!({"id":false,"x":nat_of_big(&x.to_biguint()),"y":nat_of_big(&y.to_biguint())})
        }
    };
    let r = with_pool(threads, || {
        json!({
            "msm_best": guard(|| pj(msm_best(&scalars, &bases))),
            "msm_parallel": guard(|| pj(msm_parallel(&scalars, &bases))),
            "msm_serial": guard(|| { let mut acc = G1Projective::identity(); msm_serial(&scalars, &bases, &mut acc); pj(acc) }),
            "multi_exp": guard(|| {
                let pb: Vec<G1Projective> = bases.iter().map(|b| G1Projective::from(*b)).collect();
                pj(G1Projective::multi_exp(&pb, &scalars))
            }),
        })
    });
    writeln!(out, "{}", json!({"ev":"Msm","curve":"bls12_381_g1","n":n,"scal":sp,"base":bp,"threads":threads,"results":r})).unwrap();
}

fn msm_bn(sc: &J, out: &mut dyn Write) {
    let n = sc["n"].as_u64().unwrap() as usize;
    let (sp, bp) = (sc["scal"].as_str().unwrap(), sc["base"].as_str().unwrap());
    let threads = sc["threads"].as_u64().unwrap_or(4) as usize;
    let g = bn256::G1::generator();
    let table: Vec<bn256::G1Affine> = (-60i64..=60).map(|k| (g * si::<bn256::Fr>(k)).to_affine()).collect();
    let bases: Vec<bn256::G1Affine> = (0..n).map(|i| table[(base_dlog(bp, i) + 60) as usize]).collect();
    let scalars: Vec<bn256::Fr> = (0..n).map(|i| scalar_of::<bn256::Fr>(sp, i)).collect();
    let le = |x: &bn256::Fq| nat_of_big(&BigUint::from_bytes_le(x.to_repr().as_ref()));
    let pj = |p: bn256::G1| {
        if bool::from(p.is_identity()) {
            json!({"id":true,"x":[],"y":[]})
        } else {
            let a = p.to_affine();
            json!({"id":false,"x":le(&a.x),"y":le(&a.y)})
        }
    };
    let r = with_pool(threads, || {
        json!({
            "msm_best": guard(|| pj(msm_best(&scalars, &bases))),
            "msm_parallel": guard(|| pj(msm_parallel(&scalars, &bases))),
            "msm_serial": guard(|| { let mut acc = bn256::G1::identity(); msm_serial(&scalars, &bases, &mut acc); pj(acc) }),
        })
    });
    writeln!(out, "{}", json!({"ev":"Msm","curve":"bn256_g1","n":n,"scal":sp,"base":bp,"threads":threads,"results":r})).unwrap();
}

fn tv(x: &T) -> u64 {
    x.0
}
fn tvs(xs: &[T]) -> Vec<u64> {
    xs.iter().map(tv).collect()
}

fn fft_case(sc: &J, out: &mut dyn Write) {
    let k = sc["k"].as_u64().unwrap() as u32;
    let j = sc["j"].as_u64().unwrap_or(2) as u32;
    let threads = sc["threads"].as_u64().unwrap_or(4) as usize;
    let vals: Vec<T> = sc["vals"].as_array().unwrap().iter().map(|v| T::from(v.as_u64().unwrap())).collect();
    let n = 1usize << k;
    let ev = with_pool(threads, || {
        guard(|| {
            let d = EvaluationDomain::<T>::new(j, k);
            let omega = d.get_omega();
            let mut a = vals.clone();
            a.resize(n, T::ZERO);
            let input = a.clone();
            let mut f = a.clone();
            best_fft(&mut f, omega, k);
            // Lagrange <-> coefficients
            let coeff = d.lagrange_to_coeff(d.lagrange_from_vec(input.clone()));
            let back = d.coeff_to_lagrange(coeff.clone());
            // extended coset
            let ext = d.coeff_to_extended(coeff.clone());
            let ext_vals: Vec<T> = ext.iter().cloned().collect();
            let ext_back = d.extended_to_coeff(ext.clone());
            // division by the vanishing polynomial of (coeff * (X^n - 1)) must give coeff back
            let mut prod = vec![T::ZERO; 2 * n];
            for (i, c) in coeff.iter().enumerate() {
                prod[i] -= c;
                prod[i + n] += c;
            }
            let div = if (1usize << d.extended_k()) >= 2 * n && j >= 3 {
                let mut pc = d.empty_coeff();
                let _ = &mut pc;
                // build the extended evaluations of prod directly by evaluation
                let eo = d.get_extended_omega();
                let zeta = <T as WithSmallOrderMulGroup<3>>::ZETA;
                let mut e = d.empty_extended();
                let mut x = zeta;
                for v in e.iter_mut() {
                    *v = eval_polynomial(&prod, x);
                    x *= eo;
                }
                let q = d.divide_by_vanishing_poly(e);
                Some(d.extended_to_coeff(q))
            } else {
                None
            };
            let x = T::from(sc["x"].as_u64().unwrap_or(5));
            let rots: Vec<i32> = sc["rots"].as_array().map(|a| a.iter().map(|r| r.as_i64().unwrap() as i32).collect()).unwrap_or_else(|| vec![-1, 0, 1]);
            let li = d.l_i_range(x, x.pow_vartime([n as u64]), rots.clone());
            let rot: Vec<u64> = rots.iter().map(|r| tv(&d.rotate_omega(x, Rotation(*r)))).collect();
            // rotation of a polynomial in Lagrange form, one rotation at a time (an empty list stands for a panic)
            let polyrot: Vec<Vec<u64>> = rots
                .iter()
                .map(|r| {
                    let p = d.lagrange_from_vec(input.clone());
                    match std::panic::catch_unwind(std::panic::AssertUnwindSafe(|| p.rotate(Rotation(*r)))) {
                        Ok(q) => tvs(&q),
                        Err(_) => vec![],
                    }
                })
                .collect();
            let z = T::from(sc["z"].as_u64().unwrap_or(7));
            let cv: Vec<T> = coeff.iter().cloned().collect();
            let kd = kate_division(cv.iter(), z);
            let evalz = eval_polynomial(&coeff, z);
            let ip = compute_inner_product(&input, &f);
            // interpolation through the first min(n, 6) domain points
            let m = n.min(6);
            let pts: Vec<T> = (0..m).map(|i| omega.pow_vartime([i as u64])).collect();
            let evs: Vec<T> = input[..m].to_vec();
            let interp = lagrange_interpolate(&pts, &evs);
            json!({"k":k,"j":j,"n":n,"extended_k":d.extended_k(),"omega":tv(&omega),"omega_inv":tv(&d.get_omega_inv()),
                "extended_omega":tv(&d.get_extended_omega()),"zeta":tv(&<T as WithSmallOrderMulGroup<3>>::ZETA),
                "input":tvs(&input),"fft":tvs(&f),"coeff":tvs(&coeff),"back":tvs(&back),"ext":tvs(&ext_vals),"ext_back":tvs(&ext_back),
                "div":div.map(|q| tvs(&q)),"x":tv(&x),"rots":rots,"l_i":tvs(&li),"rot":rot,"polyrot":polyrot,"z":tv(&z),"kate":tvs(&kd),"evalz":tv(&evalz),
                "inner":tv(&ip),"interp_pts":tvs(&pts),"interp":tvs(&interp)})
        })
    });
    let mut e = ev;
    e["ev"] = json!("Fft");
    e["threads"] = json!(threads);
    writeln!(out, "{e}").unwrap();
}

pub fn main(args: &[String]) -> i32 {
    let scen = util::read_ndjson(&args[0]);
    let mut out = util::create(&args[1]);
    writeln!(out, "{}", json!({"ev":"header","prop":"C12","n":scen.len()})).unwrap();
    for c in crate::consts::all() {
        let mut c = c;
        c["ev"] = json!("Curve");
        writeln!(out, "{c}").unwrap();
    }
    for sc in scen.iter() {
        match sc["kind"].as_str().unwrap_or("") {
            "msm" if sc["curve"] == "bn256_g1" => msm_bn(sc, &mut out),
            "msm" => msm_bls(sc, &mut out),
            "fft" => fft_case(sc, &mut out),
            _ => {}
        }
    }
    let _ = (<G1Affine as PrimeCurveAffine>::identity(), T::ZERO);
    0
}
