//! Toy prime field with const-generic modulus, for running generic chips on
//! a field small enough for TLC arithmetic.
use core::{
    fmt,
    iter::{Product, Sum},
    ops::{Add, AddAssign, Mul, MulAssign, Neg, Sub, SubAssign},
};

use ff::{Field, FromUniformBytes, PrimeField, WithSmallOrderMulGroup};
use midnight_circuits::CircuitField;
use num_bigint::BigUint;
use rand::RngCore;
use subtle::{Choice, ConditionallySelectable, ConstantTimeEq, CtOption};

#[derive(Clone, Copy, Default, PartialEq, Eq, PartialOrd, Ord, Hash)]
pub struct Fp<const P: u64>(pub u64);

const fn powmod(mut b: u64, mut e: u64, p: u64) -> u64 {
    let mut r = 1u64;
    b %= p;
    while e > 0 {
        if e & 1 == 1 {
            r = (r as u128 * b as u128 % p as u128) as u64;
        }
        b = (b as u128 * b as u128 % p as u128) as u64;
        e >>= 1;
    }
    r
}
const fn two_adicity(p: u64) -> u32 {
    (p - 1).trailing_zeros()
}
/// smallest multiplicative generator
const fn generator(p: u64) -> u64 {
    let mut g = 2;
    loop {
        // check g^((p-1)/q) != 1 for every prime q | p-1
        let mut n = p - 1;
        let mut q = 2;
        let mut ok = true;
        while q * q <= n {
            if n % q == 0 {
                if powmod(g, (p - 1) / q, p) == 1 {
                    ok = false;
                }
                while n % q == 0 {
                    n /= q;
                }
            }
            q += 1;
        }
        if n > 1 && powmod(g, (p - 1) / n, p) == 1 {
            ok = false;
        }
        if ok {
            return g;
        }
        g += 1;
    }
}

impl<const P: u64> Fp<P> {
    pub const fn new(v: u64) -> Self {
        Fp(v % P)
    }
    const T: u64 = (P - 1) >> two_adicity(P);
}

impl<const P: u64> fmt::Debug for Fp<P> {
    fn fmt(&self, f: &mut fmt::Formatter<'_>) -> fmt::Result {
        write!(f, "0x{:x}", self.0)
    }
}

macro_rules! binop {
    ($tr:ident, $f:ident, $atr:ident, $af:ident, $e:expr) => {
        impl<const P: u64> $tr for Fp<P> {
            type Output = Fp<P>;
            fn $f(self, o: Fp<P>) -> Fp<P> {
                let f: fn(u64, u64, u64) -> u64 = $e;
                Fp(f(self.0, o.0, P))
            }
        }
        impl<'a, const P: u64> $tr<&'a Fp<P>> for Fp<P> {
            type Output = Fp<P>;
            fn $f(self, o: &'a Fp<P>) -> Fp<P> {
                <Fp<P> as $tr>::$f(self, *o)
            }
        }
        impl<const P: u64> $atr for Fp<P> {
            fn $af(&mut self, o: Fp<P>) {
                *self = <Fp<P> as $tr>::$f(*self, o);
            }
        }
        impl<'a, const P: u64> $atr<&'a Fp<P>> for Fp<P> {
            fn $af(&mut self, o: &'a Fp<P>) {
                *self = <Fp<P> as $tr>::$f(*self, *o);
            }
        }
    };
}
binop!(Add, add, AddAssign, add_assign, |a, b, p| (a + b) % p);
binop!(Sub, sub, SubAssign, sub_assign, |a, b, p| (a + p - b) % p);
binop!(Mul, mul, MulAssign, mul_assign, |a, b, p| (a as u128 * b as u128 % p as u128) as u64);

impl<const P: u64> Neg for Fp<P> {
    type Output = Fp<P>;
    fn neg(self) -> Fp<P> {
        Fp((P - self.0) % P)
    }
}
impl<const P: u64> Sum for Fp<P> {
    fn sum<I: Iterator<Item = Self>>(i: I) -> Self {
        i.fold(Fp(0), |a, b| a + b)
    }
}
impl<'a, const P: u64> Sum<&'a Fp<P>> for Fp<P> {
    fn sum<I: Iterator<Item = &'a Self>>(i: I) -> Self {
        i.fold(Fp(0), |a, b| a + *b)
    }
}
impl<const P: u64> Product for Fp<P> {
    fn product<I: Iterator<Item = Self>>(i: I) -> Self {
        i.fold(Fp(1), |a, b| a * b)
    }
}
impl<'a, const P: u64> Product<&'a Fp<P>> for Fp<P> {
    fn product<I: Iterator<Item = &'a Self>>(i: I) -> Self {
        i.fold(Fp(1), |a, b| a * *b)
    }
}
impl<const P: u64> ConstantTimeEq for Fp<P> {
    fn ct_eq(&self, o: &Self) -> Choice {
        self.0.ct_eq(&o.0)
    }
}
impl<const P: u64> ConditionallySelectable for Fp<P> {
    fn conditional_select(a: &Self, b: &Self, c: Choice) -> Self {
        Fp(u64::conditional_select(&a.0, &b.0, c))
    }
}
impl<const P: u64> From<u64> for Fp<P> {
    fn from(v: u64) -> Self {
        Fp(v % P)
    }
}

impl<const P: u64> Field for Fp<P> {
    const ZERO: Self = Fp(0);
    const ONE: Self = Fp(1);
    fn random(mut rng: impl RngCore) -> Self {
        Fp(rng.next_u64() % P)
    }
    fn square(&self) -> Self {
        *self * *self
    }
    fn double(&self) -> Self {
        *self + *self
    }
    fn invert(&self) -> CtOption<Self> {
        CtOption::new(Fp(powmod(self.0, P - 2, P)), Choice::from((self.0 != 0) as u8))
    }
    fn sqrt_ratio(num: &Self, div: &Self) -> (Choice, Self) {
        ff::helpers::sqrt_ratio_generic(num, div)
    }
    fn sqrt(&self) -> CtOption<Self> {
        ff::helpers::sqrt_tonelli_shanks(self, [Self::T >> 1 as u64])
    }
}

#[derive(Clone, Copy, Default, Debug)]
pub struct Repr8(pub [u8; 8]);
impl AsRef<[u8]> for Repr8 {
    fn as_ref(&self) -> &[u8] {
        &self.0
    }
}
impl AsMut<[u8]> for Repr8 {
    fn as_mut(&mut self) -> &mut [u8] {
        &mut self.0
    }
}
impl From<[u8; 8]> for Repr8 {
    fn from(v: [u8; 8]) -> Self {
        Repr8(v)
    }
}

impl<const P: u64> PrimeField for Fp<P> {
    type Repr = Repr8;
    fn from_repr(r: Repr8) -> CtOption<Self> {
        let v = u64::from_le_bytes(r.0);
        CtOption::new(Fp(v % P), Choice::from((v < P) as u8))
    }
    fn to_repr(&self) -> Repr8 {
        Repr8(self.0.to_le_bytes())
    }
    fn is_odd(&self) -> Choice {
        Choice::from((self.0 & 1) as u8)
    }
    const MODULUS: &'static str = "toy";
    const NUM_BITS: u32 = 64 - P.leading_zeros();
    const CAPACITY: u32 = Self::NUM_BITS - 1;
    const TWO_INV: Self = Fp(powmod(2, P - 2, P));
    const MULTIPLICATIVE_GENERATOR: Self = Fp(generator(P));
    const S: u32 = two_adicity(P);
    const ROOT_OF_UNITY: Self = Fp(powmod(generator(P), Self::T, P));
    const ROOT_OF_UNITY_INV: Self = Fp(powmod(powmod(generator(P), Self::T, P), P - 2, P));
    const DELTA: Self = Fp(powmod(generator(P), 1 << two_adicity(P), P));
}

impl<const P: u64> FromUniformBytes<64> for Fp<P> {
    fn from_uniform_bytes(b: &[u8; 64]) -> Self {
        let mut acc = 0u128;
        for x in b.iter().rev() {
            acc = (acc * 256 + *x as u128) % P as u128;
        }
        Fp(acc as u64)
    }
}
impl<const P: u64> WithSmallOrderMulGroup<3> for Fp<P> {
    const ZETA: Self = Fp(powmod(generator(P), (P - 1) / 3, P));
}

impl<const P: u64> CircuitField for Fp<P> {
    const NUM_BYTES: usize = 8;
    type Bytes = [u8; 8];
    fn to_biguint(&self) -> BigUint {
        BigUint::from(self.0)
    }
    fn from_biguint(n: &BigUint) -> Option<Self> {
        let d = n.to_u64_digits();
        match d.len() {
            0 => Some(Fp(0)),
            1 if d[0] < P => Some(Fp(d[0])),
            _ => None,
        }
    }
    fn to_bytes_le(&self) -> [u8; 8] {
        self.0.to_le_bytes()
    }
    fn to_bytes_be(&self) -> [u8; 8] {
        self.0.to_be_bytes()
    }
    fn from_bytes_le(b: &[u8]) -> Option<Self> {
        let mut r = [0u8; 8];
        r.copy_from_slice(b);
        let v = u64::from_le_bytes(r);
        (v < P).then_some(Fp(v))
    }
}
