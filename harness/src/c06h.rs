//! C06 driver, hash-to-curve half: the map to the Jubjub curve (Shallue-van de Woestijne, then Montgomery, then
//! Edwards, then cofactor clearing) and hash_to_curve (two sponge squeezes mapped and added), off-circuit and in-circuit
//! through the standard library, with the inputs and the resulting point exposed.

use std::io::Write;

use ff::Field;
use midnight_circuits::{
    ecc::{
        curves::CircuitCurve,
        hash_to_curve::{HashToCurveGadget, MapToCurveCPU, MapToCurveInstructions, MapToEdwardsParams},
        native::EccChip,
    },
    hash::poseidon::{constants::PoseidonField, PoseidonChip},
    instructions::{AssignmentInstructions, HashToCurveCPU, PublicInputInstructions},
    types::AssignedNative,
    CircuitField,
};
use midnight_curves::{Fq as F, JubjubExtended as Jubjub, JubjubSubgroup};
use midnight_proofs::{
    circuit::{Layouter, Value},
    plonk::Error,
};
use midnight_zk_stdlib::{MidnightCircuit, Relation, ZkStdLib, ZkStdLibArch};
use serde_json::{json, Value as J};

use crate::{
    gad::{self, big_of_nat, nat_of_big, nats_json},
    util,
};

fn fe(v: &J) -> F {
    let b = big_of_nat(v);
    let mut acc = F::ZERO;
    for d in b.to_bytes_be() {
        acc = acc * F::from(256u64) + F::from(d as u64);
    }
    acc
}
fn pj(p: &JubjubSubgroup) -> J {
    let e: Jubjub = (*p).into();
    let (x, y) = e.coordinates().unwrap();
    json!({"id":false,"x":nat_of_big(&x.to_biguint()),"y":nat_of_big(&y.to_biguint())})
}
fn consts<C: MapToEdwardsParams<F>>() -> J {
    let f = |x: &F| nat_of_big(&x.to_biguint());
    json!({"z":f(&C::SVDW_Z),"a":f(&C::A),"b":f(&C::B),"j":f(&C::MONT_J),"k":f(&C::MONT_K),"c1":f(&C::c1()),"c2":f(&C::c2()),"c3":f(&C::c3()),"c4":f(&C::c4())})
}

#[derive(Clone)]
struct HtcRel {
    sc: J,
}
impl Relation for HtcRel {
    type Instance = Vec<F>;
    type Witness = ();
    fn format_instance(i: &Vec<F>) -> Result<Vec<F>, Error> {
        Ok(i.clone())
    }
    fn used_chips(&self) -> ZkStdLibArch {
        ZkStdLibArch { poseidon: true, jubjub: true, ..ZkStdLibArch::default() }
    }
    fn circuit(&self, s: &ZkStdLib, l: &mut impl Layouter<F>, _i: Value<Vec<F>>, _w: Value<()>) -> Result<(), Error> {
        let ins: Vec<Value<F>> = self.sc["inputs"].as_array().unwrap().iter().map(|x| Value::known(fe(x))).collect();
        let ax: Vec<AssignedNative<F>> = s.assign_many(l, &ins)?;
        for a in ax.iter() {
            gad::note('n', 1);
            s.constrain_as_public_input(l, a)?;
        }
        let p = if self.sc["op"] == "mtc" { s.jubjub().map_to_curve(l, &ax[0])? } else { s.hash_to_curve(l, &ax)? };
        gad::note('P', 2);
        s.jubjub().constrain_as_public_input(l, &p)
    }
    fn write_relation<W: std::io::Write>(&self, _w: &mut W) -> std::io::Result<()> {
        Ok(())
    }
    fn read_relation<R: std::io::Read>(_r: &mut R) -> std::io::Result<Self> {
        unimplemented!()
    }
}

pub fn main(args: &[String]) -> i32 {
    let scen = util::read_ndjson(&args[0]);
    let mut out = util::create(&args[1]);
    let f = |x: &F| nat_of_big(&x.to_biguint());
    writeln!(out, "{}", json!({"ev":"header","prop":"C06","part":"htc","native":nat_of_big(&<F as CircuitField>::modulus())})).unwrap();
    writeln!(out, "{}", json!({"ev":"PoseidonConstants",
        "mds": <F as PoseidonField>::MDS.iter().map(|r| r.iter().map(f).collect::<Vec<_>>()).collect::<Vec<_>>(),
        "rc": <F as PoseidonField>::ROUND_CONSTANTS.iter().map(|r| r.iter().map(f).collect::<Vec<_>>()).collect::<Vec<_>>(),
        "htc": consts::<Jubjub>()})).unwrap();
    for sc in scen.iter() {
        let ins: Vec<F> = sc["inputs"].as_array().unwrap().iter().map(fe).collect();
        let cpu = std::panic::catch_unwind(|| {
            if sc["op"] == "mtc" {
                pj(&<Jubjub as MapToCurveCPU<Jubjub>>::map_to_curve(&ins[0]))
            } else {
                type G = HashToCurveGadget<F, Jubjub, AssignedNative<F>, PoseidonChip<F>, EccChip<Jubjub>>;
                pj(&<G as HashToCurveCPU<Jubjub, F>>::hash_to_curve(&ins))
            }
        })
        .unwrap_or_else(|_| json!({"id":true,"x":[],"y":[]}));
        let rel = HtcRel { sc: sc.clone() };
        let k = sc["k"].as_u64().map(|k| k as u32).unwrap_or_else(|| MidnightCircuit::from_relation(&rel).min_k());
        let circuit = MidnightCircuit::new(&rel, Value::known(vec![]), Value::known(()), Some(8));
        let mut emit = |r: &gad::RunOut, tamper: J, k: u32| {
            writeln!(out, "{}", json!({"ev":"Htc","op":sc["op"],"inputs":sc["inputs"],"cpu":cpu,"tamper":tamper,"tampered":!tamper.is_null(),
                "status":r.status,"exposed":nats_json(&r.exposed),"nassign":r.nassign,"k":k,"detail":r.detail.chars().take(160).collect::<String>()})).unwrap();
        };
        let mut k = k;
        let mut base = gad::run_game(&circuit, k, None);
        if base.status != "sat" && (base.detail.contains("NotEnoughRows") || base.detail.contains("usable_rows")) {
            k += 1;
            base = gad::run_game(&circuit, k, None);
        }
        emit(&base, J::Null, k);
        if let Some(idx) = sc["tamper_at"].as_array() {
            for i in idx {
                let pos = (i.as_u64().unwrap_or(0) as usize * base.nassign / 1000).min(base.nassign.saturating_sub(1));
                for fs in sc["faults"].as_array().cloned().unwrap_or_else(|| vec![json!("plus1")]) {
                    let fs = fs.as_str().unwrap().to_string();
                    let r = gad::run_game(&circuit, k, Some((pos, gad::fault_of(&fs))));
                    emit(&r, json!({"i":pos,"fault":fs}), k);
                }
            }
        }
    }
    let _ = (<Jubjub as CircuitCurve>::NUM_BITS_SUBGROUP, nat_of_big);
    0
}
