//! C19 driver (language half): build expressions with `RegexInstructions`,
//! compile them with `to_automaton()` and dump the automaton for model checking
//! against the derivative semantics of `Regex.tla`.

use std::{
    io::Write,
    panic::{catch_unwind, AssertUnwindSafe},
};

use midnight_circuits::parsing::regex::{Regex, RegexInstructions};
use serde_json::{json, Value as J};

use crate::{plonkrun::panic_msg, util};

fn build(e: &J) -> Regex {
    let sub = |k: &str| build(&e[k]);
    let list = |k: &str| e[k].as_array().unwrap().iter().map(build).collect::<Vec<_>>();
    match e["op"].as_str().unwrap() {
        "single" => {
            let ls: Vec<(u8, usize)> = e["ls"]
                .as_array()
                .unwrap()
                .iter()
                .map(|p| (p[0].as_u64().unwrap() as u8, p[1].as_u64().unwrap() as usize))
                .collect();
            let mut r = Regex::byte_from(ls.iter().map(|p| p.0));
            let mut ms: Vec<usize> = ls.iter().map(|p| p.1).filter(|m| *m != 0).collect();
            ms.sort();
            ms.dedup();
            for m in ms {
                r = r.mark_bytes(ls.iter().filter(|p| p.1 == m).map(|p| p.0), m);
            }
            r
        }
        "not_from" => Regex::byte_not_from(e["bytes"].as_array().unwrap().iter().map(|b| b.as_u64().unwrap() as u8)),
        "any_byte" => Regex::any_byte(),
        "any" => Regex::any(),
        "word" => Regex::word(e["w"].as_str().unwrap()),
        "eps" => Regex::epsilon(),
        "empty" => Regex::union(Vec::<Regex>::new()),
        "cat" => Regex::cat(list("s")),
        "union" => Regex::union(list("s")),
        "inter" => Regex::inter(list("s")),
        "star" => {
            if e["strict"].as_bool().unwrap_or(false) {
                sub("x").non_empty_list()
            } else {
                sub("x").list()
            }
        }
        "neg" => sub("x").neg(),
        "minus" => sub("x").minus(sub("y")),
        "opt" => sub("x").optional(),
        "repeat" => sub("x").repeat(e["n"].as_u64().unwrap() as usize),
        "repeat_at_most" => sub("x").repeat_at_most(e["n"].as_u64().unwrap() as usize),
        "sep_list" => sub("x").separated_list(sub("y")),
        "sep_nelist" => sub("x").separated_non_empty_list(sub("y")),
        "terminated" => sub("x").terminated(sub("y")),
        "delimited" => sub("x").delimited(sub("y"), sub("z")),
        other => panic!("unknown regex op {other}"),
    }
}

pub fn main(args: &[String]) -> i32 {
    let scen = util::read_ndjson(&args[0]);
    let mut out = util::create(&args[1]);
    writeln!(out, "{}", json!({"ev":"header","prop":"C19","n":scen.len()})).unwrap();
    for sc in scen.iter() {
        let r = catch_unwind(AssertUnwindSafe(|| {
            let re = build(&sc["lib"]);
            let a = re.to_automaton();
            let mut fin: Vec<usize> = a.final_states.iter().copied().collect();
            fin.sort();
            let mut tr: Vec<(usize, u8, usize, usize)> =
                a.transitions.iter().map(|((q, b), (q2, m))| (*q, *b, *q2, *m)).collect();
            tr.sort();
            (a.nb_states, a.initial_state, fin, tr)
        }));
        match r {
            Ok((n, init, fin, tr)) => {
                // keep only transitions on the representative letters
                let letters: Vec<u64> = sc["letters"].as_array().unwrap().iter().map(|x| x.as_u64().unwrap()).collect();
                let trj: Vec<J> = tr.iter().filter(|t| letters.contains(&(t.1 as u64))).map(|t| json!([t.0, t.1, t.2, t.3])).collect();
                writeln!(out, "{}", json!({"ev":"Automaton","id":sc["id"],"res":"ok","nb_states":n,"initial":init,
                    "finals":fin,"trans":trj,"ntrans_total":tr.len()})).unwrap();
            }
            Err(p) => {
                writeln!(out, "{}", json!({"ev":"Automaton","id":sc["id"],"res":"panic","detail":panic_msg(p)})).unwrap();
            }
        }
    }
    0
}
