//! C19 driver (language half): build expressions with `RegexInstructions`,
//! compile them with `to_automaton()` and dump the automaton for model checking
//! against the derivative semantics of `Regex.tla`.

use std::{
    io::Write,
    panic::{catch_unwind, AssertUnwindSafe},
};

use midnight_circuits::parsing::regex::{Regex, RegexInstructions};
use serde_json::{json, Value as J};

use crate::{plonkrun::panic_msg, util};

fn build(e: &J) -> Regex {
    let sub = |k: &str| build(&e[k]);
    let list = |k: &str| e[k].as_array().unwrap().iter().map(build).collect::<Vec<_>>();
    match e["op"].as_str().unwrap() {
        "single" => {
            let ls: Vec<(u8, usize)> = e["ls"]
                .as_array()
                .unwrap()
                .iter()
                .map(|p| (p[0].as_u64().unwrap() as u8, p[1].as_u64().unwrap() as usize))
                .collect();
            let mut r = Regex::byte_from(ls.iter().map(|p| p.0));
            let mut ms: Vec<usize> = ls.iter().map(|p| p.1).filter(|m| *m != 0).collect();
            ms.sort();
            ms.dedup();
            for m in ms {
                r = r.mark_bytes(ls.iter().filter(|p| p.1 == m).map(|p| p.0), m);
            }
            r
        }
        "not_from" => Regex::byte_not_from(e["bytes"].as_array().unwrap().iter().map(|b| b.as_u64().unwrap() as u8)),
        "any_byte" => Regex::any_byte(),
        "any" => Regex::any(),
        "word" => Regex::word(e["w"].as_str().unwrap()),
        "eps" => Regex::epsilon(),
        "empty" => Regex::union(Vec::<Regex>::new()),
        "cat" => Regex::cat(list("s")),
        "union" => Regex::union(list("s")),
        "inter" => Regex::inter(list("s")),
        "star" => {
            if e["strict"].as_bool().unwrap_or(false) {
                sub("x").non_empty_list()
            } else {
                sub("x").list()
            }
        }
        "neg" => sub("x").neg(),
        "minus" => sub("x").minus(sub("y")),
        "opt" => sub("x").optional(),
        "repeat" => sub("x").repeat(e["n"].as_u64().unwrap() as usize),
        "repeat_at_most" => sub("x").repeat_at_most(e["n"].as_u64().unwrap() as usize),
        "sep_list" => sub("x").separated_list(sub("y")),
        "sep_nelist" => sub("x").separated_non_empty_list(sub("y")),
        "terminated" => sub("x").terminated(sub("y")),
        "delimited" => sub("x").delimited(sub("y"), sub("z")),
        other => panic!("unknown regex op {other}"),
    }
}

// ---------------------------------------------------------------------------
// in-circuit parser: AutomatonChip::parse on the automaton compiled from an expression

use midnight_circuits::{
    field::{
        decomposition::{chip::{P2RDecompositionChip, P2RDecompositionConfig}, pow2range::Pow2RangeChip},
        native::NB_ARITH_COLS,
        NativeChip, NativeGadget,
    },
    instructions::{AssignmentInstructions, PublicInputInstructions},
    parsing::automaton_chip::{AutomatonChip, AutomatonConfig, NB_AUTOMATA_COLS},
    types::{AssignedByte, ComposableChip},
};
use midnight_curves::Fq as F;
use midnight_proofs::{
    circuit::{Layouter, SimpleFloorPlanner, Value},
    plonk::{Circuit, ConstraintSystem, Error},
};

#[derive(Clone, Debug, Default)]
pub struct ParseCircuit {
    pub expr: J,
    pub word: Vec<u8>,
}

type NGf = NativeGadget<F, P2RDecompositionChip<F>, NativeChip<F>>;

impl Circuit<F> for ParseCircuit {
    type Config = (P2RDecompositionConfig, AutomatonConfig<usize, F>);
    type FloorPlanner = SimpleFloorPlanner;
    type Params = J;
    fn without_witnesses(&self) -> Self {
        self.clone()
    }
    fn params(&self) -> J {
        self.expr.clone()
    }
    fn configure_with_params(meta: &mut ConstraintSystem<F>, expr: J) -> Self::Config {
        let nb_advice_cols = std::cmp::max(NB_AUTOMATA_COLS, NB_ARITH_COLS);
        let advice_cols = (0..nb_advice_cols).map(|_| meta.advice_column()).collect::<Vec<_>>();
        let fixed_cols = (0..NB_ARITH_COLS + 4).map(|_| meta.fixed_column()).collect::<Vec<_>>();
        let c = meta.instance_column();
        let i = meta.instance_column();
        let automata = rustc_hash::FxHashMap::from_iter([(0usize, build(&expr).to_automaton())]);
        let native_config = NativeChip::configure(
            meta,
            &(advice_cols[..NB_ARITH_COLS].try_into().unwrap(), fixed_cols[..NB_ARITH_COLS + 4].try_into().unwrap(), [c, i]),
        );
        let automaton_config = AutomatonChip::configure(meta, &(advice_cols[..NB_AUTOMATA_COLS].try_into().unwrap(), automata));
        let pow2range_config = Pow2RangeChip::configure(meta, &advice_cols[1..=4]);
        (P2RDecompositionChip::configure(meta, &(native_config, pow2range_config)), automaton_config)
    }
    fn configure(_meta: &mut ConstraintSystem<F>) -> Self::Config {
        unreachable!()
    }
    fn synthesize(&self, config: Self::Config, mut l: impl Layouter<F>) -> Result<(), Error> {
        let native_chip = <NativeChip<F> as ComposableChip<F>>::new(&config.0.native_config(), &());
        let core = P2RDecompositionChip::new(&config.0, &8);
        let ng: NGf = NativeGadget::new(core.clone(), native_chip);
        let chip = <AutomatonChip<usize, F> as ComposableChip<F>>::new(&config.1, &ng);
        let l = &mut l;
        let bytes: Vec<AssignedByte<F>> = ng.assign_many(l, &self.word.iter().map(|b| Value::known(*b)).collect::<Vec<_>>())?;
        for b in bytes.iter() {
            crate::gad::note('B', 1);
            ng.constrain_as_public_input(l, b)?;
        }
        let markers = chip.parse(l, &0usize, &bytes)?;
        for m in markers.iter() {
            crate::gad::note('n', 1);
            ng.constrain_as_public_input(l, m)?;
        }
        core.load(l)?;
        chip.load(l)
    }
}

fn parse_main(args: &[String]) -> i32 {
    let scen = util::read_ndjson(&args[0]);
    let mut out = util::create(&args[1]);
    writeln!(out, "{}", json!({"ev":"header","prop":"C19","half":"parser","n":scen.len()})).unwrap();
    for sc in scen.iter() {
        let mut k = sc["k"].as_u64().unwrap_or(10) as u32;
        for w in sc["words"].as_array().unwrap() {
            let word: Vec<u8> = w.as_array().unwrap().iter().map(|b| b.as_u64().unwrap() as u8).collect();
            let c = ParseCircuit { expr: sc["lib"].clone(), word: word.clone() };
            let mut r = crate::gad::run_game(&c, k, None);
            // the transition table of a large automaton may not fit: enlarge the circuit (not a verdict)
            while r.status != "sat" && k < 15 && (r.detail.contains("usable_rows") || r.detail.contains("NotEnoughRows")) {
                k += 1;
                r = crate::gad::run_game(&c, k, None);
            }
            let exposed: Vec<u64> = r.exposed.iter().map(|x| {
                let v = crate::gad::nat_of_f(x);
                if v.len() > 4 { u32::MAX as u64 } else { v.iter().enumerate().map(|(i, d)| (*d as u64) << (8 * i)).sum::<u64>() }
            }).collect();
            writeln!(out, "{}", json!({"ev":"Parse","id":sc["id"],"word":word,"status":r.status,"exposed":exposed,"detail":r.detail,"tampered":false})).unwrap();
            // a lying prover on accepted words: every (sampled) advice assignment x fault
            if r.status == "sat" {
                if let Some(faults) = sc["faults"].as_array() {
                    let maxi = sc["max_index"].as_u64().unwrap_or(30) as usize;
                    let stride = (r.nassign / maxi.max(1)).max(1);
                    let mut i = 0;
                    while i < r.nassign {
                        for f in faults {
                            let t = crate::gad::run_game(&c, k, Some((i, crate::gad::fault_of(f.as_str().unwrap()))));
                            let exposed: Vec<u64> = t.exposed.iter().map(|x| {
                                let v = crate::gad::nat_of_f(x);
                                if v.len() > 4 { u32::MAX as u64 } else { v.iter().enumerate().map(|(i, d)| (*d as u64) << (8 * i)).sum::<u64>() }
                            }).collect();
                            writeln!(out, "{}", json!({"ev":"Parse","id":sc["id"],"word":word,"status":t.status,"exposed":exposed,"detail":t.detail,
                                "tampered":true,"tamper":{"i":i,"fault":f}})).unwrap();
                        }
                        i += stride;
                    }
                }
            }
        }
    }
    0
}

// ---------------------------------------------------------------------------
// base64 / base64url decoding (fixed and variable length) through the standard library's chip

use midnight_circuits::{instructions::{base64::Base64VarInstructions, Base64Instructions, VectorInstructions}, types::InnerValue, vec::AssignedVector};
use midnight_zk_stdlib::{MidnightCircuit, Relation, ZkStdLib, ZkStdLibArch};

#[derive(Clone, Debug)]
pub struct B64Rel {
    pub sc: J,
}

thread_local! {
    static B64_VALUE: std::cell::RefCell<Option<Vec<u8>>> = const { std::cell::RefCell::new(None) };
}

impl Relation for B64Rel {
    type Instance = Vec<F>;
    type Witness = ();
    fn format_instance(i: &Vec<F>) -> Result<Vec<F>, Error> {
        Ok(i.clone())
    }
    fn used_chips(&self) -> ZkStdLibArch {
        ZkStdLibArch { base64: true, nr_pow2range_cols: 4, ..ZkStdLibArch::default() }
    }
    fn circuit(&self, s: &ZkStdLib, l: &mut impl Layouter<F>, _i: Value<Vec<F>>, _w: Value<()>) -> Result<(), Error> {
        let input: Vec<u8> = self.sc["input"].as_array().unwrap().iter().map(|b| b.as_u64().unwrap() as u8).collect();
        let url = self.sc["url"].as_bool().unwrap_or(false);
        let padded = self.sc["padded"].as_bool().unwrap_or(true);
        let chip = s.base64();
        if self.sc["var"].as_bool().unwrap_or(false) {
            // variable length: the decoded vector cannot be exposed; its (prover-side) value is captured
            macro_rules! var {
                ($m:expr, $a:expr, $mo:expr, $ao:expr) => {{
                    let v = <_ as Base64VarInstructions<F, $m, $a>>::assign_var_base64(chip, l, Value::known(input.clone()))?;
                    let out: AssignedVector<F, AssignedByte<F>, $mo, $ao> = if url {
                        <_ as Base64VarInstructions<F, $m, $a>>::var_decode_base64url::<$mo, $ao>(chip, l, &v)?
                    } else {
                        <_ as Base64VarInstructions<F, $m, $a>>::var_decode_base64::<$mo, $ao>(chip, l, &v)?
                    };
                    out.value().map(|val| B64_VALUE.with(|c| *c.borrow_mut() = Some(val)));
                    let (st, en) = s.get_limits(l, &out)?;
                    crate::gad::note('n', 1);
                    s.constrain_as_public_input(l, &st)?;
                    crate::gad::note('n', 1);
                    s.constrain_as_public_input(l, &en)?;
                }};
            }
            match (self.sc["m"].as_u64().unwrap_or(32), self.sc["a"].as_u64().unwrap_or(4)) {
                (32, 4) => var!(32, 4, 24, 3),
                (32, 8) => var!(32, 8, 24, 6),
                (64, 4) => var!(64, 4, 48, 3),
                _ => var!(64, 16, 48, 12),
            }
            return Ok(());
        }
        let ab: Vec<AssignedByte<F>> = s.assign_many(l, &input.iter().map(|b| Value::known(*b)).collect::<Vec<_>>())?;
        for b in ab.iter() {
            crate::gad::note('B', 1);
            s.constrain_as_public_input(l, b)?;
        }
        let out = if url { chip.decode_base64url(l, &ab, padded)? } else { chip.decode_base64(l, &ab, padded)? };
        for b in out.iter() {
            crate::gad::note('B', 1);
            s.constrain_as_public_input(l, b)?;
        }
        Ok(())
    }
    fn write_relation<W: std::io::Write>(&self, _w: &mut W) -> std::io::Result<()> {
        Ok(())
    }
    fn read_relation<R: std::io::Read>(_r: &mut R) -> std::io::Result<Self> {
        Ok(B64Rel { sc: J::Null })
    }
}

fn b64_main(args: &[String]) -> i32 {
    let scen = util::read_ndjson(&args[0]);
    let mut out = util::create(&args[1]);
    writeln!(out, "{}", json!({"ev":"header","prop":"C19","half":"base64","n":scen.len()})).unwrap();
    for sc in scen.iter() {
        let rel = B64Rel { sc: sc.clone() };
        let circuit = MidnightCircuit::new(&rel, Value::known(vec![]), Value::known(()), Some(8));
        let k = sc["k"].as_u64().unwrap_or(13) as u32;
        B64_VALUE.with(|c| *c.borrow_mut() = None);
        let r = crate::gad::run_game(&circuit, k, None);
        let small = |x: &F| {
            let v = crate::gad::nat_of_f(x);
            if v.len() > 4 { u32::MAX as u64 } else { v.iter().enumerate().map(|(i, d)| (*d as u64) << (8 * i)).sum::<u64>() }
        };
        let exposed: Vec<u64> = r.exposed.iter().map(small).collect();
        let value = B64_VALUE.with(|c| c.borrow().clone());
        writeln!(out, "{}", json!({"ev":"B64","input":sc["input"],"url":sc["url"],"padded":sc["padded"],"var":sc["var"].as_bool().unwrap_or(false),
            "m":sc["m"].as_u64().unwrap_or(0),"a":sc["a"].as_u64().unwrap_or(0),"status":r.status,"exposed":exposed,"value":value,"detail":r.detail,"tampered":false})).unwrap();
        if r.status == "sat" {
            if let Some(faults) = sc["faults"].as_array() {
                let maxi = sc["max_index"].as_u64().unwrap_or(20) as usize;
                let stride = (r.nassign / maxi.max(1)).max(1);
                let mut i = 0;
                while i < r.nassign {
                    for f in faults {
                        let t = crate::gad::run_game(&circuit, k, Some((i, crate::gad::fault_of(f.as_str().unwrap()))));
                        writeln!(out, "{}", json!({"ev":"B64","input":sc["input"],"url":sc["url"],"padded":sc["padded"],"var":false,"m":0,"a":0,
                            "status":t.status,"exposed":t.exposed.iter().map(small).collect::<Vec<_>>(),"detail":t.detail,"tampered":true,"tamper":{"i":i,"fault":f}})).unwrap();
                    }
                    i += stride;
                }
            }
        }
    }
    0
}

pub fn main(args: &[String]) -> i32 {
    if args[0] == "parse" {
        return parse_main(&args[1..]);
    }
    if args[0] == "b64" {
        return b64_main(&args[1..]);
    }
    let scen = util::read_ndjson(&args[0]);
    let mut out = util::create(&args[1]);
    writeln!(out, "{}", json!({"ev":"header","prop":"C19","n":scen.len()})).unwrap();
    for sc in scen.iter() {
        let r = catch_unwind(AssertUnwindSafe(|| {
            let re = build(&sc["lib"]);
            let a = re.to_automaton();
            let mut fin: Vec<usize> = a.final_states.iter().copied().collect();
            fin.sort();
            let mut tr: Vec<(usize, u8, usize, usize)> =
                a.transitions.iter().map(|((q, b), (q2, m))| (*q, *b, *q2, *m)).collect();
            tr.sort();
            (a.nb_states, a.initial_state, fin, tr)
        }));
        match r {
            Ok((n, init, fin, tr)) => {
                // keep only transitions on the representative letters
                let letters: Vec<u64> = sc["letters"].as_array().unwrap().iter().map(|x| x.as_u64().unwrap()).collect();
                let trj: Vec<J> = tr.iter().filter(|t| letters.contains(&(t.1 as u64))).map(|t| json!([t.0, t.1, t.2, t.3])).collect();
                writeln!(out, "{}", json!({"ev":"Automaton","id":sc["id"],"res":"ok","nb_states":n,"initial":init,
                    "finals":fin,"trans":trj,"ntrans_total":tr.len()})).unwrap();
            }
            Err(p) => {
                writeln!(out, "{}", json!({"ev":"Automaton","id":sc["id"],"res":"panic","detail":panic_msg(p)})).unwrap();
            }
        }
    }
    0
}
