//! Hook-free fault injection: a wrapper circuit whose floor planner interposes
//! an `Assignment` that replaces the value of one absolute advice cell and can
//! assign extra (otherwise unused) cells. Works for any circuit, for
//! `MockProver`, key generation and the real prover alike.

use std::{cell::RefCell, marker::PhantomData};

use ff::Field;
use midnight_proofs::{
    circuit::{layouter::SyncDeps, Layouter, Value},
    plonk::{
        Advice, Any, Assignment, Challenge, Circuit, Column, ConstraintSystem, Error, Fixed,
        FloorPlanner, Instance, Selector,
    },
    utils::rational::Rational,
};

#[derive(Clone, Debug, Default)]
pub struct FaultPlan {
    /// (advice column index, absolute row, kind): kind "plus1" | "zero" | "plus3"
    pub target: Option<(usize, usize, String)>,
    /// (advice column index, absolute row, value): set after synthesis
    /// (cells not assigned by the circuit)
    pub extra: Vec<(usize, usize, u64)>,
}

thread_local! {
    pub static PLAN: RefCell<FaultPlan> = RefCell::new(FaultPlan::default());
    /// (column index, row) of every advice assignment seen (last synthesis)
    pub static ASSIGNED: RefCell<Vec<(usize, usize)>> = const { RefCell::new(Vec::new()) };
}

pub fn set_plan(p: FaultPlan) {
    PLAN.with(|x| *x.borrow_mut() = p);
}
pub fn clear_plan() {
    set_plan(FaultPlan::default());
}
pub fn assigned_cells() -> Vec<(usize, usize)> {
    ASSIGNED.with(|a| a.borrow().clone())
}

#[derive(Clone, Debug, Default)]
pub struct Faulted<C>(pub C);

pub struct FaultPlanner<P>(PhantomData<P>);

impl<F: Field, C: Circuit<F>> Circuit<F> for Faulted<C> {
    type Config = C::Config;
    type FloorPlanner = FaultPlanner<C::FloorPlanner>;
    type Params = C::Params;
    fn without_witnesses(&self) -> Self {
        Faulted(self.0.without_witnesses())
    }
    fn params(&self) -> Self::Params {
        self.0.params()
    }
    fn configure_with_params(meta: &mut ConstraintSystem<F>, p: Self::Params) -> Self::Config {
        C::configure_with_params(meta, p)
    }
    fn configure(meta: &mut ConstraintSystem<F>) -> Self::Config {
        C::configure(meta)
    }
    fn synthesize(&self, config: Self::Config, layouter: impl Layouter<F>) -> Result<(), Error> {
        self.0.synthesize(config, layouter)
    }
}

struct FaultAssign<'a, F: Field, CS: Assignment<F>> {
    inner: &'a mut CS,
    plan: FaultPlan,
    cols: Vec<Option<Column<Advice>>>,
    seen: Vec<(usize, usize)>,
    _m: PhantomData<F>,
}

pub fn small<F: Field>(n: u64) -> F {
    let mut acc = F::ZERO;
    for i in (0..64).rev() {
        acc = acc.double();
        if (n >> i) & 1 == 1 {
            acc += F::ONE;
        }
    }
    acc
}

fn apply<F: Field>(kind: &str, v: F) -> F {
    match kind {
        "plus1" => v + F::ONE,
        "zero" => {
            if bool::from(v.is_zero()) {
                small::<F>(7)
            } else {
                F::ZERO
            }
        }
        _ => v + small::<F>(3),
    }
}

impl<F: Field, CS: Assignment<F>> Assignment<F> for FaultAssign<'_, F, CS> {
    fn enter_region<NR, N>(&mut self, name_fn: N)
    where
        NR: Into<String>,
        N: FnOnce() -> NR,
    {
        self.inner.enter_region(name_fn)
    }
    fn annotate_column<A, AR>(&mut self, annotation: A, column: Column<Any>)
    where
        A: FnOnce() -> AR,
        AR: Into<String>,
    {
        self.inner.annotate_column(annotation, column)
    }
    fn exit_region(&mut self) {
        self.inner.exit_region()
    }
    fn enable_selector<A, AR>(&mut self, a: A, s: &Selector, row: usize) -> Result<(), Error>
    where
        A: FnOnce() -> AR,
        AR: Into<String>,
    {
        self.inner.enable_selector(a, s, row)
    }
    fn query_instance(&self, column: Column<Instance>, row: usize) -> Result<Value<F>, Error> {
        self.inner.query_instance(column, row)
    }
    fn assign_advice<V, VR, A, AR>(
        &mut self,
        annotation: A,
        column: Column<Advice>,
        row: usize,
        to: V,
    ) -> Result<(), Error>
    where
        V: FnOnce() -> Value<VR>,
        VR: Into<Rational<F>>,
        A: FnOnce() -> AR,
        AR: Into<String>,
    {
        let ci = column.index();
        if self.cols.len() <= ci {
            self.cols.resize(ci + 1, None);
        }
        self.cols[ci] = Some(column);
        self.seen.push((ci, row));
        match &self.plan.target {
            Some((c, r, kind)) if *c == ci && *r == row => {
                let kind = kind.clone();
                self.inner.assign_advice(annotation, column, row, || {
                    to().into_field().evaluate().map(|v| apply(&kind, v))
                })
            }
            _ => self.inner.assign_advice(annotation, column, row, to),
        }
    }
    fn assign_fixed<V, VR, A, AR>(
        &mut self,
        annotation: A,
        column: Column<Fixed>,
        row: usize,
        to: V,
    ) -> Result<(), Error>
    where
        V: FnOnce() -> Value<VR>,
        VR: Into<Rational<F>>,
        A: FnOnce() -> AR,
        AR: Into<String>,
    {
        self.inner.assign_fixed(annotation, column, row, to)
    }
    fn copy(
        &mut self,
        lc: Column<Any>,
        lr: usize,
        rc: Column<Any>,
        rr: usize,
    ) -> Result<(), Error> {
        self.inner.copy(lc, lr, rc, rr)
    }
    fn fill_from_row(
        &mut self,
        column: Column<Fixed>,
        row: usize,
        to: Value<Rational<F>>,
    ) -> Result<(), Error> {
        self.inner.fill_from_row(column, row, to)
    }
    fn get_challenge(&self, challenge: Challenge) -> Value<F> {
        self.inner.get_challenge(challenge)
    }
    fn push_namespace<NR, N>(&mut self, name_fn: N)
    where
        NR: Into<String>,
        N: FnOnce() -> NR,
    {
        self.inner.push_namespace(name_fn)
    }
    fn pop_namespace(&mut self, gadget_name: Option<String>) {
        self.inner.pop_namespace(gadget_name)
    }
}

impl<P: FloorPlanner> FloorPlanner for FaultPlanner<P> {
    fn synthesize<F: Field, CS: Assignment<F> + SyncDeps, C: Circuit<F>>(
        cs: &mut CS,
        circuit: &C,
        config: C::Config,
        constants: Vec<Column<Fixed>>,
    ) -> Result<(), Error> {
        let plan = PLAN.with(|p| p.borrow().clone());
        let mut w = FaultAssign { inner: cs, plan: plan.clone(), cols: vec![], seen: vec![], _m: PhantomData };
        P::synthesize(&mut w, circuit, config, constants)?;
        for (c, r, v) in plan.extra.iter() {
            if let Some(Some(col)) = w.cols.get(*c) {
                let col = *col;
                w.inner.enter_region(|| "extra");
                w.inner.assign_advice(|| "extra", col, *r, || Value::known(small::<F>(*v)))?;
                w.inner.exit_region();
            }
        }
        let seen = std::mem::take(&mut w.seen);
        ASSIGNED.with(|a| *a.borrow_mut() = seen);
        Ok(())
    }
}
