"""C11 - curve types implement the group law; encodings are canonical and checked.

The driver calls midnight-curves on BLS12-381 G1, secp256k1, Jubjub (extended,
affine, prime-subgroup forms), Curve25519 and BN254 G1: addition and
subtraction in every mix of representations and operator forms (binary, by
reference, assigning), doubling, negation, equality, summation, scalar
multiplication (projective, affine, assigning) over the scalar classes, batch
normalisation with and without the identity, conversions, Jacobian coordinate
accessors and constructors, and the encodings (round trip, affine = projective
bytes, single-bit corruptions through checked and unchecked decoders); operands
from {identity, G, small multiples, P = Q, P = -Q}.  Every call is logged with
arguments and result as affine coordinates; CurveLib_Trace recomputes each
result with the group law of Curve.tla (whose constants are checked in-model
and against the code's) and checks the encoding laws."""
import json
import os

import vlib
from vlib import log

CURVES = ["bls12_381_g1", "secp256k1", "jubjub", "curve25519", "bn256_g1", "bls12_381_g2", "bn256_g2"]


def rel(e):
    ins = e["ins"]
    if len(ins) == 2:
        a, b = ins
        if a["id"] or b["id"] or (a["x"] == [] and a["y"] == [1]) or (b["x"] == [] and b["y"] == [1]):
            return "with_identity"
        if a == b:
            return "P=Q"
        if a["x"] == b["x"] or a["y"] == b["y"]:
            return "P=-Q"
        return "distinct"
    return "identity" if ins and (ins[0]["id"] or (ins[0]["x"] == [] and ins[0]["y"] == [1])) else "point"


def run(tier):
    rep = vlib.Report("C11", tier, "exploration")
    wd = vlib.workdir("C11")
    jobs = [["c11", os.path.join(wd, f"trace_{c}.ndjson"), c] + (["deep"] if tier == "thorough" else []) for c in CURVES]
    vlib.run_vh_parallel(jobs, timeout=3600)
    row_sets = []
    for j in jobs:
        rows = vlib.read_ndjson(j[1])
        head = [r for r in rows if r["ev"] != "G"]
        gs = [r for r in rows if r["ev"] == "G"]
        # split into chunks so that validation runs in parallel
        n = 4 if tier == "quick" else 12
        for i in range(n):
            part = gs[i::n]
            if part:
                row_sets.append(head + part)
    allg = [r for rows in row_sets for r in rows if r["ev"] == "G"]
    good, rejected, st = vlib.validate_many(row_sets, "CurveLib_Trace.tla", "CurveLib_Trace.cfg", "C11", "cl",
                                            max_rejects=10, start_ev="G")
    for run_rows, line, e in rejected:
        key = {"curve": e["curve"], "op": e["op"], "rel": rel(e), "status": e["status"][:5]}
        rep.violation(key, f"{e['curve']} {e['op']} ({rel(e)}) status={e['status']} scalars={e['scalars'][:1]} out={json.dumps(e['out'])[:160]}",
                      {"event": e})
    if not good and not rejected:
        raise vlib.ToolError("vacuity: nothing validated")
    # binding demonstration
    demo = next((dict(e) for e in allg if e["op"] == "add" and e["status"] == "ok" and not e["out"]["id"]), None)
    if demo:
        head = [r for r in row_sets[0] if r["ev"] != "G"]
        demo["out"] = dict(demo["out"])
        demo["out"]["x"] = [(demo["out"]["x"][0] if demo["out"]["x"] else 0) ^ 1] + list(demo["out"]["x"][1:])
        tp = os.path.join(wd, "binding_demo.ndjson")
        vlib.write_ndjson(tp, head + [demo])
        acc, _, _ = vlib.validate_trace(tp, "CurveLib_Trace.tla", "CurveLib_Trace.cfg", "C11")
        if acc:
            raise vlib.ToolError("binding demonstration failed: a corrupted result coordinate was accepted")
    by = {}
    for e in allg:
        by[(e["curve"], e["op"])] = by.get((e["curve"], e["op"]), 0) + 1
    rep.coverage.update({
        "states": len(allg), "transitions": len(allg),
        "traces_validated_against_impl": len(good),
        "calls": len(allg), "by_curve_op": {"/".join(k): v for k, v in sorted(by.items())},
        "corruptions": sum(1 for e in allg if e["op"] == "codec_corrupt"),
        "corruptions_accepted": sum(1 for e in allg if e["op"] == "codec_corrupt" and e["status"] == "ok" and e["out"]["accepted"]),
        "evaluations": len(allg),
        "distinct_nontrivial": len(set((e["curve"], e["op"], rel(e)) for e in allg)),
        "rule": "CurveLib_Trace!GOK: result = group law of Curve.tla on the logged arguments; encoding laws",
        "samples": [{k: allg[0][k] for k in ("curve", "op", "status")}],
        "binding_demo_rejected": bool(demo),
        "exhaustive": False,
    })
    rep.assumptions += ["affine coordinates are read through the library's own coordinate accessors (to_affine / coordinates)",
                        "G2 of both pairing curves is judged by the group law over Fp2 of Tower.tla; Jubjub points of order 2, 4, 8 (and sums with subgroup points) are covered; BLS12-381 / BN254 points outside the subgroup are not",
                        "byte formats are not modelled: encodings are judged by laws (round trip, canonical re-encoding, membership)"]
    return rep.finish()


def replay(path):
    d = json.load(open(path))
    e = d["replay"]["event"]
    wd = vlib.workdir("C11")
    tp = os.path.join(wd, "replay_trace.ndjson")
    vlib.run_vh(["c11", tp, e["curve"]])
    rows = vlib.read_ndjson(tp)
    head = [r for r in rows if r["ev"] != "G"]
    same = [r for r in rows if r["ev"] == "G" and r["op"] == e["op"] and r["ins"] == e["ins"] and r["scalars"] == e["scalars"]]
    good, rejected, _ = vlib.validate_runs(head + same, "CurveLib_Trace.tla", "CurveLib_Trace.cfg", "C11", "replay", start_ev="G")
    if rejected:
        log(f"VIOLATION property=C11 replay={path}")
        return 1
    log("replay: accepted (violation not reproduced)")
    return 0
