"""C14 - KZG multi-opening: correct openings verify, any wrong claim is rejected.

TLC enumerates ALL query lists (every assignment of a non-empty point subset to
each of <= MaxPoly polynomials over 3 points, four list orders) x every single
corruption (KzgMultiOpen), checks completeness / soundness / duplicate refusal
in the idealised model and prints each as a replay scenario.  The harness
executes every scenario through the public API (commit, multi_open,
multi_prepare, VerifierQuery::{new, from_parts}) with variants (random, zero and
constant polynomials, identical polynomials behind distinct references, chopped
commitments with 2..4 pieces, k = 2..7); Kzg_Trace recomputes verdict and
point-set count from each logged scenario and consumes the line only if the
code's outcome equals it."""
import json
import os
import random

import vlib
from vlib import log


def run(tier):
    rep = vlib.Report("C14", tier, "model_checking")
    wd = vlib.workdir("C14")
    rng = random.Random(vlib.seed())
    mc = vlib.run_tlc("KzgMultiOpen.tla", f"MC_Kzg_{tier}.cfg", "C14", workers=vlib.NCPU,
                      timeout=3000)
    if mc["violated"]:
        raise vlib.ToolError(f"KzgMultiOpen violates {mc['violated']} (model error)")
    vlib.require_tlc_ok(mc, "KzgMultiOpen")
    allsc = vlib.parse_replay_lines(mc["out"])
    log(f"[C14] KzgMultiOpen: {mc['distinct']} distinct states, {len(allsc)} scenarios, {mc['wall']:.0f}s")
    if not allsc:
        raise vlib.ToolError("no scenarios")
    allsc.sort(key=lambda s: json.dumps(s, sort_keys=True))
    if tier == "quick":
        # all honest lists, and a sample of the corruptions of each kind
        honest = [s for s in allsc if s["corrupt"][0] == "none"]
        others = [s for s in allsc if s["corrupt"][0] != "none"]
        pick = honest + rng.sample(others, min(len(others), 6000))
    else:
        pick = allsc
    scen = []
    variants = ["rand", "special", "identical", "chopped2", "chopped3", "chopped4", "twin2", "twin3"]
    for i, s in enumerate(pick):
        c = s["corrupt"]
        v = "rand"
        if c[0] in ("none", "eval") and i % 2 == 1:
            v = variants[(i // 2) % len(variants)]
            nref = max(q[0] for q in s["pql"])
            if v == "identical" and nref < 2:
                v = "special"
        scen.append({"pql": s["pql"], "corrupt": c, "k": 2 + i % 6, "variant": v,
                     "seed": rng.randrange(1 << 30)})
    # sampled larger lists (outside the exhaustive bound): up to 12 polynomials x 5 points
    nlarge = 200 if tier == "quick" else 3000
    for i in range(nlarge):
        n = rng.randrange(5, 13)
        pql = []
        for r in range(1, n + 1):
            for p in sorted(rng.sample(range(1, 6), rng.randrange(1, 4))):
                pql.append([r, p])
        if i % 3 == 0:
            rng.shuffle(pql)
        kinds = ["none", "eval", "point", "com", "point_used", "com_used", "dup", "pdup", "proof"]
        ck = kinds[i % len(kinds)]
        if ck in ("none", "dup", "pdup"):
            c = [ck]
        elif ck == "proof":
            c = ["proof", ["f", "qeval", "pi"][i % 3]]
        else:
            c = [ck, rng.randrange(1, len(pql) + 1)]
        scen.append({"pql": pql, "corrupt": c, "k": 3 + i % 5, "variant": "rand", "seed": rng.randrange(1 << 30)})
    # a polynomial opened at as many (or more) points as it has coefficients: k = 2 with 4 and 5 points, alone and next to others
    for npts in (4, 5):
        for k in (2, 3):
            one = [[1, p] for p in range(1, npts + 1)]
            two = one + [[2, p] for p in range(1, npts + 1)] + [[3, 1]]
            for pql in (one, two):
                for c in (["none"], ["eval", 1], ["eval", len(pql)], ["proof", "pi"]):
                    for v in ("rand", "special"):
                        if c[0] != "none" and v != "rand":
                            continue
                        scen.append({"pql": pql, "corrupt": c, "k": k, "variant": v, "seed": rng.randrange(1 << 30)})
    chunks = [scen[i::vlib.NCPU] for i in range(vlib.NCPU)]
    jobs = []
    for i, ch in enumerate(chunks):
        if ch:
            sp = os.path.join(wd, f"scen_{i}.ndjson")
            vlib.write_ndjson(sp, ch)
            jobs.append(["c14", sp, os.path.join(wd, f"trace_{i}.ndjson")])
    vlib.run_vh_parallel(jobs, timeout=7200)

    # validate the chunks concurrently (independent single-worker TLC processes);
    # every Kzg line is its own "run"
    row_sets = [vlib.read_ndjson(j[2]) for j in jobs]
    allrows = [r for rows in row_sets for r in rows if r["ev"] == "Kzg"]
    good, rejected, st = vlib.validate_many(row_sets, "Kzg_Trace.tla", "Kzg_Trace.cfg", "C14", "kzg",
                                            max_rejects=3, start_ev="Kzg")
    total_ok = len(good)
    acts = st["actions"]
    nviol = len(rejected)
    for run_rows, line, evt in rejected:
        key = {"corrupt": evt["corrupt"][0], "res": evt["res"], "variant": evt["variant"]}
        rep.violation(key, f"multi-opening outcome differs from the specification: corrupt={evt['corrupt']} "
                           f"variant={evt['variant']} k={evt['k']} res={evt['res']} ({evt['detail']}) "
                           f"nsets_seen={evt['nsets_seen']} pql={evt['pql']}",
                      {"scenario": {k: evt[k] for k in ("pql", "corrupt", "k", "variant", "seed")}, "event": evt})
    if not acts.get("TKzg") and not nviol:
        raise vlib.ToolError("vacuity: no Kzg event validated")
    classes = {}
    for r in allrows:
        k = (r["corrupt"][0], r["variant"], r["res"])
        classes[k] = classes.get(k, 0) + 1
    rep.coverage.update({
        "states": mc["distinct"],
        "transitions": mc["generated"],
        "traces_validated_against_impl": total_ok,
        "scenarios_run": len(scen),
        "exhaustive_lists": len({json.dumps(s["pql"]) for s in allsc}),
        "outcome_classes": {"/".join(k): v for k, v in sorted(classes.items())},
        "trace_actions": acts,
        "exhaustive": tier == "thorough",
        "samples": scen[:2] + [allrows[0]],
    })
    rep.assumptions += ["injective idealisation: distinct (polynomial, point) pairs have distinct values; "
                        "KZG binding / Schwartz-Zippel up to negligible probability"]
    return rep.finish()


def replay(path):
    d = json.load(open(path))
    wd = vlib.workdir("C14")
    sp = os.path.join(wd, "replay_scen.ndjson")
    vlib.write_ndjson(sp, [d["replay"]["scenario"]])
    tp = os.path.join(wd, "replay_trace.ndjson")
    vlib.run_vh(["c14", sp, tp])
    rows = vlib.read_ndjson(tp)
    good, rejected, _ = vlib.validate_runs(rows, "Kzg_Trace.tla", "Kzg_Trace.cfg", "C14", "replay", start_ev="Kzg")
    if rejected:
        log(f"VIOLATION property=C14 replay={path}")
        log(f"  reproduced: {rejected[0][2]}")
        return 1
    log("replay: accepted (violation not reproduced)")
    return 0
