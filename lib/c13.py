"""C13 - the pairing is bilinear, non-degenerate and consistent across entry points.

Pairing.tla models the multi-pairing computation in discrete-logarithm form
(Miller loop consuming one term at a time, identity terms contributing the
neutral element, final exponentiation) and TLC checks bilinearity and
non-degeneracy for every list of pairs over the scalar menu {0, 1, -1 (= r-1), 2}
up to a bound, plus longer lists with identities in every position pattern; a
deliberately wrong variant (stop at the first identity term) is shown to violate
the invariant.  Every explored list is replayed into both engines (BLS12-381,
BN254): product of single pairings, multi_miller_loop + final_exponentiation on
prepared G2 points in both orders, pairing_with from both sides; the logarithm
of each result to the base e(g1, g2) is found by search and Pairing_Trace
requires it to be the specification's.  Target-group values are judged as Fp12
arithmetic (Tower.tla), and the pairing of points given by their coordinates is
compared with the optimal ate pairing written out from first principles
(AtePairing.tla: Miller's algorithm on the twist, untwisting map, full final
exponentiation)."""
import json
import os
import random

import vlib
from vlib import log


def run(tier):
    rep = vlib.Report("C13", tier, "exploration")
    wd = vlib.workdir("C13")
    rng = random.Random(vlib.seed())
    mc = vlib.run_tlc("Pairing.tla", f"MC_Pairing_{tier}.cfg", "C13", workers=4, timeout=1800)
    if mc["violated"]:
        raise vlib.ToolError(f"Pairing violates {mc['violated']} (model error)")
    vlib.require_tlc_ok(mc, "Pairing")
    mut = vlib.run_tlc("Pairing.tla", "MC_Pairing_mutant.cfg", "C13", workers=4, timeout=600)
    if mut["violated"] != "Bilinear":
        raise vlib.ToolError("vacuity: the truncating variant of the Miller loop does not violate Bilinear")
    uniq = {json.dumps(s, sort_keys=True): s for s in vlib.parse_replay_lines(mc["out"])}
    allsc = [uniq[k] for k in sorted(uniq)]
    cap = 600 if tier == "quick" else 10**6
    long = [s for s in allsc if len(s["terms"]) > 3]
    short = [s for s in allsc if len(s["terms"]) <= 3]
    pick = long + (short if len(short) <= cap else rng.sample(short, cap))
    log(f"[C13] Pairing: {mc['distinct']} states, {len(allsc)} lists, {len(pick)} replayed; truncating variant violates Bilinear")
    chunks = [pick[i::vlib.NCPU] for i in range(vlib.NCPU)]
    jobs = []
    for i, ch in enumerate(chunks):
        if ch:
            sp = os.path.join(wd, f"scen_{i}.ndjson")
            vlib.write_ndjson(sp, ch)
            jobs.append(["c13", sp, os.path.join(wd, f"trace_{i}.ndjson")] + ([("gt" if tier == "quick" else "deep")] if i == 0 else []))
    vlib.run_vh_parallel(jobs, timeout=7200)
    rows = []
    for j in jobs:
        rows += [r for r in vlib.read_ndjson(j[2]) if r["ev"] != "header" or not rows]
    pairs = [r for r in rows if r["ev"] == "Pair"]
    gtf = [r for r in rows if r["ev"] == "GtF"]
    ml = [r for r in rows if r["ev"] == "PairML"]
    ppt = [r for r in rows if r["ev"] == "PairPt"]
    rows = [r for r in rows if r["ev"] not in ("GtF", "PairML", "PairPt")]
    # combining Miller-loop results is a recorded open finding for the BN254 engine (known_findings.json): every such event
    # fails the same way, so three of them are validated (and reported as the known finding) and the rest only counted
    kf = json.load(open(os.path.join(vlib.ROOT, "known_findings.json")))["findings"]
    bn_ml_known = any(f["property"] == "C13" and f["status"] == "open" and f.get("key", {}).get("entry") == "ml_add" for f in kf)
    ml_bn = [r for r in ml if r["engine"] == "bn256" and len(r["terms"]) != 1]
    ml_checked = [r for r in ml if not (bn_ml_known and r["engine"] == "bn256" and len(r["terms"]) != 1)] + (ml_bn[:3] if bn_ml_known else [])
    good, rejected, st = vlib.validate_runs(rows, "Pairing_Trace.tla", "Pairing_Trace.cfg", "C13", "pr", max_rejects=12, start_ev="Pair")
    hd = [r for r in rows if r["ev"] == "header"][:1]
    mgood, mrej, _ = vlib.validate_many([hd + ml_checked[i::8] for i in range(8) if ml_checked[i::8]], "Pairing_Trace.tla", "Pairing_Trace.cfg",
                                        "C13", "ml", max_rejects=8, start_ev="PairML")
    for run_rows, line, e in mrej:
        entry = next((k for k in ("ml_add", "ml_add_ref", "ml_assign", "ml_assign_ref") if e[k] != e["expect"]), "expect")
        rep.violation({"engine": e["engine"], "entry": entry, "len": min(len(e["terms"]), 4)},
                      f"{e['engine']} terms={e['terms']} expect={e['expect']}: Miller-loop results combined with + {e['ml_add']} +& {e['ml_add_ref']} "
                      f"+= {e['ml_assign']} +=& {e['ml_assign_ref']} (999999 = not a power of e(G1, G2) within the window)",
                      {"scenario": {"terms": e["terms"], "expect": e["expect"]}, "event": e})
    # the target group as a subgroup of Fp12: every Gt value with its twelve coefficients, judged by Tower.tla
    head = [r for r in rows if r["ev"] == "header"][:1]
    fe = [r for r in gtf if r["op"] == "final_exp"]
    rest = [r for r in gtf if r["op"] != "final_exp"]
    sets = [head + rest[i::12] for i in range(12) if rest[i::12]] + [head + [f] for f in fe]
    ggood, grej, gst = vlib.validate_many(sets, "Pairing_Trace.tla", "Pairing_Trace.cfg", "C13", "gtf", max_rejects=6, start_ev="GtF")
    for run_rows, line, e in grej:
        rep.violation({"engine": e["engine"], "what": "gt_as_fp12", "op": e["op"]},
                      f"{e['engine']} target-group value differs from the Fp12 arithmetic of Tower.tla: op={e['op']} x={json.dumps(e['x'])[:120]}",
                      {"scenario": {"terms": [[1, 1]], "expect": 1}, "event": {k: e[k] for k in ("engine", "op", "x")}})
    if not gtf or not ppt:
        raise vlib.ToolError("vacuity: no target-group value / no pairing of given points recorded")
    # the pairing itself: e(P, Q) for points given by coordinates against the first-principles optimal ate pairing (AtePairing.tla)
    pgood, prej, _ = vlib.validate_many([head + [e] for e in ppt], "Pairing_Trace.tla", "Pairing_Trace.cfg", "C13", "ppt", max_rejects=6,
                                        start_ev="PairPt")
    for run_rows, line, e in prej:
        rep.violation({"engine": e["engine"], "what": "ate_pairing", "identity_argument": e["a"] == 0 or e["b"] == 0},
                      f"{e['engine']} e({e['a']}.G1, {e['b']}.G2) is not the reduced optimal ate pairing of AtePairing.tla (to the engine's fixed power)",
                      {"scenario": {"terms": [[e["a"], e["b"]]], "expect": e["a"] * e["b"]}, "event": {k: e[k] for k in ("engine", "a", "b")}})
    # Gt lines sit between runs: validate_runs treats everything after the first Pair as part of runs, so check them apart
    for run_rows, line, e in rejected:
        if e["ev"] == "Gt":
            rep.violation({"engine": e["engine"], "what": "gt_laws"}, f"{e['engine']} target-group laws: {e}", {"event": e})
            continue
        idpos = [i for i, t in enumerate(e["terms"]) if t[0] == 0 or t[1] == 0]
        key = {"engine": e["engine"], "len": min(len(e["terms"]), 4), "identity_terms": bool(idpos),
               "entry": next((k for k in ("product", "multi", "multi_reversed", "pairing_with_g1", "pairing_with_g2") if e[k] != e["expect"]), "flags")}
        rep.violation(key, f"{e['engine']} terms={e['terms']} expect={e['expect']} product={e['product']} multi={e['multi']} "
                           f"multi_reversed={e['multi_reversed']} with_g1={e['pairing_with_g1']} with_g2={e['pairing_with_g2']}",
                      {"scenario": {"terms": e["terms"], "expect": e["expect"]}, "event": e})
    if not good and not rejected:
        raise vlib.ToolError("vacuity: nothing validated")
    rep.coverage.update({
        "states": mc["distinct"], "transitions": mc["generated"],
        "traces_validated_against_impl": len(good),
        "lists_enumerated": len(allsc), "lists_replayed": len(pick), "events": len(pairs),
        "max_list_length": max(len(s["terms"]) for s in pick),
        "evaluations": len(pairs) * 9 + len(gtf), "target_group_values_judged_as_fp12": len(ggood), "final_exponentiations": len(fe),
        "pairings_judged_against_first_principles_ate_pairing": len(pgood),
        "miller_loop_combinations_judged": len(mgood), "miller_loop_combinations_skipped_as_known_finding": len(ml) - len(ml_checked),
        "distinct_nontrivial": len(set((e["engine"], len(e["terms"]), e["expect"]) for e in pairs)),
        "rule": "Pairing_Trace!PairOK: log of every entry point's result = sum a_i.b_i; single pairing is the identity iff an argument is",
        "samples": [pairs[0]],
        "mutant_detected_in_model": True,
        "exhaustive": tier == "thorough",
    })
    rep.assumptions += ["logarithms are found by search over the library's own Gt group operations (window 80); those operations, the pairing values "
                        "and the final exponentiation (f^(c (p^12 - 1)/r), c = 3 for BLS12-381 / blst and 1 for BN254) are judged as Fp12 "
                        "arithmetic on their coefficients; the pairing of points given by coordinates is compared with the optimal ate pairing written "
                        "out from Miller's algorithm and the untwisting map (AtePairing.tla), to the same power c", "Gt has no byte encoding in the library"]
    return rep.finish()


def replay(path):
    d = json.load(open(path))
    wd = vlib.workdir("C13")
    sp = os.path.join(wd, "replay_scen.ndjson")
    vlib.write_ndjson(sp, [d["replay"]["scenario"]])
    tp = os.path.join(wd, "replay_trace.ndjson")
    vlib.run_vh(["c13", sp, tp, "gt"])
    rows = vlib.read_ndjson(tp)
    # target-group values and pairings of given points (not tied to the list of the scenario) are judged again as well
    hd = [r for r in rows if r["ev"] == "header"][:1]
    extra = [r for r in rows if r["ev"] in ("GtF", "PairPt")]
    rows = [r for r in rows if r["ev"] not in ("GtF", "PairPt")]
    if d.get("key", {}).get("what") in ("gt_as_fp12", "ate_pairing"):
        _, xrej, _ = vlib.validate_many([hd + extra[i::8] for i in range(8) if extra[i::8]], "Pairing_Trace.tla", "Pairing_Trace.cfg", "C13",
                                        "replayx", max_rejects=2, start_ev=("GtF", "PairPt"))
        if xrej:
            log(f"VIOLATION property=C13 replay={path}")
            return 1
    # the open finding about combining BN254 Miller-loop results (known_findings.json) fails for every list of length != 1:
    # unless the replay file is about that finding itself, those events are left out
    kf = json.load(open(os.path.join(vlib.ROOT, "known_findings.json")))["findings"]
    bn_ml_known = any(f["property"] == "C13" and f["status"] == "open" and f.get("key", {}).get("entry") == "ml_add" for f in kf)
    about_known = d.get("key", {}).get("engine") == "bn256" and str(d.get("key", {}).get("entry", "")).startswith("ml_")
    if bn_ml_known and not about_known:
        rows = [r for r in rows if not (r["ev"] == "PairML" and r["engine"] == "bn256" and len(r["terms"]) != 1)]
    good, rejected, _ = vlib.validate_runs(rows, "Pairing_Trace.tla", "Pairing_Trace.cfg", "C13", "replay", start_ev=("Pair", "PairML"))
    if rejected:
        if bn_ml_known and about_known:
            log(f"KNOWN-FINDING: property=C13 reproduced: {d.get('what', '')[:200]}")
            return 0
        log(f"VIOLATION property=C13 replay={path}")
        return 1
    log("replay: accepted (violation not reproduced)")
    return 0
