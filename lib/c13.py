"""C13 - the pairing is bilinear, non-degenerate and consistent across entry points.

Pairing.tla models the multi-pairing computation in discrete-logarithm form
(Miller loop consuming one term at a time, identity terms contributing the
neutral element, final exponentiation) and TLC checks bilinearity and
non-degeneracy for every list of pairs over the scalar menu {0, 1, -1 (= r-1), 2}
up to a bound, plus longer lists with identities in every position pattern; a
deliberately wrong variant (stop at the first identity term) is shown to violate
the invariant.  Every explored list is replayed into both engines (BLS12-381,
BN254): product of single pairings, multi_miller_loop + final_exponentiation on
prepared G2 points in both orders, pairing_with from both sides; the logarithm
of each result to the base e(g1, g2) is found by search and Pairing_Trace
requires it to be the specification's."""
import json
import os
import random

import vlib
from vlib import log


def run(tier):
    rep = vlib.Report("C13", tier, "exploration")
    wd = vlib.workdir("C13")
    rng = random.Random(vlib.seed())
    mc = vlib.run_tlc("Pairing.tla", f"MC_Pairing_{tier}.cfg", "C13", workers=4, timeout=1800)
    if mc["violated"]:
        raise vlib.ToolError(f"Pairing violates {mc['violated']} (model error)")
    vlib.require_tlc_ok(mc, "Pairing")
    mut = vlib.run_tlc("Pairing.tla", "MC_Pairing_mutant.cfg", "C13", workers=4, timeout=600)
    if mut["violated"] != "Bilinear":
        raise vlib.ToolError("vacuity: the truncating variant of the Miller loop does not violate Bilinear")
    uniq = {json.dumps(s, sort_keys=True): s for s in vlib.parse_replay_lines(mc["out"])}
    allsc = [uniq[k] for k in sorted(uniq)]
    cap = 600 if tier == "quick" else 10**6
    long = [s for s in allsc if len(s["terms"]) > 3]
    short = [s for s in allsc if len(s["terms"]) <= 3]
    pick = long + (short if len(short) <= cap else rng.sample(short, cap))
    log(f"[C13] Pairing: {mc['distinct']} states, {len(allsc)} lists, {len(pick)} replayed; truncating variant violates Bilinear")
    chunks = [pick[i::vlib.NCPU] for i in range(vlib.NCPU)]
    jobs = []
    for i, ch in enumerate(chunks):
        if ch:
            sp = os.path.join(wd, f"scen_{i}.ndjson")
            vlib.write_ndjson(sp, ch)
            jobs.append(["c13", sp, os.path.join(wd, f"trace_{i}.ndjson")])
    vlib.run_vh_parallel(jobs, timeout=7200)
    rows = []
    for j in jobs:
        rows += [r for r in vlib.read_ndjson(j[2]) if r["ev"] != "header" or not rows]
    pairs = [r for r in rows if r["ev"] == "Pair"]
    good, rejected, st = vlib.validate_runs(rows, "Pairing_Trace.tla", "Pairing_Trace.cfg", "C13", "pr", max_rejects=12, start_ev="Pair")
    # Gt lines sit between runs: validate_runs treats everything after the first Pair as part of runs, so check them apart
    for run_rows, line, e in rejected:
        if e["ev"] == "Gt":
            rep.violation({"engine": e["engine"], "what": "gt_laws"}, f"{e['engine']} target-group laws: {e}", {"event": e})
            continue
        idpos = [i for i, t in enumerate(e["terms"]) if t[0] == 0 or t[1] == 0]
        key = {"engine": e["engine"], "len": min(len(e["terms"]), 4), "identity_terms": bool(idpos),
               "entry": next((k for k in ("product", "multi", "multi_reversed", "pairing_with_g1", "pairing_with_g2") if e[k] != e["expect"]), "flags")}
        rep.violation(key, f"{e['engine']} terms={e['terms']} expect={e['expect']} product={e['product']} multi={e['multi']} "
                           f"multi_reversed={e['multi_reversed']} with_g1={e['pairing_with_g1']} with_g2={e['pairing_with_g2']}",
                      {"scenario": {"terms": e["terms"], "expect": e["expect"]}, "event": e})
    if not good and not rejected:
        raise vlib.ToolError("vacuity: nothing validated")
    rep.coverage.update({
        "states": mc["distinct"], "transitions": mc["generated"],
        "traces_validated_against_impl": len(good),
        "lists_enumerated": len(allsc), "lists_replayed": len(pick), "events": len(pairs),
        "max_list_length": max(len(s["terms"]) for s in pick),
        "evaluations": len(pairs) * 5,
        "distinct_nontrivial": len(set((e["engine"], len(e["terms"]), e["expect"]) for e in pairs)),
        "rule": "Pairing_Trace!PairOK: log of every entry point's result = sum a_i.b_i; single pairing is the identity iff an argument is",
        "samples": [pairs[0]],
        "mutant_detected_in_model": True,
        "exhaustive": tier == "thorough",
    })
    rep.assumptions += ["logarithms are found by search over the library's own Gt group operations (window 80); Miller-loop and "
                        "final-exponentiation numerics are not re-derived", "scalars limited to {0, 1, r-1, 2}; Gt encoding not covered"]
    return rep.finish()


def replay(path):
    d = json.load(open(path))
    wd = vlib.workdir("C13")
    sp = os.path.join(wd, "replay_scen.ndjson")
    vlib.write_ndjson(sp, [d["replay"]["scenario"]])
    tp = os.path.join(wd, "replay_trace.ndjson")
    vlib.run_vh(["c13", sp, tp])
    rows = vlib.read_ndjson(tp)
    good, rejected, _ = vlib.validate_runs(rows, "Pairing_Trace.tla", "Pairing_Trace.cfg", "C13", "replay", start_ev="Pair")
    if rejected:
        log(f"VIOLATION property=C13 replay={path}")
        return 1
    log("replay: accepted (violation not reproduced)")
    return 0
