"""C08 - off-circuit public-input encoding is exactly what the circuit binds.

PublicInputs.tla defines Encode / Decode for every exposable type (bit, byte,
native, emulated elements, big integers, Jubjub points and scalars, foreign
points) over BigNat and Curve; MC_PublicInputs checks on menus of boundary
values that Decode(Encode(v)) = v and that no two values share an encoding, and
prints the items.  The driver builds standard-library relations exposing them
(alone, through both exposure paths, and in mixed lists of 0..40 items), and
records: the off-circuit encoder's vector per item, the vector the circuit
itself binds (from its copy constraints), satisfiability with the encoder's
vector and with single-position edits of it, and - for a subset - the number of
public inputs stored in the verifying key and the verdicts of the real verify
on right / shorter / longer / edited vectors.  PubIn_Trace requires: encoder =
Encode(value), exposure = encoder's vector, every edit rejected, vk count =
total length, verify accepts exactly the right vector."""
import json
import os
import random

import vlib
from vlib import log

POINTS = {"jub_point", "secp_point", "bls_point"}


def to_item(it, path):
    d = {"ty": it["ty"], "path": path, "nbits": it["nbits"]}
    d["val"] = it["dlog"] if it["isdlog"] else it["val"]
    return d


def diagnose(e):
    if e["status"] != "sat":
        return "honest_" + e["status"]
    flat = [x for enc in e["encs"] for x in enc]
    if e["exposed"] != flat:
        return "exposure_differs_from_encoder"
    if e["status_enc"] != "sat":
        return "encoder_vector_rejected"
    if any(x["status"] == "sat" for x in e["edits"]):
        return "edit_accepted"
    k = e.get("keys")
    if k:
        if k["vk_nb"] != len(flat):
            return "vk_count"
        if k["verify"] != "ok":
            return "verify_rejects"
        if "ok" in (k["verify_shorter"], k["verify_longer"], k["verify_edited"]):
            return "verify_accepts_wrong_vector"
    return "encoder_differs_from_spec"


def run(tier):
    rep = vlib.Report("C08", tier, "fault_enumeration")
    wd = vlib.workdir("C08")
    rng = random.Random(vlib.seed())
    mc = vlib.run_tlc("MC_PublicInputs.tla", "MC_PublicInputs.cfg", "C08", workers=4, timeout=900)
    if mc["violated"]:
        raise vlib.ToolError(f"MC_PublicInputs violates {mc['violated']} (model error)")
    vlib.require_tlc_ok(mc, "MC_PublicInputs")
    items = {json.dumps(s, sort_keys=True): s for s in vlib.parse_replay_lines(mc["out"])}
    items = [items[k] for k in sorted(items)]
    log(f"[C08] MC_PublicInputs: {len(items)} items, round trip and injectivity hold")
    scen = []
    dom_items = [it for it in items if it["ty"] == "big_dom"]
    items = [it for it in items if it["ty"] != "big_dom"]
    for it in dom_items:
        scen.append({"encdom": True, "nbits": it["nbits"], "val": it["val"]})
    for it in items:
        if it["ty"] == "big":
            scen.append({"encdom": True, "nbits": it["nbits"], "val": it["val"]})
        for path in ("constrain", "assign"):
            if it["ty"] == "big" and path == "assign":
                continue
            scen.append({"items": [to_item(it, path)], "max_edits": 16})
        via = {"secp_n": ["sum", "neg"], "secp_p": ["sum", "neg"], "bls_p": ["sum", "neg"],
               "jub_point": ["add"], "secp_point": ["add"], "bls_point": ["add"]}.get(it["ty"], [])
        for v in via:
            d = to_item(it, "constrain")
            d["via"] = v
            scen.append({"items": [d], "max_edits": 16})
    scen.append({"items": [], "keys": True})
    nmixed = 8 if tier == "quick" else 60
    nkeys = 3 if tier == "quick" else 16
    for i in range(nmixed):
        n = rng.choice([1, 2, 3, 5, 8, 13, 21, 40]) if i else 40
        pick = [to_item(rng.choice(items), rng.choice(["constrain", "assign"])) for _ in range(n)]
        for p in pick:
            if p["ty"] == "big":
                p["path"] = "constrain"
            if p["ty"] in ("secp_n", "secp_p", "bls_p") and rng.random() < 0.4:
                p["path"], p["via"] = "constrain", rng.choice(["sum", "neg"])
            if p["ty"] in POINTS and rng.random() < 0.3:
                p["path"], p["via"] = "constrain", "add"
        scen.append({"items": pick, "keys": i < nkeys, "max_edits": 24, "offset": rng.randrange(0, 100)})
    # accumulators: the number of fixed / permutation commitments decides whether the canonical name order
    # (index order) is also the lexicographic one (it is not from 11 commitments on); every order of the names
    acc_shapes = [(3, 2, "canonical"), (11, 4, "canonical"), (10, 10, "canonical"), (3, 12, "canonical"), (4, 3, "reversed"), (12, 11, "shuffled")]
    if tier != "quick":
        acc_shapes += [(nf, np_, o) for nf in (1, 9, 10, 11, 25) for np_ in (1, 10, 11, 12) for o in ("canonical", "shuffled")][:24]
    for i, (nf, np_, o) in enumerate(acc_shapes):
        scen.append({"acc": True, "nfixed": nf, "nperm": np_, "order": o, "lhs_fixed": i % 3 == 2, "lhs_len": 1 + i % 3, "rhs_len": 1 + (i + 1) % 3,
                     "seed": rng.randrange(1, 1000), "max_edits": 10, "offset": rng.randrange(0, 50)})
    # plain and committed public inputs side by side (the committed column carries its own count)
    for np_, nc in ([(2, 1), (0, 2), (3, 3)] if tier == "quick" else [(a, b) for a in (0, 1, 3, 8) for b in (0, 1, 2, 5)]):
        scen.append({"committed": True, "np": np_, "nc": nc, "seed": rng.randrange(1, 1000)})
    # circuits of the generated family whose gates read a plain instance column at a non-zero rotation (real prover / verifier)
    for r in ([1, -1, 2] if tier == "quick" else [1, -1, 2, -2, 3]):
        for il in ([3] if tier == "quick" else [2, 3, 5]):
            shape = {"k": 5, "adv": [3], "chal": [0], "unblinded": 0, "inst": 1, "committed": 0, "inst_lens": [il], "deg": 3,
                     "lookups": 0, "lookup_any": 0, "trash": 0, "perm": 1, "seed": rng.randrange(1 << 30), "ops": 4, "inst_rot": r,
                     "inst_copy": False}
            scen.append({"instrot": True, "shape": shape, "seed": rng.randrange(1, 1000)})
    rng.shuffle(scen)
    chunks = [scen[i::vlib.NCPU] for i in range(vlib.NCPU)]
    jobs = []
    for i, ch in enumerate(chunks):
        if ch:
            sp = os.path.join(wd, f"scen_{i}.ndjson")
            vlib.write_ndjson(sp, ch)
            jobs.append(["c08", sp, os.path.join(wd, f"trace_{i}.ndjson")])
    vlib.run_vh_parallel(jobs, timeout=14400)
    row_sets = [vlib.read_ndjson(j[2]) for j in jobs]
    pubs = [r for rows in row_sets for r in rows if r["ev"] == "Pub"]
    good, rejected, st = vlib.validate_many(row_sets, "PubIn_Trace.tla", "PubIn_Trace.cfg", "C08", "pub",
                                            max_rejects=8, start_ev=("Pub", "Acc", "PubC", "EncDom", "PubRot"))
    for run_rows, line, e in [x for x in rejected if x[2]["ev"] == "PubC"]:
        rep.violation({"clause": "committed_instances", "types": ["native"], "vk_nb_is_plain_count": e["vk_nb"] == e["np"]},
                      f"relation with {e['np']} plain and {e['nc']} committed public inputs: key records {e['vk_nb']}, verify={e['verify']} shorter={e['verify_shorter']} "
                      f"longer={e['verify_longer']} padded={e['verify_padded']} other_commitment={e['verify_other_commitment']} none={e['verify_no_commitment']}",
                      {"scenario": {"committed": True, "np": e["np"], "nc": e["nc"]}})
    rejected = [x for x in rejected if x[2]["ev"] != "PubC"]
    rots = [r for rows in row_sets for r in rows if r["ev"] == "PubRot"]
    if not rots:
        raise vlib.ToolError("vacuity: no circuit reading the instance column at a rotation was run")
    for run_rows, line, e in [x for x in rejected if x[2]["ev"] == "PubRot"]:
        if "harness_error" in e:
            raise vlib.ToolError(f"harness could not run an instance-rotation scenario: {e}")
        rep.violation({"clause": "instance_rotation", "types": ["native"], "honest_accepted": e["verify"] == "ok"},
                      f"circuit reading its instance column at rotation {e['rot']} (lengths {e['lens']}): mock={e['mock']} verify={e['verify']} "
                      f"edits={[x['res'] for x in e['edits']]} shorter={e['shorter']} longer={e['longer']} rotated={e['rotated']}",
                      {"scenario": next(s for s in scen if s.get("instrot") and s["shape"]["inst_rot"] == e["rot"] and s["shape"]["inst_lens"] == e["lens"][:1])})
    rejected = [x for x in rejected if x[2]["ev"] != "PubRot"]
    doms = [r for rows in row_sets for r in rows if r["ev"] == "EncDom"]
    fit = [vlib.nat_to_int(e["val"]) < 1 << (96 * ((e["nbits"] + 95) // 96)) for e in doms]
    if not any(fit) or all(fit):
        raise vlib.ToolError("vacuity: the encoder-domain runs do not contain both values that fit the limbs and values that do not")
    for run_rows, line, e in [x for x in rejected if x[2]["ev"] == "EncDom"]:
        nl = (e["nbits"] + 95) // 96
        fits = vlib.nat_to_int(e["val"]) < 1 << (96 * nl)
        rep.violation({"clause": "encoder_domain", "types": ["big"], "fits_limbs": fits},
                      f"AssignedBigUint::as_public_input(value of {vlib.nat_to_int(e['val']).bit_length()} bits, nb_bits={e['nbits']}): refused={e['refused']} "
                      f"enc={json.dumps(e['enc'])[:120]} - " + ("differs from the specification's limbs" if fits else
                      "a value that does not fit the limbs was answered with the encoding of another value"),
                      {"scenario": {"encdom": True, "nbits": e["nbits"], "val": e["val"]}})
    rejected = [x for x in rejected if x[2]["ev"] != "EncDom"]
    accs = [r for rows in row_sets for r in rows if r["ev"] == "Acc"]
    for run_rows, line, e in [x for x in rejected if x[2]["ev"] == "Acc"]:
        clause = ("panic" if e["status"] == "panic" else "circuit_binds_other_vector" if e["status"] != "sat" or e["exposed"] != e["offchain"]
                  else "encoder_vector_rejected" if e["status_enc"] != "sat" else "edit_accepted" if any(x["status"] == "sat" for x in e["edits"]) else "encoding_differs_from_spec")
        rep.violation({"clause": clause, "types": ["accumulator"], "names_sorted": e["names_sorted"]},
                      f"accumulator {clause}: nfixed={e['nfixed']} nperm={e['nperm']} order={e['order']} names_sorted={e['names_sorted']} status={e['status']} "
                      f"enc={e['status_enc']} exposed==offchain:{e['exposed'] == e['offchain']} ({e['detail'][:100]})",
                      {"scenario": {"acc": True, "nfixed": e["nfixed"], "nperm": e["nperm"], "order": e["order"]}})
    rejected = [x for x in rejected if x[2]["ev"] == "Pub"]
    for run_rows, line, e in rejected:
        types = sorted(set(i["ty"] for i in e["items"]))
        clause = diagnose(e)
        key = {"clause": clause, "types": types if len(types) <= 2 else ["mixed"],
               "via": sorted(set(i.get("via", "") for i in e["items"]))[-1]}
        rep.violation(key, f"{clause}: items={[(i['ty'], i.get('path')) for i in e['items']][:6]} status={e['status']} "
                           f"enc={e['status_enc']} edits_accepted={[x for x in e['edits'] if x['status'] == 'sat'][:3]} keys={e.get('keys')} ({e['detail'][:100]})",
                      {"scenario": {"items": [{"ty": i["ty"], "path": i.get("path"), "nbits": i.get("nbits", 0)} for i in e["items"]],
                                    "note": "values are in the event"},
                       "event": {k: v for k, v in e.items() if k not in ("exposed",)}})
    if not good and not rejected:
        raise vlib.ToolError("vacuity: no exposure validated")
    # binding demonstration: corrupt one limb of a recorded encoder vector -> must be rejected
    demo = next((dict(e) for e in pubs if e["status"] == "sat" and e["encs"] and len(e["items"]) == 1 and e["items"][0]["ty"] == "secp_p"), None)
    if demo:
        head = [r for r in row_sets[0] if r["ev"] != "Pub"]
        demo["encs"] = [[list(x) for x in enc] for enc in demo["encs"]]
        demo["encs"][0][0] = [(demo["encs"][0][0][0] if demo["encs"][0][0] else 0) ^ 1] + demo["encs"][0][0][1:]
        tp = os.path.join(wd, "binding_demo.ndjson")
        vlib.write_ndjson(tp, head + [demo])
        acc, _, _ = vlib.validate_trace(tp, "PubIn_Trace.tla", "PubIn_Trace.cfg", "C08")
        if acc:
            raise vlib.ToolError("binding demonstration failed: a corrupted encoder vector was accepted by PubIn_Trace")
    nedits = sum(len(e["edits"]) for e in pubs)
    rep.coverage.update({
        "states": mc["distinct"], "transitions": mc["generated"],
        "traces_validated_against_impl": len(good),
        "relations": len(pubs), "accumulators": len(accs), "accumulators_with_unsorted_names": sum(1 for a in accs if not a["names_sorted"]), "items_exposed": sum(len(e["items"]) for e in pubs),
        "edits": nedits, "edits_accepted": sum(1 for e in pubs for x in e["edits"] if x["status"] == "sat"),
        "relations_with_keys": sum(1 for e in pubs if e.get("keys")),
        "instance_rotation_circuits": len(rots), "encoder_domain_runs": len(doms), "encoder_domain_refusals": sum(1 for e in doms if e["refused"]),
        "types": sorted(set(i["ty"] for e in pubs for i in e["items"])),
        "evaluations": nedits + len(pubs),
        "distinct_nontrivial": len(set((i["ty"], i.get("path")) for e in pubs for i in e["items"])),
        "rule": "PubIn_Trace!PubOK: encoder vector = Encode(value); circuit exposure = encoder vector; every single-position "
                "edit {+1, -1, 0/1, +2^64} unsatisfiable; vk count = total length; verify accepts exactly the right vector",
        "samples": [{"items": pubs[0]["items"][:2], "status": pubs[0]["status"], "edits": pubs[0]["edits"][:2]}],
        "binding_demo_rejected": bool(demo),
        "exhaustive": False,
    })
    rep.assumptions += ["satisfiability with a verifier-chosen vector is judged by MockProver; the count stored in the key and "
                        "the verdicts on wrong-length vectors are observed on the real setup_vk / prove / verify",
                        "verifying-key identities, accumulators and IR value types are not covered (see DESIGN.md)"]
    return rep.finish()


def replay(path):
    d = json.load(open(path))
    wd = vlib.workdir("C08")
    if d["replay"].get("scenario", {}).get("acc") or d["replay"].get("scenario", {}).get("committed"):
        sp = os.path.join(wd, "replay_scen.ndjson")
        vlib.write_ndjson(sp, [d["replay"]["scenario"]])
        tp = os.path.join(wd, "replay_trace.ndjson")
        vlib.run_vh(["c08", sp, tp])
        good, rejected, _ = vlib.validate_runs(vlib.read_ndjson(tp), "PubIn_Trace.tla", "PubIn_Trace.cfg", "C08", "replay", start_ev=("Acc", "PubC"))
        if rejected:
            log(f"VIOLATION property=C08 replay={path}")
            return 1
        log("replay: accepted (violation not reproduced)")
        return 0
    if d["replay"].get("scenario", {}).get("instrot"):
        sp = os.path.join(wd, "replay_scen.ndjson")
        vlib.write_ndjson(sp, [d["replay"]["scenario"]])
        tp = os.path.join(wd, "replay_trace.ndjson")
        vlib.run_vh(["c08", sp, tp])
        good, rejected, _ = vlib.validate_runs(vlib.read_ndjson(tp), "PubIn_Trace.tla", "PubIn_Trace.cfg", "C08", "replay", start_ev="PubRot")
        if rejected:
            log(f"VIOLATION property=C08 replay={path}")
            return 1
        log("replay: accepted (violation not reproduced)")
        return 0
    if d["replay"].get("scenario", {}).get("encdom"):
        sp = os.path.join(wd, "replay_scen.ndjson")
        vlib.write_ndjson(sp, [d["replay"]["scenario"]])
        tp = os.path.join(wd, "replay_trace.ndjson")
        vlib.run_vh(["c08", sp, tp])
        good, rejected, _ = vlib.validate_runs(vlib.read_ndjson(tp), "PubIn_Trace.tla", "PubIn_Trace.cfg", "C08", "replay", start_ev="EncDom")
        if rejected:
            log(f"VIOLATION property=C08 replay={path}")
            return 1
        log("replay: accepted (violation not reproduced)")
        return 0
    ev = d["replay"]["event"]
    items = []
    for i in ev["items"]:
        if i["ty"] in POINTS:
            raise vlib.ToolError("replay of point items needs the dlog; re-run the quick check with the same VERIF_SEED")
        items.append({"ty": i["ty"], "path": i.get("path", "constrain"), "via": i.get("via", ""), "nbits": i.get("nbits", 0), "val": i["val"]})
    sp = os.path.join(wd, "replay_scen.ndjson")
    vlib.write_ndjson(sp, [{"items": items, "keys": bool(ev.get("keys"))}])
    tp = os.path.join(wd, "replay_trace.ndjson")
    vlib.run_vh(["c08", sp, tp])
    rows = vlib.read_ndjson(tp)
    good, rejected, _ = vlib.validate_runs(rows, "PubIn_Trace.tla", "PubIn_Trace.cfg", "C08", "replay", start_ev="Pub")
    if rejected:
        log(f"VIOLATION property=C08 replay={path}")
        return 1
    log("replay: accepted (violation not reproduced)")
    return 0
