"""C05 - foreign-field and big-integer gadgets are complete and sound.

ForeignOps.tla gives, over BigNat, the meaning of every FieldChip operation on
the five deployed emulated fields and of every BigUintGadget operation,
together with the public-input encodings of emulated elements (limbs of x-1)
and big integers.  MC_ForeignOps enumerates scenarios (field x operation x
boundary operand classes x chains that leave elements un-normalised; big
integers over widths 1..2048) and checks the encodings on every operand.  The
driver replays them into the real chips on the deployed native field under
MockProver, inputs and outputs exposed as public inputs; what the circuit
itself exposes is extracted from its copy constraints.  Foreign_Trace decides
completeness and soundness of every run - also under tamper plans (hook H1:
one advice assignment replaced consistently; faults +1, -1, 0, +2^j, random)."""
import json
import os
import random
from concurrent.futures import ThreadPoolExecutor

import vlib
from vlib import log

FAMILIES = ["secp_p", "secp_n", "bls_p", "c25519_p", "c25519_l", "big"]
NO_TAMPER = {"pub", "assign_pub"}


def k_of(s):
    if s["fam"] == "big":
        w = max(s["nbits"]) if s["nbits"] else 8
        if s["op"] == "mod_exp":
            return 14 if w > 100 or vlib_int(s["params"][0]) > 100 else 12
        return 15 if w >= 2048 else 14 if w >= 1024 else 12 if w > 200 else 11
    return 11


def vlib_int(nat):
    return sum(d << (8 * i) for i, d in enumerate(nat))


def gen_scenarios(tier, rng):
    def one(f):
        r = vlib.run_tlc("MC_ForeignOps.tla", f"MC_ForeignOps_{f}.cfg", "C05", workers=3, timeout=1200)
        if r["violated"]:
            raise vlib.ToolError(f"MC_ForeignOps[{f}] violates {r['violated']} (model error)")
        vlib.require_tlc_ok(r, f"MC_ForeignOps[{f}]")
        return f, r, vlib.parse_replay_lines(r["out"])
    with ThreadPoolExecutor(max_workers=6) as ex:
        res = list(ex.map(one, FAMILIES))
    return res


def run(tier):
    rep = vlib.Report("C05", tier, "fault_enumeration")
    wd = vlib.workdir("C05")
    rng = random.Random(vlib.seed())
    res = gen_scenarios(tier, rng)
    per_op = 10 if tier == "quick" else 10**6
    ntam = 1 if tier == "quick" else 4
    maxi = 30 if tier == "quick" else 150
    scen = []
    states = gen = 0
    universe = 0
    for f, r, allsc in res:
        states += r["distinct"]
        gen += r["generated"]
        universe += len(allsc)
        allsc.sort(key=lambda s: json.dumps(s, sort_keys=True))
        byop = {}
        for s in allsc:
            byop.setdefault(s["op"], []).append(s)
        for op, lst in sorted(byop.items()):
            pick = lst if len(lst) <= per_op else rng.sample(lst, per_op)
            # boundary class that sampling must not miss: comparisons of big integers with different limb counts whose
            # common low limbs agree (only the high limbs of the wider operand differ)
            if f == "big" and op in ("assert_equal", "is_equal", "lower_than", "sub", "add"):
                def special(s_):
                    if len(s_["ins"]) != 2 or len(s_["nbits"]) != 2:
                        return False
                    la, lb = [(n + 95) // 96 for n in s_["nbits"]]
                    a, b = vlib_int(s_["ins"][0]), vlib_int(s_["ins"][1])
                    m = 1 << (96 * min(la, lb))
                    return la != lb and a != b and a % m == b % m
                extra = [s_ for s_ in lst if special(s_) and s_ not in pick]
                pick = pick + (extra if len(extra) <= 6 else rng.sample(extra, 6))
            # comparisons with a constant: the cases where the value IS the constant (every width, incl. constants whose
            # bit length is a multiple of the limb size)
            if f == "big" and op == "is_equal_to_fixed":
                pick = pick + [s_ for s_ in lst if s_["params"] and s_["params"][0] == s_["ins"][0] and s_ not in pick]
            indom = [s for s in pick if s["dom"] and k_of(s) <= 12]
            tam = set(id(s) for s in rng.sample(indom, min(len(indom), ntam))) if op not in NO_TAMPER else set()
            for s in pick:
                sc = {"fam": s["fam"], "field": s["field"], "op": s["op"], "params": s["params"], "ins": s["ins"],
                      "nbits": s["nbits"], "k": k_of(s)}
                if id(s) in tam:
                    lb = {"secp_p": 64, "secp_n": 64, "c25519_p": 64, "bls_p": 56, "c25519_l": 51}.get(f, 96)
                    sc["faults"] = ["plus1", "minus1", f"pow2_{lb}", "random"] if tier == "thorough" else ["plus1", f"pow2_{lb}", "zero"]
                    sc["max_index"] = maxi
                    sc["spread"] = True
                    sc["offset"] = rng.randrange(0, 1000)
                scen.append(sc)
    log(f"[C05] MC_ForeignOps: {universe} scenarios enumerated, {len(scen)} selected "
        f"({sum(1 for s in scen if 'faults' in s)} with tamper plans)")
    rng.shuffle(scen)
    nchunks = vlib.NCPU
    chunks = [scen[i::nchunks] for i in range(nchunks)]
    jobs = []
    for i, ch in enumerate(chunks):
        if ch:
            sp = os.path.join(wd, f"scen_{i}.ndjson")
            vlib.write_ndjson(sp, ch)
            jobs.append(["c05", "run", sp, os.path.join(wd, f"trace_{i}.ndjson")])
    vlib.run_vh_parallel(jobs, timeout=14400)
    row_sets = [vlib.read_ndjson(j[3]) for j in jobs]
    ops = [r for rows in row_sets for r in rows if r["ev"] == "Op"]
    # binding demonstration: corrupt one exposed output limb of an accepted honest line -> must be rejected
    demo = next((dict(e) for e in ops if not e.get("tamper") and e["status"] == "sat" and e["op"] == "mul" and e["fam"] == "ff"), None)
    good, rejected, st = vlib.validate_many(row_sets, "Foreign_Trace.tla", "Foreign_Trace.cfg", "C05", "ff",
                                            max_rejects=8, start_ev="Op")
    for run_rows, line, e in rejected:
        key = {"fam": e["fam"], "field": e.get("field"), "op": e["op"], "status": e["status"], "tampered": e.get("tamper") is not None}
        rep.violation(key, f"{e['fam']}/{e.get('field')} {e['op']} params={short(e['params'])} ins={short(e['ins'])} nbits={e.get('nbits')} "
                           f"tamper={e.get('tamper')} status={e['status']} ({e['detail']})",
                      {"scenario": {"fam": e["fam"], "field": e.get("field"), "op": e["op"], "params": e["params"], "ins": e["ins"],
                                    "nbits": e.get("nbits"), "k": 12,
                                    "faults": [e["tamper"]["fault"]] if e.get("tamper") else None,
                                    "offset": e["tamper"]["i"] if e.get("tamper") else None,
                                    "stride": 10**9 if e.get("tamper") else None, "max_index": 1 if e.get("tamper") else None},
                       "event": {k: v for k, v in e.items() if k != "exposed"}})
    if not good and not rejected:
        raise vlib.ToolError("vacuity: no operation validated")
    if demo:
        header = [r for r in row_sets[0] if r["ev"] in ("header", "Params")]
        demo["exposed"] = [list(x) for x in demo["exposed"]]
        demo["exposed"][-1] = [(demo["exposed"][-1][0] if demo["exposed"][-1] else 0) ^ 1] + demo["exposed"][-1][1:]
        tp = os.path.join(wd, "binding_demo.ndjson")
        vlib.write_ndjson(tp, header + [demo])
        acc, _, _ = vlib.validate_trace(tp, "Foreign_Trace.tla", "Foreign_Trace.cfg", "C05")
        if acc:
            raise vlib.ToolError("binding demonstration failed: a corrupted output limb was accepted by Foreign_Trace")
    by = {}
    for e in ops:
        k = (e["fam"], "tamper" if e.get("tamper") else "honest", e["status"])
        by[k] = by.get(k, 0) + 1
    rep.coverage.update({
        "states": states, "transitions": gen,
        "scenarios_enumerated": universe,
        "traces_validated_against_impl": len(good),
        "runs": len(ops), "honest_runs": sum(1 for e in ops if not e.get("tamper")),
        "tamper_runs": sum(1 for e in ops if e.get("tamper")),
        "tampered_but_satisfiable": sum(1 for e in ops if e.get("tamper") and e["status"] == "sat"),
        "by_family_kind_status": {"/".join(k): v for k, v in sorted(by.items())},
        "operations": sorted(set((e["fam"] + ":" + e["op"]) for e in ops)),
        "binding_demo_rejected": bool(demo),
        "evaluations": len(ops),
        "distinct_nontrivial": len(set((e["fam"], e.get("field"), e["op"], e["status"], bool(e.get("tamper"))) for e in ops)),
        "rule": "Foreign_Trace: Sound (sat with a typed instance => ins in Dom and outs = Def(ins)), Complete (honest in-domain => sat "
                "with Encode(ins, Def(ins))), Total; every recorded line must be consumed",
        "samples": [{k: ops[0][k] for k in ("fam", "field", "op", "status", "layout")},
                    next(({k: e[k] for k in ("fam", "field", "op", "status", "tamper")} for e in ops if e.get("tamper")), {})],
        "exhaustive": False,
    })
    rep.assumptions += ["satisfiability is judged by MockProver (whose trash-argument blind spot was repaired, see C02)",
                        "single consistent fault per run; faults on field-typed advice assignments only",
                        "BigNat operators are evaluated through the Java override spec/java/tlc2/module/BigNat.java; "
                        "their agreement with the TLA+ definitions is checked by the C10 self-test"]
    return rep.finish()


def short(nats):
    return [hex(vlib_int(n)) if len(hex(vlib_int(n))) < 24 else hex(vlib_int(n))[:12] + ".." + hex(vlib_int(n))[-8:] for n in nats]


def replay(path):
    d = json.load(open(path))
    wd = vlib.workdir("C05")
    sp = os.path.join(wd, "replay_scen.ndjson")
    sc = {k: v for k, v in d["replay"]["scenario"].items() if v is not None}
    vlib.write_ndjson(sp, [sc])
    tp = os.path.join(wd, "replay_trace.ndjson")
    vlib.run_vh(["c05", "run", sp, tp])
    rows = vlib.read_ndjson(tp)
    good, rejected, _ = vlib.validate_runs(rows, "Foreign_Trace.tla", "Foreign_Trace.cfg", "C05", "replay", start_ev="Op")
    if rejected:
        log(f"VIOLATION property=C05 replay={path}")
        return 1
    log("replay: accepted (violation not reproduced)")
    return 0
