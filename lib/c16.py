"""C16 - decoding and verifying untrusted bytes is total: errors, never crashes.

Decode.tla describes the decoders of verifier-facing objects (MidnightVK,
VerifyingKey, verifier parameters, architecture descriptor; formats Processed
and RawBytes) as machines over the REAL field maps the harness extracts from
valid encodings; TLC enumerates every (object, field, class) scenario - all
boundary values of one-byte / count fields, every point-encoding class
(another valid point, identity, non-canonical coordinate, off-curve, outside
the subgroup, flag garbage), truncation at and inside every field, appended
bytes - with the outcome the machine reaches (no crash state exists).  The
harness concretises and runs each scenario against the real decoders and then
verifies a fixed valid proof (and a proof of another circuit) with whatever
decoded, under catch_unwind and with the largest single allocation recorded;
Decode_Trace consumes a line only if the outcome is an allowed VALUE.  On top:
proofs truncated at every 16 bytes / extended / bit-flipped / spliced, and
unstructured flips and splices of every object (expectation: a value)."""
import json
import os
import random

import vlib
from vlib import log


def concretise(s, obj, specials, S, cur):
    """scenario of Decode.tla -> byte edits"""
    e, cls, off, ln, kind = s["edit"], s["class"], s["off"], s["len"], s["kind"]
    if e == "none":
        return []
    if e == "trunc_at":
        return [{"t": "trunc", "n": off}]
    if e == "trunc_in":
        return [{"t": "trunc", "n": off + max(1, ln // 2)}]
    if e == "trunc_empty":
        return [{"t": "trunc", "n": 0}]
    if e == "append1":
        return [{"t": "append", "bytes": "00"}]
    if e == "append48":
        return [{"t": "append", "bytes": specials["g1_P_other"]}]
    curv = int.from_bytes(cur[off:off + ln], "little")
    if kind == "bool":
        return [{"t": "set", "off": off, "bytes": "%02x" % int(cls)}]
    if kind == "u8":
        if cls.startswith("b"):
            v = int(cls[1:])
        else:
            v = {"k0": 0, "k1": 1, "kS1": S + 1, "k29": 29, "k32": 32, "k64": 64, "k255": 255,
                 "kminus1": (curv - 1) % 256, "kplus1": (curv + 1) % 256}[cls]
        return [{"t": "set", "off": off, "bytes": "%02x" % v}]
    if kind == "u32":
        v = {"c0": 0, "cminus1": (curv - 1) % 2**32, "cplus1": (curv + 1) % 2**32, "c2p31": 2**31, "cmax": 2**32 - 1}[cls]
        return [{"t": "set", "off": off, "bytes": v.to_bytes(4, "little").hex()}]
    if kind == "g1":
        key = f"g1_{s['fmt']}_{cls}"
        return [{"t": "set", "off": off, "bytes": specials[key]}]
    if kind == "scalar":
        return [{"t": "set", "off": off, "bytes": specials[f"scalar_{cls}"]}]
    if kind == "g2":
        if cls == "g2other":
            b = specials["g2_P_other"] if s["fmt"] == "P" else None
            if b is None:
                return None
            return [{"t": "set", "off": off, "bytes": b}]
        return [{"t": "set", "off": off, "bytes": ("ff" if cls == "allff" else "00") * ln}]
    return None


def run(tier):
    rep = vlib.Report("C16", tier, "fault_enumeration")
    wd = vlib.workdir("C16")
    rng = random.Random(vlib.seed())
    lay_path = os.path.join(wd, "layout.json")
    vlib.run_vh(["c16", "layout", lay_path])
    lay = json.load(open(lay_path))
    mc = vlib.run_tlc("Decode.tla", "MC_Decode.cfg", "C16", env={"LAYOUT": lay_path}, workers=8, timeout=900)
    if mc["violated"]:
        raise vlib.ToolError(f"Decode violates {mc['violated']} (model error)")
    vlib.require_tlc_ok(mc, "Decode")
    msc = vlib.parse_replay_lines(mc["out"])
    log(f"[C16] Decode: {mc['distinct']} states, {len(msc)} scenarios")
    objs = {(o["obj"], o["fmt"]): o for o in lay["objects"]}
    scen = []
    for s in msc:
        if s["obj"] == "proof_mul":
            continue          # no field map for this one: handled below
        o = objs[(s["obj"], s["fmt"])]
        cur = bytes.fromhex(o["hex"])
        ed = concretise(s, o, lay["specials"], lay["S"], cur)
        if ed is None:
            continue
        exp = s["expect"]
        if s["obj"].startswith("proof") and s["edit"] != "none":
            exp = ["reject", "reject"]   # "decoding" a proof is verifying it: any change must be refused
        if s["obj"] == "arch" and exp == ["ok", "err"]:
            exp = ["value", "value"]   # a different, valid architecture is just another architecture
        scen.append({"obj": s["obj"], "fmt": s["fmt"], "edits": ed, "field": s["field"], "class": s["class"],
                     "kind": s["edit"], "expect": exp})
    # proofs: truncations, extensions, flips, splices: never accepted unless unchanged, never a crash
    nflip = 150 if tier == "quick" else 4000
    for pobj in ("proof_mul", "proof_shape"):
        n = len(objs[(pobj, "P")]["hex"]) // 2
        step = 64 if tier == "quick" else 16
        for cut in list(range(0, n, step)) + [n - 1]:
            scen.append({"obj": pobj, "fmt": "P", "edits": [{"t": "trunc", "n": cut}], "field": "-", "class": f"trunc{cut}",
                         "kind": "proof_trunc", "expect": ["reject", "reject"]})
        for ext in ("00", "ff" * 32, lay["specials"]["g1_P_other"]):
            scen.append({"obj": pobj, "fmt": "P", "edits": [{"t": "append", "bytes": ext}], "field": "-", "class": "append",
                         "kind": "proof_append", "expect": ["reject", "reject"]})
        for _ in range(nflip):
            scen.append({"obj": pobj, "fmt": "P", "edits": [{"t": "flip", "bit": rng.randrange(n * 8)}], "field": "-",
                         "class": "flip", "kind": "proof_flip", "expect": ["reject", "reject"]})
        for _ in range(nflip // 3):
            ln = rng.choice([16, 32, 48])
            scen.append({"obj": pobj, "fmt": "P", "edits": [{"t": "splice", "off": rng.randrange(n - ln),
                                                             "from": rng.randrange(n - ln), "n": ln}],
                         "field": "-", "class": "splice", "kind": "proof_splice", "expect": ["value", "value"]})
    # unstructured mutations of every object, and reads with the other format
    for (name, f), o in objs.items():
        if name.startswith("proof"):
            continue
        n = len(o["hex"]) // 2
        for _ in range(40 if tier == "quick" else 600):
            k = rng.randrange(3)
            if k == 0:
                ed = [{"t": "flip", "bit": rng.randrange(n * 8)}]
            elif k == 1 and n > 64:
                ln = rng.choice([1, 4, 16, 48])
                ed = [{"t": "splice", "off": rng.randrange(n - ln), "from": rng.randrange(n - ln), "n": ln}]
            else:
                ed = [{"t": "flip", "bit": rng.randrange(min(n, 32) * 8)}, {"t": "flip", "bit": rng.randrange(n * 8)}]
            scen.append({"obj": name, "fmt": f, "edits": ed, "field": "-", "class": "unstructured", "kind": "unstructured",
                         "expect": ["value", "value"]})
        other = "R" if f == "P" else "P"
        scen.append({"obj": name, "fmt": f, "rfmt": other, "edits": [], "field": "-", "class": "other_format",
                     "kind": "other_format", "expect": ["value", "value"]})
    rng.shuffle(scen)
    chunks = [scen[i::vlib.NCPU] for i in range(vlib.NCPU)]
    jobs = []
    for i, ch in enumerate(chunks):
        if ch:
            sp = os.path.join(wd, f"scen_{i}.ndjson")
            vlib.write_ndjson(sp, ch)
            jobs.append(["c16", "run", sp, os.path.join(wd, f"trace_{i}.ndjson")])
    # a decoder that aborts or loops kills its harness process: run chunks tolerant of that
    import subprocess
    procs = [(j, subprocess.Popen([vlib.VH] + j, stdout=subprocess.PIPE, stderr=subprocess.PIPE, text=True)) for j in jobs]
    row_sets = []
    for j, p in procs:
        try:
            p.communicate(timeout=3600)
        except subprocess.TimeoutExpired:
            p.kill()
        rows = vlib.read_ndjson(j[3]) if os.path.exists(j[3]) else []
        insc = vlib.read_ndjson(j[2])
        done = [r for r in rows if r.get("ev") == "Decode"]
        for r, s in zip(done, insc):
            r["expect"] = s["expect"]
            r["edits"] = s["edits"]
        if len(done) < len(insc):
            s = insc[len(done)]
            rep.violation({"obj": s["obj"], "field": s["field"], "class": s["class"], "outcome": "abort"},
                          f"harness process died or hung while decoding/using {s['obj']} {s['fmt']} field={s['field']} "
                          f"class={s['class']} (abort, stack overflow, OOM or non-termination)",
                          {"scenario": s})
        row_sets.append([{"ev": "header"}] + done)
    decs = [r for rows in row_sets for r in rows if r.get("ev") == "Decode"]
    good, rejected, st = vlib.validate_many(row_sets, "Decode_Trace.tla", "Decode_Trace.cfg", "C16", "dec",
                                            max_rejects=12, start_ev="Decode")
    for run_rows, line, evt in rejected:
        outc = "panic" if "panic" in (evt["decode"], evt["use"]) else ("alloc" if evt["max_alloc"] > 64 * 1024 * 1024 else "wrong_verdict")
        key = {"obj": evt["obj"].split("_")[0], "field": evt["field"], "class": evt["class"], "outcome": outc}
        rep.violation(key, f"{evt['obj']} {evt['fmt']} field={evt['field']} class={evt['class']} kind={evt['kind']}: "
                           f"decode={evt['decode']} use={evt['use']} max_alloc={evt['max_alloc']} expected={evt['expect']} "
                           f"({evt['detail'][:160]})",
                      {"scenario": {k: evt[k] for k in ("obj", "fmt", "rfmt", "edits", "field", "class", "kind", "expect")}})
    if not st["actions"].get("TDecode") and not rejected:
        raise vlib.ToolError("vacuity: no Decode event validated")
    by = {}
    for d in decs:
        k = (d["obj"], d["kind"], d["decode"], d["use"])
        by[k] = by.get(k, 0) + 1
    distinct = len({json.dumps([d["obj"], d["fmt"], d["field"], d["class"], d["edits"]], sort_keys=True) for d in decs
                    if not d["same"]})
    rep.coverage.update({
        "evaluations": len(decs),
        "distinct_nontrivial": distinct,
        "rule": ("every (object, format, field, class) scenario of Decode.tla over the real field maps + proof "
                 "truncations/extensions/bit flips/splices + unstructured flips and splices of every object + reads with "
                 "the other format; distinct = distinct edited byte strings that differ from the valid encoding"),
        "samples": [scen[0], {k: decs[0][k] for k in ("obj", "field", "class", "decode", "use", "max_alloc")}],
        "model_states": mc["distinct"],
        "model_scenarios": len(msc),
        "traces_validated_against_impl": len(good),
        "outcomes": {"/".join(k): v for k, v in sorted(by.items())},
        "max_single_allocation": max(d["max_alloc"] for d in decs),
    })
    rep.assumptions += ["unstructured mutations are outside the model's grammar: only 'a value, not a crash' is required",
                        "largest single allocation is observed by a counting global allocator in the harness",
                        "proving keys and full prover parameter sets are exercised under C17 only (local artefacts)"]
    return rep.finish()


def replay(path):
    d = json.load(open(path))
    wd = vlib.workdir("C16")
    sp = os.path.join(wd, "replay_scen.ndjson")
    sc = d["replay"]["scenario"]
    vlib.write_ndjson(sp, [sc])
    tp = os.path.join(wd, "replay_trace.ndjson")
    p = vlib.run_vh(["c16", "run", sp, tp], check=False)
    rows = vlib.read_ndjson(tp) if os.path.exists(tp) else []
    done = [r for r in rows if r.get("ev") == "Decode"]
    if not done:
        log(f"VIOLATION property=C16 replay={path}")
        return 1
    done[0]["expect"] = sc["expect"]
    good, rejected, _ = vlib.validate_runs([{"ev": "header"}] + done, "Decode_Trace.tla", "Decode_Trace.cfg", "C16",
                                           "replay", start_ev="Decode")
    if rejected:
        log(f"VIOLATION property=C16 replay={path}")
        return 1
    log("replay: accepted (violation not reproduced)")
    return 0
