"""C20 - recursion and aggregation accept exactly the valid inner proofs (light aggregator half).

Ipa.tla models the inner-product argument over a toy field with group elements
as coordinate vectors over independent bases; TLC explores every scalar vector
and challenge sequence and checks completeness, the folding invariant, and that
a changed final scalar, claimed value or round message is rejected.  Against
the code: valid inner proofs of a standard-library relation over several chip
architectures (different numbers of permutation columns and lookups) are
aggregated through the public API (NB_PROOFS 1, 2, 3) under a recording
transcript; Agg_Trace requires aggregation and verification to succeed, the
verifier to read exactly what the prover wrote with challenges at the same
places, the outer layout (accumulator sides, inner PLONK proof, IPA section) to
be the documented one, every corruption of the plan (each selected element x
bit flips / other valid point / count +-1, truncation, extension), every edited
inner public input to be rejected, and invalid inner proofs never to yield an
accepted aggregate."""
import json
import os
import random

import vlib
from vlib import log


def run(tier):
    rep = vlib.Report("C20", tier, "fault_enumeration")
    wd = vlib.workdir("C20")
    rng = random.Random(vlib.seed())
    mc_stats = []
    for cfg in (["MC_Ipa_quick.cfg", "MC_Ipa_n4.cfg"] if tier == "quick" else ["MC_Ipa_quick.cfg", "MC_Ipa_n4.cfg", "MC_Ipa_thorough.cfg"]):
        r = vlib.run_tlc("Ipa.tla", cfg, "C20", workers=8, timeout=3600)
        if r["violated"]:
            raise vlib.ToolError(f"Ipa violates {r['violated']} under {cfg} (model error)")
        vlib.require_tlc_ok(r, "Ipa")
        mc_stats.append((cfg, r["distinct"], r["generated"]))
    log(f"[C20] Ipa model: {mc_stats}")
    # ("plain": an inner relation without the Poseidon chip, i.e. without any additive-selector argument)
    archs = ["poseidon", "poseidon_sha256", "poseidon_secp256k1", "poseidon_jubjub", "poseidon_jubjub_p3", "agg_test", "plain", "plain_sha256"]
    scen = []
    if tier == "quick":
        # boundary class: the IPA vector (nb x proof bases + fixed bases) is exactly a power of two, so nothing is padded:
        # ("poseidon_jubjub_p3", 1): 31 + 33 = 64; ("agg_test", 2): 2 x 40 + 48 = 128 (the driver logs the lengths)
        plan = [("poseidon", 1), ("poseidon_jubjub_p3", 1), ("agg_test", 2), ("poseidon_sha256", 2), ("poseidon_secp256k1", 3), ("poseidon_jubjub", 3), ("plain", 2)]
        stride = 6
    else:
        plan = [(a, nb) for a in archs for nb in (1, 2, 3)]
        stride = 1
    for a, nb in plan:
        scen.append({"arch": a, "nb": nb, "stride": stride, "offset": rng.randrange(0, stride), "seed": rng.randrange(1, 1000)})
    jobs = []
    for i, sc in enumerate(scen):
        sp = os.path.join(wd, f"scen_{i}.ndjson")
        vlib.write_ndjson(sp, [sc])
        jobs.append(["c20", sp, os.path.join(wd, f"trace_{i}.ndjson")])
    # verifier-gadget half: the repository's own verifier circuit (K = 18) rebuilt from the public API
    gscen = []
    n_pi = 55
    edit_sets = [[0, 54], [20, 37]] if tier == "quick" else [[i, i + 1, i + 2] for i in range(0, n_pi - 2, 3)]
    corrupt_sets = [[-5], [-40, -70]] if tier == "quick" else [[-(5 + 33 * i)] for i in range(len(edit_sets))]
    for i, es in enumerate(edit_sets):
        gscen.append({"seed": rng.randrange(1, 1000), "edit_positions": es, "corrupt_bytes": [c % 100000 for c in corrupt_sets[i % len(corrupt_sets)]]})
    gjobs = []
    for i, sc in enumerate(gscen):
        sp = os.path.join(wd, f"gscen_{i}.ndjson")
        vlib.write_ndjson(sp, [sc])
        gjobs.append(["c20g", sp, os.path.join(wd, f"gtrace_{i}.ndjson")])
    vlib.run_vh_parallel(jobs + gjobs[:8], timeout=6 * 3600)
    for i in range(8, len(gjobs), 6):
        vlib.run_vh_parallel(gjobs[i:i + 6], timeout=6 * 3600)
    good = 0
    allrows = []
    for j, sc in zip(jobs, scen):
        rows = vlib.read_ndjson(j[2])
        allrows += rows
        remaining = list(rows)
        for _ in range(12):
            tp = os.path.join(wd, "val.ndjson")
            vlib.write_ndjson(tp, remaining)
            acc, line, _ = vlib.validate_trace(tp, "Agg_Trace.tla", "Agg_Trace.cfg", "C20", timeout=3600)
            if acc:
                good += len(remaining)
                break
            e = remaining.pop(line - 1)
            key = {"ev": e["ev"], "arch": sc["arch"], "nb": sc["nb"], "kind": e.get("kind"), "how": e.get("how") or e.get("what"),
                   "verdict": (e.get("verdict") or "")[:12]}
            rep.violation(key, f"{sc['arch']} NB={sc['nb']}: {json.dumps({k: v for k, v in e.items() if k not in ('prover', 'verifier')})[:300]}",
                          {"scenario": sc, "event": {k: v for k, v in e.items() if k not in ("prover", "verifier")}})
            if e["ev"] == "Agg":
                break        # nothing else can be judged for this aggregation
    grows = []
    for j, sc in zip(gjobs, gscen):
        rows = vlib.strip_nulls(vlib.read_ndjson(j[2])) if hasattr(vlib, "strip_nulls") else vlib.read_ndjson(j[2])
        grows += rows
        remaining = list(rows)
        for _ in range(12):
            tp = os.path.join(wd, "gval.ndjson")
            vlib.write_ndjson(tp, remaining)
            acc, line, _ = vlib.validate_trace(tp, "Agg_Trace.tla", "Agg_Trace.cfg", "C20", timeout=3600)
            if acc:
                good += len(remaining)
                break
            e = remaining.pop(line - 1)
            rep.violation({"ev": e["ev"], "what": e.get("what") or e.get("case"), "status": (e.get("status") or e.get("in_circuit") or "")[:10]},
                          f"verifier gadget: {json.dumps(e)[:300]}", {"scenario": sc, "event": e, "half": "verifier_gadget"})
    aggs = [r for r in allrows if r["ev"] == "Agg"]
    tam = [r for r in allrows if r["ev"] == "AggTamper"]
    if not aggs:
        raise vlib.ToolError("vacuity: no aggregation recorded")
    rep.coverage.update({
        "states": sum(s[1] for s in mc_stats), "transitions": sum(s[2] for s in mc_stats),
        "traces_validated_against_impl": good,
        "aggregations": [{"arch": a["arch"], "nb": a["nb"], "inner": a["inner"], "verdict": a["verdict"], "proof_len": a.get("proof_len"), "ipa": a.get("ipa"),
                          "elements": sum(1 for e in a["verifier"] if e["op"] == "read")} for a in aggs],
        "corruptions": len(tam), "corruptions_accepted": sum(1 for t in tam if t["verdict"] == "ok" and not (t.get("how") == "append_byte" and t.get("trailing"))),
        "instance_edits": sum(1 for r in allrows if r["ev"] == "AggInstance"),
        "verifier_gadget": {"honest_runs": sum(1 for r in grows if r["ev"] == "Gadget"),
                            "instance_edits": sum(1 for r in grows if r["ev"] == "GadgetEdit"),
                            "corrupted_inputs": sum(1 for r in grows if r["ev"] == "GadgetCorrupt"),
                            "corrupted_still_parsed": sum(1 for r in grows if r["ev"] == "GadgetCorrupt" and r.get("off_parses"))},
        "refusals": [{k: r[k] for k in ("what", "verdict", "then_verify")} for r in allrows if r["ev"] == "AggRefuse"],
        "evaluations": len(tam) + len(aggs),
        "distinct_nontrivial": len(set((t["kind"], t["how"]) for t in tam)) + len(aggs),
        "rule": "Agg_Trace: honest aggregate accepted with prover/verifier transcript agreement and the documented layout; every corruption, "
                "instance edit and invalid inner proof rejected; plan coverage checked",
        "samples": [{k: v for k, v in tam[0].items()}] if tam else [{"note": "no tamper events"}],
        "exhaustive": False,
    })
    rep.assumptions += ["the verifier gadget is exercised on one inner circuit shape (Poseidon, k = 10) with the repository's own verifier circuit; the IVC "
                        "example is not covered; the inner-product argument is a private module and is exercised only as a section of the aggregated proof",
                        "aggregate_proofs refuses some invalid inner proofs by panicking (assertion) rather than returning Err: counted as a refusal",
                        "quick corrupts the first 12 and last 24 elements and every 6th element in between; thorough every element"]
    return rep.finish()


def replay(path):
    d = json.load(open(path))
    wd = vlib.workdir("C20")
    if d["replay"].get("half") == "verifier_gadget":
        sp = os.path.join(wd, "replay_gscen.ndjson")
        vlib.write_ndjson(sp, [d["replay"]["scenario"]])
        tp = os.path.join(wd, "replay_gtrace.ndjson")
        vlib.run_vh(["c20g", sp, tp])
        acc, line, _ = vlib.validate_trace(tp, "Agg_Trace.tla", "Agg_Trace.cfg", "C20")
        if not acc:
            log(f"VIOLATION property=C20 replay={path}")
            return 1
        log("replay: accepted (violation not reproduced)")
        return 0
    sp = os.path.join(wd, "replay_scen.ndjson")
    vlib.write_ndjson(sp, [d["replay"]["scenario"]])
    tp = os.path.join(wd, "replay_trace.ndjson")
    vlib.run_vh(["c20", sp, tp])
    acc, line, _ = vlib.validate_trace(tp, "Agg_Trace.tla", "Agg_Trace.cfg", "C20")
    if not acc:
        log(f"VIOLATION property=C20 replay={path}")
        return 1
    log("replay: accepted (violation not reproduced)")
    return 0
