"""C03 - a proof is accepted only for the exact statement and bytes it was made for.

Model: FiatShamir with one adversarial edit between proving and verifying
(MC_Binding): TLC shows that after ANY single edit of the proof stream, the
statement or the key the verifier does not accept (and why: every element is
absorbed before a later challenge; lengths are absorbed; the key is absorbed).
Binding: honest proofs of TLC-chosen shapes are made with the real prover and
the complete tamper plan the specification derives from the recorded proof
layout is executed against the real verifier; Binding_Trace requires the
model's verdict for every tamper and the completeness of the plan."""
import json
import os
import random

import c01
import vlib
from vlib import log


def run(tier):
    rep = vlib.Report("C03", tier, "fault_enumeration")
    wd = vlib.workdir("C03")
    rng = random.Random(vlib.seed())

    mc = vlib.run_tlc("MC_FiatShamir.tla", f"MC_Binding_{tier}.cfg", "C03", workers=vlib.NCPU,
                      timeout=5400 if tier == "thorough" else 900)
    if mc["violated"]:
        raise vlib.ToolError(f"MC_Binding violates {mc['violated']} (model error)")
    vlib.require_tlc_ok(mc, "MC_Binding")
    scen_all = vlib.parse_replay_lines(mc["out"])
    log(f"[C03] MC_Binding: {mc['distinct']} distinct states, {len(scen_all)} shapes, {mc['wall']:.0f}s")
    if not scen_all:
        raise vlib.ToolError("no replay scenarios from MC_Binding")
    scen_all.sort(key=lambda s: json.dumps(s, sort_keys=True))

    n = 8 if tier == "quick" else 160
    nbits = 0 if tier == "quick" else 20
    rich = [s for s in scen_all if s["shape"]["plain"][0] and s["shape"]["committed"] >= 1]
    pick = rng.sample(rich, min(len(rich), n // 2)) + rng.sample(scen_all, min(len(scen_all), n - n // 2))
    scen = []
    for i, s in enumerate(pick):
        kn = c01.knobs_of(s["shape"], i, "quick", rng)
        kn["k"] = 5 if i % 2 else 6
        # half of the scenarios leave the plain columns unreferenced by the circuit:
        # they are then bound to the proof by the transcript alone
        if i % 2 == 0:
            kn["inst_unused"] = len(s["shape"]["plain"][0])
        scen.append({"shape": kn, "nproofs": s["shape"]["nproofs"],
                     "hash": "poseidon" if i % 3 == 2 else "blake2b",
                     "seed": rng.randrange(1 << 30), "bits": i < nbits})
    # one small proof per transcript hash whose last byte is zero (found by re-proving with fresh blinding): dropping
    # trailing bytes of such a proof must still be rejected
    for h in ("blake2b", "poseidon"):
        base = dict(scen[0]["shape"])
        base.update({"k": 5, "ops": 0})
        scen.append({"shape": base, "nproofs": 1, "hash": h, "seed": rng.randrange(1 << 30), "bits": False, "seek_zero_tail": True})
    # the standard library's own entry points (verify, batch_verify): byte-level plan on proofs of a small relation
    for i in range(2 if tier == "quick" else 12):
        scen.append({"stdlib": True, "seed": rng.randrange(1 << 20)})
    chunks = [scen[i::vlib.NCPU] for i in range(vlib.NCPU)]
    jobs = []
    for i, ch in enumerate(chunks):
        if not ch:
            continue
        sp = os.path.join(wd, f"scen_{i}.ndjson")
        vlib.write_ndjson(sp, ch)
        jobs.append(["c03", sp, os.path.join(wd, f"trace_{i}.ndjson")] + (["bits"] if nbits else []))
    vlib.run_vh_parallel(jobs, timeout=7200)
    rows = [{"ev": "header", "prop": "C03", "tier": tier, "seed": vlib.seed()}]
    for j in jobs:
        rows.extend(r for r in vlib.read_ndjson(j[2]) if r.get("ev") != "header")
    _, runs = vlib.split_runs(rows)
    ntamper = sum(1 for r in rows if r.get("ev") in ("Tamper", "STamper"))
    nflips = sum(r.get("n", 0) for r in rows if r.get("ev") == "BitFlips")
    log(f"[C03] {len(runs)} proofs, {ntamper} tampers, {nflips} bit flips")

    good, rejected, st = vlib.validate_runs(rows, "Binding_Trace.tla", "Binding_Trace.cfg", "C03", "bind",
                                            max_rejects=12)
    for run_rows, line, evt in rejected:
        if evt.get("ev") in ("Tamper", "STamper"):
            w = evt["what"]
            key = {"t": w["t"], "m": w.get("m", ""), "kind": w.get("kind", ""), "res": evt["res"]}
            if evt["ev"] == "STamper":
                key["entry"] = w["entry"]
            what = (f"tampered input not answered with the model's verdict: {w} -> {evt['res']} ({evt.get('detail')}); "
                    f"facts proof_same={evt['proof_same']} stmt_same={evt['stmt_same']} key_same={evt['key_same']}")
            rep.violation(key, what, {"scenario": run_rows[0]["sc"], "event": evt})
        elif evt.get("ev") == "BitFlips":
            rep.violation({"t": "bit"}, f"single-bit flips accepted or crashed: {evt['not_rejected'][:5]}",
                          {"scenario": run_rows[0]["sc"], "event": evt})
        else:
            raise vlib.ToolError(f"plan coverage incomplete or malformed run at {evt}")

    kinds = {}
    for r in rows:
        if r.get("ev") == "Tamper" and r["what"]["t"] != "identity":
            w = r["what"]
            kinds[(w["t"], w.get("m", ""), w.get("kind", ""))] = kinds.get((w["t"], w.get("m", ""), w.get("kind", "")), 0) + 1
    distinct = len({json.dumps([i, r["what"]], sort_keys=True) for i, rr in enumerate(runs) for r in rr
                    if r.get("ev") == "Tamper" and r["what"]["t"] != "identity"})
    if st["actions"].get("TTamper", 0) == 0 and not rejected:
        raise vlib.ToolError("vacuity: no tamper event validated")
    rep.coverage.update({
        "evaluations": ntamper + nflips,
        "distinct_nontrivial": distinct + nflips,
        "rule": ("per honest proof: every element of the recorded layout x {other valid value, invalid/non-canonical "
                 "encoding, sign flip}, truncation at and inside every element, appended bytes, every public-input "
                 "edit, committed-instance replacement, wrong key / k / transcript hash, (thorough) every single-bit "
                 "flip; distinct = distinct (proof, edit) pairs, identity controls excluded"),
        "samples": [r for r in rows if r.get("ev") == "Tamper"][:3] + [runs[0][0]["sc"]],
        "edits_that_changed_nothing": sum(1 for r in rows if r.get("ev") in ("Tamper", "STamper") and r["what"]["t"] != "identity"
                                          and r["proof_same"] and r["stmt_same"] and r["key_same"]),
        "proofs": len(runs), "stdlib_entry_point_tampers": sum(1 for r in rows if r.get("ev") == "STamper"),
        "tamper_classes": {"/".join(k): v for k, v in sorted(kinds.items())},
        "model_states": mc["distinct"],
        "model_transitions": mc["generated"],
        "traces_validated_against_impl": len(good),
        "trace_actions": st["actions"],
        "bit_flips": nflips,
    })
    rep.assumptions += [
        "soundness holds up to the negligible Schwartz-Zippel / random-oracle error (DESIGN 1.3)",
        "facts proof_same / stmt_same / key_same are byte comparisons made by the harness",
    ]
    return rep.finish()


def replay(path):
    d = json.load(open(path))
    wd = vlib.workdir("C03")
    sp = os.path.join(wd, "replay_scen.ndjson")
    sc = d["replay"]["scenario"]
    vlib.write_ndjson(sp, [sc])
    tp = os.path.join(wd, "replay_trace.ndjson")
    vlib.run_vh(["c03", sp, tp] + (["bits"] if sc.get("bits") else []), timeout=7200)
    rows = vlib.read_ndjson(tp)
    good, rejected, _ = vlib.validate_runs(rows, "Binding_Trace.tla", "Binding_Trace.cfg", "C03", "replay")
    if rejected:
        log(f"VIOLATION property=C03 replay={path}")
        log(f"  reproduced: {rejected[0][2]}")
        return 1
    log("replay: accepted (violation not reproduced)")
    return 0
