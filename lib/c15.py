"""C15 - batching and accumulation accept exactly the all-valid batches.

Model: Batch.tla follows batch_verify step by step (length check, per-member
prepare + summary absorbed into the batching transcript, r, fold, final check)
with symbolic error terms and a colluding pair of invalid members; TLC checks
BatchIffAll, NoCrash and RBindsAll over all batches of <= MaxN members of six
kinds x four length-mismatch cases, and shows that unscaled folding or a
summary left out of r breaks the property.  Every batch TLC enumerates is
concretised from a pool of real proofs (two relations, several instances,
corrupted proof / wrong public input / wrong key / short input / unparsable /
truncated / trailing bytes) and run through zk_stdlib::batch_verify with a
recording transcript hash, Guard::batch_verify and Accumulator::{from_dual_msm,
accumulate, collapse, check}; Batch_Trace requires the model's verdict, a value
(never a panic), r squeezed after every summary, and accumulator checks equal to
the conjunction of the members' individual verdicts observed in the same run."""
import json
import os
import random

import vlib
from vlib import log

POOL = {
    "valid": ["m0", "s0", "m1"],
    "invalid": ["badproof", "badpi"],
    "pairA": ["pairA"],      # the same valid proof with its final opening witness shifted by +D ...
    "pairB": ["pairB"],      # ... and by -D: opposite errors
    "malformed": ["garbage", "truncated", "trailing"],
    "badlen": ["shortpi", "badvk"],
}


def run(tier):
    rep = vlib.Report("C15", tier, "model_checking")
    wd = vlib.workdir("C15")
    rng = random.Random(vlib.seed())
    mc = vlib.run_tlc("Batch.tla", f"MC_Batch_{tier}.cfg", "C15", workers=vlib.NCPU, timeout=1800)
    if mc["violated"]:
        raise vlib.ToolError(f"Batch violates {mc['violated']} (model error)")
    vlib.require_tlc_ok(mc, "Batch")
    allsc = vlib.parse_replay_lines(mc["out"])
    allsc.sort(key=lambda s: json.dumps(s, sort_keys=True))
    log(f"[C15] Batch: {mc['distinct']} states, {len(allsc)} batches")
    if tier == "quick":
        pick = allsc
    else:
        small = [s for s in allsc if len(s["members"]) <= 3]
        big = [s for s in allsc if len(s["members"]) > 3]
        pick = small + rng.sample(big, min(len(big), 6000))
    scen = []
    for i, s in enumerate(pick):
        cnt = {}
        names = []
        for k in s["members"]:
            c = cnt.get(k, 0)
            cnt[k] = c + 1
            opts = POOL[k]
            names.append(opts[(c + i) % len(opts)])
        if not names and s["mismatch"] != "none":
            continue        # nothing to remove from an empty batch: same scenario as mismatch = none
        scen.append({"members": names, "mismatch": s["mismatch"], "kinds": s["members"], "expect": s["expect"]})
    # repeated members and permutations of mixed-relation batches of size up to 6
    for i in range(40 if tier == "quick" else 400):
        n = rng.randrange(2, 7)
        names = [rng.choice(["m0", "m1", "s0"]) for _ in range(n)]
        if i % 2:
            names[rng.randrange(n)] = rng.choice(["badproof", "badpi", "trailing", "shortpi", "badvk"])
        scen.append({"members": names, "mismatch": "none", "kinds": [], "expect": ""})
    # the colluding pair at every pair of positions of batches of size 2..5 (the rest valid)
    for n in range(2, 6 if tier == "quick" else 8):
        for a in range(n):
            for b in range(n):
                if a != b:
                    names = [["m0", "m1", "s0"][(a + b + j) % 3] for j in range(n)]
                    names[a], names[b] = "pairA", "pairB"
                    scen.append({"members": names, "mismatch": "none", "kinds": [], "expect": ""})
    chunks = [scen[i::vlib.NCPU] for i in range(vlib.NCPU)]
    jobs = []
    for i, ch in enumerate(chunks):
        if ch:
            sp = os.path.join(wd, f"scen_{i}.ndjson")
            vlib.write_ndjson(sp, ch)
            jobs.append(["c15", sp, os.path.join(wd, f"trace_{i}.ndjson"), str(vlib.seed())])
    vlib.run_vh_parallel(jobs, timeout=7200)
    row_sets = [vlib.read_ndjson(j[2]) for j in jobs]
    batches = [r for rows in row_sets for r in rows if r["ev"] == "Batch"]
    good, rejected, st = vlib.validate_many(row_sets, "Batch_Trace.tla", "Batch_Trace.cfg", "C15", "batch",
                                            max_rejects=4, start_ev=("Batch", "Pool"))
    for run_rows, line, evt in [x for x in rejected if x[2]["ev"] == "Pool"]:
        rep.violation({"pool_member": evt["name"], "single": evt["single"]},
                      f"batch_verify of the single pool member '{evt['name']}' (valid by construction: {evt['expect_ok']}) returned {evt['single']}",
                      {"scenario": {"members": [evt["name"]], "mismatch": "none"}, "event": evt})
    rejected = [x for x in rejected if x[2]["ev"] == "Batch"]
    for run_rows, line, evt in rejected:
        key = {"n": len(evt["members"]), "mismatch": evt["mismatch"], "res": evt["res"],
               "guard": evt["guard_res"], "acc_panic": "panic" in evt["acc"]}
        rep.violation(key, f"batch outcome differs from Batch.tla: members={evt['members']} mismatch={evt['mismatch']} "
                           f"singles={evt['singles']} res={evt['res']} ({evt['detail']}) racc={evt['racc']} "
                           f"guard={evt['guard_res']} acc={evt['acc']}",
                      {"scenario": {"members": evt["members"], "mismatch": evt["mismatch"]}, "event": evt})
    if not st["actions"].get("TBatch") and not rejected:
        raise vlib.ToolError("vacuity: no Batch event validated")
    by = {}
    for b in batches:
        k = (str(len(b["members"])), b["mismatch"], b["res"])
        by[k] = by.get(k, 0) + 1
    rep.coverage.update({
        "states": mc["distinct"], "transitions": mc["generated"],
        "traces_validated_against_impl": len(good),
        "batches_run": len(batches),
        "accumulator_runs": sum(1 for b in batches if "each" in b["acc"]),
        "by_size_mismatch_result": {"/".join(k): v for k, v in sorted(by.items())},
        "trace_actions": st["actions"],
        "samples": [scen[5], {k: batches[5][k] for k in ("members", "singles", "res", "racc", "guard_res", "acc")}],
        "exhaustive": tier == "quick",
    })
    rep.assumptions += ["errors of invalid members are independent indeterminates except for the colluding pair (the same valid proof "
                        "with its final opening witness shifted by +D and -D: opposite errors, built by the driver); the r-binding "
                        "mechanism is also observed on the batching transcript"]
    return rep.finish()


def replay(path):
    d = json.load(open(path))
    wd = vlib.workdir("C15")
    sp = os.path.join(wd, "replay_scen.ndjson")
    vlib.write_ndjson(sp, [d["replay"]["scenario"]])
    tp = os.path.join(wd, "replay_trace.ndjson")
    vlib.run_vh(["c15", sp, tp, str(d.get("seed", 1))])
    rows = vlib.read_ndjson(tp)
    good, rejected, _ = vlib.validate_runs(rows, "Batch_Trace.tla", "Batch_Trace.cfg", "C15", "replay", start_ev=("Batch", "Pool"))
    if rejected:
        log(f"VIOLATION property=C15 replay={path}")
        return 1
    log("replay: accepted (violation not reproduced)")
    return 0
