"""C01 - honest proofs verify for every circuit shape and configuration.

1. TLC explores FiatShamir exhaustively over a family of shapes
   (MC_FiatShamir) and prints one replay scenario per shape.
2. A seeded selection of those scenarios (plus both transcript hashes and
   several k) is instantiated by the harness as ShapeCircuits; the real
   create_proof / prepare / verify run under recording transcripts.
3. The recorded traces are validated by TLC against FS_Trace:
   property layer (rejection = VIOLATION), refinement layer (rejection =
   SPEC-DRIFT).
4. The constraint-system shapes the code reported are model-checked again
   (MC_FiatShamir RealSpec), so every invariant is established for exactly
   the shapes that ran."""
import json
import os
import random

import vlib
from vlib import log


def knobs_of(shape, idx, tier, rng):
    """Map an abstract MC shape to generator knobs of the harness circuit family."""
    plain = shape["plain"][0] if shape["plain"] else []
    cm = shape["committed"]
    inst = cm + len(plain)
    phases = shape["phases"]
    xq = [tuple(q) for q in shape["advq"][sum(p["adv"] for p in phases):]]
    nl = shape["nlookups"]
    pc = shape["permcols"]
    ks = [5, 6] if tier == "quick" else [4, 5, 6, 7, 8, 9]
    k = ks[idx % len(ks)]
    if k == 4 and (nl > 0 or shape["ntrash"] > 1 or len(phases) > 2):
        k = 5
    return {
        "k": k,
        "adv": [max(3, phases[0]["adv"])] + [p["adv"] for p in phases[1:]],
        "chal": [p["ch"] for p in phases],
        "unblinded": 1 if (3, 2) in xq else idx % 2,
        "inst": inst,
        "committed": cm,
        "inst_lens": [1 + (i % 2) for i in range(cm)] + list(plain),
        "deg": shape["nquot"] + 1,
        "rot_mul": 1 if (2, 1) in xq else 0,
        "rot_pow": -1 if (1, -1) in xq else 0,
        "lookups": min(nl, 2),
        # (2 = a two-pair lookup_any whose highest-degree input and table expressions sit in different pairs)
        "lookup_any": (2 if idx % 2 == 0 else 1) if nl >= 3 else 0,
        "trash": shape["ntrash"],
        "perm": 0 if pc == 0 else max(1, min(3, pc - inst - 1)),
        "seed": rng.randrange(1 << 30),
        "ops": 4 if k >= 5 else 1,
        "inst_copy": idx % 5 == 3,
        "first_rot": [0, 0, 0, 1, -1][idx % 5] if pc == 0 else 0,
        "inst_rot": [0, 1, -1, 0, 2, -2][idx % 6],
        "tbl_nozero": idx % 4 == 2,
        "fx_overwrite": idx % 3 == 1,
        "rational": idx % 3 == 2,      # copy operations assign fractions with deferred inversion, incl. inverses of zero
    }


def projection(real):
    """What the schedule depends on, for counting distinct shapes."""
    return json.dumps([real["nproofs"], real["committed"], real["plain"], real["phases"],
                       real["nlookups"], real["permcols"], real["chunk"], real["ntrash"],
                       real["nquot"], len(real["instq"]), real["advq"], len(real["fixq"])])


def run(tier):
    rep = vlib.Report("C01", tier, "model_checking")
    wd = vlib.workdir("C01")
    rng = random.Random(vlib.seed())

    # 1. exhaustive model check + scenario generation
    cfg = f"MC_FiatShamir_{tier}.cfg"
    mc = vlib.run_tlc("MC_FiatShamir.tla", cfg, "C01", workers=vlib.NCPU,
                      timeout=3000 if tier == "thorough" else 900)
    if mc["violated"]:
        # the model itself breaks an invariant: the specification is wrong, not the code
        raise vlib.ToolError(f"MC_FiatShamir violates {mc['violated']} (model error)")
    vlib.require_tlc_ok(mc, "MC_FiatShamir")
    scen_all = vlib.parse_replay_lines(mc["out"])
    log(f"[C01] MC_FiatShamir: {mc['distinct']} distinct states, {len(scen_all)} shapes, {mc['wall']:.0f}s")
    if not scen_all:
        raise vlib.ToolError("no replay scenarios printed by TLC")
    if any(s["expect"] != "ok" for s in scen_all):
        raise vlib.ToolError("model predicts a rejected honest run")

    # 2. select scenarios
    n = 48 if tier == "quick" else 1600
    scen_all.sort(key=lambda s: json.dumps(s, sort_keys=True))
    # always include the interesting corner: several proofs, committed and plain columns
    corner = [s for s in scen_all if s["shape"]["nproofs"] >= 2 and s["shape"]["committed"] >= 1
              and s["shape"]["plain"][0]]
    pick = rng.sample(corner, min(len(corner), n // 4)) + rng.sample(scen_all, min(len(scen_all), n - n // 4))
    scen = []
    for i, s in enumerate(pick):
        hash_ = "poseidon" if i % 3 == 2 else "blake2b"
        scen.append({"shape": knobs_of(s["shape"], i, tier, rng), "nproofs": s["shape"]["nproofs"],
                     "hash": hash_, "seed": rng.randrange(1 << 30), "mc": s["shape"]})
    # plus purely random members of the family (outside the MC grid)
    for i in range(n // 4):
        sd = rng.randrange(1 << 30)
        p = vlib.run_vh(["randshape", str(sd)])
        scen.append({"shape": json.loads(p.stdout), "nproofs": 1 + i % 4, "hash": "blake2b" if i % 2 else "poseidon",
                     "seed": sd, "mc": None})

    # 3. run the real code (parallel chunks)
    chunks = [scen[i::vlib.NCPU] for i in range(vlib.NCPU)]
    jobs = []
    for i, ch in enumerate(chunks):
        if not ch:
            continue
        sp = os.path.join(wd, f"scen_{i}.ndjson")
        vlib.write_ndjson(sp, ch)
        jobs.append(["c01", sp, os.path.join(wd, f"trace_{i}.ndjson")])
    vlib.run_vh_parallel(jobs)
    rows = [{"ev": "header", "prop": "C01", "tier": tier, "seed": vlib.seed()}]
    for j in jobs:
        rows.extend(r for r in vlib.read_ndjson(j[2]) if r.get("ev") != "header")
    _, runs = vlib.split_runs(rows)
    log(f"[C01] recorded {len(runs)} runs, {len(rows)} events")

    # sanity: the harness's own circuits must be satisfiable (else harness bug, not a verdict)
    for r in runs:
        if any(m != "ok" for m in r[0]["mock"]):
            raise vlib.ToolError(f"harness generated an unsatisfiable circuit: {r[0]['sc']} {r[0]['mock']}")

    # 4. property layer
    good, rejected, st_prop = vlib.validate_runs(rows, "FS_Trace.tla", "FS_Trace_prop.cfg", "C01", "prop")
    for run_rows, line, evt in rejected:
        reset = run_rows[0]
        real = reset["shape"]
        key = {"nproofs_ge2": real["nproofs"] >= 2, "committed_ge1": real["committed"] >= 1,
               "plain_ge1": any(len(p) > 0 for p in real["plain"])}
        what = (f"honest proof not accepted (or transcripts disagree) at event {line} of run: {evt}; "
                f"shape nproofs={real['nproofs']} committed={real['committed']} plain={real['plain']}")
        rep.violation(key, what, {"scenario": reset["sc"], "real_shape": real, "event": evt,
                                  "trace": run_rows[:400]})

    # 5. refinement layer (only runs the property layer accepted)
    flat = [rows[0]]
    for r in good:
        flat.extend(r)
    good2, rej2, st_ref = vlib.validate_runs(flat, "FS_Trace.tla", "FS_Trace_ref.cfg", "C01", "ref")
    for run_rows, line, evt in rej2:
        rep.spec_drift("FiatShamir", f"run {run_rows[0]['sc']} event {line}: {evt}")

    # 6. model-check the real shapes
    reals = {}
    for r in good2:
        reals.setdefault(projection(r[0]["shape"]), r[0]["shape"])
    sp = os.path.join(wd, "real_shapes.ndjson")
    vlib.write_ndjson(sp, list(reals.values()))
    real_mc = {"distinct": 0, "generated": 0}
    if reals:
        real_mc = vlib.run_tlc("MC_FiatShamir.tla", "MC_FiatShamir_real.cfg", "C01", env={"SHAPES": sp},
                               workers=8, timeout=900)
        if real_mc["violated"]:
            rep.violation({"real_shape_invariant": real_mc["violated"]},
                          f"model invariant {real_mc['violated']} fails on a shape reported by the code",
                          {"tlc": real_mc["out"][-3000:]})
        else:
            vlib.require_tlc_ok(real_mc, "MC_FiatShamir real shapes")

    acts = st_prop["actions"]
    for a in ("TReset", "TP", "TV", "TVerdict"):
        if len(runs) and not acts.get(a) and not rejected:
            raise vlib.ToolError(f"vacuity: trace action {a} never taken")
    mc_set = {json.dumps(s["shape"], sort_keys=True) for s in scen_all}
    rep.coverage.update({
        "states": mc["distinct"] + real_mc["distinct"],
        "transitions": mc["generated"] + real_mc["generated"],
        "traces_validated_against_impl": len(good),
        "traces_refinement_accepted": len(good2),
        "mc_shapes": len(scen_all),
        "scenarios_run": len(scen),
        "distinct_real_shapes": len(reals),
        "trace_events": len(rows),
        "trace_actions_property_layer": st_prop["actions"],
        "trace_actions_refinement_layer": st_ref["actions"],
        "hashes": sorted({s["hash"] for s in scen}),
        "k_values": sorted({s["shape"]["k"] for s in scen}),
        "nproofs_values": sorted({s["nproofs"] for s in scen}),
        "exhaustive": False,
        "samples": [runs[0][0]["sc"], {"first_events": runs[0][1:6]}] if runs else [],
    })
    rep.assumptions += [
        "random-oracle / Schwartz-Zippel idealisation (DESIGN 1.3): challenges are functions of the absorbed prefix",
        "harness circuit family ShapeCircuit generates satisfiable witnesses (checked with MockProver per run)",
    ]
    return rep.finish()


def replay(path):
    """Re-run the scenario stored in a replay file and validate it again."""
    d = json.load(open(path))
    wd = vlib.workdir("C01")
    sp = os.path.join(wd, "replay_scen.ndjson")
    vlib.write_ndjson(sp, [d["replay"]["scenario"]])
    tp = os.path.join(wd, "replay_trace.ndjson")
    vlib.run_vh(["c01", sp, tp])
    rows = vlib.read_ndjson(tp)
    good, rejected, _ = vlib.validate_runs(rows, "FS_Trace.tla", "FS_Trace_prop.cfg", "C01", "replay")
    if rejected:
        log(f"VIOLATION property=C01 replay={path}")
        log(f"  reproduced: {rejected[0][2]}")
        return 1
    log("replay: run accepted (violation not reproduced)")
    return 0
