"""Common machinery for /verif checks: harness build, TLC runs, trace validation,
evidence, known findings, violation reporting.

Exit codes: 0 property held on everything explored (possibly with KNOWN-FINDING
lines); 1 together with a `VIOLATION property=<id> replay=<path>` line; 2 for
tool errors (build failure, TLC crash, timeout, malformed trace)."""
import json
import os
import re
import subprocess
import sys
import time

ROOT = os.path.dirname(os.path.dirname(os.path.abspath(__file__)))
SPEC = os.path.join(ROOT, "spec")
HARNESS = os.path.join(ROOT, "harness")
WORK = os.path.join(ROOT, "work")
# VERIF_ALT=<tag>: a second, independent build and scratch area (harness/target_<tag>, work/<prop>_<tag>, evidence and
# replays under work/alt_<tag>/): used to try a change to /repo without disturbing a check that is running on the real tree
ALT = os.environ.get("VERIF_ALT", "")
TARGET_DIR = "target" + ("_" + ALT if ALT else "")
VH = os.path.join(HARNESS, TARGET_DIR, "release", "vh")
NCPU = os.cpu_count() or 4


import threading
_META_N = 0
_META_LOCK = threading.Lock()


class ToolError(Exception):
    pass


def seed():
    try:
        return int(os.environ.get("VERIF_SEED", "1"))
    except ValueError:
        return 1


def workdir(prop):
    d = os.path.join(WORK, prop + ("_" + ALT if ALT else ""))
    os.makedirs(d, exist_ok=True)
    return d


def log(*a):
    print(*a, flush=True)


def build_harness():
    """Incremental release build of the harness against /repo's working tree."""
    t0 = time.time()
    env = dict(os.environ)
    env["CARGO_NET_OFFLINE"] = "true"
    lock = os.path.join(HARNESS, "Cargo.lock")
    if not os.path.exists(lock):
        subprocess.run(["cp", "/repo/Cargo.lock", lock], check=True)
    if os.environ.get("VERIF_NOBUILD") and os.path.exists(VH):
        log("[build] VERIF_NOBUILD: using the existing harness binary")
        build_overrides()
        return VH
    # builds read /repo's working tree: one at a time, and never while tools/seedtest.sh has a seeded change applied
    import fcntl
    os.makedirs(WORK, exist_ok=True)
    with open(os.path.join(WORK, "repo.lock"), "w") as lf:
        fcntl.flock(lf, fcntl.LOCK_EX)
        p = subprocess.run(
            ["cargo", "build", "--release", "--offline", "--target-dir", TARGET_DIR],
            cwd=HARNESS, env=env, stdout=subprocess.PIPE, stderr=subprocess.STDOUT, text=True,
        )
    if p.returncode != 0:
        sys.stdout.write(p.stdout[-6000:])
        raise ToolError("harness build failed")
    log(f"[build] harness built in {time.time() - t0:.1f}s")
    build_overrides()
    return VH


JCLS = os.path.join(ROOT, "work", "jcls")
TLA_CP = "/opt/veriftools/tla/tla2tools.jar:/opt/veriftools/tla/CommunityModules-deps.jar"


def build_overrides():
    """Compile the Java evaluator overrides of spec/java (BigNat) if stale."""
    src = os.path.join(SPEC, "java", "tlc2", "module", "BigNat.java")
    cls = os.path.join(JCLS, "tlc2", "module", "BigNat.class")
    if os.path.exists(cls) and os.path.getmtime(cls) >= os.path.getmtime(src):
        return
    os.makedirs(JCLS, exist_ok=True)
    p = subprocess.run(["javac", "-cp", TLA_CP, "-d", JCLS, src], stdout=subprocess.PIPE, stderr=subprocess.STDOUT, text=True)
    if p.returncode != 0:
        sys.stdout.write(p.stdout[-3000:])
        raise ToolError("javac failed on BigNat.java")


def run_vh(args, timeout=3600, check=True, stdin=None):
    p = subprocess.run([VH] + args, stdout=subprocess.PIPE, stderr=subprocess.PIPE, text=True,
                       timeout=timeout, input=stdin)
    if check and p.returncode != 0:
        sys.stdout.write(p.stdout[-3000:])
        sys.stdout.write(p.stderr[-3000:])
        raise ToolError(f"vh {' '.join(args[:2])} exited {p.returncode}")
    return p


def run_vh_parallel(jobs, timeout=3600):
    """jobs: list of argv lists; run up to NCPU at a time."""
    procs = []
    results = []
    pending = list(jobs)
    running = []
    while pending or running:
        while pending and len(running) < NCPU:
            a = pending.pop(0)
            running.append((a, subprocess.Popen([VH] + a, stdout=subprocess.PIPE,
                                                stderr=subprocess.PIPE, text=True)))
        a, pr = running.pop(0)
        try:
            out, err = pr.communicate(timeout=timeout)
        except subprocess.TimeoutExpired:
            pr.kill()
            raise ToolError(f"vh {' '.join(a[:2])} timed out")
        if pr.returncode != 0:
            sys.stdout.write(out[-3000:])
            sys.stdout.write(err[-3000:])
            raise ToolError(f"vh {' '.join(a[:2])} exited {pr.returncode}")
        results.append((a, out))
    return results


TLC_STATS = re.compile(r"(\d[\d,]*) states generated, (\d[\d,]*) distinct states found")
COV_ACTION = re.compile(r"^<(\w+) line \d+, col \d+ to line \d+, col \d+ of module (\w+)>: (\d+):(\d+)", re.M)


def run_tlc(module, cfg, prop, env=None, workers=None, timeout=1800, simulate=None,
            coverage=False, depth_first=False, extra=None, heap=None, overrides=True):
    """Run TLC in SPEC dir. Returns dict(out, rc, generated, distinct, violated, actions)."""
    e = dict(os.environ)
    jopts = "-Xss1g"
    if depth_first:
        jopts += " -Dtlc2.tool.queue.IStateQueue=StateDeque"
    e["JAVA_TOOL_OPTIONS"] = jopts
    if env:
        e.update(env)
    global _META_N
    with _META_LOCK:
        _META_N += 1
        mn = _META_N
    meta = os.path.join(workdir(prop), "tlc_" + re.sub(r"\W", "_", os.path.basename(cfg)) + f"_{os.getpid()}_{mn}")
    cmd = ["timeout", str(timeout), "java", "-Xss1g"]
    if heap:
        cmd += [f"-Xmx{heap}"]
    cmd += ["-XX:+UseParallelGC", "-cp", (JCLS + ":" if overrides else "") + TLA_CP, "tlc2.TLC"]
    cmd += ["-workers", str(workers or 1), "-metadir", meta, "-cleanup", "-noGenerateSpecTE"]
    if coverage:
        cmd += ["-coverage", "1"]
    if simulate:
        cmd += ["-simulate", simulate]
    if extra:
        cmd += extra
    cmd += ["-config", cfg, module]
    t0 = time.time()
    p = subprocess.run(cmd, cwd=SPEC, env=e, stdout=subprocess.PIPE, stderr=subprocess.STDOUT, text=True)
    out = p.stdout
    subprocess.run(["rm", "-rf", meta])
    res = {"out": out, "rc": p.returncode, "wall": time.time() - t0, "generated": 0, "distinct": 0,
           "violated": None, "actions": {}}
    m = None
    for m in TLC_STATS.finditer(out):
        pass
    if m:
        res["generated"] = int(m.group(1).replace(",", ""))
        res["distinct"] = int(m.group(2).replace(",", ""))
    mv = re.search(r"Error: Invariant (\w+) is violated", out)
    if mv:
        res["violated"] = mv.group(1)
    for a in COV_ACTION.finditer(out):
        res["actions"][a.group(1)] = res["actions"].get(a.group(1), 0) + int(a.group(3))
    if p.returncode == 124:
        raise ToolError(f"TLC timed out on {module} {cfg}")
    return res


def tlc_ok(res):
    return "Model checking completed. No error has been found." in res["out"] or \
        "Finished in" in res["out"] and res["rc"] == 0


def require_tlc_ok(res, what):
    if res["violated"] or not tlc_ok(res):
        sys.stdout.write(res["out"][-4000:])
        raise ToolError(f"TLC did not succeed on {what}")


REJ = re.compile(r"TRACE-REJECTED first unmatched line\D+(\d+)\D+(\d+)")


NO_COVERAGE = {"Foreign_Trace.tla", "PubIn_Trace.tla", "Ecc_Trace.tla", "Field_Trace.tla", "CurveLib_Trace.tla",
               "Hash_Trace.tla", "Msm_Trace.tla", "Pairing_Trace.tla", "Map_Trace.tla", "Htc_Trace.tla"}


def validate_trace(trace_path, module, cfg, prop, timeout=1800, env=None):
    """Trace validation: returns (accepted: bool, first_unmatched_line or None, tlc result)."""
    ev = {"TRACE": trace_path}
    if env:
        ev.update(env)
    # (coverage instrumentation makes the BigNat / Curve based trace specs ~10x slower; for those the
    # number of consumed lines is the coverage measure)
    heavy = module in NO_COVERAGE
    res = run_tlc(module, cfg, prop, env=ev, workers=1, timeout=timeout,
                  coverage=not heavy, depth_first=True)
    if heavy and "No error has been found" in res["out"]:
        n = sum(1 for _ in open(trace_path))
        res["actions"] = {"lines": n}
    m = REJ.search(res["out"])
    if m:
        return False, int(m.group(1)), res
    if "Model checking completed. No error has been found." in res["out"]:
        return True, None, res
    sys.stdout.write(res["out"][-4000:])
    raise ToolError(f"TLC failed during trace validation {module} {cfg}")


def read_ndjson(path):
    with open(path) as f:
        return [json.loads(x) for x in f if x.strip()]


def strip_nulls(x):
    """TLC's Json module cannot represent null: drop such members."""
    if isinstance(x, dict):
        return {k: strip_nulls(v) for k, v in x.items() if v is not None}
    if isinstance(x, list):
        return [strip_nulls(v) for v in x if v is not None]
    return x


def write_ndjson(path, rows):
    with open(path, "w") as f:
        for r in rows:
            f.write(json.dumps(strip_nulls(r), separators=(",", ":")) + "\n")


def split_runs(rows, start_ev="reset"):
    """Split trace rows into (header rows, [run rows...]) by reset events."""
    head, runs, cur = [], [], None
    for r in rows:
        if r.get("ev") == start_ev or (isinstance(start_ev, (tuple, list, set)) and r.get("ev") in start_ev):
            cur = [r]
            runs.append(cur)
        elif cur is None:
            head.append(r)
        else:
            cur.append(r)
    return head, runs


def validate_runs(rows, module, cfg, prop, tag, max_rejects=10, start_ev="reset", env=None):
    """Validate a multi-run trace; on rejection, drop the offending run and go on.
    Returns (accepted_runs, rejected: list of (run rows, line-in-run, event), stats)."""
    head, runs = split_runs(rows, start_ev)
    rejected = []
    stats = {"generated": 0, "distinct": 0, "actions": {}}
    remaining = list(runs)
    for _ in range(max_rejects + 1):
        path = os.path.join(workdir(prop), f"trace_{tag}_{os.getpid()}.ndjson")
        flat = list(head)
        for r in remaining:
            flat.extend(r)
        write_ndjson(path, flat)
        ok, line, res = validate_trace(path, module, cfg, prop, env=env)
        if ok:
            stats["generated"] += res["generated"]
            stats["distinct"] += res["distinct"]
            for k, v in res["actions"].items():
                stats["actions"][k] = stats["actions"].get(k, 0) + v
            return remaining, rejected, stats
        # locate run containing line (1-based)
        pos = len(head)
        hit = None
        for i, r in enumerate(remaining):
            if pos < line <= pos + len(r):
                hit = i
                break
            pos += len(r)
        if hit is None:
            raise ToolError(f"trace rejected at line {line} outside any run ({module})")
        run = remaining.pop(hit)
        rejected.append((run, line - pos, run[line - pos - 1]))
    log(f"[{prop}] more than {max_rejects} rejected runs in {module} {cfg}; the remaining "
        f"{len(remaining)} runs were not validated")
    stats["truncated"] = True
    return [], rejected, stats


def validate_many(row_sets, module, cfg, prop, tag, max_rejects=6, start_ev="reset", env=None,
                  parallel=None):
    """Validate several independent traces concurrently (one single-worker TLC each).
    Returns (good_runs, rejected, merged stats)."""
    from concurrent.futures import ThreadPoolExecutor
    good, rejected = [], []
    stats = {"generated": 0, "distinct": 0, "actions": {}}

    def one(i_rows):
        i, rows = i_rows
        return validate_runs(rows, module, cfg, prop, f"{tag}{i}", max_rejects=max_rejects,
                             start_ev=start_ev, env=env)
    with ThreadPoolExecutor(max_workers=parallel or max(2, NCPU // 2)) as ex:
        for g, r, st in ex.map(one, list(enumerate(row_sets))):
            good.extend(g)
            rejected.extend(r)
            stats["generated"] += st["generated"]
            stats["distinct"] += st["distinct"]
            if st.get("truncated"):
                stats["truncated"] = True
            for k, v in st["actions"].items():
                stats["actions"][k] = stats["actions"].get(k, 0) + v
    return good, rejected, stats


# ---------------------------------------------------------------------------
def load_known():
    p = os.path.join(ROOT, "known_findings.json")
    if not os.path.exists(p):
        return []
    return json.load(open(p)).get("findings", [])


class Report:
    """Collects violations / known findings / evidence for one check run."""

    def __init__(self, prop, tier, level):
        self.prop, self.tier, self.level = prop, tier, level
        self.t0 = time.time()
        self.violations = []
        self.known_hit = []
        self.coverage = {}
        self.assumptions = []
        self.known = [k for k in load_known() if k.get("property") == prop and k.get("status") == "open"]
        self.drift = []

    def known_match(self, key):
        for k in self.known:
            if all(key.get(a) == b for a, b in k["key"].items()):
                return k
        return None

    def known_counts(self):
        return getattr(self, "_kc", {})

    def violation(self, key, what, replay):
        """key: dict identifying the failing input class; replay: json-able object."""
        k = self.known_match(key)
        if k is not None:
            self._kc = getattr(self, "_kc", {})
            self._kc[k["what"]] = self._kc.get(k["what"], 0) + 1
            if k not in self.known_hit:
                self.known_hit.append(k)
                log(f"KNOWN-FINDING: property={self.prop} {k['what']}")
            return False
        if len(self.violations) >= 8:
            self.violations.append((key, what, self.violations[-1][2]))
            self.extra = getattr(self, "extra", {})
            kk = json.dumps(key, sort_keys=True)
            self.extra[kk] = self.extra.get(kk, 0) + 1
            return True
        d = os.path.join(ROOT, "work", "alt_" + ALT, "replays", self.prop) if ALT else os.path.join(ROOT, "replays", self.prop)
        os.makedirs(d, exist_ok=True)
        path = os.path.join(d, f"{self.tier}_{len(self.violations) + 1}.json")
        with open(path, "w") as f:
            json.dump({"property": self.prop, "seed": seed(), "tier": self.tier, "key": key,
                       "what": what, "replay": replay}, f, indent=1)
        self.violations.append((key, what, path))
        log(f"VIOLATION property={self.prop} replay={path}")
        log(f"  what: {what}")
        return True

    def spec_drift(self, module, detail):
        self.drift.append({"module": module, "detail": detail})
        log(f"SPEC-DRIFT module={module} first unmatched={detail}")

    def finish(self):
        ev = {
            "property_id": self.prop,
            "tier": self.tier,
            "seed": seed(),
            "level": self.level,
            "coverage": self.coverage,
            "assumptions": self.assumptions,
            "wall_s": round(time.time() - self.t0, 2),
            "violations": len(self.violations),
        }
        ev["coverage"]["model_bound"] = not self.drift
        if self.drift:
            ev["coverage"]["spec_drift"] = self.drift
        ev["coverage"]["known_findings_reproduced"] = [k["what"] for k in self.known_hit]
        ev["coverage"]["known_finding_hits"] = getattr(self, "_kc", {})
        evdir = os.path.join(ROOT, "work", "alt_" + ALT, "evidence") if ALT else os.path.join(ROOT, "evidence")
        os.makedirs(evdir, exist_ok=True)
        with open(os.path.join(evdir, f"{self.prop}.json"), "w") as f:
            json.dump(ev, f, indent=1)
        for kk, n in sorted(getattr(self, "extra", {}).items()):
            log(f"  (+{n} further violations without separate replay file) key={kk}")
        log(f"[{self.prop}] {self.tier}: violations={len(self.violations)} known={len(self.known_hit)} "
            f"drift={len(self.drift)} wall={ev['wall_s']}s")
        return 1 if self.violations else 0


def parse_replay_lines(out):
    """REPLAY lines printed by TLC (PrintT of a string)."""
    rows = []
    for line in out.splitlines():
        line = line.strip()
        if line.startswith('"REPLAY '):
            # PrintT prints a TLA+ string literal: quotes escaped with backslashes
            body = line[len('"REPLAY '):-1]
            body = body.replace('\\"', '"').replace("\\\\", "\\")
            rows.append(json.loads(body))
        elif line.startswith("REPLAY "):
            rows.append(json.loads(line[len("REPLAY "):]))
    return rows


def nat_to_int(n):
    """A BigNat of the traces (little-endian base-256 digits) as a Python integer."""
    return sum(int(d) << (8 * i) for i, d in enumerate(n))
