"""C17 - key generation is deterministic; keys survive serialization unchanged.

Model: Lifecycle.tla identifies every artefact by what it is derived from
((secret, k) for parameters, (circuit, k, secret) for keys), never by how; the
bytes recorded per identity must remain a function (TLC: all interleavings of
set-up, downsize, key generation under different thread counts and round trips
in compatible format pairs; mutations that make threads, downsizing or a round
trip matter are caught).  Binding: the harness records set-up / downsize /
keygen (thread pools 1,2,3,8,16, repeated) / round trips in all nine format
pairs for parameters, VerifyingKey, ProvingKey, MidnightVK, MidnightPK / cross
verification of proofs by original and reloaded proving keys under original
and reloaded verifying keys, for circuits of the C01 family and a standard-
library relation; Lifecycle_Trace replays them and rejects a second, different
hash for an identity, a lossy or refused compatible round trip, an incompatible
read that silently yields another object, and any failed cross verification."""
import json
import os
import random

import c01
import vlib
from vlib import log


def run(tier):
    rep = vlib.Report("C17", tier, "model_checking")
    wd = vlib.workdir("C17")
    rng = random.Random(vlib.seed())
    mc = vlib.run_tlc("Lifecycle.tla", "MC_Lifecycle.cfg", "C17", workers=8, timeout=900)
    if mc["violated"]:
        raise vlib.ToolError(f"Lifecycle violates {mc['violated']} (model error)")
    vlib.require_tlc_ok(mc, "Lifecycle")
    fam = vlib.run_tlc("MC_FiatShamir.tla", "MC_FiatShamir_c02.cfg", "C17", workers=vlib.NCPU, timeout=900)
    vlib.require_tlc_ok(fam, "shape family")
    shapes = vlib.parse_replay_lines(fam["out"])
    shapes.sort(key=lambda s: json.dumps(s, sort_keys=True))
    n = 6 if tier == "quick" else 60
    scen = []
    for i, s in enumerate(rng.sample(shapes, n)):
        kn = c01.knobs_of(s["shape"], i, "quick", rng)
        kn["k"] = 5 + i % 2 if tier == "quick" else 4 + i % 5
        if kn["k"] == 4:
            kn["lookups"] = 0
            kn["lookup_any"] = 0
            kn["trash"] = min(kn["trash"], 1)
        kn["annotate"] = i % 2 == 0      # column annotations are names: keys and their identity must not depend on them
        scen.append({"shape": kn, "seed": i, "secret": 100 + i,
                     "threads": [1, 2, 3, 8, 16] if (tier == "thorough" or i < 2) else [1, 3, 16],
                     "downsize": list(range(1, kn["k"] + 3)) if (tier == "thorough" or i == 0) else [1, kn["k"], kn["k"] + 2]})
    # the smallest admissible domain: 2^k equals the rows the constraint system needs for blinding (+ 2 usable rows)
    tiny = {"k": 3, "adv": [3], "chal": [0], "unblinded": 0, "inst": 0, "committed": 0, "inst_lens": [], "deg": 3,
            "lookups": 0, "lookup_any": 0, "trash": 0, "perm": 0, "seed": 5, "ops": 0}
    scen.append({"shape": tiny, "seed": 1000, "secret": 77, "threads": [1, 3, 16], "downsize": [1, 3, 5]})
    scen.append({"stdlib": True, "secret": 9, "shape": scen[0]["shape"]})
    chunks = [scen[i::vlib.NCPU] for i in range(vlib.NCPU)]
    jobs = []
    for i, ch in enumerate(chunks):
        if ch:
            sp = os.path.join(wd, f"scen_{i}.ndjson")
            vlib.write_ndjson(sp, ch)
            jobs.append(["c17", sp, os.path.join(wd, f"trace_{i}.ndjson")])
    vlib.run_vh_parallel(jobs, timeout=7200)
    total = {"generated": 0, "distinct": 0, "actions": {}}
    nev = 0
    accepted = 0
    samples = []
    for j in jobs:
        rows = vlib.read_ndjson(j[2])
        nev += len(rows) - 1
        samples = samples or rows[1:4]
        # one trace per harness process (hash ids are per process)
        for _ in range(6):
            path = os.path.join(wd, f"val_{os.path.basename(j[2])}")
            vlib.write_ndjson(path, rows)
            ok, line, res = vlib.validate_trace(path, "Lifecycle_Trace.tla", "Lifecycle_Trace.cfg", "C17")
            if ok:
                accepted += 1
                total["generated"] += res["generated"]
                for k, v in res["actions"].items():
                    total["actions"][k] = total["actions"].get(k, 0) + v
                break
            evt = rows[line - 1]
            key = {"ev": evt["ev"], "kind": evt.get("kind", ""), "wf": evt.get("wf", ""), "rf": evt.get("rf", ""),
                   "res": evt.get("res", "")}
            rep.violation(key, f"lifecycle event not allowed by Lifecycle.tla: {evt}",
                          {"scenario_file": j[1], "scenarios": vlib.read_ndjson(j[1]), "event": evt})
            rows.pop(line - 1)   # go on with the rest of the trace
    for a in ("TSetup", "TDownsize", "TKeygenVk", "TKeygenPk", "TRoundTrip", "TCross"):
        if not total["actions"].get(a) and not rep.violations:
            raise vlib.ToolError(f"vacuity: {a} never taken")
    rep.coverage.update({
        "states": mc["distinct"], "transitions": mc["generated"],
        "traces_validated_against_impl": accepted,
        "events": nev, "trace_actions": total["actions"], "circuits": len(scen),
        "samples": samples, "exhaustive": False,
    })
    rep.assumptions += ["artefact bytes are compared through a 512-bit hash",
                        "proof bytes themselves are not deterministic (quotient blinding draws from OsRng); "
                        "only verdicts of cross verification are compared"]
    return rep.finish()


def replay(path):
    d = json.load(open(path))
    wd = vlib.workdir("C17")
    sp = os.path.join(wd, "replay_scen.ndjson")
    vlib.write_ndjson(sp, d["replay"]["scenarios"])
    tp = os.path.join(wd, "replay_trace.ndjson")
    vlib.run_vh(["c17", sp, tp])
    ok, line, _ = vlib.validate_trace(tp, "Lifecycle_Trace.tla", "Lifecycle_Trace.cfg", "C17")
    if not ok:
        log(f"VIOLATION property=C17 replay={path}")
        return 1
    log("replay: accepted (violation not reproduced)")
    return 0
