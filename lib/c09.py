"""C09 - circuit structure never depends on witness or instance values.

Self-composition: each circuit is synthesised through a recording Assignment
(hook-free: it implements the public plonk::Assignment trait and is driven by
the circuit's own FloorPlanner, exactly as key generation does) with an
unknown witness and with concrete witnesses chosen to steer the data-dependent
branches of the off-circuit helpers (zero / non-zero, equal / opposite /
identity points, carries and borrows, maximal limbs, all-zero and all-ones
bytes).  Builder_Trace requires the structural projection (selectors, fixed
cells, table fills, copies, advice cells used, instance cells queried, region
count) to be a function of the circuit alone.  Circuits: every native-gadget
operation of C04 over the toy field and standard-library relations over the
deployed field (native, Jubjub, emulated secp256k1 field and curve, big
integers, SHA-256, Poseidon)."""
import json
import os
import random

import vlib
from vlib import log

ORDER = "0xfffffffffffffffffffffffffffffffebaaedce6af48a03bbfd25e8cd0364141"
ORDER_M1 = "0xfffffffffffffffffffffffffffffffebaaedce6af48a03bbfd25e8cd0364140"
MAX64 = "0xffffffffffffffff"


def scenarios(tier, rng):
    sc = []
    pts2 = [[0, 0], [1, 1], [1, -1], [3, 5], [0, 4], [4, 0], [2, 2], [-7, 7]]
    pts1 = [[0], [1], [-1], [7]]
    for op, ws in [("jub_add", pts2), ("jub_double", pts1), ("jub_negate", pts1), ("jub_pub", pts1),
                   ("secp_add", pts2), ("secp_double", pts1), ("secp_negate", pts1), ("secp_pub", pts1)]:
        sc.append({"name": op, "kind": "stdop", "op": op, "n": 0, "witnesses": ws})
    for n in (0, 1, 2, 5, 255):
        sc.append({"name": f"jub_mulc{n}", "kind": "stdop", "op": "jub_mulc", "n": n, "witnesses": pts1})
        sc.append({"name": f"secp_mulc{n}", "kind": "stdop", "op": "secp_mulc", "n": n, "witnesses": pts1})
    sc.append({"name": "jub_msm", "kind": "stdop", "op": "jub_msm", "n": 0,
               "witnesses": [[1, 2, 3, 4], [0, 0, 0, 0], [1, 1, 1, 1], [1, -1, 5, 5], [2, 3, 0, 0], [0, 5, 7, 0]]})
    fpairs = [[0, 0], [1, 1], [5, 7], [ORDER_M1, 1], [ORDER_M1, ORDER_M1], [0, ORDER_M1], [2, 0]]
    for op in ("secpf_add", "secpf_sub", "secpf_mul", "secpf_neg", "secpf_inv0", "secpf_addsub", "secpf_is_equal",
               "secpf_is_zero", "secpf_pub"):
        sc.append({"name": op, "kind": "stdop", "op": op, "n": 0, "witnesses": fpairs})
    bpairs = [[5, 5], [0, 0], [MAX64, 1], [9, 3], [MAX64, MAX64], [1, MAX64], [0, 7], [7, 1]]
    for op in ("big_add", "big_sub", "big_div_rem", "big_lower_than"):
        ws = [w for w in bpairs if not (op == "big_div_rem" and w[1] == 0)]
        sc.append({"name": op + "64", "kind": "stdop", "op": op, "n": 64, "witnesses": ws})
    # operands with different size bounds, a witness bit choosing between them, then a bound-sensitive operation
    bsel = [[5, 7, 1], [5, 7, 0], [hex((1 << 100) - 1), hex((1 << 192) - 1), 1], [hex((1 << 100) - 1), hex((1 << 192) - 1), 0], [0, 0, 1]]
    for op in ("bigsel_mul", "bigsel_add", "bigsel_lower_than", "bigsel_swap_mul"):
        sc.append({"name": op + "100", "kind": "stdop", "op": op, "n": 100, "witnesses": bsel, "prove": op == "bigsel_mul"})
    # bytes (assigned, decomposed, selected) read as native values, then range-sensitive comparisons with bounds of 8 and more bits
    bytepairs = [[3, 200], [200, 3], [0, 0], [255, 255], [255, 0]]
    for op in ("bytes_assigned_lt", "bytes_decomposed_lt", "bytes_selected_lt", "bytes_assigned_bound"):
        for n in (8, 16):
            sc.append({"name": f"{op}{n}", "kind": "stdop", "op": op, "n": n, "witnesses": bytepairs, "prove": op == "bytes_assigned_lt" and n == 8})
    # the stateful map gadget: insertions that change the map, re-insertion of the stored value, the default value on an absent
    # key, overwriting; lookups of present and absent keys
    sc.append({"name": "map_insert", "kind": "stdop", "op": "map_insert", "n": 0, "witnesses": [[2, 7], [1, 5], [3, 0], [1, 6], [1, 0]], "prove": True})
    sc.append({"name": "map_get", "kind": "stdop", "op": "map_get", "n": 0, "witnesses": [[1], [2], [0]]})
    for op, ws in [("nat_is_zero", [[0], [5], [-1]]), ("nat_inv0", [[0], [5], [-1]]),
                   ("nat_is_equal", [[0, 0], [5, 5], [3, 4], [-1, 0]]), ("nat_sgn0", [[0], [1], [-1], [2]])]:
        sc.append({"name": op, "kind": "stdop", "op": op, "n": 0, "witnesses": ws})
    sc.append({"name": "nat_to_bytes4", "kind": "stdop", "op": "nat_to_bytes", "n": 4, "witnesses": [[0], [255], [256], [4294967295]]})
    for n in ([3, 55] if tier == "quick" else [0, 3, 55, 56, 64, 119]):
        sc.append({"name": f"sha256_{n}", "kind": "stdop", "op": "sha256", "n": n,
                   "witnesses": [[[0] * n], [[255] * n], [[(7 * i) % 256 for i in range(n)]]]})
    for n in (1, 2, 3, 5):
        sc.append({"name": f"poseidon_{n}", "kind": "stdop", "op": "poseidon", "n": n,
                   "witnesses": [[[0] * n], [[-1] * n], [list(range(n))]], "prove": n == 2})
    sc.append({"name": "mixpos", "kind": "stdop", "op": "mixpos", "n": 3, "witnesses": [[3, [1, 2, 3]], [0, [0, 0, 0]]],
               "prove": True})
    for s_ in sc:
        if s_["name"] in ("jub_add", "secpf_mul", "big_sub64", "nat_is_zero"):
            s_["prove"] = True
    toy = {"add": 2, "sub": 2, "mul": 2, "div": 2, "neg": 1, "inv0": 1, "is_zero": 1, "is_equal": 2, "is_not_equal": 2,
           "square": 1, "sgn0": 1}
    vals = [0, 1, 2, 12288, 6144, 37]
    for op, ar in toy.items():
        ws = [[rng.choice(vals) for _ in range(ar)] for _ in range(5)] + [[0] * ar, [12288] * ar, [5] * ar]
        if op == "div":
            ws = [w for w in ws if w[1] != 0]
        sc.append({"name": "toy_" + op, "kind": "toyop", "op": op, "params": [], "witnesses": ws})
    for op, params, ws in [("to_le_bits", [8, 1], [[0], [255], [37]]), ("to_le_bits", [0, 1], [[0], [12288], [8192]]),
                           ("lower_than", [8], [[0, 0], [5, 6], [6, 5], [255, 255]]), ("div_rem", [5], [[0], [4], [5], [12288]]),
                           ("band", [8], [[0, 0], [255, 255], [170, 85]]), ("select", [], [[0, 1, 2], [1, 1, 2]]),
                           ("cond_swap", [], [[0, 1, 2], [1, 1, 2]]), ("is_equal_to_fixed", [37], [[37], [36], [0]]),
                           ("assert_lower_than_fixed", [200], [[0], [199]]), ("bnot", [8], [[0], [255]]),
                           ("to_le_bytes", [2], [[0], [300], [12288]])]:
        sc.append({"name": f"toy_{op}_{params}", "kind": "toyop", "op": op, "params": params, "witnesses": ws})
    return sc


def run(tier):
    rep = vlib.Report("C09", tier, "model_checking")
    wd = vlib.workdir("C09")
    rng = random.Random(vlib.seed())
    scen = scenarios(tier, rng)
    chunks = [scen[i::vlib.NCPU] for i in range(vlib.NCPU)]
    jobs = []
    for i, ch in enumerate(chunks):
        if ch:
            sp = os.path.join(wd, f"scen_{i}.ndjson")
            vlib.write_ndjson(sp, ch)
            jobs.append(["c09", sp, os.path.join(wd, f"trace_{i}.ndjson")])
    vlib.run_vh_parallel(jobs, timeout=7200)
    row_sets = [vlib.read_ndjson(j[2]) for j in jobs]
    evs = [r for rows in row_sets for r in rows if r["ev"] == "Structure"]
    nviol = 0
    accepted = 0
    total_states = 0
    acts = {}
    for j, rows in zip(jobs, row_sets):
        rows = list(rows)
        for _ in range(12):
            path = os.path.join(wd, f"val_{os.path.basename(j[2])}")
            vlib.write_ndjson(path, rows)
            ok, line, res = vlib.validate_trace(path, "Builder_Trace.tla", "Builder_Trace.cfg", "C09")
            if ok:
                accepted += 1
                total_states += res["distinct"]
                for k, v in res["actions"].items():
                    acts[k] = acts.get(k, 0) + v
                break
            e = rows[line - 1]
            key = {"circuit": e["circuit"], "res": e["res"]}
            rep.violation(key, f"structure of circuit {e['circuit']} depends on the witness: witness {e.get('witness', '-')[:80]} "
                               f"res={e['res']} first difference: {e.get('diff', e.get('detail', ''))[:200]} counts={e.get('counts')}",
                          {"scenario": next(s for s in scen if s["name"] == e["circuit"]), "event": e})
            nviol += 1
            rows.pop(line - 1)
    if not acts.get("TStructure") and not nviol:
        raise vlib.ToolError("vacuity: no structure event validated")
    rep.coverage.update({
        "states": max(total_states, 1), "transitions": max(total_states, 1),
        "traces_validated_against_impl": accepted,
        "circuits": len(scen), "syntheses": len(evs),
        "largest_circuit_advice_cells": max(e.get("advice_cells", 0) for e in evs),
        "circuits_whose_assigned_cell_set_depends_on_witness_availability": sorted({e["circuit"] for e in evs if e.get("advice_cell_set_differs")}),
        "trace_actions": acts,
        "samples": [scen[0], {k: evs[0][k] for k in ("circuit", "witness", "digest", "counts")}],
        "exhaustive": False,
    })
    rep.assumptions += ["structural sets are compared through a 128-bit digest of their sorted contents plus their sizes",
                        "witnesses are the listed boundary representatives, not all witnesses"]
    return rep.finish()


def replay(path):
    d = json.load(open(path))
    wd = vlib.workdir("C09")
    sp = os.path.join(wd, "replay_scen.ndjson")
    vlib.write_ndjson(sp, [d["replay"]["scenario"]])
    tp = os.path.join(wd, "replay_trace.ndjson")
    vlib.run_vh(["c09", sp, tp])
    ok, line, _ = vlib.validate_trace(tp, "Builder_Trace.tla", "Builder_Trace.cfg", "C09")
    if not ok:
        log(f"VIOLATION property=C09 replay={path}")
        return 1
    log("replay: accepted (violation not reproduced)")
    return 0
