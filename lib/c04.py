"""C04 - native-field gadgets are complete and sound w.r.t. their mathematical meaning.

NativeOps.tla defines Dom and Def of every native-gadget operation over Z/P for
a toy prime P = 12289 (the real, generic NativeGadget / NativeChip /
P2RDecompositionChip code is instantiated over the same field by the harness)
and enumerates scenarios: every operation x parameter menu x boundary inputs.
Each scenario runs the real gadget under MockProver with inputs and outputs
exposed as public inputs; the values the circuit ITSELF ties to the instance
column are extracted from its copy constraints.  Native_Trace recomputes Def
and Dom in TLC and requires completeness (in-domain honest runs are satisfiable
with the honest inputs) and soundness (whenever the circuit is satisfiable the
exposed outputs are Def of the exposed inputs, which are in Dom) - also under
tamper plans: through the guarded hook H1 the i-th advice assignment made
during synthesis is replaced CONSISTENTLY (everything downstream is computed
from the lie), for every assignment index x fault {+1, -1, 0, 1-v, v+2^j}."""
import json
import os
import random

import vlib
from vlib import log

TAMPER_OPS = {"mul", "div", "inv0", "is_zero", "is_equal", "is_equal_to_fixed", "select", "cond_swap", "xor", "or", "and",
              "to_le_bits", "lower_than", "geq", "sgn0", "assert_lower_than_fixed", "div_rem", "band", "bnot", "bounded",
              "to_le_bytes", "lincomb", "from_le_bits", "range2", "lower_than_fixed", "bxor",
              "vec_info", "vec_trim", "vec_trim_only", "vec_eq", "vec_resize"}


GS_OPS = [("mul", []), ("is_zero", []), ("is_equal", []), ("is_not_equal", []), ("inv0", []), ("inv", []), ("select", []), ("cond_swap", []),
          ("and", [2]), ("xor", [2]), ("or", [3]), ("and", [3]), ("not", []), ("add_and_mul", [1, 2, 3, 4, 1]), ("add_and_mul", [0, 1, 0, 2, 3]),
          ("is_equal_to_fixed", [3]), ("is_equal_to_fixed", [0]), ("div", []), ("lincomb", [1, 2, 1, 0]), ("lincomb", [4, 0, 3, 2]),
          ("add", []), ("sub", []), ("neg", []), ("square", []), ("add_constant", [3]), ("mul_by_constant", [4]),
          ("arith_src", [2, 1, 3, 1, 1]), ("arith_src", [2, 1, 3, 2, 1]), ("arith_src", [2, 1, 2, 0, 0]), ("arith_src", [0, 0, 0, 1, 0]), ("arith_src", [1, 0, 0, 2, 0])]
GS_SLOW = [("sgn0", []), ("to_le_bits", [3, 1])]


def gs_dom_size(op, params, nin, kinds, P):
    """number of input tuples in the operation's domain over F_P (for the completeness count)"""
    n = 1
    for k in kinds:
        n *= 2 if k == "b" else P
    if op == "div":
        return P * (P - 1)
    if op == "inv":
        return P - 1
    return n


def gadget_sat(rep, tier, wd):
    """The full adversary on tiny fields: TLC searches every assignment of the real constraint system (GadgetSat.tla)."""
    import re
    from concurrent.futures import ThreadPoolExecutor
    cases = []
    for P in ((5,) if tier == "quick" else (5, 7)):
        # (the lookup-heavy operations of GS_SLOW are searched over F_5 only: over F_7 their state space does not finish)
        for op, params in GS_OPS + (GS_SLOW if tier == "thorough" and P == 5 else []):
            cases.append({"op": op, "params": params, "p": P, "k": 6})
    if tier == "quick":
        cases += [{"op": op, "params": params, "p": 7, "k": 6} for op, params in [("mul", []), ("is_zero", []), ("select", []), ("xor", [2]), ("div", [])]]
    sp = os.path.join(wd, "gs_scen.ndjson")
    vlib.write_ndjson(sp, cases)
    op_out = os.path.join(wd, "gs_cases.ndjson")
    vlib.run_vh(["c04", "extract", sp, op_out])
    extracted = vlib.read_ndjson(op_out)

    def one(ic):
        i, c = ic
        if "error" in c:
            return c, None, None
        c = dict(c)
        for k in ("instance", "cells"):
            c.pop(k, None)
        c["advice"] = [[] for _ in c["advice"]]
        fp = os.path.join(wd, f"gs_case_{i}.json")
        json.dump(c, open(fp, "w"))
        r = vlib.run_tlc("GadgetSat.tla", f"GadgetSat_{c['p']}.cfg", "C04", env={"CASE": fp}, workers=2,
                         timeout=600 if tier == "quick" else 7200)
        return c, r, fp
    results = []
    with ThreadPoolExecutor(max_workers=8) as ex:
        results = list(ex.map(one, list(enumerate(extracted))))
    total_states = 0
    summary = []
    for c, r, fp in results:
        name = f"{c['op']}{c.get('params')} over F_{c.get('p')}"
        if r is None:
            raise vlib.ToolError(f"GadgetSat: extraction failed for {name}: {c.get('error')}")
        if r["violated"] == "Sound":
            rep.violation({"phase": "gadgetsat", "op": c["op"], "p": c["p"]},
                          f"GadgetSat: a satisfying assignment of the real constraint system of {name} exposes outputs that are not Def(inputs) "
                          f"(or inputs outside the domain); TLC's counterexample is in the log of the run",
                          {"scenario": {"gadgetsat": True, "op": c["op"], "params": c["params"], "p": c["p"], "k": 6}})
            continue
        vlib.require_tlc_ok(r, f"GadgetSat {name}")
        sat_inputs = set(re.findall(r'SATISFYING (<<[^"]*>>)', r["out"]))
        want = gs_dom_size(c["op"], c["params"], c["nin"], c["kinds"], c["p"])
        if len(sat_inputs) != want:
            rep.violation({"phase": "gadgetsat_complete", "op": c["op"], "p": c["p"]},
                          f"GadgetSat: {name}: satisfying assignments exist for {len(sat_inputs)} input tuples, the domain has {want}",
                          {"scenario": {"gadgetsat": True, "op": c["op"], "params": c["params"], "p": c["p"], "k": 6}})
        total_states += r["distinct"]
        summary.append({"op": c["op"], "params": c["params"], "p": c["p"], "states": r["distinct"], "satisfying_assignments": r["out"].count("SATISFYING"),
                        "inputs_covered": len(sat_inputs)})
    return total_states, summary


P_NATIVE = 0x73eda753299d7d483339d80809a1d80553bda402fffe5bfeffffffff00000001


def nat(n):
    out = []
    while n:
        out.append(n & 255)
        n >>= 8
    return out


def map_half(rep, tier, wd, rng):
    """Key-value map gadget: MerkleMap model-checked on a toy tree; its sessions replayed in-circuit and off-circuit."""
    mc = vlib.run_tlc("MC_MerkleMap.tla", "MC_MerkleMap.cfg", "C04", workers=8, timeout=900)
    if mc["violated"]:
        raise vlib.ToolError(f"MerkleMap violates {mc['violated']} (model error)")
    vlib.require_tlc_ok(mc, "MC_MerkleMap")
    mut = vlib.run_tlc("MC_MerkleMap.tla", "MC_MerkleMap_mutant.cfg", "C04", workers=4, timeout=300)
    if not mut["violated"]:
        raise vlib.ToolError("vacuity: the map invariants hold under a colliding hash")
    sessions = vlib.parse_replay_lines(mc["out"])
    sessions.sort(key=lambda s: json.dumps(s, sort_keys=True))
    keys = {0: 1, 1: 2, 5: P_NATIVE - 1, 6: 0}
    vals = {0: 0, 1: 5, 2: P_NATIVE - 1}

    def conc(s, init=()):
        return {"init": [[nat(k), nat(v)] for k, v in init],
                "ops": [{"op": o["op"], "k": nat(keys[o["k"]]), "v": nat(vals[o["v"]])} for o in s["ops"]]}

    def has(s, pred):
        return pred([(o["op"], o["k"], o["v"]) for o in s["ops"]])
    classes = [
        lambda o: o[0][0] == "insert" and o[1][0] == "insert" and o[0][1] == o[1][1] and o[0][2] != o[1][2] and o[2][0] == "get" and o[2][1] == o[0][1],  # overwrite, read back
        lambda o: o[0][0] == "insert" and o[0][2] != 0 and o[1] == ("insert", o[0][1], 0) and o[2][0] == "get" and o[2][1] == o[0][1],                   # write default = removal
        lambda o: all(x[0] == "get" for x in o),                                                                                                          # non-membership only
        lambda o: o[0][0] == "insert" and o[1][0] == "insert" and {o[0][1], o[1][1]} == {0, 1} and o[2][0] == "get",                                      # sibling leaves (toy)
        lambda o: o[0][0] == "insert" and o[0][2] != 0 and o[1][0] == "get" and o[1][1] != o[0][1] and o[2][0] == "get" and o[2][1] == o[0][1],          # absent then present
    ]
    picked = []
    for c in classes:
        m = [s for s in sessions if has(s, c)]
        if m:
            picked.append(rng.choice(m))
    picked += rng.sample(sessions, 6 if tier == "quick" else 60)
    scen = []
    for i, s in enumerate(picked):
        init = [] if i % 3 else [(7, 9), (keys[5], 3)]           # some sessions start from a populated map (one key shared with the session)
        sc = conc(s, init)
        if i < (3 if tier == "quick" else 12):
            sc["tamper_at"] = [0, 1, 3, 40, 250, 500, 750, 999] if tier == "quick" else [0, 1, 2, 3, 5, 10, 40, 100, 250, 400, 500, 600, 750, 900, 999]
            sc["faults"] = ["plus1", "zero"]
        scen.append(sc)
    chunks = [scen[i::vlib.NCPU] for i in range(vlib.NCPU)]
    jobs = []
    for i, ch in enumerate(chunks):
        if ch:
            sp = os.path.join(wd, f"mapscen_{i}.ndjson")
            vlib.write_ndjson(sp, ch)
            jobs.append(["c04m", sp, os.path.join(wd, f"maptrace_{i}.ndjson")])
    vlib.run_vh_parallel(jobs, timeout=7200)
    row_sets = [vlib.read_ndjson(j[2]) for j in jobs]
    evs = [r for rows in row_sets for r in rows if r["ev"] == "Map"]
    good, rejected, st = vlib.validate_many(row_sets, "Map_Trace.tla", "Map_Trace.cfg", "C04", "map", max_rejects=6, start_ev="Map")
    for run_rows, line, e in rejected:
        rep.violation({"op": "map_session", "status": e["status"], "tampered": e["tampered"]},
                      f"map session init={len(e['init'])} ops={[(o['op']) for o in e['ops']]} tamper={e.get('tamper')} status={e['status']} "
                      f"differs from MerkleMap ({e['detail'][:100]})",
                      {"scenario": {"map": True, "init": e["init"], "ops": e["ops"],
                                    "tamper_at": None, "faults": None}, "event": {k: e[k] for k in ("status", "tamper", "k", "nassign")}})
    if not evs:
        raise vlib.ToolError("vacuity: no map session recorded")
    # binding demonstration: a recorded honest session whose exposed root is changed by one must be rejected
    demo = next((json.loads(json.dumps(e)) for e in evs if not e["tampered"] and e["status"] == "sat" and e["ops"]), None)
    if demo:
        demo["exposed"][0][0] ^= 1
        tp = os.path.join(wd, "map_binding_demo.ndjson")
        vlib.write_ndjson(tp, [r for r in row_sets[0] if r["ev"] != "Map"] + [demo])
        acc, _, _ = vlib.validate_trace(tp, "Map_Trace.tla", "Map_Trace.cfg", "C04")
        if acc:
            raise vlib.ToolError("binding demonstration failed: a corrupted root was accepted by Map_Trace")
    return {"map_model_states": mc["distinct"], "map_sessions_enumerated": len(sessions), "map_sessions_run": len(scen),
            "map_runs": len(evs), "map_tampered_runs": sum(1 for e in evs if e["tampered"]),
            "map_tampered_but_satisfiable": sum(1 for e in evs if e["tampered"] and e["status"] == "sat"),
            "map_runs_validated": len(good), "map_colliding_hash_breaks": mut["violated"]}


def run(tier):
    rep = vlib.Report("C04", tier, "model_checking")
    wd = vlib.workdir("C04")
    rng = random.Random(vlib.seed())
    gs_states, gs_summary = gadget_sat(rep, tier, wd)
    log(f"[C04] GadgetSat: {len(gs_summary)} operation circuits searched exhaustively ({gs_states} states)")
    mc = vlib.run_tlc("NativeOps.tla", "MC_NativeOps.cfg", "C04", workers=8, timeout=900)
    if mc["violated"]:
        raise vlib.ToolError(f"NativeOps violates {mc['violated']} (model error)")
    vlib.require_tlc_ok(mc, "NativeOps")
    allsc = vlib.parse_replay_lines(mc["out"])
    allsc.sort(key=lambda s: json.dumps(s, sort_keys=True))
    log(f"[C04] NativeOps: {len(allsc)} scenarios")
    byop = {}
    for s in allsc:
        byop.setdefault(s["op"], []).append(s)
    scen = []
    per_op = 40 if tier == "quick" else 10**6
    ntamper_per_op = 2 if tier == "quick" else 8
    faults = ["plus1", "minus1", "zero", "oneminus", "pow2_3", "pow2_8"] if tier == "thorough" else ["plus1", "zero", "oneminus", "pow2_7"]
    for op, lst in sorted(byop.items()):
        pick = lst if len(lst) <= per_op else rng.sample(lst, per_op)
        indom = [s for s in pick if s["dom"]]
        tam = set(id(s) for s in rng.sample(indom, min(len(indom), ntamper_per_op))) if op in TAMPER_OPS else set()
        for s in pick:
            sc = {"op": s["op"], "params": s["params"], "ins": s["ins"], "k": 10}
            if id(s) in tam:
                sc["faults"] = faults
                sc["max_index"] = 60 if tier == "quick" else 400
            scen.append(sc)
    chunks = [scen[i::vlib.NCPU] for i in range(vlib.NCPU)]
    jobs = []
    for i, ch in enumerate(chunks):
        if ch:
            sp = os.path.join(wd, f"scen_{i}.ndjson")
            vlib.write_ndjson(sp, ch)
            jobs.append(["c04", "run", sp, os.path.join(wd, f"trace_{i}.ndjson")])
    vlib.run_vh_parallel(jobs, timeout=7200)
    row_sets = [vlib.read_ndjson(j[3]) for j in jobs]
    ops = [r for rows in row_sets for r in rows if r["ev"] == "Op"]
    good, rejected, st = vlib.validate_many(row_sets, "Native_Trace.tla", "Native_Trace.cfg", "C04", "nat",
                                            max_rejects=8, start_ev="Op")
    for run_rows, line, e in rejected:
        key = {"op": e["op"], "status": e["status"], "tampered": e.get("tamper") is not None}
        rep.violation(key, f"{e['op']}{e['params']} ins={e['ins']} tamper={e.get('tamper')} status={e['status']} "
                           f"exposed={e['exposed'][:16]} ({e['detail']})",
                      {"scenario": {"op": e["op"], "params": e["params"], "ins": e["ins"], "k": 10,
                                    "faults": [e["tamper"]["fault"]] if e.get("tamper") else None}, "event": e})
    if not st["actions"].get("TOp") and not rejected:
        raise vlib.ToolError("vacuity: no operation validated")
    by = {}
    for e in ops:
        k = (e["op"], "tamper" if e.get("tamper") else "honest", e["status"])
        by[k] = by.get(k, 0) + 1
    mstats = map_half(rep, tier, wd, rng)
    log(f"[C04] maps: {mstats}")
    rep.coverage.update(mstats)
    rep.coverage.update({
        "states": mc["distinct"] + gs_states, "transitions": mc["generated"] + gs_states,
        "gadgetsat": gs_summary,
        "traces_validated_against_impl": len(good),
        "runs": len(ops), "honest_runs": sum(1 for e in ops if not e.get("tamper")),
        "tamper_runs": sum(1 for e in ops if e.get("tamper")),
        "tampered_but_satisfiable": sum(1 for e in ops if e.get("tamper") and e["status"] == "sat"),
        "by_op_kind_status": {"/".join(k): v for k, v in sorted(by.items())},
        "operations": sorted(byop),
        "samples": [scen[0], {k: ops[0][k] for k in ("op", "params", "ins", "status", "exposed")}],
        "exhaustive": False,
    })
    rep.assumptions += ["the gadget code is generic in the field: conclusions drawn on Fp<12289> transfer to the deployed "
                        "field except where code branches on field size",
                        "satisfiability is judged by MockProver; single consistent fault per run (the property's quantifier)"]
    return rep.finish()


def replay(path):
    d = json.load(open(path))
    wd = vlib.workdir("C04")
    if d["replay"]["scenario"].get("gadgetsat"):
        sc = d["replay"]["scenario"]
        sp = os.path.join(wd, "gs_replay.ndjson")
        vlib.write_ndjson(sp, [{"op": sc["op"], "params": sc["params"], "p": sc["p"], "k": 6}])
        op_out = os.path.join(wd, "gs_replay_case.ndjson")
        vlib.run_vh(["c04", "extract", sp, op_out])
        c = vlib.read_ndjson(op_out)[0]
        for k in ("instance", "cells"):
            c.pop(k, None)
        c["advice"] = [[] for _ in c["advice"]]
        fp = os.path.join(wd, "gs_replay_case.json")
        json.dump(c, open(fp, "w"))
        r = vlib.run_tlc("GadgetSat.tla", f"GadgetSat_{sc['p']}.cfg", "C04", env={"CASE": fp}, workers=4, timeout=7200)
        if r["violated"]:
            log(f"VIOLATION property=C04 replay={path}")
            return 1
        log("replay: no violating assignment (violation not reproduced)")
        return 0
    if d["replay"]["scenario"].get("map"):
        sc = {k: v for k, v in d["replay"]["scenario"].items() if v is not None}
        t = d["replay"]["event"].get("tamper")
        if t:
            sc["tamper_at"], sc["faults"] = [max(0, t["i"] * 1000 // max(1, d["replay"]["event"]["nassign"]))], [t["fault"]]
        sp = os.path.join(wd, "replay_mapscen.ndjson")
        vlib.write_ndjson(sp, [sc])
        tp = os.path.join(wd, "replay_maptrace.ndjson")
        vlib.run_vh(["c04m", sp, tp])
        good, rejected, _ = vlib.validate_runs(vlib.read_ndjson(tp), "Map_Trace.tla", "Map_Trace.cfg", "C04", "replay", start_ev="Map")
        if rejected:
            log(f"VIOLATION property=C04 replay={path}")
            return 1
        log("replay: accepted (violation not reproduced)")
        return 0
    sp = os.path.join(wd, "replay_scen.ndjson")
    sc = {k: v for k, v in d["replay"]["scenario"].items() if v is not None}
    vlib.write_ndjson(sp, [sc])
    tp = os.path.join(wd, "replay_trace.ndjson")
    vlib.run_vh(["c04", "run", sp, tp])
    rows = vlib.read_ndjson(tp)
    good, rejected, _ = vlib.validate_runs(rows, "Native_Trace.tla", "Native_Trace.cfg", "C04", "replay", start_ev="Op")
    if rejected:
        log(f"VIOLATION property=C04 replay={path}")
        return 1
    log("replay: accepted (violation not reproduced)")
    return 0
