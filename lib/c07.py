"""C07 - hash gadgets equal their reference functions on every message.

Hashes.tla defines SHA-256 and SHA-512 from FIPS 180-4 over BigNat - padding,
message schedule, compression, and the constants as the first bits of the
fractional parts of the square and cube roots of the first primes, computed by
integer roots - and Poseidon (textbook x^5 permutation, width 3, 8 full and 60
partial rounds; the sponge of the library) with the MDS matrix and round
constants the code publishes taken as data.  MC_Hashes model-checks the padding
for every message length and generates the lengths to replay.  The driver runs
the standard library's sha2_256, sha2_512, sha3_256, keccak_256, blake2b_256/512
and poseidon, and the stand-alone variable-length SHA-256 gadget (actual length
anywhere in its bound, adversarial non-zero filler around the data), under
MockProver with message and digest exposed as public inputs; Hash_Trace
recomputes the digest from the definitions on the exposed message (for
SHA3/Keccak/BLAKE2b an independent crate's digest stands in), honest and under
tamper plans (hook H1).  The off-circuit Poseidon hash and the transcript sponge
are checked against the same definition."""
import json
import os
import random

import vlib
from vlib import log


def nat(x):
    s = []
    while x:
        s.append(x % 256)
        x //= 256
    return s


def run(tier):
    rep = vlib.Report("C07", tier, "fault_enumeration")
    wd = vlib.workdir("C07")
    rng = random.Random(vlib.seed())
    mc = vlib.run_tlc("MC_Hashes.tla", f"MC_Hashes_{tier}.cfg", "C07", workers=8, timeout=3600)
    if mc["violated"]:
        raise vlib.ToolError(f"MC_Hashes violates {mc['violated']} (model error)")
    vlib.require_tlc_ok(mc, "MC_Hashes")
    lens = {(s["len"], s["w"]): s for s in vlib.parse_replay_lines(mc["out"])}
    log(f"[C07] MC_Hashes: padding correct for {len(lens)} (length, word size) pairs")
    b256 = sorted(k[0] for k, s in lens.items() if k[1] == 32 and s["boundary"])
    b512 = sorted(k[0] for k, s in lens.items() if k[1] == 64 and s["boundary"])
    other256 = sorted(k[0] for k, s in lens.items() if k[1] == 32 and not s["boundary"])
    rmsg = lambda n: [rng.randrange(256) for _ in range(n)]
    scen = []
    q = tier == "quick"
    for n in (rng.sample(b256, 10) if q else b256) + rng.sample(other256, 3 if q else 30):
        scen.append({"alg": "sha256", "msg": rmsg(n)})
    for n in (rng.sample(b512, 4) if q else b512[:40]):
        scen.append({"alg": "sha512", "msg": rmsg(n)})
    # RIPEMD-160 (64-byte blocks, 8-byte length): the same boundary residues as SHA-256
    for n in (rng.sample(b256, 5) + [0, 55, 56, 64] if q else b256):
        scen.append({"alg": "ripemd160", "msg": rmsg(n)})
    # variable length: every residue class that matters, lengths above one block, non-zero filler
    for M in (128, 256):
        cand = [n for n in range(0, M + 1) if n % 64 in (0, 1, 54, 55, 56, 57, 62, 63) or n in (M, M - 1)]
        pick = rng.sample(cand, 8 if q else len(cand)) + [n for n in (120, 121, 126) if n <= M and q]
        for n in sorted(set(pick)):
            scen.append({"alg": "sha256_varlen", "maxlen": M, "msg": rmsg(n), "filler": rng.choice([0, 1, 0x80, 0xff, rng.randrange(256)]), "k": 16})
    for n in (range(0, 13) if not q else [0, 1, 2, 3, 4, 5, 8, 12]):
        scen.append({"alg": "poseidon", "inputs": [nat(rng.randrange(1 << 254)) if i % 3 else nat(rng.choice([0, 1, 2**64 - 1])) for i in range(n)]})
        scen.append({"alg": "poseidon_cpu", "inputs": [nat(rng.randrange(1 << 254)) for _ in range(n)]})
    for alg in ("sha3_256", "keccak_256", "blake2b_256", "blake2b_512"):
        for n in ([0, 1, 135, 136, 137] if alg in ("sha3_256", "keccak_256") else [0, 1, 127, 128, 129]) if not q else [0, rng.choice([135, 136, 127, 128]), 33]:
            scen.append({"alg": alg, "msg": rmsg(n)})
    # sponge sessions (TLC-generated operation sequences), off-circuit and in-circuit
    sp = vlib.run_tlc("MC_Sponge.tla", f"MC_Sponge_{tier}.cfg", "C07", workers=4, timeout=1800)
    vlib.require_tlc_ok(sp, "MC_Sponge")
    sess = {json.dumps(x["ops"]): x for x in vlib.parse_replay_lines(sp["out"])}
    sess = [sess[k] for k in sorted(sess)]
    special = [x for x in sess if x["empty_absorb_after_squeeze"]]
    others = [x for x in sess if not x["empty_absorb_after_squeeze"]]
    chosen = (rng.sample(special, min(len(special), 12)) + rng.sample(others, min(len(others), 24))) if q else sess
    for x in chosen:
        ops = [["squeeze"] if o < 0 else ["absorb", [nat(rng.randrange(1 << 254)) for _ in range(o)]] for o in x["ops"]]
        scen.append({"alg": "sponge", "len": -1, "ops": ops})
    for n in ([0, 1, 2, 3, 5] if q else range(0, 9)):
        xs = [nat(rng.randrange(1 << 254)) for _ in range(n)]
        cut = rng.randrange(0, n + 1)
        scen.append({"alg": "sponge", "len": n, "ops": [["absorb", xs[:cut]], ["absorb", xs[cut:]], ["squeeze"]]})
    # variable-length Poseidon: every payload length 0..M of vectors of capacity 4, 8 (12), zero and non-zero filler
    for m in ((4, 8) if q else (4, 8, 12)):
        for n in range(0, m + 1):
            for filler in ([], nat(5), nat(rng.randrange(1 << 254))):
                if q and n > 5 and filler == [] and n % 2 == 0:
                    continue
                scen.append({"alg": "poseidon_varlen", "maxlen": m, "k": 12, "filler": filler,
                             "inputs": [nat(rng.randrange(1 << 254)) if i % 3 else nat(rng.choice([0, 1, 2**64 - 1])) for i in range(n)]})
    log(f"[C07] MC_Sponge: {len(sess)} sessions enumerated ({len(special)} with an empty absorb right after a squeeze)")
    # tamper plans
    for s in scen:
        if s["alg"] in ("sha256", "ripemd160", "poseidon", "sha256_varlen", "poseidon_varlen") and rng.random() < (0.25 if q else 0.6):
            s.update({"faults": ["plus1", "zero"] if q else ["plus1", "minus1", "zero", "pow2_16", "random"],
                      "max_index": 12 if q else 80, "spread": True, "offset": rng.randrange(0, 5000)})
    log(f"[C07] {len(scen)} scenarios ({sum(1 for s in scen if 'faults' in s)} with tamper plans)")
    cost = lambda s: (3 if s["alg"] == "sha256_varlen" else 1) * (1 + len(s.get("msg") or []) // 64) * (1 + s.get("max_index", 0) * len(s.get("faults", [])))
    scen.sort(key=lambda s: -cost(s))
    chunks = [scen[i::vlib.NCPU] for i in range(vlib.NCPU)]
    jobs = []
    for i, ch in enumerate(chunks):
        if ch:
            sp = os.path.join(wd, f"scen_{i}.ndjson")
            vlib.write_ndjson(sp, ch)
            jobs.append(["c07", sp, os.path.join(wd, f"trace_{i}.ndjson")])
    vlib.run_vh_parallel(jobs, timeout=6 * 3600)
    row_sets = []
    for j in jobs:
        rows = vlib.read_ndjson(j[2])
        for r in rows:
            if r["ev"] == "Op" and r.get("inputs") is None:
                r["inputs"] = []
        row_sets.append(rows)
    evs = [r for rows in row_sets for r in rows if r["ev"] in ("Op", "PoseidonCpu", "Sponge")]
    good, rejected = [], []
    from concurrent.futures import ThreadPoolExecutor

    def one(i_rows):
        i, rows = i_rows
        head = [r for r in rows if r["ev"] in ("header", "PoseidonConstants")]
        body = [r for r in rows if r["ev"] in ("Op", "PoseidonCpu", "Sponge")]
        g, rj = [], []
        remaining = list(body)
        for _ in range(10):
            tp = os.path.join(wd, f"val_{i}.ndjson")
            vlib.write_ndjson(tp, head + remaining)
            acc, line, _ = vlib.validate_trace(tp, "Hash_Trace.tla", "Hash_Trace.cfg", "C07", timeout=7200)
            if acc:
                g += remaining
                break
            rj.append(remaining.pop(line - 1 - len(head)))
        return g, rj
    with ThreadPoolExecutor(max_workers=8) as ex:
        for g, rj in ex.map(one, list(enumerate(row_sets))):
            good += g
            rejected += rj
    for e in rejected:
        if e["ev"] == "Sponge":
            shape = [("s" if o[0] == "squeeze" else f"a{len(o[1])}") for o in e["ops"]]
            rep.violation({"alg": "sponge", "impl": e["impl"], "len": e["len"], "status": e["status"]},
                          f"Poseidon sponge ({e['impl']}) session {shape} len={e['len']}: outputs differ from the state machine (status {e['status']})",
                          {"scenario": {"alg": "sponge", "len": e["len"], "ops": e["ops"]}})
            continue
        if e["ev"] == "PoseidonCpu":
            rep.violation({"alg": "poseidon_cpu", "n": len(e["inputs"])}, f"off-circuit Poseidon on {len(e['inputs'])} inputs differs from the definition",
                          {"scenario": {"alg": "poseidon_cpu", "inputs": e["inputs"]}})
            continue
        n = len(e.get("msg") or e.get("inputs") or [])
        key = {"alg": e["alg"], "status": e["status"], "tampered": e.get("tamper") is not None,
               "len_mod_64": n % 64 if e["alg"].startswith("sha") else n, "above_one_block": n > 64}
        scn = {"alg": e["alg"], "msg": e.get("msg"), "inputs": e.get("inputs"), "maxlen": e.get("maxlen"), "filler": e.get("filler"), "k": e.get("k")}
        if e.get("tamper"):
            scn.update({"faults": [e["tamper"]["fault"]], "offset": e["tamper"]["i"], "stride": 10**9, "max_index": 1, "min_index": 0})
        rep.violation(key, f"{e['alg']} len={n} maxlen={e.get('maxlen')} filler={e.get('filler')} tamper={e.get('tamper')} status={e['status']} ({e['detail'][:80]})",
                      {"scenario": {k: v for k, v in scn.items() if v is not None}})
    if not good and not rejected:
        raise vlib.ToolError("vacuity: nothing validated")
    ops = [e for e in evs if e["ev"] == "Op"]
    by = {}
    for e in ops:
        k = (e["alg"], "tamper" if e.get("tamper") else "honest", e["status"])
        by[k] = by.get(k, 0) + 1
    rep.coverage.update({
        "states": mc["distinct"], "transitions": mc["generated"],
        "traces_validated_against_impl": len(good),
        "sponge_sessions": sum(1 for e in evs if e["ev"] == "Sponge"),
        "runs": len(ops), "tamper_runs": sum(1 for e in ops if e.get("tamper")),
        "tampered_but_satisfiable": sum(1 for e in ops if e.get("tamper") and e["status"] == "sat"),
        "by_alg_kind_status": {"/".join(k): v for k, v in sorted(by.items())},
        "message_lengths": {a: sorted(set(len(e.get("msg") or e.get("inputs") or []) for e in ops if e["alg"] == a)) for a in sorted(set(e["alg"] for e in ops))},
        "evaluations": len(evs),
        "distinct_nontrivial": len(by),
        "rule": "Hash_Trace!OpOK: sat with a typed instance => digest = definition(exposed message); honest => sat with digest = definition(message)",
        "samples": [{k: ops[0][k] for k in ("alg", "status", "nin")}],
        "exhaustive": False,
    })
    rep.assumptions += ["SHA3-256, Keccak-256 and BLAKE2b are compared with the sha3 / blake2b_simd crates, not with a TLA+ definition; RIPEMD-160 "
                        "and the variable-length Poseidon gadget are not covered",
                        "Poseidon's MDS matrix and round constants are taken from the code (their generation is not re-derived; the MDS matrix "
                        "is checked to be invertible with non-zero entries)",
                        "the variable-length vector cannot be exposed: its content is the scenario's and faults start after its assignments"]
    return rep.finish()


def replay(path):
    d = json.load(open(path))
    wd = vlib.workdir("C07")
    sp = os.path.join(wd, "replay_scen.ndjson")
    vlib.write_ndjson(sp, [d["replay"]["scenario"]])
    tp = os.path.join(wd, "replay_trace.ndjson")
    vlib.run_vh(["c07", sp, tp])
    rows = vlib.read_ndjson(tp)
    for r in rows:
        if r["ev"] == "Op" and r.get("inputs") is None:
            r["inputs"] = []
    vlib.write_ndjson(tp, rows)
    acc, line, _ = vlib.validate_trace(tp, "Hash_Trace.tla", "Hash_Trace.cfg", "C07")
    if not acc:
        log(f"VIOLATION property=C07 replay={path}")
        return 1
    log("replay: accepted (violation not reproduced)")
    return 0
