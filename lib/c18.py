"""C18 - ZKIR: off-circuit evaluation and the compiled circuit agree on every program.

Zkir.tla is the IR (types, operations, arity, typing rules, failure conditions,
memory, Publish) written as a generator-with-oracle: TLC explores all programs
of <= 2 instructions exhaustively (invariants) and, in simulation mode, builds
longer straight-line programs with witnesses from boundary menus (all surface
forms of constants, ill-typed witnesses, wrong arity, unknown / duplicate
names), printing for each finished program the outcome the model derives.
A stratified sample is executed by the real loader (from_instructions, JSON and
bincode round trips), the off-circuit evaluator and the compiled circuit under
MockProver - where the values the circuit ITSELF binds to the instance column
are extracted from its copy constraints and compared with encode(P), and single
position edits must be unsatisfiable.  Zkir_Trace requires totality (values,
never panics), agreement of the two evaluators, and the model's verdict."""
import collections
import json
import os
import random

import vlib
from vlib import log


def run(tier):
    rep = vlib.Report("C18", tier, "model_checking")
    wd = vlib.workdir("C18")
    rng = random.Random(vlib.seed())
    mc = vlib.run_tlc("Zkir.tla", "MC_Zkir.cfg", "C18", workers=vlib.NCPU, timeout=1800)
    if mc["violated"]:
        raise vlib.ToolError(f"Zkir violates {mc['violated']} (model error)")
    vlib.require_tlc_ok(mc, "Zkir (exhaustive, <= 2 instructions)")
    nsim = 60 if tier == "quick" else 600
    sim = vlib.run_tlc("Zkir.tla", "Sim_Zkir.cfg", "C18", workers=1, timeout=3000,
                       simulate=f"num={nsim}", extra=["-depth", "9", "-seed", str(vlib.seed())])
    rows = vlib.parse_replay_lines(sim["out"])
    uniq = {}
    for r in rows:
        uniq.setdefault(json.dumps(r, sort_keys=True), r)
    by = collections.defaultdict(list)
    for r in uniq.values():
        by[(r["expect"], min(len(r["prog"]), 4))].append(r)
    log(f"[C18] Zkir exhaustive: {mc['distinct']} states; simulation: {len(rows)} finished programs, "
        f"{len(uniq)} distinct, {len(by)} strata")
    # directed pipelines (load; one or two unary steps on the value bound last; publish), enumerated exhaustively by TLC:
    # one program per signature (sequence of operations with their parameters) whose outcome is not a plain type error
    dr = vlib.run_tlc("Zkir.tla", "Dir_Zkir.cfg", "C18", workers=8, timeout=900)
    vlib.require_tlc_ok(dr, "Zkir (directed pipelines)")
    drows = vlib.parse_replay_lines(dr["out"])
    dsig = collections.defaultdict(list)
    for r in drows:
        dsig[(r["expect"], json.dumps([i["op"] for i in r["prog"]], sort_keys=True))].append(r)
    directed = []
    for k in sorted(dsig):
        v = sorted(dsig[k], key=lambda r: json.dumps(r, sort_keys=True))
        if tier == "thorough":
            directed += v
        elif k[0] != "exec_error" or rng.random() < 0.07:
            directed.append(rng.choice(v))
    log(f"[C18] directed pipelines: {len(drows)} programs, {len(dsig)} signatures, {len(directed)} replayed")
    # directed binary programs (two loads; one binary operation on them; publish), also enumerated exhaustively: one program per
    # signature (operation, the two loaded types with their widths, operand choice, outcome); on the quick tier the signatures
    # with two big integers of different limb counts, and a sample of the rest
    d2 = vlib.run_tlc("Zkir.tla", "Dir2_Zkir.cfg", "C18", workers=8, timeout=1800)
    vlib.require_tlc_ok(d2, "Zkir (directed binary programs)")
    d2rows = vlib.parse_replay_lines(d2["out"])
    d2sig = collections.defaultdict(list)

    def limbs(ins):
        t = ins["op"].get("load") if isinstance(ins["op"], dict) else None
        return (t["BigUint"] + 95) // 96 if isinstance(t, dict) and "BigUint" in t else None
    for r in d2rows:
        wl = [json.dumps(w["val"], sort_keys=True) for w in r["wit"]]
        d2sig[(r["expect"], json.dumps([i["op"] for i in r["prog"]], sort_keys=True), json.dumps([i["inputs"] for i in r["prog"][2:3]]),
               "samelow" if len(wl) == 2 and ('"v": 3' in wl[0] or '"plus": 3' in wl[0]) and ('"v": 3' in wl[1] or '"plus": 3' in wl[1]) else "")].append(r)
    directed2 = []
    for k in sorted(d2sig):
        v = sorted(d2sig[k], key=lambda r: json.dumps(r, sort_keys=True))
        r0 = v[0]
        l = [limbs(i) for i in r0["prog"][:2]] if len(r0["prog"]) >= 2 else [None, None]
        mixed_big = None not in l and l[0] != l[1]
        if tier == "thorough" or (mixed_big and k[0] != "exec_error") or rng.random() < 0.01:
            directed2.append(rng.choice(v))
    log(f"[C18] directed binary programs: {len(d2rows)} programs, {len(d2sig)} signatures, {len(directed2)} replayed")
    directed += directed2
    per = 45 if tier == "quick" else 500
    pick = list(directed)
    for k in sorted(by):
        v = sorted(by[k], key=lambda r: json.dumps(r, sort_keys=True))
        rng.shuffle(v)
        pick += v[:per * (3 if k[0] == "published" else 1)]
    scen = [{"id": i, "prog": r["prog"], "wit": {w["name"]: w["val"] for w in r["wit"]}, "expect": r["expect"]}
            for i, r in enumerate(pick)]
    chunks = [scen[i::vlib.NCPU] for i in range(vlib.NCPU)]
    jobs = []
    for i, ch in enumerate(chunks):
        if ch:
            sp = os.path.join(wd, f"scen_{i}.ndjson")
            vlib.write_ndjson(sp, ch)
            jobs.append(["c18", sp, os.path.join(wd, f"trace_{i}.ndjson")])
    vlib.run_vh_parallel(jobs, timeout=7200)
    row_sets = [vlib.read_ndjson(j[2]) for j in jobs]
    evs = [r for rows in row_sets for r in rows if r["ev"] == "Zkir"]
    # the recorded open finding K1 (ill-typed programs: the off-circuit evaluator refuses, building the circuit panics) fails
    # the same way for every such program and would use up the cap on rejected runs: while it is open, six of those events
    # are validated (and reported as the known finding) and the rest are only counted
    kf = json.load(open(os.path.join(vlib.ROOT, "known_findings.json")))["findings"]
    k1 = next((f["key"] for f in kf if f["property"] == "C18" and f["status"] == "open" and f.get("key", {}).get("circ") == "panic"), None)
    is_k1 = lambda r: k1 is not None and r["ev"] == "Zkir" and all(r.get(k) == v for k, v in k1.items())
    k1_rows = [r for rows in row_sets for r in rows if is_k1(r)]
    heads = [r for r in row_sets[0] if r["ev"] == "header"][:1]
    row_sets = [[r for r in rows if not is_k1(r)] for rows in row_sets]
    if k1_rows:
        row_sets.append(heads + k1_rows[:6])
    good, rejected, st = vlib.validate_many(row_sets, "Zkir_Trace.tla", "Zkir_Trace.cfg", "C18", "zkir",
                                            max_rejects=40, start_ev="Zkir")
    sc_by_id = {s["id"]: s for s in scen}
    for run_rows, line, e in rejected:
        if "harness_error" in e:
            raise vlib.ToolError(f"harness could not run scenario {e.get('id')}: {e}")
        det = " ".join(str(e.get(k, "")) for k in ("load_detail", "off_detail", "circ_detail"))
        tag = "other"
        for needle, t in (("must enable jubjub", "jubjub_chip_missing"), ("chunk size", "bytes0"),
                          ("is not supported on", "ill_typed_panics"), ("out of range for slice", "slice"),
                          ("zero modulus", "zero_modulus"), ("divide by zero", "zero_modulus"),
                          ("assigned_to_le_bytes", "into_bytes_gt32"), ("was expected instead of", "ill_typed_panics"),
                          ("expecting Bytes", "ill_typed_panics"), ("cannot convert", "ill_typed_panics")):
            if needle in det:
                tag = t
                break
        prog_ops = json.dumps([i["op"] for i in (sc_by_id.get(e["id"]) or {"prog": []})["prog"]])
        if tag == "other" and e.get("off") == "ok" and e.get("circ") == "sat" and e.get("self_eq_enc") is False \
                and '{"from_bytes": "JubjubScalar"}' in prog_ops and '"publish"' in prog_ops:
            tag = "scalar_from_bytes_published"
        key = {"expect": e["expect"], "load": e["load"], "off": e.get("off"), "circ": e.get("circ"),
               "rt_bin": e.get("rt_bin"), "tag": tag}
        rep.violation(key, f"program {e['id']} ({e['nops']} instr): expect={e['expect']} load={e['load']} off={e.get('off')} "
                           f"circ={e.get('circ')} self_eq_enc={e.get('self_eq_enc')} edits_rejected={e.get('edits_rejected')} "
                           f"rt={e.get('rt_json')}/{e.get('rt_bin')} :: {det[:200]}",
                      {"scenario": sc_by_id.get(e["id"]), "event": e})
    if not st["actions"].get("TZkir") and not rejected:
        raise vlib.ToolError("vacuity: no program validated")
    cnt = collections.Counter((e["expect"], e["load"], e.get("off"), e.get("circ")) for e in evs)
    rep.coverage.update({
        "states": mc["distinct"], "transitions": mc["generated"],
        "traces_validated_against_impl": len(good),
        "programs_run": len(evs), "programs_skipped_as_known_finding": max(0, len(k1_rows) - 6),
        "simulated_programs": len(uniq),
        "outcomes": {"/".join(map(str, k)): v for k, v in sorted(cnt.items(), key=str)},
        "trace_actions": st["actions"],
        "samples": scen[:2],
        "exhaustive": False,
    })
    rep.assumptions += ["curve points, scalars and digests are opaque in the model: for programs whose outcome depends "
                        "on them the model says 'any' and only agreement of the two real evaluators is required",
                        "circuit satisfiability is judged by MockProver (which, after the C02 fix, also checks "
                        "additive-selector constraints)"]
    return rep.finish()


def replay(path):
    d = json.load(open(path))
    wd = vlib.workdir("C18")
    sp = os.path.join(wd, "replay_scen.ndjson")
    vlib.write_ndjson(sp, [d["replay"]["scenario"]])
    tp = os.path.join(wd, "replay_trace.ndjson")
    vlib.run_vh(["c18", sp, tp])
    rows = vlib.read_ndjson(tp)
    good, rejected, _ = vlib.validate_runs(rows, "Zkir_Trace.tla", "Zkir_Trace.cfg", "C18", "replay", start_ev="Zkir")
    if rejected:
        log(f"VIOLATION property=C18 replay={path}")
        return 1
    log("replay: accepted (violation not reproduced)")
    return 0
