"""C02 - the verifier enforces every constraint class; agrees with the mock checker.

Model: ConstraintSystem!Satisfied is the definition of a satisfying assignment;
Arguments.tla shows (exhaustively on small instances) that the permutation,
lookup and trash arguments the verifier checks are equivalent to the copy,
membership and gated-constraint clauses of that definition.
Binding: for TLC-enumerated single-phase shapes the harness extracts the REAL
constraint system and tables from the code (gates, lookups, trash arguments,
copy partition, fixed/selector tables) and, for every planned fault of every
assigned advice cell, of unused cells and of every instance cell (injected by a
hook-free wrapper floor planner, identically for MockProver and the prover),
records MockProver's verdict and the real prover+verifier's verdict.  CS_Trace
consumes a Judge line only if both equal Satisfied(faulted assignment) as TLC
computes it from the extracted system."""
import json
import os
import random
import re

import c01
import vlib
from vlib import log


def run(tier):
    rep = vlib.Report("C02", tier, "model_checking")
    wd = vlib.workdir("C02")
    rng = random.Random(vlib.seed())

    arg = vlib.run_tlc("Arguments.tla", f"MC_Arguments_{tier}.cfg", "C02", workers=8, timeout=1800)
    if arg["violated"]:
        raise vlib.ToolError(f"Arguments violates {arg['violated']} (model error)")
    vlib.require_tlc_ok(arg, "Arguments")
    mc = vlib.run_tlc("MC_FiatShamir.tla", "MC_FiatShamir_c02.cfg", "C02", workers=vlib.NCPU, timeout=900)
    vlib.require_tlc_ok(mc, "MC_FiatShamir c02 family")
    allsc = vlib.parse_replay_lines(mc["out"])
    allsc.sort(key=lambda s: json.dumps(s, sort_keys=True))
    log(f"[C02] Arguments: {arg['distinct']} instances; shape family: {len(allsc)} shapes")
    n = 12 if tier == "quick" else 150
    maxf = 60 if tier == "quick" else 100000
    # make sure every feature occurs
    feat = [s for s in allsc if s["shape"]["nlookups"] >= 3 and s["shape"]["ntrash"] >= 1 and s["shape"]["permcols"] > 0
            and s["shape"]["plain"][0]]
    pick = rng.sample(feat, min(len(feat), n // 2)) + rng.sample(allsc, n - min(len(feat), n // 2))
    scen = []
    for i, s in enumerate(pick):
        kn = c01.knobs_of(s["shape"], i, "quick", rng)
        kn["k"] = [5, 6, 5, 4][i % 4] if tier == "thorough" else 5
        if kn["k"] == 4:
            kn["lookups"] = 0
            kn["lookup_any"] = 0
            kn["trash"] = min(kn["trash"], 1)
        kn["ops"] = 6
        kn["inst_copy"] = (i % 3 == 1)
        kn["tbl_nozero"] = (i % 2 == 1)
        kn["fx_overwrite"] = (i % 3 != 1)
        if kn["rational"]:
            kn["perm"] = max(kn["perm"], 2)     # copy operations need two advice columns with equality enabled
        scen.append({"shape": kn, "nproofs": 1, "hash": "blake2b", "seed": rng.randrange(1 << 30),
                     "max_faults": maxf})
    # circuits whose single region fills every usable row and enables a gate on the LAST usable row
    for i in range(2 if tier == "quick" else 8):
        kn = dict(scen[i]["shape"])
        kn.update({"fill_last": True, "rot_mul": 0, "k": 5 + i % 2})
        scen.append({"shape": kn, "nproofs": 1, "hash": "blake2b", "seed": rng.randrange(1 << 30), "max_faults": maxf})
    chunks = [scen[i::vlib.NCPU] for i in range(vlib.NCPU)]
    jobs = []
    for i, ch in enumerate(chunks):
        if ch:
            sp = os.path.join(wd, f"scen_{i}.ndjson")
            vlib.write_ndjson(sp, ch)
            jobs.append(["c02", sp, os.path.join(wd, f"trace_{i}.ndjson")])
    vlib.run_vh_parallel(jobs, timeout=7200)
    row_sets = [vlib.read_ndjson(j[2]) for j in jobs]
    judges = [r for rows in row_sets for r in rows if r["ev"] == "Judge"]
    if any(r.get("big") for r in judges):
        raise vlib.ToolError("a judged table contains non-small values")
    good, rejected, st = vlib.validate_many(row_sets, "CS_Trace.tla", "CS_Trace.cfg", "C02", "cs", max_rejects=4)
    for run_rows, line, evt in rejected:
        if evt.get("ev") == "Judge":
            w = evt["what"]
            has_trash = run_rows[0]["sc"]["shape"]["trash"] > 0
            key = {"t": w["t"], "mock": evt["mock"], "real": evt["real"], "shape_has_trash": has_trash}
            rep.violation(key, f"verdicts differ from ConstraintSystem!Satisfied: fault {w} mock={evt['mock']} "
                               f"({evt['mock_detail'][:120]}) real={evt['real']} ({evt['real_detail'][:120]})",
                          {"scenario": run_rows[0]["sc"], "event": {k: evt[k] for k in evt if k not in ("advice", "instance")}})
        elif evt.get("ev") == "reset":
            raise vlib.ToolError("the honest assignment does not satisfy the extracted constraint system "
                                 f"(extraction or semantics bug): {evt['sc']}")
        else:
            raise vlib.ToolError(f"malformed run at {evt.get('ev')}")
    # class coverage printed by TLC is not collected per run (stdout of parallel runs); recompute coarse stats
    by = {}
    for r in judges:
        k = (r["what"]["t"], r["mock"], r["real"])
        by[k] = by.get(k, 0) + 1
    if not st["actions"].get("TJudge") and not rejected:
        raise vlib.ToolError("vacuity: no Judge validated")
    rep.coverage.update({
        "states": arg["distinct"] + mc["distinct"],
        "transitions": arg["generated"] + mc["generated"],
        "traces_validated_against_impl": len(good),
        "judged_assignments": len(judges),
        "verdict_table": {"/".join(k): v for k, v in sorted(by.items())},
        "trace_actions": st["actions"],
        "shapes": len(scen),
        "samples": [scen[0], {k: judges[0][k] for k in ("what", "mock", "real")}],
        "exhaustive": False,
    })
    rep.assumptions += ["exact integer semantics equals field semantics (all judged values are small by construction)",
                        "gates are judged on usable rows (every gate of the family has a selector that is 0 elsewhere)",
                        "lookup product/permuted-column rules cannot be violated in isolation through an honest prover: "
                        "for an input outside the table the prover refuses (counted as reject)"]
    return rep.finish()


def replay(path):
    d = json.load(open(path))
    wd = vlib.workdir("C02")
    sp = os.path.join(wd, "replay_scen.ndjson")
    vlib.write_ndjson(sp, [d["replay"]["scenario"]])
    tp = os.path.join(wd, "replay_trace.ndjson")
    vlib.run_vh(["c02", sp, tp])
    rows = vlib.read_ndjson(tp)
    good, rejected, _ = vlib.validate_runs(rows, "CS_Trace.tla", "CS_Trace.cfg", "C02", "replay")
    if rejected:
        log(f"VIOLATION property=C02 replay={path}")
        return 1
    log("replay: accepted (violation not reproduced)")
    return 0
