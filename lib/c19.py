"""C19 - regex compilation is exact (language half).

Regex.tla defines the expressions of circuits::parsing::regex by Brzozowski
derivatives over marked letters (ACI normal forms make the derivative automaton
finite) and explores the product of that derivative automaton with the COMPILED
automaton the code returns from to_automaton(), given as data.  In every
reachable product state the compiled state must be final exactly when the
derivative is nullable: this decides equality of the two marked languages for
ALL words (no length bound), one TLC run per expression.  Expressions are drawn
from the check's seed over all combinators (byte classes, complemented classes,
words, concatenation, union, intersection, complement, difference, star/plus,
optional, exact and bounded repetition, separated lists, delimiters, markers),
built in the real library in their sugared form and given to TLC in the
desugared form the documentation states."""
import json
import os
import random
import subprocess
from concurrent.futures import ThreadPoolExecutor

import vlib
from vlib import log

A, B, C, D_, X, Y = 97, 98, 99, 100, 120, 121
OTHER = 33   # a byte no expression mentions
UNIVERSE = [A, B, C, D_, X, Y, OTHER]   # representatives of all 256 bytes


def single(bytes_, marks):
    return {"op": "single", "ls": [[b, marks.get(b, 0)] for b in sorted(set(bytes_))]}


def gen(rng, depth, marks, allow_neg):
    """returns (lib AST, core AST)"""
    plain = [A, B, C, D_] if allow_neg else [A, B, C, X, Y]
    if depth == 0 or rng.random() < 0.25:
        k = rng.randrange(6 if allow_neg else 4)
        if k <= 1:
            bs = rng.sample(plain, rng.randrange(1, 3))
            s = single(bs, marks)
            return s, s
        if k == 2:
            w = "".join(chr(rng.choice(plain)) for _ in range(rng.randrange(1, 4)))
            core = None
            for ch in w:
                s = single([ord(ch)], marks)
                core = s if core is None else {"op": "cat", "x": core, "y": s}
            if any(marks.get(ord(c), 0) for c in w):
                # word() is unmarked in the library: build it from singles
                return {"op": "cat", "s": [single([ord(ch)], marks) for ch in w]}, core
            return {"op": "word", "w": w}, core
        if k == 3:
            return {"op": "eps"}, {"op": "eps"}
        if k == 4:
            bs = rng.sample(plain, rng.randrange(1, 3))
            rest = [b for b in UNIVERSE if b not in bs]
            return {"op": "not_from", "bytes": bs}, {"op": "single", "ls": [[b, 0] for b in sorted(rest)]}
        return {"op": "any_byte"}, {"op": "single", "ls": [[b, 0] for b in sorted(UNIVERSE)]}
    ops = ["cat", "union", "star", "plus", "opt", "repeat", "repeat_at_most", "sep_list", "sep_nelist", "delimited"]
    if allow_neg:
        ops += ["inter", "neg", "minus", "any"]
    op = rng.choice(ops)
    g = lambda: gen(rng, depth - 1, marks, allow_neg)
    cat2 = lambda x, y: {"op": "cat", "x": x, "y": y}
    if op == "cat":
        (l1, c1), (l2, c2) = g(), g()
        return {"op": "cat", "s": [l1, l2]}, cat2(c1, c2)
    if op == "union":
        (l1, c1), (l2, c2) = g(), g()
        return {"op": "union", "s": [l1, l2]}, {"op": "union", "s": [c1, c2]}
    if op == "inter":
        (l1, c1), (l2, c2) = g(), g()
        return {"op": "inter", "s": [l1, l2]}, {"op": "inter", "s": [c1, c2]}
    if op == "neg":
        l1, c1 = g()
        return {"op": "neg", "x": l1}, {"op": "neg", "x": c1}
    if op == "minus":
        (l1, c1), (l2, c2) = g(), g()
        return {"op": "minus", "x": l1, "y": l2}, {"op": "inter", "s": [c1, {"op": "neg", "x": c2}]}
    if op == "any":
        return {"op": "any"}, {"op": "neg", "x": {"op": "empty"}}
    if op == "star":
        l1, c1 = g()
        return {"op": "star", "strict": False, "x": l1}, {"op": "star", "strict": False, "x": c1}
    if op == "plus":
        l1, c1 = g()
        return {"op": "star", "strict": True, "x": l1}, {"op": "star", "strict": True, "x": c1}
    if op == "opt":
        l1, c1 = g()
        return {"op": "opt", "x": l1}, {"op": "union", "s": [c1, {"op": "eps"}]}
    if op == "repeat":
        l1, c1 = g()
        n = rng.randrange(0, 4)
        core = {"op": "eps"}
        for _ in range(n):
            core = cat2(core, c1)
        return {"op": "repeat", "x": l1, "n": n}, core
    if op == "repeat_at_most":
        l1, c1 = g()
        n = rng.randrange(0, 3)
        alts = []
        for i in range(n + 1):
            core = {"op": "eps"}
            for _ in range(i):
                core = cat2(core, c1)
            alts.append(core)
        return {"op": "repeat_at_most", "x": l1, "n": n}, {"op": "union", "s": alts}
    if op in ("sep_list", "sep_nelist"):
        (l1, c1), (l2, c2) = g(), g()
        ne = cat2(c1, {"op": "star", "strict": False, "x": cat2(c2, c1)})
        if op == "sep_nelist":
            return {"op": "sep_nelist", "x": l1, "y": l2}, ne
        return {"op": "sep_list", "x": l1, "y": l2}, {"op": "union", "s": [{"op": "eps"}, ne]}
    (l1, c1), (l2, c2), (l3, c3) = g(), g(), g()
    return {"op": "delimited", "x": l1, "y": l2, "z": l3}, cat2(c2, cat2(c1, c3))


def templates(rng, marks):
    """Compositions of iteration operators around multi-letter loops (nested stars, optional
    groups starting with a loop, loops after elements whose final states have successors)."""
    plain = [A, B, C, D_]
    out = []

    def word(n):
        bs = [rng.choice(plain) for _ in range(n)]
        lib = {"op": "word", "w": "".join(map(chr, bs))}
        core = None
        for b in bs:
            sg = single([b], {})
            core = sg if core is None else {"op": "cat", "x": core, "y": sg}
        return lib, core

    def star(x, strict=False):
        return ({"op": "star", "strict": strict, "x": x[0]}, {"op": "star", "strict": strict, "x": x[1]})

    def cat(x, y):
        return ({"op": "cat", "s": [x[0], y[0]]}, {"op": "cat", "x": x[1], "y": y[1]})

    def opt(x):
        return ({"op": "opt", "x": x[0]}, {"op": "union", "s": [x[1], {"op": "eps"}]})

    def sg(bs):
        t = single(bs, {})
        return (t, t)

    for n in (2, 3):
        for strict in (False, True):
            loop = star(word(n), strict)
            tail = sg([rng.choice(plain)])
            out.append(opt(cat(loop, tail)))
            out.append(star(cat(loop, tail)))
            out.append(star(cat(loop, tail), True))
            out.append(cat(star(sg([rng.choice(plain)]), True), loop))
            out.append(cat(star(sg([A, B]), True), cat(loop, tail)))
            out.append(star(loop))
            out.append(opt(loop))
            out.append(cat(loop, loop))
            out.append(({"op": "union", "s": [cat(loop, tail)[0], {"op": "eps"}]},
                        {"op": "union", "s": [cat(loop, tail)[1], {"op": "eps"}]}))
            out.append(({"op": "sep_list", "x": loop[0], "y": tail[0]},
                        {"op": "union", "s": [{"op": "eps"}, {"op": "cat", "x": loop[1], "y": {"op": "star", "strict": False,
                         "x": {"op": "cat", "x": tail[1], "y": loop[1]}}}]}))
    return out


def run_case(case_path, timeout):
    e = dict(os.environ)
    e["CASE"] = case_path
    e["JAVA_TOOL_OPTIONS"] = "-Xss1g"
    meta = case_path + ".meta"
    p = subprocess.run(["timeout", str(timeout), "tlc", "-workers", "1", "-metadir", meta, "-cleanup", "-noGenerateSpecTE",
                        "-config", "MC_Regex.cfg", "Regex.tla"], cwd=vlib.SPEC, env=e,
                       stdout=subprocess.PIPE, stderr=subprocess.STDOUT, text=True)
    subprocess.run(["rm", "-rf", meta])
    out = p.stdout
    st = vlib.TLC_STATS.search(out)
    states = int(st.group(2).replace(",", "")) if st else 0
    gen_ = int(st.group(1).replace(",", "")) if st else 0
    if "Model checking completed. No error has been found." in out:
        return "equal", states, gen_, ""
    if "Invariant Inv is violated" in out:
        return "differ", states, gen_, out[-1500:]
    if p.returncode == 124:
        return "timeout", states, gen_, ""
    return "toolerror", states, gen_, out[-1500:]


def words_for(a, letters, rng, maxlen, nacc, nrej):
    """accepted words (walks of the extracted automaton over the representative letters) and candidate rejected words"""
    trans = {}
    for q, b, q2, m in a["trans"]:
        trans.setdefault(q, []).append((b, q2))
    finals = set(a["finals"])
    acc = []
    # breadth-first: shortest accepted words
    seen = {a["initial"]: []}
    frontier = [a["initial"]]
    while frontier and len(acc) < nacc:
        nxt = []
        for q in frontier:
            if q in finals and seen[q] not in acc:
                acc.append(seen[q])
            for b, q2 in trans.get(q, []):
                if q2 not in seen and len(seen[q]) < maxlen:
                    seen[q2] = seen[q] + [b]
                    nxt.append(q2)
        frontier = nxt
    # random walks ending in a final state
    for _ in range(nacc * 4):
        q, w = a["initial"], []
        for _ in range(rng.randrange(1, maxlen + 1)):
            if not trans.get(q):
                break
            b, q = rng.choice(trans[q])
            w.append(b)
        if q in finals and w not in acc and len(acc) < 2 * nacc:
            acc.append(w)
    rej = [[]]
    for w in acc[:nrej]:
        if w:
            v = list(w)
            v[rng.randrange(len(v))] = rng.choice(letters)
            rej.append(v)
            rej.append(w[:-1])
            rej.append(w + [rng.choice(letters)])
    for _ in range(nrej):
        rej.append([rng.choice(letters) for _ in range(rng.randrange(1, 6))])
    out = []
    for w in acc + rej:
        if w not in out:
            out.append(w)
    return out


def parser_half(rep, tier, wd, rng, cases, results):
    """In-circuit parser: AutomatonChip::parse on the compiled automata, judged by RegexWords.tla."""
    equal = [(s, a, cpath) for (s, a, cpath), (res, _, _, _) in zip(cases, results) if res == "equal" and a["nb_states"] <= 40]
    pick = equal if len(equal) <= (24 if tier == "quick" else 250) else rng.sample(equal, 24 if tier == "quick" else 250)
    scen = []
    for s, a, cpath in pick:
        words = words_for(a, s["letters"], rng, 10 if tier == "quick" else 40, 4 if tier == "quick" else 8, 3 if tier == "quick" else 6)
        sc = {"id": s["id"], "lib": s["lib"], "k": 10, "words": words}
        if rng.random() < (0.3 if tier == "quick" else 0.6):
            sc.update({"faults": ["plus1", "zero"], "max_index": 12 if tier == "quick" else 40})
        scen.append(sc)
    chunks = [scen[i::vlib.NCPU] for i in range(vlib.NCPU)]
    jobs = []
    for i, ch in enumerate(chunks):
        if ch:
            cp = os.path.join(wd, f"pscen_{i}.ndjson")
            vlib.write_ndjson(cp, ch)
            jobs.append(["c19", "parse", cp, os.path.join(wd, f"parse_{i}.ndjson")])
    vlib.run_vh_parallel(jobs, timeout=4 * 3600)
    runs = {}
    for j in jobs:
        for r in vlib.read_ndjson(j[3]):
            if r["ev"] == "Parse":
                runs.setdefault(r["id"], []).append(r)
    byid = {s["id"]: (s, a) for s, a, _ in pick}

    def judge(i):
        s, a = byid[i]
        cpath = os.path.join(wd, f"wcase_{i}.json")
        json.dump({"expr": s["core"], "letters": s["letters"], "markers": s["markers"],
                   "automaton": {"nb_states": a["nb_states"], "initial": a["initial"], "finals": a["finals"], "trans": []},
                   "runs": [{"word": r["word"], "status": r["status"], "exposed": r["exposed"], "tampered": r["tampered"]} for r in runs[i]]}, open(cpath, "w"))
        r = vlib.run_tlc("RegexWords.tla", "RegexWords.cfg", "C19", env={"CASE": cpath}, workers=1, timeout=600)
        return i, r
    nruns = nacc = ntam = 0
    with ThreadPoolExecutor(max_workers=8) as ex:
        for i, r in ex.map(judge, [i for i in runs]):
            rs = runs[i]
            nruns += len(rs)
            nacc += sum(1 for x in rs if x["status"] == "sat" and not x["tampered"])
            ntam += sum(1 for x in rs if x["tampered"])
            if r["violated"] == "WordsOK":
                import re
                m = re.search(r'"BAD-RUNS", \{([0-9, ]*)\}', r["out"])
                bad = [int(x) for x in m.group(1).split(",")] if m and m.group(1).strip() else []
                for b in bad[:3]:
                    e = rs[b - 1]
                    rep.violation({"kind": "parser", "status": e["status"], "tampered": e["tampered"]},
                                  f"in-circuit parser, expression {i} ({json.dumps(byid[i][0]['lib'])[:160]}): word={e['word']} status={e['status']} "
                                  f"exposed={e['exposed']} tamper={e.get('tamper')}", {"scenario": byid[i][0], "parser_run": e})
            else:
                vlib.require_tlc_ok(r, f"RegexWords case {i}")
    return {"parser_expressions": len(runs), "parser_runs": nruns, "parser_accepted_words": nacc, "parser_tampered_runs": ntam}


B64STD = b"ABCDEFGHIJKLMNOPQRSTUVWXYZabcdefghijklmnopqrstuvwxyz0123456789+/"
B64URL = b"ABCDEFGHIJKLMNOPQRSTUVWXYZabcdefghijklmnopqrstuvwxyz0123456789-_"


def b64_class(e):
    """input class of a base64 run, used to key violations (and the recorded known findings)"""
    s = bytes(e["input"])
    body = s.rstrip(b"=") if e["padded"] else s
    if e["var"] and e["a"] > 4 and b"=" in s and len(s) % e["a"] != 0:
        return "var_padding_not_in_last_chunk"
    if e["url"] and any(c in b"+/" for c in body) and all(c in B64URL + b"+/" for c in body):
        return "url_accepts_standard_alphabet"
    if not e["padded"] and len(body) % 4 == 1 and all(c in (B64URL if e["url"] else B64STD) for c in body):
        return "unpadded_length_1_mod_4"
    return "other"


def base64_half(rep, tier, wd, rng):
    import base64 as b64
    q = tier == "quick"
    scen = []
    lens = list(range(0, 17)) + [31, 32, 33, 47, 48, 64] if q else list(range(0, 65))
    for n in lens:
        raw = bytes(rng.randrange(256) for _ in range(n))
        for url in (False, True):
            enc = (b64.urlsafe_b64encode if url else b64.b64encode)(raw)
            scen.append({"input": list(enc), "url": url, "padded": True})
            scen.append({"input": list(enc.rstrip(b"=")), "url": url, "padded": False})
            if len(enc) <= 32 and (n < 8 or not q):
                scen.append({"input": list(enc), "url": url, "padded": True, "var": True, "m": 32, "a": 4})
            # single-character corruptions of a well-formed input
            if enc and (n <= 6 or not q):
                for _ in range(2 if q else 6):
                    i = rng.randrange(len(enc))
                    bad = bytearray(enc)
                    bad[i] = rng.choice(b"!=*~ \x00\xff.,") if rng.random() < 0.7 else rng.choice(B64STD if url else B64URL)
                    scen.append({"input": list(bad), "url": url, "padded": True})
    # variable-length decoder at its capacity: the input fills the buffer exactly (and one group less)
    for (m, a) in ((32, 4), (64, 4), (64, 16)):
        for n in (m // 4 * 3, m // 4 * 3 - 1, m // 4 * 3 - 2, m // 4 * 3 - 3):
            raw = bytes(rng.randrange(256) for _ in range(n))
            for url in (False, True):
                enc = (b64.urlsafe_b64encode if url else b64.b64encode)(raw)
                if a == 4 or len(enc) % a == 0:
                    scen.append({"input": list(enc), "url": url, "padded": True, "var": True, "m": m, "a": a})
    # padding forms
    for s_ in [b"TQ==", b"TQ=", b"TQ", b"T===", b"====", b"=AAA", b"TW=E", b"TWE==", b"TWFu====", b"TWFuTQ==", b"TQ==TWFu"]:
        for padded in (True, False):
            if not padded or len(s_) % 4 == 0:
                scen.append({"input": list(s_), "url": False, "padded": padded})
    # the recorded known findings
    scen += [{"input": list(b"TW+/"), "url": True, "padded": True}, {"input": list(b"T"), "url": False, "padded": False},
             {"input": list(b"TWE="), "url": False, "padded": True, "var": True, "m": 32, "a": 8}]
    for sc in scen:
        if not sc.get("var") and rng.random() < (0.05 if q else 0.2):
            sc.update({"faults": ["plus1", "zero"], "max_index": 10 if q else 30})
    chunks = [scen[i::vlib.NCPU] for i in range(vlib.NCPU)]
    jobs = []
    for i, ch in enumerate(chunks):
        if ch:
            cp = os.path.join(wd, f"b64scen_{i}.ndjson")
            vlib.write_ndjson(cp, ch)
            jobs.append(["c19", "b64", cp, os.path.join(wd, f"b64_{i}.ndjson")])
    vlib.run_vh_parallel(jobs, timeout=4 * 3600)
    row_sets = []
    for j in jobs:
        rows = vlib.read_ndjson(j[3])
        for r in rows:
            if r["ev"] == "B64" and r.get("value") is None:
                r["value"] = []
        row_sets.append(rows)
    good, rejected, st = vlib.validate_many(row_sets, "Base64.tla", "Base64.cfg", "C19", "b64", max_rejects=12, start_ev="B64")
    for run_rows, line, e in rejected:
        rep.violation({"kind": "base64", "cls": b64_class(e), "status": e["status"], "tampered": e["tampered"]},
                      f"base64{'url' if e['url'] else ''} {'padded' if e['padded'] else 'unpadded'}{' var A=%d' % e['a'] if e['var'] else ''} input={bytes(e['input'])!r} "
                      f"status={e['status']} out={e['exposed'][len(e['input']):] if not e['var'] else e.get('value')} tamper={e.get('tamper')} ({e['detail'][:60]})",
                      {"scenario": {"b64": True, "input": e["input"], "url": e["url"], "padded": e["padded"], "var": e["var"], "m": e["m"], "a": e["a"]}})
    evs = [r for rows in row_sets for r in rows if r["ev"] == "B64"]
    return {"base64_runs": len(evs), "base64_accepted": sum(1 for e in evs if e["status"] == "sat" and not e["tampered"]),
            "base64_tampered_runs": sum(1 for e in evs if e["tampered"]), "base64_validated": len(good)}


def run(tier):
    rep = vlib.Report("C19", tier, "model_checking")
    wd = vlib.workdir("C19")
    rng = random.Random(vlib.seed())
    n = 120 if tier == "quick" else 1500
    scen = []
    for i in range(n):
        allow_neg = i % 2 == 0
        marks = {} if allow_neg else {X: 1, Y: 2}
        lib, core = gen(rng, rng.randrange(1, 4 if tier == "quick" else 5), marks, allow_neg)
        scen.append({"id": i, "lib": lib, "core": core, "letters": [A, B, C, D_, X, Y, OTHER],
                     "markers": sorted(set(marks.values()))})
    # marked operands under intersection and difference: marker 0 of the other operand unifies with any marker
    def strip(ast):
        if isinstance(ast, dict):
            if ast.get("op") == "single":
                return {"op": "single", "ls": [[b, 0] for b, _ in ast["ls"]]}
            return {k: strip(v) for k, v in ast.items()}
        if isinstance(ast, list):
            return [strip(v) for v in ast]
        return ast
    marks = {X: 1, Y: 2}
    allb = {"op": "single", "ls": [[b, 0] for b in sorted([A, B, C, X, Y])]}
    for i in range(24 if tier == "quick" else 300):
        l1, c1 = gen(rng, rng.randrange(1, 3), marks, False)
        kind = i % 4
        if kind == 0:
            l2, c2 = strip(l1), strip(c1)
        elif kind == 1:
            l2 = c2 = {"op": "star", "strict": False, "x": allb}
        elif kind == 2:
            l3, c3 = gen(rng, 1, {}, False)
            l2, c2 = {"op": "union", "s": [strip(l1), l3]}, {"op": "union", "s": [strip(c1), c3]}
        else:
            l2, c2 = gen(rng, rng.randrange(1, 3), {}, False)
        form = (i // 4) % 3
        if form == 0:
            lib, core = {"op": "inter", "s": [l1, l2]}, {"op": "inter", "s": [c1, c2]}
        elif form == 1:
            lib, core = {"op": "inter", "s": [l2, l1]}, {"op": "inter", "s": [c1, c2]}
        else:
            l4, c4 = gen(rng, 1, {}, False)
            lib, core = {"op": "minus", "x": l1, "y": l4}, {"op": "inter", "s": [c1, {"op": "neg", "x": c4}]}
        scen.append({"id": len(scen), "lib": lib, "core": core, "letters": [A, B, C, D_, X, Y, OTHER], "markers": [1, 2]})
    for lib, core in templates(rng, {}):
        scen.append({"id": len(scen), "lib": lib, "core": core, "letters": [A, B, C, D_, X, Y, OTHER], "markers": []})
    sp = os.path.join(wd, "scen.ndjson")
    vlib.write_ndjson(sp, scen)
    chunks = [scen[i::vlib.NCPU] for i in range(vlib.NCPU)]
    jobs = []
    for i, ch in enumerate(chunks):
        if ch:
            cp = os.path.join(wd, f"scen_{i}.ndjson")
            vlib.write_ndjson(cp, ch)
            jobs.append(["c19", cp, os.path.join(wd, f"aut_{i}.ndjson")])
    vlib.run_vh_parallel(jobs, timeout=3600)
    auts = {}
    for j in jobs:
        for r in vlib.read_ndjson(j[2]):
            if r["ev"] == "Automaton":
                auts[r["id"]] = r
    cases = []
    for s in scen:
        a = auts[s["id"]]
        if a["res"] != "ok":
            rep.violation({"kind": "compile_panic"}, f"to_automaton panicked on expression {s['id']}: {a.get('detail')}",
                          {"scenario": s})
            continue
        cpath = os.path.join(wd, f"case_{s['id']}.json")
        with open(cpath, "w") as f:
            json.dump({"expr": s["core"], "letters": s["letters"], "markers": s["markers"],
                       "automaton": {"nb_states": a["nb_states"], "initial": a["initial"], "finals": a["finals"],
                                     "trans": a["trans"]}}, f)
        cases.append((s, a, cpath))
    tmo = 60 if tier == "quick" else 180
    with ThreadPoolExecutor(max_workers=max(2, vlib.NCPU // 2)) as ex:
        results = list(ex.map(lambda c: run_case(c[2], tmo), cases))
    states = trans = 0
    outcome = {"equal": 0, "differ": 0, "timeout": 0, "toolerror": 0}
    for (s, a, cpath), (res, st, gn, tail) in zip(cases, results):
        outcome[res] += 1
        states += st
        trans += gn
        if res == "differ":
            rep.violation({"kind": "language_differs"},
                          f"compiled automaton of expression {s['id']} differs from the expression's language "
                          f"(lib form {json.dumps(s['lib'])[:300]})", {"scenario": s, "automaton": a, "tlc": tail})
        elif res == "toolerror":
            raise vlib.ToolError(f"TLC failed on case {s['id']}: {tail[-600:]}")
    log(f"[C19] {len(cases)} expressions: {outcome}")
    pstats = parser_half(rep, tier, wd, rng, cases, results)
    log(f"[C19] in-circuit parser: {pstats}")
    bstats = base64_half(rep, tier, wd, rng)
    log(f"[C19] base64: {bstats}")
    pstats.update(bstats)
    if outcome["equal"] == 0 and not rep.violations:
        raise vlib.ToolError("vacuity: no expression decided")
    rep.coverage.update({
        "states": max(states, 1), "transitions": max(trans, 1),
        "traces_validated_against_impl": outcome["equal"],
        "expressions": len(scen), "outcomes": outcome,
        "max_automaton_states": max((a["nb_states"] for _, a, _ in cases), default=0),
        **pstats,
        "samples": [scen[0]["lib"], scen[1]["lib"]],
        "exhaustive": False,
    })
    rep.assumptions += ["markers never occur under complements; under intersection / difference one operand is marked and the other "
                        "unmarked (marker 0 unifies with any marker); each byte carries one fixed marker per expression (so every "
                        "expression is output-deterministic)",
                        "bytes an expression does not mention are represented by one byte (33)",
                        "expressions whose derivative automaton does not finish within the per-case timeout are "
                        "counted as undecided, not as passed",
                        "in-circuit parser: words are walks of the extracted automaton over the representative letters plus mutated and random "
                        "words; shipped serialized automata and base64 decoding are not covered by this check"]
    return rep.finish()


def replay(path):
    d = json.load(open(path))
    wd = vlib.workdir("C19")
    s = d["replay"]["scenario"]
    if s.get("b64"):
        sp = os.path.join(wd, "replay_b64.ndjson")
        vlib.write_ndjson(sp, [s])
        tp = os.path.join(wd, "replay_b64_out.ndjson")
        vlib.run_vh(["c19", "b64", sp, tp])
        rows = vlib.read_ndjson(tp)
        for r in rows:
            if r["ev"] == "B64" and r.get("value") is None:
                r["value"] = []
        good, rejected, _ = vlib.validate_runs(rows, "Base64.tla", "Base64.cfg", "C19", "replay", start_ev="B64")
        if rejected:
            log(f"VIOLATION property=C19 replay={path}")
            return 1
        log("replay: accepted (violation not reproduced)")
        return 0
    pr = d["replay"].get("parser_run")
    if pr:
        # the in-circuit parser half: the same word (and tamper) again, judged by RegexWords
        sc = {"id": s["id"], "lib": s["lib"], "k": 10, "words": [pr["word"]]}
        if pr.get("tamper"):
            sc.update({"faults": [pr["tamper"]["fault"]], "max_index": 100000})
        sp = os.path.join(wd, "replay_pscen.ndjson")
        vlib.write_ndjson(sp, [sc])
        tp = os.path.join(wd, "replay_parse.ndjson")
        vlib.run_vh(["c19", "parse", sp, tp])
        rs = [r for r in vlib.read_ndjson(tp) if r["ev"] == "Parse" and (not pr.get("tamper") or not r["tampered"] or r["tamper"]["i"] == pr["tamper"]["i"])]
        cpath = os.path.join(wd, "replay_wcase.json")
        json.dump({"expr": s["core"], "letters": s["letters"], "markers": s["markers"],
                   "automaton": {"nb_states": 1, "initial": 0, "finals": [], "trans": []},
                   "runs": [{"word": r["word"], "status": r["status"], "exposed": r["exposed"], "tampered": r["tampered"]} for r in rs]}, open(cpath, "w"))
        r = vlib.run_tlc("RegexWords.tla", "RegexWords.cfg", "C19", env={"CASE": cpath}, workers=1, timeout=600)
        if r["violated"] == "WordsOK":
            log(f"VIOLATION property=C19 replay={path}")
            return 1
        log("replay: accepted (violation not reproduced)")
        return 0
    sp = os.path.join(wd, "replay_scen.ndjson")
    vlib.write_ndjson(sp, [s])
    ap = os.path.join(wd, "replay_aut.ndjson")
    vlib.run_vh(["c19", sp, ap])
    a = [r for r in vlib.read_ndjson(ap) if r["ev"] == "Automaton"][0]
    if a["res"] != "ok":
        log(f"VIOLATION property=C19 replay={path}")
        return 1
    cpath = os.path.join(wd, "replay_case.json")
    json.dump({"expr": s["core"], "letters": s["letters"], "markers": s["markers"],
               "automaton": {"nb_states": a["nb_states"], "initial": a["initial"], "finals": a["finals"],
                             "trans": a["trans"]}}, open(cpath, "w"))
    res, _, _, _ = run_case(cpath, 300)
    if res == "differ":
        log(f"VIOLATION property=C19 replay={path}")
        return 1
    log(f"replay: {res}")
    return 0
