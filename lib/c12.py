"""C12 - MSM, FFT and the evaluation-domain algebra equal their naive definitions.

Msm.tla: (1) the meaning of a multi-scalar multiplication in the group of
Curve.tla, with scalars and bases named by patterns so that vectors of
thousands of terms are described, not transported; (2) the signed-window
(Booth) recoding and the bucket method as functions on integers, checked
exhaustively by TLC (digits recompose the scalar and stay in range for every
scalar below 2^MaxBits and every window size; buckets + summation by parts +
window shifts equal the naive sum on small instances).  The driver runs
msm_best, msm_parallel, msm_serial and G1Projective::multi_exp on BLS12-381 G1
and BN254 G1 for lengths across every window-size switch (0..70, 255, 1000,
8103/8104/8200) x scalar classes x base classes (identity, repeated, mutually
opposite, duplicated terms) under rayon pools of several sizes; Msm_Trace
requires every result to be the model's point.  FFT, evaluation-domain
conversions, rotation, Lagrange-basis evaluation, division by the vanishing
polynomial, kate division, evaluation, inner product and interpolation run over
the toy field F_12289 (the real generic code) and are re-evaluated by TLC from
their definitions."""
import json
import os
import random

import vlib
from vlib import log

P = 12289


def msm_scenarios(tier, rng):
    sc = []
    small_lengths = list(range(0, 8)) + [31, 32, 33, 70] if tier == "quick" else list(range(0, 71))
    combos = [("one", "gen"), ("zero", "seq"), ("minus_one", "seq"), ("pow3", "seq"), ("pow3", "identity"), ("alt", "opposite"),
              ("pow3", "repeated"), ("two", "opposite"), ("dup_pairs", "dup_pairs"), ("small", "repeated"), ("minus_one", "gen")]
    threads = [1, 2, 3, 5, 8, 16]
    for n in small_lengths:
        for (s, b) in (combos if tier == "thorough" else rng.sample(combos, 4)):
            sc.append({"kind": "msm", "curve": "bls12_381_g1", "n": n, "scal": s, "base": b, "threads": rng.choice(threads)})
    # short scalars (1..3 used bytes, top bit of the highest byte set): the window count depends on the longest scalar of a chunk
    short = [("byte_top", "gen"), ("word_top", "seq"), ("three_top", "repeated"), ("short_mix", "seq")]
    for n in ([1, 2, 3, 4, 5, 31, 32, 40, 70] if tier == "quick" else list(range(1, 71)) + [255, 1000]):
        for (s, b) in short:
            sc.append({"kind": "msm", "curve": "bls12_381_g1", "n": n, "scal": s, "base": b, "threads": rng.choice(threads)})
    for n in (3, 33):
        for (s, b) in short:
            sc.append({"kind": "msm", "curve": "bn256_g1", "n": n, "scal": s, "base": b, "threads": rng.choice(threads)})
    for n in ([255, 1000] if tier == "quick" else [100, 255, 256, 257, 1000, 2980, 2981, 4096]):
        for (s, b) in rng.sample(combos, 3 if tier == "quick" else 6):
            sc.append({"kind": "msm", "curve": "bls12_381_g1", "n": n, "scal": s, "base": b, "threads": rng.choice(threads)})
    # the bucket-scheduling path of msm_best starts at ceil(ln n) = 10, i.e. n = 8104
    big = [("minus_one", "gen"), ("pow3", "repeated"), ("dup_pairs", "dup_pairs"), ("alt", "opposite"), ("pow3", "identity"), ("pow3", "seq")]
    for n in ([8103, 8104, 8200] if tier == "quick" else [8103, 8104, 8200, 12000, 22027]):
        for (s, b) in (big if n != 8103 else big[:2]):
            sc.append({"kind": "msm", "curve": "bls12_381_g1", "n": n, "scal": s, "base": b, "threads": rng.choice([1, 3, 16])})
    for n, (s, b) in [(0, ("one", "gen")), (5, ("pow3", "seq")), (40, ("alt", "opposite")), (8200, ("dup_pairs", "dup_pairs")), (8200, ("minus_one", "gen"))]:
        sc.append({"kind": "msm", "curve": "bn256_g1", "n": n, "scal": s, "base": b, "threads": rng.choice(threads)})
    return sc


def fft_scenarios(tier, rng):
    sc = []
    ks = range(1, 7) if tier == "quick" else range(1, 9)
    for k in ks:
        n = 1 << k
        pats = {"zeros": [0] * n, "ones": [1] * n, "delta": [1] + [0] * (n - 1), "ramp": [(i + 1) % P for i in range(n)],
                "max": [P - 1] * n, "short": [5, 7], "rand": [rng.randrange(P) for _ in range(n)]}
        js = [2, 3, 4, 5, 8] if tier == "thorough" else rng.sample([2, 3, 4, 5, 8], 3)
        for j in js:
            for name in (pats if tier == "thorough" else rng.sample(sorted(pats), 3)):
                sc.append({"kind": "fft", "k": k, "j": j, "vals": pats[name], "threads": rng.choice([1, 2, 3, 5, 8, 16]),
                           "x": rng.choice([0, 5, 11, 1000, rng.randrange(2, P - 1)]), "z": rng.choice([0, 1, 7, rng.randrange(P)]),
                           "rots": [-3, -2, -1, 0, 1, 2, 3, n, n + 1, -n - 2]})
    # the recorded known finding: l_i_range evaluated at a point of the domain
    sc.append({"kind": "fft", "k": 2, "j": 2, "vals": [1, 2, 3, 4], "threads": 1, "x": 1, "z": 7, "rots": [-1, 0, 1]})
    return sc


def diagnose_fft(e):
    """Which clause of Msm_Trace!FftOK fails (a python re-computation, used only to key the violation)."""
    if "panic" in e:
        return "panic"
    def ev(cs, x):
        r = 0
        for c in reversed(cs):
            r = (r * x + c) % P
        return r
    n, w = e["n"], e["omega"]
    fails = []
    if [sum(e["input"][j] * pow(w, i * j, P) for j in range(n)) % P for i in range(n)] != e["fft"]:
        fails.append("fft")
    if any(ev(e["coeff"], pow(w, i, P)) != e["input"][i] for i in range(n)) or e["back"] != e["input"]:
        fails.append("lagrange_coeff")
    ne, we = len(e["ext"]), e["extended_omega"]
    if any(e["ext"][i] != ev(e["coeff"], e["zeta"] * pow(we, i, P) % P) for i in range(ne)) or e["ext_back"] != e["coeff"] + [0] * (ne - n):
        fails.append("extended")
    if e["div"] and e["div"] != e["coeff"] + [0] * (ne - n):
        fails.append("vanishing_division")
    for i, r in enumerate(e["rots"]):
        wr = pow(w, r, P) if r >= 0 else pow(pow(w, P - 2, P), -r, P)
        if e["rot"][i] != e["x"] * wr % P:
            fails.append("rotate")
        if e.get("polyrot") is not None and -3 <= r <= 3 and e["polyrot"][i] != [e["input"][(t + r) % n] for t in range(n)]:
            fails.append("polynomial_rotate_panics" if not e["polyrot"][i] else "polynomial_rotate")
        val = 1
        for j in range(n):
            wj = pow(w, j, P)
            if wj != wr:
                val = val * ((e["x"] - wj) % P) * pow((wr - wj) % P, P - 2, P) % P
        if e["l_i"][i] != val:
            fails.append("l_i_at_domain_point" if pow(e["x"], n, P) == 1 else "l_i")
    if e["evalz"] != ev(e["coeff"], e["z"]):
        fails.append("eval")
    return "+".join(sorted(set(fails))) or "other"


def run(tier):
    rep = vlib.Report("C12", tier, "model_checking")
    wd = vlib.workdir("C12")
    rng = random.Random(vlib.seed())
    mc = vlib.run_tlc("Msm.tla", f"MC_Msm_{tier}.cfg", "C12", workers=8, timeout=3600)
    if mc["violated"]:
        raise vlib.ToolError(f"Msm violates {mc['violated']} (model error)")
    vlib.require_tlc_ok(mc, "Msm")
    log(f"[C12] Msm: Booth recoding and bucket method correct on {mc['distinct']} states")
    scen = msm_scenarios(tier, rng) + fft_scenarios(tier, rng)
    scen.sort(key=lambda s: -(s.get("n", 0) if s["kind"] == "msm" else (1 << s["k"]) * 20))
    nproc = 6   # each msm uses its own rayon pool
    chunks = [scen[i::nproc] for i in range(nproc)]
    jobs = []
    for i, ch in enumerate(chunks):
        if ch:
            sp = os.path.join(wd, f"scen_{i}.ndjson")
            vlib.write_ndjson(sp, ch)
            jobs.append(["c12", sp, os.path.join(wd, f"trace_{i}.ndjson")])
    vlib.run_vh_parallel(jobs, timeout=4 * 3600)
    row_sets = []
    for j in jobs:
        rows = vlib.read_ndjson(j[2])
        for r in rows:
            if r.get("ev") == "Fft" and r.get("div") is None and "panic" not in r:
                r["div"] = []
        head = [r for r in rows if r["ev"] in ("header", "Curve")]
        body = [r for r in rows if r["ev"] in ("Msm", "Fft")]
        for i in range(3):
            part = body[i::3]
            if part:
                row_sets.append(head + [{"ev": "Run"}] + [x for b in part for x in ({"ev": "Run"}, b)][1:])
    # runs are delimited per event: use the event kinds themselves as run starts
    flat_sets = [[r for r in rs if r["ev"] != "Run"] for rs in row_sets]
    evs = [r for rs in flat_sets for r in rs if r["ev"] in ("Msm", "Fft")]
    good, rejected = [], []
    from concurrent.futures import ThreadPoolExecutor

    def one(i_rows):
        i, rows = i_rows
        head = [r for r in rows if r["ev"] in ("header", "Curve")]
        body = [r for r in rows if r["ev"] in ("Msm", "Fft")]
        g, rj = [], []
        remaining = list(body)
        for _ in range(10):
            tp = os.path.join(wd, f"val_{i}.ndjson")
            vlib.write_ndjson(tp, head + remaining)
            acc, line, _ = vlib.validate_trace(tp, "Msm_Trace.tla", "Msm_Trace.cfg", "C12", timeout=7200)
            if acc:
                g += remaining
                break
            bad = remaining.pop(line - 1 - len(head))
            rj.append(bad)
        return g, rj
    with ThreadPoolExecutor(max_workers=8) as ex:
        for g, rj in ex.map(one, list(enumerate(flat_sets))):
            good += g
            rejected += rj
    for e in rejected:
        if e["ev"] == "Msm":
            res = e["results"]
            ref = json.dumps(res.get("msm_serial"))
            differing = sorted(k for k, v in res.items() if json.dumps(v) != ref)
            key = {"kind": "msm", "curve": e["curve"], "scal": e["scal"], "base": e["base"], "big": e["n"] >= 8104, "differs_from_serial": differing}
            rep.violation(key, f"msm {e['curve']} n={e['n']} scal={e['scal']} base={e['base']} threads={e['threads']} "
                               f"entry points differing from msm_serial: {differing or 'none (all differ from the model)'}",
                          {"scenario": {"kind": "msm", "curve": e["curve"], "n": e["n"], "scal": e["scal"], "base": e["base"], "threads": e["threads"]}})
        else:
            key = {"kind": "fft", "clause": diagnose_fft(e)}
            rep.violation(key, f"fft k={e.get('k')} j={e.get('j')} threads={e.get('threads')} input={str(e.get('input'))[:80]} panic={e.get('panic')}",
                          {"scenario": {"kind": "fft", "k": e.get("k"), "j": e.get("j"), "vals": e.get("input"), "threads": e.get("threads"),
                                        "x": e.get("x"), "z": e.get("z"), "rots": e.get("rots")}})
    if not good and not rejected:
        raise vlib.ToolError("vacuity: nothing validated")
    rep.coverage.update({
        "states": mc["distinct"], "transitions": mc["generated"],
        "traces_validated_against_impl": len(good),
        "msm_runs": sum(1 for e in evs if e["ev"] == "Msm"), "fft_runs": sum(1 for e in evs if e["ev"] == "Fft"),
        "msm_lengths": sorted(set(e["n"] for e in evs if e["ev"] == "Msm")),
        "fft_sizes": sorted(set(e["n"] for e in evs if e["ev"] == "Fft" and "n" in e)),
        "thread_pools": sorted(set(e["threads"] for e in evs)),
        "samples": [{k: v for k, v in evs[0].items() if k in ("ev", "curve", "n", "scal", "base", "threads", "k", "j")}],
        "exhaustive": False,
    })
    rep.assumptions += ["scalars and bases follow the named patterns of Msm.tla (mirrored in the driver)",
                        "FFT / domain code is exercised over F_12289 (generic code; conclusions transfer except where code branches on the field)",
                        "commitment in Lagrange vs monomial basis, parallelize / eval_polynomial chunking and rational arithmetic are not covered"]
    return rep.finish()


def replay(path):
    d = json.load(open(path))
    wd = vlib.workdir("C12")
    sp = os.path.join(wd, "replay_scen.ndjson")
    vlib.write_ndjson(sp, [d["replay"]["scenario"]])
    tp = os.path.join(wd, "replay_trace.ndjson")
    vlib.run_vh(["c12", sp, tp])
    rows = vlib.read_ndjson(tp)
    for r in rows:
        if r.get("ev") == "Fft" and r.get("div") is None:
            r["div"] = []
    vlib.write_ndjson(tp, rows)
    acc, line, _ = vlib.validate_trace(tp, "Msm_Trace.tla", "Msm_Trace.cfg", "C12")
    if not acc:
        log(f"VIOLATION property=C12 replay={path}")
        return 1
    log("replay: accepted (violation not reproduced)")
    return 0
