"""C06 - elliptic-curve gadgets compute the group law and accept nothing else.

Curve.tla is an executable TLA+ model of the three curves (constants checked
against the code's); EccOps.tla gives domain and result of every in-circuit
instruction in terms of its group law.  MC_EccOps enumerates scenarios (operand
classes identity / generator / small multiples / P = Q / P = -Q, scalar classes
0, 1, 2, r-1, r-2, r, r+1, 2^k-1, random, msm sizes, bounded scalars with every
bound pattern, scalars as bits / bytes at or above the group order, on- and
off-curve coordinates) and checks that the model's group law is consistent with
naming points by discrete logarithms.  The driver replays them into the
standard library's chips (Jubjub, secp256k1, BLS12-381 G1) under MockProver with
inputs and outputs exposed as public inputs; Ecc_Trace decides completeness and
soundness of every run, also under tamper plans (hook H1)."""
import json
import os
import random
from concurrent.futures import ThreadPoolExecutor

import vlib
from vlib import log

CURVES = ["jubjub", "secp256k1", "bls12_381_g1"]
HEAVY = {"msm", "msm_bounded", "msm_le_bits", "msm_bytes", "mulc", "msm_negpair", "msm_dup"}
NO_TAMPER = {"pub"}


P_NATIVE = 0x73eda753299d7d483339d80809a1d80553bda402fffe5bfeffffffff00000001


def nat(n):
    out = []
    while n:
        out.append(n & 255)
        n >>= 8
    return out


def sqrt_mod(a, p):
    """a square root of a modulo the odd prime p, or None (Tonelli-Shanks)"""
    a %= p
    if a == 0:
        return 0
    if pow(a, (p - 1) // 2, p) != 1:
        return None
    q, s = p - 1, 0
    while q % 2 == 0:
        q //= 2
        s += 1
    z = next(n for n in range(2, 100) if pow(n, (p - 1) // 2, p) == p - 1)
    m, c, t, r = s, pow(z, q, p), pow(a, q, p), pow(a, (q + 1) // 2, p)
    while t != 1:
        i, t2 = 0, t
        while t2 != 1:
            t2 = t2 * t2 % p
            i += 1
        b = pow(c, 1 << (m - i - 1), p)
        m, c, t, r = i, b * b % p, t * b * b % p, r * b % p
    return r


def htc_half(rep, tier, wd, rng, consts_hint=None):
    """Hash to the Jubjub curve: map_to_curve and hash_to_curve, off-circuit and in-circuit, against HashToCurve.tla."""
    q = tier == "quick"
    p = P_NATIVE
    us = [0, 1, 2, p - 1, p - 2, (p - 1) // 2, (p + 1) // 2, (1 << 64) - 1, 1 << 128] + [rng.randrange(p) for _ in range(6 if q else 60)]
    # exceptional inputs of the Shallue-van de Woestijne map: u^2 g(Z) = 1 or -1 (the inverse in the map is of zero); Z = -2 on this curve,
    # g(Z) is read from a probe run of the driver
    scen = [{"op": "mtc", "inputs": [nat(u)]} for u in us]
    probe = os.path.join(wd, "htc_probe.ndjson")
    vlib.write_ndjson(probe, [{"op": "mtc", "inputs": [nat(1)]}])
    pout = os.path.join(wd, "htc_probe_out.ndjson")
    vlib.run_vh(["c06h", probe, pout])
    c1 = sum(d << (8 * i) for i, d in enumerate(vlib.read_ndjson(pout)[1]["htc"]["c1"]))
    exceptional = []
    for sgn in (1, -1):
        r = sqrt_mod(sgn * pow(c1, -1, p), p)
        if r is not None:
            exceptional += [r, p - r]
    scen += [{"op": "mtc", "inputs": [nat(u)]} for u in exceptional]
    for n in ([0, 1, 2, 3, 5] if q else range(0, 9)):
        for _ in range(1 if q else 4):
            scen.append({"op": "htc", "inputs": [nat(rng.randrange(p)) if i % 3 else nat(rng.choice([0, 1, p - 1])) for i in range(n)]})
    for i, sc in enumerate(scen):
        if i % (5 if q else 2) == 0:
            sc["tamper_at"] = [0, 30, 150, 400, 600, 850, 999] if q else [0, 5, 30, 80, 150, 250, 400, 500, 600, 750, 850, 950, 999]
            sc["faults"] = ["plus1", "zero"]
    chunks = [scen[i::vlib.NCPU] for i in range(vlib.NCPU)]
    jobs = []
    for i, ch in enumerate(chunks):
        if ch:
            sp = os.path.join(wd, f"htcscen_{i}.ndjson")
            vlib.write_ndjson(sp, ch)
            jobs.append(["c06h", sp, os.path.join(wd, f"htctrace_{i}.ndjson")])
    vlib.run_vh_parallel(jobs, timeout=7200)
    row_sets = [vlib.read_ndjson(j[2]) for j in jobs]
    evs = [r for rows in row_sets for r in rows if r["ev"] == "Htc"]
    good, rejected, st = vlib.validate_many(row_sets, "Htc_Trace.tla", "Htc_Trace.cfg", "C06", "htc", max_rejects=6, start_ev="Htc")
    for run_rows, line, e in rejected:
        rep.violation({"curve": "jubjub", "op": "hash_to_curve" if e["op"] == "htc" else "map_to_curve", "status": e["status"], "tampered": e["tampered"]},
                      f"jubjub {e['op']} inputs={len(e['inputs'])} tamper={e.get('tamper')} status={e['status']}: differs from HashToCurve.tla ({e['detail'][:80]})",
                      {"scenario": {"htc": True, "op": e["op"], "inputs": e["inputs"]}, "event": {k: e[k] for k in ("status", "tamper", "nassign")}})
    if not evs:
        raise vlib.ToolError("vacuity: no hash-to-curve run recorded")
    demo = next((json.loads(json.dumps(e)) for e in evs if not e["tampered"] and e["status"] == "sat"), None)
    if demo:
        demo["cpu"]["x"] = [(demo["cpu"]["x"][0] if demo["cpu"]["x"] else 0) ^ 1] + demo["cpu"]["x"][1:]
        tp = os.path.join(wd, "htc_binding_demo.ndjson")
        vlib.write_ndjson(tp, [r for r in row_sets[0] if r["ev"] != "Htc"] + [demo])
        acc, _, _ = vlib.validate_trace(tp, "Htc_Trace.tla", "Htc_Trace.cfg", "C06")
        if acc:
            raise vlib.ToolError("binding demonstration failed: a corrupted hash-to-curve result was accepted")
    return {"htc_runs": len(evs), "htc_map_inputs": len(us) + len(exceptional), "htc_exceptional_inputs": len(exceptional),
            "htc_tampered_runs": sum(1 for e in evs if e["tampered"]),
            "htc_tampered_but_satisfiable": sum(1 for e in evs if e["tampered"] and e["status"] == "sat"), "htc_runs_validated": len(good)}


def run(tier):
    rep = vlib.Report("C06", tier, "fault_enumeration")
    wd = vlib.workdir("C06")
    rng = random.Random(vlib.seed())

    def one(c):
        r = vlib.run_tlc("MC_EccOps.tla", f"MC_EccOps_{c}_{tier}.cfg", "C06", workers=4, timeout=3600)
        if r["violated"]:
            raise vlib.ToolError(f"MC_EccOps[{c}] violates {r['violated']} (model error)")
        vlib.require_tlc_ok(r, f"MC_EccOps[{c}]")
        return c, r, vlib.parse_replay_lines(r["out"])
    with ThreadPoolExecutor(max_workers=3) as ex:
        res = list(ex.map(one, CURVES))
    per_op = 8 if tier == "quick" else 10**6
    per_heavy = 5 if tier == "quick" else 60
    scen = []
    states = gen = universe = 0
    for c, r, allsc in res:
        states += r["distinct"]
        gen += r["generated"]
        uniq = {json.dumps(s, sort_keys=True): s for s in allsc}
        allsc = [uniq[k] for k in sorted(uniq)]
        universe += len(allsc)
        byop = {}
        for s in allsc:
            byop.setdefault(s["op"], []).append(s)
        for op, lst in sorted(byop.items()):
            cap = per_heavy if (op in HEAVY and c != "jubjub") else per_op
            pick = lst if (len(lst) <= cap or op == "from_coords") else rng.sample(lst, cap)     # (every coordinate class, always)
            # the inputs of the recorded known findings are always replayed
            for s in lst:
                if s not in pick and classify({"op": op, "curve": c, "pts": s["pts"], "params": s["params"], "scalars": s["scalars"]}) != "other" \
                        and not any(classify({"op": op, "curve": c, "pts": q["pts"], "params": q["params"], "scalars": q["scalars"]}) != "other" for q in pick):
                    pick = pick + [s]
            cheap = [s for s in pick if s["dom"] and (c == "jubjub" or op not in HEAVY)]
            ntam = 1 if tier == "quick" else 3
            tam = set(id(s) for s in rng.sample(cheap, min(len(cheap), ntam))) if op not in NO_TAMPER else set()
            for s in pick:
                sc = {"curve": c, "op": op, "pts": s["pts"], "scalars": s["scalars"], "params": s["params"], "bounds": s["bounds"]}
                if id(s) in tam:
                    sc["faults"] = ["plus1", "zero", "pow2_64"] if tier == "quick" else ["plus1", "minus1", "zero", "pow2_64", "random"]
                    sc["max_index"] = 20 if tier == "quick" else 120
                    sc["spread"] = True
                    sc["offset"] = rng.randrange(0, 1000)
                scen.append(sc)
    log(f"[C06] MC_EccOps: {universe} scenarios enumerated (group law consistent with dlog naming), {len(scen)} selected "
        f"({sum(1 for s in scen if 'faults' in s)} with tamper plans)")
    # heavy scenarios first so that the chunks balance
    scen.sort(key=lambda s: (0 if s["op"] in HEAVY and s["curve"] != "jubjub" else 1, rng.random()))
    chunks = [scen[i::vlib.NCPU] for i in range(vlib.NCPU)]
    jobs = []
    for i, ch in enumerate(chunks):
        if ch:
            sp = os.path.join(wd, f"scen_{i}.ndjson")
            vlib.write_ndjson(sp, ch)
            jobs.append(["c06", sp, os.path.join(wd, f"trace_{i}.ndjson")])
    import time as _t
    t0 = _t.time()
    vlib.run_vh_parallel(jobs, timeout=6 * 3600)
    log(f"[C06] harness runs done in {_t.time() - t0:.0f}s")
    row_sets = [vlib.read_ndjson(j[2]) for j in jobs]
    ops = [r for rows in row_sets for r in rows if r["ev"] == "Op"]
    good, rejected, st = vlib.validate_many(row_sets, "Ecc_Trace.tla", "Ecc_Trace.cfg", "C06", "ecc",
                                            max_rejects=8, start_ev="Op")
    for run_rows, line, e in rejected:
        key = {"curve": e["curve"], "op": e["op"], "status": e["status"], "tampered": e.get("tamper") is not None,
               "cls": classify(e)}
        scn = {"curve": e["curve"], "op": e["op"], "pts": e["pts"], "scalars": e["scalars"], "params": e.get("params") or [],
               "bounds": e.get("bounds") or [], "k": e.get("k")}
        if e.get("tamper"):
            scn.update({"faults": [e["tamper"]["fault"]], "offset": e["tamper"]["i"], "stride": 10**9, "max_index": 1})
        rep.violation(key, f"{e['curve']} {e['op']} pts={e['pts']} scalars={[hex(sum(d << (8 * i) for i, d in enumerate(n)))[:20] for n in e['scalars']]} "
                           f"params={e.get('params')} bounds={e.get('bounds')} tamper={e.get('tamper')} status={e['status']} ({e['detail'][:100]})",
                      {"scenario": scn, "event": {k: v for k, v in e.items() if k != "exposed"}})
    if not good and not rejected:
        raise vlib.ToolError("vacuity: no operation validated")
    demo = next((dict(e) for e in ops if not e.get("tamper") and e["status"] == "sat" and e["op"] == "add"), None)
    if demo:
        head = [r for r in row_sets[0] if r["ev"] != "Op"]
        demo["exposed"] = [list(x) for x in demo["exposed"]]
        demo["exposed"][-1] = [(demo["exposed"][-1][0] if demo["exposed"][-1] else 0) ^ 1] + demo["exposed"][-1][1:]
        tp = os.path.join(wd, "binding_demo.ndjson")
        vlib.write_ndjson(tp, head + [demo])
        acc, _, _ = vlib.validate_trace(tp, "Ecc_Trace.tla", "Ecc_Trace.cfg", "C06")
        if acc:
            raise vlib.ToolError("binding demonstration failed: a corrupted output coordinate was accepted by Ecc_Trace")
    by = {}
    for e in ops:
        k = (e["curve"], "tamper" if e.get("tamper") else "honest", e["status"])
        by[k] = by.get(k, 0) + 1
    hstats = htc_half(rep, tier, wd, rng)
    log(f"[C06] hash to curve: {hstats}")
    rep.coverage.update(hstats)
    rep.coverage.update({
        "states": states, "transitions": gen, "scenarios_enumerated": universe,
        "traces_validated_against_impl": len(good),
        "runs": len(ops), "honest_runs": sum(1 for e in ops if not e.get("tamper")),
        "tamper_runs": sum(1 for e in ops if e.get("tamper")),
        "tampered_but_satisfiable": sum(1 for e in ops if e.get("tamper") and e["status"] == "sat"),
        "by_curve_kind_status": {"/".join(k): v for k, v in sorted(by.items())},
        "operations": sorted(set(e["curve"] + ":" + e["op"] for e in ops)),
        "evaluations": len(ops),
        "distinct_nontrivial": len(set((e["curve"], e["op"], e["status"], bool(e.get("tamper"))) for e in ops)),
        "rule": "Ecc_Trace: Sound (sat with a typed instance => ins in Dom and outs = group-law result), Complete (honest in-domain "
                "=> sat and the exposed inputs are the named multiples of G), Total",
        "samples": [{k: ops[0][k] for k in ("curve", "op", "pts", "status", "layout")}],
        "binding_demo_rejected": bool(demo),
        "exhaustive": False,
    })
    rep.assumptions += ["satisfiability judged by MockProver; single consistent fault per run, sampled assignment indices",
                        "subgroup membership of exposed points is checked by TLC only on tampered satisfiable runs (honest runs are "
                        "compared with the named multiples of G)",
                        "hash to curve: square roots by Tonelli-Shanks in the model; Z is taken from the code and checked against the RFC 9380 criteria"]
    return rep.finish()


def nat_int(n):
    return sum(d << (8 * i) for i, d in enumerate(n))


def classify(e):
    """Input class of a run, so that a known finding is pinned to the inputs that exhibit it."""
    if e["op"] == "mulc" and e["pts"] == [0] and nat_int((e.get("params") or [[0]])[0]) >= 1 << 128:
        return "identity_base_constant_above_128_bits"
    if e["op"] == "from_coords" and e["curve"] == "bls12_381_g1" and 0 < nat_int(e["scalars"][0]) <= 40:
        return "on_curve_x_at_most_40_outside_subgroup"
    return "other"


def replay(path):
    d = json.load(open(path))
    wd = vlib.workdir("C06")
    if d["replay"]["scenario"].get("htc"):
        sc = {"op": d["replay"]["scenario"]["op"], "inputs": d["replay"]["scenario"]["inputs"]}
        t = d["replay"]["event"].get("tamper")
        if t:
            sc["tamper_at"], sc["faults"] = [t["i"] * 1000 // max(1, d["replay"]["event"]["nassign"])], [t["fault"]]
        sp = os.path.join(wd, "replay_htcscen.ndjson")
        vlib.write_ndjson(sp, [sc])
        tp = os.path.join(wd, "replay_htctrace.ndjson")
        vlib.run_vh(["c06h", sp, tp])
        good, rejected, _ = vlib.validate_runs(vlib.read_ndjson(tp), "Htc_Trace.tla", "Htc_Trace.cfg", "C06", "replay", start_ev="Htc")
        if rejected:
            log(f"VIOLATION property=C06 replay={path}")
            return 1
        log("replay: accepted (violation not reproduced)")
        return 0
    sp = os.path.join(wd, "replay_scen.ndjson")
    sc = {k: v for k, v in d["replay"]["scenario"].items() if v is not None}
    vlib.write_ndjson(sp, [sc])
    tp = os.path.join(wd, "replay_trace.ndjson")
    vlib.run_vh(["c06", sp, tp])
    rows = vlib.read_ndjson(tp)
    good, rejected, _ = vlib.validate_runs(rows, "Ecc_Trace.tla", "Ecc_Trace.cfg", "C06", "replay", start_ev="Op")
    if rejected:
        log(f"VIOLATION property=C06 replay={path}")
        return 1
    log("replay: accepted (violation not reproduced)")
    return 0
