"""C10 - every exported field type is the field it names.

The driver calls the field types of midnight-curves - BLS12-381 Fq and Fp,
Jubjub Fr, secp256k1 Fp and Fq, Curve25519 Fp and Scalar, BN254 Fq and Fr, and
the quadratic extensions BLS12-381 Fp2 and BN254 Fq2 - on boundary operand
classes {0, 1, 2, 3, 5, p-1, p-2, 2^64+-1, 2^128-1, 2^192-1, (p+-1)/2,
Montgomery R, R^2, 2^384 mod p, random}: add, sub, mul (by value and
assigning), neg, square, cube, double, invert, batched inversion, pow (constant
time and vartime, one- and two-limb exponents), sqrt, parity, equality,
canonical encodings (round trip; decoders at and around the modulus and
all-ones), reduction from 64 uniform bytes, and the published constants.
Field_Trace recomputes every result over BigNat (PrimeField(m); F_p[u]/(u^2+1)
for the extensions) and checks the defining equations of the constants.
BigNat's Java evaluator override is checked against the TLA+ definitions by
evaluating BigNat_SelfTest with and without it."""
import json
import os
import re

import vlib
from vlib import log

FIELDS = ["bls_fq", "bls_fp", "jub_fr", "secp_fp", "secp_fq", "c25519_fp", "c25519_scalar", "bn_fq", "bn_fr", "bls_fp2", "bn_fq2",
          "bls_fp6", "bn_fq6", "bls_fp12", "bn_fq12"]
BN_P = 0x30644e72e131a029b85045b68181585d97816a916871ca8d3c208c16d87cfd47


def selftest():
    outs = []
    for ov in (True, False):
        r = vlib.run_tlc("BigNat_SelfTest.tla", "BigNat_SelfTest.cfg", "C10", overrides=ov, timeout=1800)
        vlib.require_tlc_ok(r, "BigNat_SelfTest")
        loaded = "Loading Mul operator override" in r["out"] or "BigNat.class" in r["out"]
        if loaded != ov:
            raise vlib.ToolError(f"BigNat self-test: override loaded={loaded}, expected {ov}")
        txt = r["out"]
        i = txt.find('<< "SELFTEST"')
        j = txt.find("Computing initial states")
        body = re.sub(r"\s+", "", txt[i:j] if j > i >= 0 else "")
        if not body:
            raise vlib.ToolError("BigNat self-test printed nothing")
        outs.append(body)
    if outs[0] != outs[1]:
        raise vlib.ToolError("BigNat self-test: the Java override and the TLA+ definitions disagree")
    return len(outs[0])


def iv(n):
    return sum(d << (8 * i) for i, d in enumerate(n))


def show(x):
    if any(isinstance(c, list) for c in x):
        return [show(c) for c in x]
    return hex(iv(x))[:24]


def cls(e):
    if e["op"] in ("constants", "prime_constants", "from_repr", "from_bytes", "from_uniform_bytes", "repr_roundtrip", "bytes_roundtrip"):
        return e["op"]
    x = e["ins"][0]
    if e["op"] == "lex_largest" and e["field"] == "bn_fq2" and iv(x[1]) == (BN_P - 1) // 2:
        return "c1=(p-1)/2"
    if e["field"] in ("bls_fp6", "bn_fq6", "bls_fp12", "bn_fq12"):
        return "tower"
    if isinstance(x[0] if x else 0, list):
        return "c1=0" if not x[1] else "general"
    return "zero" if not x else "nonzero"


def run(tier):
    rep = vlib.Report("C10", tier, "exploration")
    wd = vlib.workdir("C10")
    nself = selftest()
    log(f"[C10] BigNat self-test: Java override and TLA+ definitions agree ({nself} characters of results)")
    jobs = [["c10", os.path.join(wd, f"trace_{f}.ndjson"), f] + (["deep"] if tier == "thorough" else []) for f in FIELDS]
    vlib.run_vh_parallel(jobs, timeout=3600)
    row_sets = []
    for j in jobs:
        rows = vlib.read_ndjson(j[1])
        head = [r for r in rows if r["ev"] != "F"]
        fs = [r for r in rows if r["ev"] == "F"]
        row_sets.append(head + fs)
    allf = [r for rows in row_sets for r in rows if r["ev"] == "F"]
    good, rejected, st = vlib.validate_many(row_sets, "Field_Trace.tla", "Field_Trace.cfg", "C10", "fl",
                                            max_rejects=10, start_ev="F")
    for run_rows, line, e in rejected:
        key = {"field": e["field"], "op": e["op"], "cls": cls(e), "status": e["status"][:5]}
        rep.violation(key, f"{e['field']} {e['op']} ins={[show(x) for x in e['ins']]} "
                           f"out={json.dumps(e['out'])[:200]} status={e['status']}", {"event": e})
    if not good and not rejected:
        raise vlib.ToolError("vacuity: nothing validated")
    demo = next((dict(e) for e in allf if e["op"] == "mul" and e["field"] == "bls_fq" and e["out"]), None)
    if demo:
        head = [r for r in row_sets[0] if r["ev"] != "F"]
        demo["out"] = [demo["out"][0] ^ 1] + list(demo["out"][1:])
        tp = os.path.join(wd, "binding_demo.ndjson")
        vlib.write_ndjson(tp, head + [demo])
        acc, _, _ = vlib.validate_trace(tp, "Field_Trace.tla", "Field_Trace.cfg", "C10")
        if acc:
            raise vlib.ToolError("binding demonstration failed: a corrupted product was accepted")
    by = {}
    for e in allf:
        by[(e["field"], e["op"])] = by.get((e["field"], e["op"]), 0) + 1
    rep.coverage.update({
        "states": len(allf), "transitions": len(allf),
        "traces_validated_against_impl": len(good),
        "calls": len(allf), "by_field_op": {"/".join(k): v for k, v in sorted(by.items())},
        "evaluations": len(allf),
        "distinct_nontrivial": len(by),
        "rule": "Field_Trace!FOK: result = the operation of Z/m (or F_p[u]/(u^2+1)) on the logged integers; constants satisfy their "
                "defining equations; decoders accept exactly the integers below the modulus",
        "samples": [{k: allf[0][k] for k in ("field", "op", "status")}],
        "bignat_selftest_chars": nself,
        "binding_demo_rejected": bool(demo),
        "exhaustive": False,
    })
    rep.assumptions += ["elements are converted to integers through the types' own canonical encodings (to_repr / to_biguint)",
                        "Fp6 / Fp12 of both pairing curves are covered by the schoolbook tower of Tower.tla (sqrt is unimplemented there in the code); Montgomery-form internals only through results"]
    return rep.finish()


def replay(path):
    d = json.load(open(path))
    e = d["replay"]["event"]
    wd = vlib.workdir("C10")
    tp = os.path.join(wd, "replay_trace.ndjson")
    vlib.run_vh(["c10", tp, e["field"]])
    rows = vlib.read_ndjson(tp)
    head = [r for r in rows if r["ev"] != "F"]
    same = [r for r in rows if r["ev"] == "F" and r["op"] == e["op"] and r["ins"] == e["ins"]]
    good, rejected, _ = vlib.validate_runs(head + same, "Field_Trace.tla", "Field_Trace.cfg", "C10", "replay", start_ev="F")
    if rejected:
        log(f"VIOLATION property=C10 replay={path}")
        return 1
    log("replay: accepted (violation not reproduced)")
    return 0
