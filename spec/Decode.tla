------------------------------- MODULE Decode -------------------------------
(***************************************************************************)
(* Decoders of verifier-facing objects as machines over a stream of FIELDS *)
(* (C16).  The objects and their field maps are data (written by the       *)
(* harness from real encodings: IOEnv.LAYOUT); a scenario puts ONE field   *)
(* into a class, or truncates / extends the stream, or leaves it alone.    *)
(* The decoder consumes fields in order; the first field it cannot accept  *)
(* ends the run in Err.  A decoded object is then USED (a fixed valid      *)
(* proof is verified with it).  Terminal outcomes are pairs                *)
(*      <<decode, use>>  with decode in {ok, err}, use in {ok, err, skip}. *)
(* There is no crash outcome and no outcome that allocates by an           *)
(* unchecked length: conformance of the code to this machine is what C16   *)
(* states.                                                                 *)
(***************************************************************************)
EXTENDS Naturals, Sequences, FiniteSets, TLC, Json, IOUtils

Layout == JsonDeserialize(IOEnv.LAYOUT)
Objects == Layout.objects
S == Layout.S

CONSTANT Emit

\* classes a field of a given kind can be put in
ClassesOf(o, f) ==
  CASE f.kind = "bool" -> {"0", "1", "2", "255"}
    [] f.kind = "u8"   -> IF f.name = "k" THEN {"k0", "k1", "kS1", "k29", "k32", "k64", "k255", "kminus1", "kplus1"}
                          ELSE {"b0", "b1", "b4", "b5", "b6", "b17", "b128", "b255"}
    [] f.kind = "u32"  -> {"c0", "cminus1", "cplus1", "c2p31", "cmax"}
    [] f.kind = "g1"   -> IF o.fmt = "P"
                          THEN {"other", "identity", "allff", "noncanonical", "offcurve", "offsubgroup", "zeros"}
                          ELSE {"other", "allff", "zeros", "offcurve"}
    [] f.kind = "g2"   -> {"g2other", "allff", "zeros"}
    [] f.kind = "scalar" -> {"sother", "snoncanonical", "sallff"}

\* is the class an encoding no checked decoder may accept?
Invalid(o, f, c) ==
  \/ f.kind = "bool" /\ c \in {"2", "255"}
  \/ f.kind = "g1" /\ c \in {"allff", "noncanonical", "offcurve", "offsubgroup"}
  \/ f.kind = "g1" /\ c = "zeros" /\ o.fmt = "P"      \* compression flag missing
  \/ f.kind = "scalar" /\ c \in {"snoncanonical", "sallff"}
  \/ f.kind = "g2" /\ c \in {"allff"}
  \/ f.kind = "g2" /\ c = "zeros" /\ o.fmt = "P"
  \/ f.name = "zkstd_version"
  \/ f.name = "vk_version" /\ c # "b1"
  \/ f.name = "k" /\ c \in {"k32", "k64", "k255", "kS1"}
  \/ f.name = "nr_pow2range_cols" /\ c \in {"b5", "b6", "b17", "b128", "b255"}
  \/ f.name = "nfixed"                                 \* count differs from the circuit's columns

\* a field the verifier never looks at
Irrelevant(f) == f.name = "max_bit_len"

VARIABLES obj, fld, cls, edit, pos, result
vars == <<obj, fld, cls, edit, pos, result>>

Init ==
  \E oi \in 1..Len(Objects) :
     LET o == Objects[oi] IN
     /\ obj = oi /\ pos = 1 /\ result = <<"pending", "pending">>
     /\ \/ /\ edit = "none" /\ fld = 0 /\ cls = "same"
        \/ /\ edit = "field" /\ fld \in 1..Len(o.fields) /\ cls \in ClassesOf(o, o.fields[fld])
        \/ /\ edit \in {"trunc_at", "trunc_in"} /\ fld \in 1..Len(o.fields) /\ cls = "same"
        \/ /\ edit \in {"trunc_empty", "append1", "append48"} /\ fld = 0 /\ cls = "same"

O == Objects[obj]
NF == Len(O.fields)

\* one field is consumed per step
Consume ==
  /\ result[1] = "pending" /\ pos <= NF
  /\ LET f == O.fields[pos] IN
     IF edit \in {"trunc_at", "trunc_in"} /\ pos = fld
     THEN result' = <<"err", "skip">>                       \* stream ends here
     ELSE IF edit = "field" /\ pos = fld /\ Invalid(O, f, cls)
     THEN result' = <<"err", "skip">>
     ELSE result' = result
  /\ pos' = pos + 1
  /\ UNCHANGED <<obj, fld, cls, edit>>

Finish ==
  /\ result[1] = "pending" /\ pos > NF
  /\ result' = IF edit = "trunc_empty" /\ NF > 0 THEN <<"err", "skip">> ELSE <<"ok", "pending">>
  /\ UNCHANGED <<obj, fld, cls, edit, pos>>

\* Using the decoded object: the verification of the fixed valid proof succeeds
\* iff the object is (semantically) the original one.
Use ==
  /\ result = <<"ok", "pending">>
  /\ result' = <<"ok", IF \/ edit \in {"none", "append1", "append48"}
                         \/ (edit = "field" /\ Irrelevant(O.fields[fld]))
                      THEN "ok" ELSE "err">>
  /\ UNCHANGED <<obj, fld, cls, edit, pos>>

Next == Consume \/ Finish \/ Use
Spec == Init /\ [][Next]_vars

Done == result[1] # "pending" /\ result[2] # "pending"
TypeOK == result[1] \in {"pending", "ok", "err"} /\ result[2] \in {"pending", "ok", "err", "skip"}
\* an invalid encoding is never accepted
Checked == (Done /\ edit = "field" /\ Invalid(O, O.fields[fld], cls)) => result = <<"err", "skip">>
Inv == TypeOK /\ Checked

\* a class may coincide with the value already there (harness reports `same`):
\* then the outcome of the unedited object is expected instead
EmitReplay ==
  (Emit /\ Done) =>
     PrintT("REPLAY " \o ToJson([obj |-> O.obj, fmt |-> O.fmt, edit |-> edit,
                                  field |-> IF fld = 0 THEN "-" ELSE O.fields[fld].name,
                                  kind |-> IF fld = 0 THEN "-" ELSE O.fields[fld].kind,
                                  off |-> IF fld = 0 THEN 0 ELSE O.fields[fld].off,
                                  len |-> IF fld = 0 THEN 0 ELSE O.fields[fld].len,
                                  class |-> cls, expect |-> result]))
=============================================================================
