----------------------------- MODULE AtePairing -----------------------------
(***************************************************************************)
(* The optimal ate pairing of BLS12-381 and BN254 from first principles     *)
(* (C13): Miller's algorithm over the sextic twist with affine arithmetic,  *)
(* line functions written out from the untwisting isomorphism               *)
(*       psi : E'(Fp2) -> E(Fp12),   w^6 = xi                               *)
(*   M-type twist (BLS12-381, b' = b xi):  psi(x', y') = (x' / w^2, y' / w^3)*)
(*   D-type twist (BN254,     b' = b / xi): psi(x', y') = (x' w^2, y' w^3)  *)
(* and the full final exponentiation f |-> f^((p^12 - 1) / r).              *)
(*                                                                          *)
(* With T = (xT, yT) on the twist and lam the slope of the line (tangent at *)
(* T, or chord through T and Q) computed on the twist, the line through     *)
(* psi(T) evaluated at P = (xP, yP) in G1 is                                *)
(*   M:  yP - yT / w^3 - (lam / w) (xP - xT / w^2)                          *)
(*         = (1 / xi) (xi yP  -  lam xP w^5  +  (lam xT - yT) w^3)          *)
(*   D:  yP - yT w^3 - lam w (xP - xT w^2)                                  *)
(*         =  yP  -  lam xP w  +  (lam xT - yT) w^3                         *)
(* (1 / w = w^5 / xi, 1 / w^3 = w^3 / xi).  Factors in proper subfields of  *)
(* Fp12 (here 1 / xi, and the vertical lines) are killed by the final       *)
(* exponentiation, so they are dropped.  In the tower of Tower.tla,         *)
(* w^3 = v w and w^5 = v^2 w.                                               *)
(*                                                                          *)
(* Nothing here is taken from the implementation: loop parameters are the   *)
(* curves' published seeds, the Frobenius on the twist is psi^-1 o pi o psi.*)
(***************************************************************************)
EXTENDS Tower

\* |x| for BLS12-381 (x = -0xd201000000010000), x for BN254 (4965661367192848881)
BlsSeed == <<0, 0, 1, 0, 0, 0, 1, 210>>
BnSeed == <<241, 9, 105, 74, 180, 146, 233, 68>>

\* [T tower, r, g1 (Curve record), g2 (G2 record), mtype, loop, negloop, bn]
BlsPairing == [T |-> BlsT, r |-> BlsR, g1 |-> Bls12381G1, g2 |-> BlsG2, mtype |-> TRUE, loop |-> BlsSeed, neg |-> TRUE, bn |-> FALSE]
BnPairing == [T |-> BnT, r |-> Bn254R, g1 |-> Bn254G1, g2 |-> BnG2, mtype |-> FALSE, loop |-> Add(MulInt(BnSeed, 6), OfInt(2)), neg |-> FALSE, bn |-> TRUE]
PairingOf(engine) == IF engine = "bls12_381" THEN BlsPairing ELSE BnPairing

\* the twists are the ones the untwisting maps above are for
ASSUME BlsG2.b = QScale(BlsT.xi, Bls12381G1.b, BlsP)
ASSUME QMul(BnG2.b, BnT.xi, Bn254P) = <<Bn254G1.b, Zero>>
\* the seeds give the group orders: BLS12  r = x^4 - x^2 + 1;  BN  r = 36 x^4 + 36 x^3 + 18 x^2 + 6 x + 1
ASSUME LET x2 == Mul(BlsSeed, BlsSeed) IN BlsR = Add(Sub(Mul(x2, x2), x2), One)
ASSUME LET x == BnSeed  x2 == Mul(x, x) IN
       Bn254R = Add(Add(Add(Add(MulInt(Mul(x2, x2), 36), MulInt(Mul(x2, x), 36)), MulInt(x2, 18)), MulInt(x, 6)), One)

Line(c, lam, tp, P) ==
  LET m == c.T.m
      c3 == QSub(QMul(lam, tp.x, m), tp.y, m)           \* coefficient of w^3
      cx == QNeg(QScale(lam, P.x, m), m)                \* - lam xP
  IN IF c.mtype
     THEN << <<QScale(c.T.xi, P.y, m), QZero, QZero>>, <<QZero, c3, cx>> >>
     ELSE << <<<<P.y, Zero>>, QZero, QZero>>, <<cx, c3, QZero>> >>

SlopeDbl(c, t) == LET m == c.T.m IN QMul(QScale(QSqr(t.x, m), OfInt(3), m), QInv(QAdd(t.y, t.y, m), m), m)
SlopeAdd(c, t, q) == LET m == c.T.m IN QMul(QSub(q.y, t.y, m), QInv(QSub(q.x, t.x, m), m), m)

\* one doubling step, then (bit = 1) one addition step; the accumulator carries f and T as values
DblStep(c, acc, P) ==
  [f |-> DMul(DMul(acc.f, acc.f, c.T), Line(c, SlopeDbl(c, acc.t), acc.t, P), c.T), t |-> Dbl2(c.g2, acc.t)]
AddStep(c, acc, q, P) ==
  [f |-> DMul(acc.f, Line(c, SlopeAdd(c, acc.t, q), acc.t, P), c.T), t |-> Add2(c.g2, acc.t, q)]
MillerF(c, P, Q) ==
  FoldLeft(LAMBDA acc, b : IF b = 0 THEN DblStep(c, acc, P) ELSE AddStep(c, DblStep(c, acc, P), Q, P),
           [f |-> DOne, t |-> Q], Tail(BitsMSB(c.loop)))

\* the p-power Frobenius carried to the twist (D-type): (x', y') |-> (conj(x') xi^((p-1)/3), conj(y') xi^((p-1)/2))
TwistFrob(c, q) ==
  LET m == c.T.m IN
  Pt2(QMul(QConj(q.x, m), GammaDirect(c.T, 1, 3), m), QMul(QConj(q.y, m), GammaDirect(c.T, 1, 2), m))

\* f_{loop, Q}(P), with the two extra lines of the BN optimal ate pairing, inverted (conjugated: the final exponentiation
\* makes f unitary) when the seed is negative
Miller(c, P, Q) ==
  LET a == MillerF(c, P, Q) IN
  IF c.bn
  THEN LET q1 == TwistFrob(c, Q)
           q2 == Neg2(c.g2, TwistFrob(c, q1))
           a1 == AddStep(c, a, q1, P)
       IN AddStep(c, a1, q2, P).f
  ELSE IF c.neg THEN DConj(a.f, c.T) ELSE a.f

FullExp(c) == Quo(Sub(PowNat(c.T.m, 12), One), c.r)
\* the reduced pairing; 1 when either argument is the identity
AtePairing(c, P, Q) ==
  IF P.id \/ Q.id THEN DOne ELSE DPowI(Miller(c, P, Q), FullExp(c), c.T)
=============================================================================
