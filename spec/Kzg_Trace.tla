------------------------------ MODULE Kzg_Trace ------------------------------
(* C14 replay validation: each line is one scenario executed against the   *)
(* real multi_open / multi_prepare; the specification recomputes, from the *)
(* logged query list and corruption, the verdict and the number of point   *)
(* sets, and the line is consumed only if the code's outcome is that.      *)
EXTENDS KzgMultiOpen, IOUtils

Rec == ndJsonDeserialize(IOEnv.TRACE)
VARIABLE l
tvars == <<vars, l>>
Ev == Rec[l]

ListOf(e) == [i \in 1..Len(e.pql) |-> HonestQ(e.pql[i][1], e.pql[i][2])]
CorrOf(e) == e.corrupt   \* JSON array = tuple

TInit == l = 1 /\ pql = <<>> /\ vql = <<>> /\ corrupt = <<"init">> /\ ptamper = FALSE /\ result = "pending"

THeader == l <= Len(Rec) /\ Ev.ev = "header" /\ l' = l + 1 /\ UNCHANGED vars

TKzg ==
  /\ l <= Len(Rec) /\ Ev.ev = "Kzg" /\ l' = l + 1
  /\ LET q == ListOf(Ev)
         c == CorrOf(Ev)
         v == Apply(q, c)
         expect == Verdict(q, v, c[1] = "proof")
     IN /\ Ev.res = expect
        \* refinement observable: one evaluation per point set in the proof
        /\ (Ev.nsets_seen >= 0) => Ev.nsets_seen = NumPointSetsByOrder(IF c[1] = "pdup" THEN v ELSE q)
        /\ pql' = q /\ vql' = v /\ corrupt' = c /\ ptamper' = (c[1] = "proof") /\ result' = expect

TNext == THeader \/ TKzg
TraceSpec == TInit /\ [][TNext]_tvars

TraceAccepted ==
  LET d == TLCGet("stats").diameter IN
  IF d - 1 = Len(Rec) THEN TRUE
  ELSE Print(<<"TRACE-REJECTED first unmatched line", d, "of", Len(Rec)>>, FALSE)
=============================================================================
