SPECIFICATION DirectedSpec
CONSTANTS
  MaxLen = 4
  Directed = 1
  Emit = TRUE
INVARIANT Inv
INVARIANT EmitReplay
CHECK_DEADLOCK FALSE
