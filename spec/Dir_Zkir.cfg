SPECIFICATION DirectedSpec
CONSTANTS
  MaxLen = 4
  Directed = TRUE
  Emit = TRUE
INVARIANT Inv
INVARIANT EmitReplay
CHECK_DEADLOCK FALSE
