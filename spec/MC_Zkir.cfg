SPECIFICATION Spec
CONSTANTS
  MaxLen = 2
  Directed = 0
  Emit = FALSE
INVARIANT Inv
CHECK_DEADLOCK FALSE
