SPECIFICATION Spec
CONSTANTS
  MaxLen = 2
  Emit = FALSE
INVARIANT Inv
CHECK_DEADLOCK FALSE
