SPECIFICATION Spec
CONSTANTS
  MaxLen = 2
  Directed = FALSE
  Emit = FALSE
INVARIANT Inv
CHECK_DEADLOCK FALSE
