----------------------------- MODULE Arguments -----------------------------
(***************************************************************************)
(* Why the verifier's identities mean ConstraintSystem!Satisfied (C02).    *)
(* Each sub-argument of the proof system is stated the way the prover and  *)
(* verifier implement it (proofs/src/plonk/{permutation,lookup,trash}),    *)
(* in the idealisation where an identity that must hold for random         *)
(* challenges holds for all challenges, and TLC checks -- exhaustively     *)
(* over all small instances -- that it is equivalent to the clause of      *)
(* ConstraintSystem!Satisfied it implements:                               *)
(*   permutation argument  <=>  every cell equals the cell it is mapped to *)
(*   lookup argument       <=>  every input value occurs in the table      *)
(*   trash argument        <=>  selector * constraint = 0 for every one    *)
(* The state is one instance; there are no transitions.                    *)
(***************************************************************************)
EXTENDS Integers, Sequences, FiniteSets, TLC

CONSTANTS N,      \* number of cells / rows
          Vals    \* value domain

VARIABLES kind, sigma, v, a, s, q, c
vars == <<kind, sigma, v, a, s, q, c>>

Cells == 1..N
Perms == {f \in [Cells -> Cells] : \A x, y \in Cells : f[x] = f[y] => x = y}

---------------------------------------------------------------------------
(* Permutation argument: the grand product                                 *)
(*    prod (v_i + beta*id_i + gamma) / (v_i + beta*sigma_i + gamma)        *)
(* telescopes to 1 for all beta, gamma iff the multisets of pairs          *)
(* {(v_i, id_i)} and {(v_i, sigma_i)} coincide.                            *)
Count(S, P(_)) == Cardinality({x \in S : P(x)})
PermutationArgument(sg, val) ==
  \A x \in Vals : \A i \in Cells :
     Count(Cells, LAMBDA k : val[k] = x /\ k = i) = Count(Cells, LAMBDA k : val[k] = x /\ sg[k] = i)
CopiesHold(sg, val) == \A k \in Cells : val[k] = val[sg[k]]

---------------------------------------------------------------------------
(* Lookup argument (halo2): there are permutations A' of the inputs and S' *)
(* of the table with A'[1] = S'[1] and, for every later row, A'[i] = S'[i] *)
(* or A'[i] = A'[i-1].                                                     *)
Permuted(f, p) == [i \in Cells |-> f[p[i]]]
LookupArgument(inp, tab) ==
  \E p1 \in Perms : \E p2 \in Perms :
     LET A == Permuted(inp, p1)  S == Permuted(tab, p2) IN
     /\ A[1] = S[1]
     /\ \A i \in 2..N : A[i] = S[i] \/ A[i] = A[i - 1]
LookupHolds(inp, tab) == \A i \in Cells : \E j \in Cells : inp[i] = tab[j]

---------------------------------------------------------------------------
(* Trash argument, one row: for the challenge r (drawn before the trash    *)
(* column is committed) there is a trash value t with                      *)
(*      c1 * r + c2 = (1 - q) * t                                          *)
(* "for random r" is idealised as "for every r of a set larger than the    *)
(* degree".                                                                *)
Challenges == 0..2
TrashArgument(sel, cons) ==
  \A r \in Challenges : \E t \in -20..20 : cons[1] * r + cons[2] = (1 - sel) * t
TrashHolds(sel, cons) == sel = 0 \/ (cons[1] = 0 /\ cons[2] = 0)

---------------------------------------------------------------------------
Init ==
  \/ /\ kind = "perm" /\ sigma \in Perms /\ v \in [Cells -> Vals]
     /\ a = <<>> /\ s = <<>> /\ q = 0 /\ c = <<>>
  \/ /\ kind = "lookup" /\ a \in [Cells -> Vals] /\ s \in [Cells -> Vals]
     /\ sigma = <<>> /\ v = <<>> /\ q = 0 /\ c = <<>>
  \/ /\ kind = "trash" /\ q \in {0, 1} /\ c \in [1..2 -> Vals]
     /\ sigma = <<>> /\ v = <<>> /\ a = <<>> /\ s = <<>>
Spec == Init /\ [][FALSE]_vars

PermutationMeansCopies == kind = "perm"   => (PermutationArgument(sigma, v) <=> CopiesHold(sigma, v))
LookupMeansMembership  == kind = "lookup" => (LookupArgument(a, s) <=> LookupHolds(a, s))
TrashMeansGated        == kind = "trash"  => (TrashArgument(q, c) <=> TrashHolds(q, c))
Inv == PermutationMeansCopies /\ LookupMeansMembership /\ TrashMeansGated
=============================================================================
