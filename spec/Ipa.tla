--------------------------------- MODULE Ipa ---------------------------------
(***************************************************************************)
(* The inner-product argument of the light aggregator (C20) over a toy      *)
(* prime field F_P, with group elements represented by their coordinate     *)
(* vectors over N formally independent bases (so that an equation between   *)
(* group elements holds iff it holds coordinate-wise - the discrete-log     *)
(* relation assumption made exact).                                         *)
(*                                                                         *)
(* Statement: res = <s, b> for a secret scalar vector s and public bases b  *)
(* (here b_i = the i-th unit vector, so <s, b> has coordinates s).          *)
(* Round (n -> n/2):  L = <s_lo, b_hi>,  R = <s_hi, b_lo>,  challenge u,    *)
(*   s' = u s_lo + u^-1 s_hi,   b' = u^-1 b_lo + u b_hi,                    *)
(*   invariant  <s', b'> = <s, b> + u^2 L + u^-2 R.                         *)
(* After log2 N rounds the prover sends the scalar s'; the verifier checks  *)
(*   s' . b' = res + sum_j (u_j^2 L_j + u_j^-2 R_j).                        *)
(* TLC explores every scalar vector and every challenge sequence and checks *)
(* completeness, and that with a non-zero folded base a changed final       *)
(* scalar, a changed claimed value or a changed L / R is rejected.          *)
(***************************************************************************)
EXTENDS Integers, Sequences, FiniteSets, TLC

CONSTANTS P, N        \* toy prime; vector length (a power of two)

M(x) == ((x % P) + P) % P
RECURSIVE PowP(_, _)
PowP(b, e) == IF e = 0 THEN 1 ELSE M(b * PowP(b, e - 1))
Inv(x) == PowP(x, P - 2)
Units == 1..(P - 1)
Vec == [1..N -> 0..(P - 1)]                 \* a group element: coordinates over the N independent bases
ZeroV == [i \in 1..N |-> 0]
AddV(a, b) == [i \in 1..N |-> M(a[i] + b[i])]
ScaleV(c, a) == [i \in 1..N |-> M(c * a[i])]
Unit(i) == [j \in 1..N |-> IF j = i THEN 1 ELSE 0]
RECURSIVE InnerFrom(_, _, _)
InnerFrom(s, b, i) == IF i > Len(s) THEN ZeroV ELSE AddV(ScaleV(s[i], b[i]), InnerFrom(s, b, i + 1))
Inner(s, b) == InnerFrom(s, b, 1)
Lo(v) == SubSeq(v, 1, Len(v) \div 2)
Hi(v) == SubSeq(v, Len(v) \div 2 + 1, Len(v))

\* the honest prover: messages <<L_1, R_1, ..., L_k, R_k>> and the final scalar, for challenges us
RECURSIVE Prove(_, _, _)
Prove(s, b, us) ==       \* returns [msgs |-> seq of <<L, R>>, fin |-> scalar, base |-> folded base]
  IF Len(s) = 1 THEN [msgs |-> <<>>, fin |-> s[1], base |-> b[1]]
  ELSE LET u == Head(us)  ui == Inv(u)
           L == Inner(Lo(s), Hi(b))
           R == Inner(Hi(s), Lo(b))
           s2 == [i \in 1..(Len(s) \div 2) |-> M(u * Lo(s)[i] + ui * Hi(s)[i])]
           b2 == [i \in 1..(Len(b) \div 2) |-> AddV(ScaleV(ui, Lo(b)[i]), ScaleV(u, Hi(b)[i]))]
           rest == Prove(s2, b2, Tail(us))
       IN [msgs |-> <<<<L, R>>>> \o rest.msgs, fin |-> rest.fin, base |-> rest.base]
\* the verifier: folds the bases with the challenges and checks the final equation
RECURSIVE FoldBases(_, _)
FoldBases(b, us) ==
  IF Len(b) = 1 THEN b[1]
  ELSE LET u == Head(us)  ui == Inv(u) IN
       FoldBases([i \in 1..(Len(b) \div 2) |-> AddV(ScaleV(ui, Lo(b)[i]), ScaleV(u, Hi(b)[i]))], Tail(us))
RECURSIVE Correction(_, _)
Correction(msgs, us) ==
  IF msgs = <<>> THEN ZeroV
  ELSE LET u == Head(us)  ui == Inv(u) IN
       AddV(AddV(ScaleV(M(u * u), Head(msgs)[1]), ScaleV(M(ui * ui), Head(msgs)[2])), Correction(Tail(msgs), Tail(us)))
Verify(b, res, msgs, fin, us) == ScaleV(fin, FoldBases(b, us)) = AddV(res, Correction(msgs, us))

RECURSIVE Log2(_)
Log2(n) == IF n = 1 THEN 0 ELSE 1 + Log2(n \div 2)
Bases == [i \in 1..N |-> Unit(i)]

VARIABLES s, us
Init == s \in [1..N -> 0..(P - 1)] /\ us \in [1..Log2(N) -> Units]
Next == UNCHANGED <<s, us>>
Spec == Init /\ [][Next]_<<s, us>>

Res == Inner(s, Bases)
Pf == Prove(s, Bases, us)
Complete == Verify(Bases, Res, Pf.msgs, Pf.fin, us)
FoldInvariant == ScaleV(Pf.fin, Pf.base) = AddV(Res, Correction(Pf.msgs, us)) /\ Pf.base = FoldBases(Bases, us)
\* single alterations (the folded base is never zero here: the bases are independent)
RejectsAlteredScalar == \A d \in Units : ~Verify(Bases, Res, Pf.msgs, M(Pf.fin + d), us)
RejectsAlteredClaim == \A i \in 1..N, d \in Units : ~Verify(Bases, AddV(Res, ScaleV(d, Unit(i))), Pf.msgs, Pf.fin, us)
RejectsAlteredRound ==
  \A j \in 1..Len(Pf.msgs), side \in {1, 2}, i \in 1..N :
     LET m2 == [Pf.msgs EXCEPT ![j] = [@ EXCEPT ![side] = AddV(@, Unit(i))]] IN ~Verify(Bases, Res, m2, Pf.fin, us)
=============================================================================
