------------------------------ MODULE FS_Trace ------------------------------
(***************************************************************************)
(* Trace validation of recorded prover / verifier transcripts against      *)
(* FiatShamir.  The trace file (ndjson, env var TRACE) is a sequence of    *)
(* runs:   reset  (T side=P ...)*  (T side=V ...)*  Verdict                *)
(*                                                                         *)
(* Layer = "prop": only what C01 states plus the mechanism that makes it   *)
(*   hold -- the transcript semantics of FiatShamir (PAct / VAct: the      *)
(*   verifier reads exactly what the prover wrote, as the same kind, and   *)
(*   absorbs the same sequence) and a final verdict "ok".                  *)
(* Layer = "ref": additionally every operation must be the next operation  *)
(*   of ProverProgram / VerifierProgram for the shape the code reports, so *)
(*   the exhaustive results of MC_FiatShamir transfer to the code.         *)
(***************************************************************************)
EXTENDS FiatShamir, Json, IOUtils, TLC

CONSTANT Layer

Rec == ndJsonDeserialize(IOEnv.TRACE)

VARIABLE l
tvars == <<vars, l>>

Ev == Rec[l]
Is(e) == l <= Len(Rec) /\ Rec[l].ev = e /\ l' = l + 1

TInit ==
  /\ l = 1
  /\ sh = [nproofs |-> 0]
  /\ progP = <<>> /\ progV = <<>> /\ pcP = 1 /\ pcV = 1
  /\ absP = <<>> /\ absV = <<>> /\ chan = <<>>
  /\ verdict = "idle"
  /\ tamper = NoTamper

THeader == Is("header") /\ UNCHANGED vars

TReset ==
  /\ Is("reset")
  /\ verdict \in {"idle", "ok"}
  /\ sh' = Ev.shape
  /\ progP' = IF Layer = "ref" THEN ProverProgram(Ev.shape) ELSE <<>>
  /\ progV' = IF Layer = "ref" THEN VerifierProgram(Ev.shape) ELSE <<>>
  /\ pcP' = 1 /\ pcV' = 1
  /\ absP' = <<>> /\ absV' = <<>> /\ chan' = <<>>
  /\ verdict' = "none"
  /\ UNCHANGED tamper

Sched(prog, pc) ==
  Layer = "prop" \/ (pc <= Len(prog) /\ prog[pc].op = Ev.op /\ prog[pc].kind = Ev.kind)

TP ==
  /\ Is("T") /\ Ev.side = "P" /\ verdict = "none"
  /\ Ev.op \in {"common", "write", "squeeze"}
  /\ Sched(progP, pcP)
  /\ PAct(Ev.op, Ev.kind, Ev.id)
  /\ pcP' = pcP + 1
  /\ UNCHANGED <<sh, progP, progV, pcV>>

TV ==
  /\ Is("T") /\ Ev.side = "V" /\ verdict = "none"
  /\ Ev.op \in {"common", "read", "squeeze"}
  /\ Sched(progV, pcV)
  \* the proof is complete when the verifier runs: what the verifier absorbs must
  \* be the next element of what the prover absorbed (pinpoints the divergence)
  /\ Len(absV) < Len(absP) /\ absP[Len(absV) + 1] = Ev.id
  /\ VAct(Ev.op, Ev.kind, Ev.id)
  /\ pcV' = pcV + 1
  /\ UNCHANGED <<sh, progP, progV, pcP>>

\* C01: the run ends with the verifier accepting; the model's own acceptance
\* condition (Finish) must hold of the recorded transcripts.
TVerdict ==
  /\ Is("Verdict") /\ verdict = "none"
  /\ Ev.res = "ok"
  /\ chan = <<>> /\ absP = absV
  /\ Layer = "ref" => (pcP = Len(progP) + 1 /\ pcV = Len(progV) + 1)
  /\ verdict' = "ok"
  /\ UNCHANGED <<sh, progP, progV, pcP, pcV, absP, absV, chan, tamper>>

TNext == THeader \/ TReset \/ TP \/ TV \/ TVerdict
TraceSpec == TInit /\ [][TNext]_tvars

\* The trace is accepted iff every line was consumed.
TraceAccepted ==
  LET d == TLCGet("stats").diameter IN
  IF d - 1 = Len(Rec) THEN TRUE
  ELSE Print(<<"TRACE-REJECTED first unmatched line", d, "of", Len(Rec)>>, FALSE)
=============================================================================
