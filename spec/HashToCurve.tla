---------------------------- MODULE HashToCurve ----------------------------
(***************************************************************************)
(* Hash to the Jubjub curve (C06; circuits/src/ecc/hash_to_curve), as       *)
(* RFC 9380 defines its pieces, over BigNat:                                *)
(*   - the Montgomery and Weierstrass models of the twisted Edwards curve   *)
(*     a x^2 + y^2 = 1 + d x^2 y^2, derived from a and d (Appendix D),      *)
(*   - the Shallue-van de Woestijne map to the Weierstrass model (6.6.1)    *)
(*     with its constants derived from the curve and Z,                      *)
(*   - the rational maps Weierstrass -> Montgomery -> Edwards,               *)
(*   - clearing the cofactor; hash_to_curve(m) = map(u1) + map(u2) where     *)
(*     u1, u2 are two squeezes of the Poseidon sponge that absorbed m.       *)
(* Square roots are computed by Tonelli-Shanks (SqrtM); sgn0 is the parity. *)
(***************************************************************************)
EXTENDS Curve, Hashes

\* ---- square roots modulo an odd prime ------------------------------------------
RECURSIVE TwoAdicity(_)
TwoAdicity(n) == IF Bit(n, 0) = 1 THEN 0 ELSE 1 + TwoAdicity(Half(n))
NonResidue(p) == OfInt(CHOOSE n \in 2..40 : ~IsSquareM(OfInt(n), p))
RECURSIVE LeastOrderExp(_, _, _)
LeastOrderExp(t, i, p) == IF PowM(t, Pow2(i), p) = One THEN i ELSE LeastOrderExp(t, i + 1, p)   \* least i >= the given one with t^(2^i) = 1
RECURSIVE TSLoop(_, _, _, _, _)
TSLoop(x, t, c, m, p) ==
  IF t = One THEN x
  ELSE LET i == LeastOrderExp(t, 1, p)
           b == PowM(c, Pow2(m - i - 1), p)
           b2 == MulM(b, b, p)
       IN TSLoop(MulM(x, b, p), MulM(t, b2, p), b2, i, p)
\* a square root of the quadratic residue a (either one)
SqrtM(a, p) ==
  IF a = Zero THEN Zero
  ELSE LET S == TwoAdicity(Sub(p, One))
           Q == Quo(Sub(p, One), Pow2(S))
       IN TSLoop(PowM(a, Quo(Add(Q, One), OfInt(2)), p), PowM(a, Q, p), PowM(NonResidue(p), Q, p), S, p)
Sgn0(x) == Bit(x, 0)
Inv0(x, p) == IF x = Zero THEN Zero ELSE InvM(x, p)

\* ---- the models of Jubjub ---------------------------------------------------------
JP == Jubjub.p
JA == Jubjub.a
JD == Jubjub.b
DivM(x, y, p) == MulM(x, InvM(y, p), p)
MontJ == DivM(MulM(OfInt(2), AddM(JA, JD, JP), JP), SubM(JA, JD, JP), JP)
MontK == DivM(OfInt(4), SubM(JA, JD, JP), JP)
\* y^2 = x^3 + WeiA x + WeiB
WeiA == DivM(SubM(OfInt(3), MulM(MontJ, MontJ, JP), JP), MulM(OfInt(3), MulM(MontK, MontK, JP), JP), JP)
WeiB == DivM(SubM(MulM(OfInt(2), PowMI(MontJ, 3, JP), JP), MulM(OfInt(9), MontJ, JP), JP), MulM(OfInt(27), PowMI(MontK, 3, JP), JP), JP)
G(x) == AddM(AddM(PowMI(x, 3, JP), MulM(WeiA, x, JP), JP), WeiB, JP)

\* ---- Shallue-van de Woestijne (RFC 9380, 6.6.1) with parameter Z ---------------------
Det(Z) == AddM(MulM(OfInt(3), MulM(Z, Z, JP), JP), MulM(OfInt(4), WeiA, JP), JP)          \* 3 Z^2 + 4 A
\* the requirements on Z
ZOK(Z) == /\ G(Z) # Zero
          /\ Det(Z) # Zero /\ IsSquareM(NegM(MulM(G(Z), Det(Z), JP), JP), JP)               \* -(3Z^2 + 4A) / (4 g(Z)) is a non-zero square
          /\ IsSquareM(G(Z), JP) \/ IsSquareM(G(NegM(MulM(Z, InvM(OfInt(2), JP), JP), JP)), JP)
SvdW(u, Z) ==
  LET c1 == G(Z)
      c2 == NegM(MulM(Z, InvM(OfInt(2), JP), JP), JP)
      r3 == SqrtM(NegM(MulM(c1, Det(Z), JP), JP), JP)
      c3 == IF Sgn0(r3) = 0 THEN r3 ELSE NegM(r3, JP)
      c4 == DivM(NegM(MulM(OfInt(4), c1, JP), JP), Det(Z), JP)
      t1 == MulM(MulM(u, u, JP), c1, JP)
      tv2 == AddM(One, t1, JP)
      tv1 == SubM(One, t1, JP)
      tv3 == Inv0(MulM(tv1, tv2, JP), JP)
      tv4 == MulM(MulM(MulM(u, tv1, JP), tv3, JP), c3, JP)
      x1 == SubM(c2, tv4, JP)
      x2 == AddM(c2, tv4, JP)
      w == MulM(MulM(tv2, tv2, JP), tv3, JP)
      x3 == AddM(MulM(MulM(w, w, JP), c4, JP), Z, JP)
      x == IF IsSquareM(G(x1), JP) THEN x1 ELSE IF IsSquareM(G(x2), JP) THEN x2 ELSE x3
      y0 == SqrtM(G(x), JP)
      y == IF Sgn0(y0) = Sgn0(u) THEN y0 ELSE NegM(y0, JP)
  IN <<x, y>>
\* rational maps (Appendix D)
WeiToMont(P) == <<SubM(MulM(MontK, P[1], JP), DivM(MontJ, OfInt(3), JP), JP), MulM(MontK, P[2], JP)>>
MontToEdw(P) ==
  LET s == P[1]  t == P[2]
      den == MulM(AddM(s, One, JP), t, JP)
  IN IF den = Zero THEN Pt(Zero, One)
     ELSE Pt(DivM(s, t, JP), DivM(SubM(s, One, JP), AddM(s, One, JP), JP))
MapToCurve(u, Z) == PMul(Jubjub, OfInt(8), MontToEdw(WeiToMont(SvdW(u, Z))))
\* two squeezes of the sponge (no declared length) that absorbed the message
HashToCurve(msg, Z, mds, rc) ==
  LET us == SpRun(0 - 1, <<<<"absorb", msg>>, <<"squeeze">>, <<"squeeze">>>>, mds, rc, JP)
  IN PAdd(Jubjub, MapToCurve(us[1], Z), MapToCurve(us[2], Z))
=============================================================================
