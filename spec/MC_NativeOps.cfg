SPECIFICATION Spec
CONSTANTS
  P = 12289
  Emit = TRUE
INVARIANT DefsWellFormed
INVARIANT EmitReplay
CHECK_DEADLOCK FALSE
