SPECIFICATION WSpec
INVARIANT WordsOK
CHECK_DEADLOCK FALSE
