------------------------------- MODULE Pairing -------------------------------
(***************************************************************************)
(* The pairing as a bilinear map between cyclic groups of prime order r,    *)
(* written in discrete-logarithm form (C13): G1, G2 and Gt elements are     *)
(* integers (their logarithms to the generators g1, g2, e(g1, g2)); the     *)
(* pairing of a.g1 and b.g2 is a.b.  The multi-pairing computation is a     *)
(* small state machine mirroring the code: terms are consumed one at a      *)
(* time by the Miller loop (a term with an identity contributes the neutral *)
(* element and the loop goes on), then the final exponentiation maps the    *)
(* accumulated value to Gt.  Logarithms are kept as (small) integers; the   *)
(* scalars 0, 1, -1 (= r-1), 2 of the menu need no reduction.               *)
(***************************************************************************)
EXTENDS Integers, Sequences, FiniteSets, TLC, Json

Menu == {0, 1, -1, 2}  \* the scalars used for points (0 is the identity, -1 is r - 1)
CONSTANTS MaxLen,      \* lists of length 0..MaxLen are explored exhaustively
          Variant      \* "spec", or a deliberately wrong computation used to show the invariant is not vacuous

VARIABLES terms,       \* the list of pairs <<a, b>> to be paired
          pos,         \* number of terms consumed by the Miller loop
          acc,         \* logarithm of the accumulated Miller-loop value
          stopped,     \* (wrong variants only) the loop gave up
          result       \* <<"none">> or <<"gt", c>>
vars == <<terms, pos, acc, stopped, result>>

Pairs == Menu \X Menu
RECURSIVE Lists(_)
Lists(n) == IF n = 0 THEN {<<>>} ELSE LET S == Lists(n - 1) IN S \cup {Append(s, p) : s \in {t \in S : Len(t) = n - 1}, p \in Pairs}
\* some longer lists: identities in every position pattern
Long == { [i \in 1..n |-> IF i \in idpos THEN <<0, 1>> ELSE <<((i % 3) - 1), (i % 2) + 1>>] : n \in {5, 8}, idpos \in {{}, {1}, {2, 5}, {3, 4, 5}} }
      \cup { [i \in 1..8 |-> <<1, 0>>], [i \in 1..6 |-> IF i % 2 = 0 THEN <<2, 0>> ELSE <<0, 2>>] }

Init == /\ terms \in Lists(MaxLen) \cup Long
        /\ pos = 0 /\ acc = 0 /\ stopped = FALSE /\ result = <<"none">>

IsIdTerm(t) == t[1] = 0 \/ t[2] = 0
MillerStep ==
  /\ result = <<"none">> /\ ~stopped /\ pos < Len(terms)
  /\ LET t == terms[pos + 1] IN
     IF IsIdTerm(t)
     THEN (IF Variant = "truncate_at_identity"
           THEN stopped' = TRUE /\ UNCHANGED <<acc, pos>>
           ELSE pos' = pos + 1 /\ UNCHANGED <<acc, stopped>>)
     ELSE acc' = acc + t[1] * t[2] /\ pos' = pos + 1 /\ UNCHANGED stopped
  /\ UNCHANGED <<terms, result>>
FinalExp ==
  /\ result = <<"none">> /\ (pos = Len(terms) \/ stopped)
  /\ result' = <<"gt", acc>>
  /\ UNCHANGED <<terms, pos, acc, stopped>>
Next == MillerStep \/ FinalExp
Spec == Init /\ [][Next]_vars

RECURSIVE SumProd(_)
SumProd(ts) == IF ts = <<>> THEN 0 ELSE Head(ts)[1] * Head(ts)[2] + SumProd(Tail(ts))
\* bilinearity: the multi-pairing is the product of the pairings, i.e. the sum of the a_i.b_i
Bilinear == result[1] = "gt" => result[2] = SumProd(terms)
\* non-degeneracy (single pair): the result is neutral iff one of the points is the identity
NonDegenerate == (result[1] = "gt" /\ Len(terms) = 1) => ((result[2] = 0) <=> IsIdTerm(terms[1]))
EmitReplay == result[1] = "gt" => PrintT("REPLAY " \o ToJson([terms |-> terms, expect |-> result[2]]))
=============================================================================
