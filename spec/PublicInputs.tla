---------------------------- MODULE PublicInputs ----------------------------
(***************************************************************************)
(* The off-circuit encoding of every value type that can be exposed as a    *)
(* public input, as a function to sequences of native field elements (C08). *)
(*   bit, byte, native          -> the value itself (1 element)             *)
(*   emulated element of f      -> EncodeF: NL(f) limbs base 2^LB(f) of x-1 *)
(*   big integer of nbits bits  -> ceil(nbits/96) limbs base 2^96           *)
(*   Jubjub point               -> its affine coordinates (x, y)            *)
(*   Jubjub scalar              -> the integer of its 252 bits (1 element)  *)
(*   foreign point (secp256k1,  -> EncodeF(x) \o EncodeF(y) over the base   *)
(*      BLS12-381 G1)              field, identity = (0, 0) with the flag   *)
(*                                 2^LB added to the first limb             *)
(*   accumulator (lhs, rhs)     -> MsmEncode(lhs) \o MsmEncode(rhs); an MSM  *)
(*      over BLS12-381 G1          is its bases (foreign points), then its   *)
(*                                 scalars (native), then the scalars of its *)
(*                                 NAMED fixed bases in the byte-wise        *)
(*                                 lexicographic order of the names          *)
(* Decode is the partial inverse; an item is [ty, nbits, val].              *)
(***************************************************************************)
EXTENDS Curve, FiniteSets

Types == {"bit", "byte", "native", "secp_n", "secp_p", "bls_p", "big", "jub_point", "jub_scalar", "secp_point", "bls_point"}
BaseField(ty) == IF ty = "secp_point" THEN "secp_p" ELSE "bls_p"
CurveOfTy(ty) == CASE ty = "secp_point" -> Secp256k1 [] ty = "bls_point" -> Bls12381G1 [] ty = "jub_point" -> Jubjub

\* is v a value of the type?
Typed(ty, nbits, v) ==
  CASE ty = "bit" -> IsBitN(v)
    [] ty = "byte" -> IsByteN(v)
    [] ty = "native" -> Lt(v, Native)
    [] ty \in {"secp_n", "secp_p", "bls_p"} -> Lt(v, Modulus(ty))
    [] ty = "big" -> NumBits(v) <= nbits
    [] ty = "jub_scalar" -> Lt(v, JubR)
    [] ty \in {"jub_point", "secp_point", "bls_point"} -> InSubgroup(CurveOfTy(ty), v)

Encode(ty, nbits, v) ==
  CASE ty \in {"bit", "byte", "native", "jub_scalar"} -> <<v>>
    [] ty \in {"secp_n", "secp_p", "bls_p"} -> EncodeF(v, ty)
    [] ty = "big" -> EncodeU(v, NLimbsU(nbits))
    [] ty = "jub_point" -> <<v.x, v.y>>
    [] ty \in {"secp_point", "bls_point"} ->
         LET f == BaseField(ty)
             ex == EncodeF(v.x, f)
         IN (IF v.id THEN [ex EXCEPT ![1] = Add(ex[1], Pow2(LB(f)))] ELSE ex) \o EncodeF(v.y, f)

EncLen(ty, nbits) ==
  CASE ty \in {"bit", "byte", "native", "jub_scalar"} -> 1
    [] ty \in {"secp_n", "secp_p", "bls_p"} -> NL(ty)
    [] ty = "big" -> NLimbsU(nbits)
    [] ty = "jub_point" -> 2
    [] ty \in {"secp_point", "bls_point"} -> 2 * NL(BaseField(ty))

\* the value a vector denotes, or <<"none">> if it is the encoding of no value of the type
None == [id |-> TRUE, x |-> <<999>>, y |-> <<999>>]     \* same shape as a point, never a valid one
Decode(ty, nbits, e) ==
  CASE ty \in {"bit", "byte", "native", "jub_scalar"} -> e[1]
    [] ty \in {"secp_n", "secp_p", "bls_p"} -> IF CanonF(e, ty) THEN DecodeF(e, ty) ELSE <<999, 999>>
    [] ty = "big" -> DecodeU(e)
    [] ty = "jub_point" -> Pt(e[1], e[2])
    [] ty \in {"secp_point", "bls_point"} ->
         LET f == BaseField(ty)
             n == NL(f)
             flag == ~Lt(e[1], Pow2(LB(f)))
             ex == IF flag THEN [SubSeq(e, 1, n) EXCEPT ![1] = Sub(e[1], Pow2(LB(f)))] ELSE SubSeq(e, 1, n)
             ey == SubSeq(e, n + 1, 2 * n)
         IN IF ~(CanonF(ex, f) /\ CanonF(ey, f)) THEN None
            ELSE IF flag THEN (IF DecodeF(ex, f) = Zero /\ DecodeF(ey, f) = Zero THEN Inf ELSE None)
            ELSE Pt(DecodeF(ex, f), DecodeF(ey, f))

\* ---- accumulators -----------------------------------------------------------
\* names are byte strings; byte-wise lexicographic order (what a BTreeMap<String, _> iterates in)
RECURSIVE LexLt(_, _)
LexLt(a, b) == IF a = <<>> THEN b # <<>>
               ELSE IF b = <<>> THEN FALSE
               ELSE IF a[1] # b[1] THEN a[1] < b[1] ELSE LexLt(Tail(a), Tail(b))
\* fixed: a sequence of [name, v] with pairwise different names
DistinctNames(fixed) == \A i, j \in 1..Len(fixed) : fixed[i].name = fixed[j].name => i = j
Rank(fixed, i) == Cardinality({j \in 1..Len(fixed) : LexLt(fixed[j].name, fixed[i].name)})
SortedVals(fixed) == [r \in 1..Len(fixed) |-> fixed[CHOOSE i \in 1..Len(fixed) : Rank(fixed, i) = r - 1].v]
AccPt(j) == [id |-> j.id, x |-> j.x, y |-> j.y]
MsmTyped(m) == /\ Len(m.bases) = Len(m.scalars)
               /\ \A i \in 1..Len(m.bases) : OnCurve(Bls12381G1, AccPt(m.bases[i]))
               /\ \A i \in 1..Len(m.scalars) : Lt(m.scalars[i], Native)
               /\ DistinctNames(m.fixed) /\ \A i \in 1..Len(m.fixed) : Lt(m.fixed[i].v, Native)
MsmEncode(m) == Flat([i \in 1..Len(m.bases) |-> Encode("bls_point", 0, AccPt(m.bases[i]))]) \o m.scalars \o SortedVals(m.fixed)
AccEncode(lhs, rhs) == MsmEncode(lhs) \o MsmEncode(rhs)
=============================================================================
