SPECIFICATION Spec
CONSTANTS
  N = 3
  Vals = {0, 1, 2}
INVARIANT Inv
CHECK_DEADLOCK FALSE
