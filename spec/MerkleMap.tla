------------------------------ MODULE MerkleMap ------------------------------
(***************************************************************************)
(* Key-value maps with a succinct representation (C04: set (non-)membership *)
(* maps; circuits/src/map).  The map is a sparse Merkle tree of height      *)
(* Height over a two-to-one hash H2: the leaf of a key sits at the index    *)
(* the key hashes to, untouched leaves hold the default value, and the root *)
(* is the succinct representation.  The content is a set of entries         *)
(* [idx, val] with pairwise different indices; Bt(idx, j) is bit j of an    *)
(* index (bit 0 decides left/right at the leaf level).                      *)
(*   get(k)      = Lookup, proved by Climb(value, idx, Path) = Root          *)
(*   insert(k,v) = Put, proved by the SAME path under the old and the new    *)
(*                 value (PathStable)                                        *)
(* H2, Bt and Height are parameters: MC_MerkleMap instantiates them with a   *)
(* free (injective) constructor on a tree of height 3, Map_Trace with        *)
(* Poseidon and height 128.                                                  *)
(***************************************************************************)
EXTENDS Naturals, Sequences, FiniteSets, SequencesExt
CONSTANTS Height, H2(_, _), Bt(_, _), Lsb(_), Shr1(_)

\* D[h + 1]: the node on top of an untouched subtree of height h (a sequence built by iteration, so that TLC holds
\* it as a value instead of re-deriving the chain of hashes at every use)
Defaults(d) == FoldLeft(LAMBDA acc, h : Append(acc, H2(acc[h], acc[h])), <<d>>, [h \in 1..Height |-> h])

\* the node on top of a subtree of height h whose touched leaves are es (all of them inside that subtree)
RECURSIVE Node(_, _, _)
Node(h, es, D) ==
  IF es = {} THEN D[h + 1]
  ELSE IF h = 0 THEN (CHOOSE e \in es : TRUE).val
  ELSE H2(Node(h - 1, {e \in es : Bt(e.idx, h - 1) = 0}, D), Node(h - 1, {e \in es : Bt(e.idx, h - 1) = 1}, D))
Root(es, d) == Node(Height, es, Defaults(d))

\* the same root computed level by level from the leaves (Lsb / Shr1: lowest bit and the index of the parent); its equality
\* with Root is an invariant of MC_MerkleMap; Map_Trace uses this form on the tree of height 128
RootIter(es, d) ==
  LET Level(acc, h) ==                                    \* acc = <<nodes at height h - 1, default nodes>>  |->  parents at height h
        LET nodes == acc[1]
            D == acc[2]                                   \* (carried in the accumulator: a value, computed once)
            Child(p, b) == IF \E n \in nodes : Shr1(n.idx) = p /\ Lsb(n.idx) = b
                           THEN (CHOOSE n \in nodes : Shr1(n.idx) = p /\ Lsb(n.idx) = b).val ELSE D[h]
        IN <<{[idx |-> p, val |-> H2(Child(p, 0), Child(p, 1))] : p \in {Shr1(n.idx) : n \in nodes}}, D>>
      top == FoldLeft(Level, <<es, Defaults(d)>>, [h \in 1..Height |-> h])
  IN IF es = {} THEN top[2][Height + 1] ELSE (CHOOSE n \in top[1] : TRUE).val

Lookup(es, d, i) == IF \E e \in es : e.idx = i THEN (CHOOSE e \in es : e.idx = i).val ELSE d
Put(es, i, v) == {e \in es : e.idx # i} \cup {[idx |-> i, val |-> v]}

\* the siblings met when climbing from leaf i: at height h, the top of the subtree that agrees with i above bit h and differs at bit h
SameAbove(a, b, h) == \A j \in h..(Height - 1) : Bt(a, j) = Bt(b, j)
Path(es, d, i) ==
  LET D == Defaults(d) IN
  [h \in 0..(Height - 1) |-> Node(h, {e \in es : SameAbove(e.idx, i, h + 1) /\ Bt(e.idx, h) # Bt(i, h)}, D)]
\* the root recomputed from a leaf value and a path
Climb(v, i, path) ==
  LET f[h \in 0..Height] == IF h = 0 THEN v
                            ELSE LET below == f[h - 1] IN
                                 IF Bt(i, h - 1) = 1 THEN H2(path[h - 1], below) ELSE H2(below, path[h - 1])
  IN f[Height]
=============================================================================
