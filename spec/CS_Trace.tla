------------------------------ MODULE CS_Trace ------------------------------
(* C02 trace validation.  A run:  reset(cs, fixed, advice, instance)       *)
(* Judge*  EndRun.  Every Judge line carries the faulted advice/instance   *)
(* tables as MockProver held them and two verdicts: MockProver::verify and *)
(* the real prover+verifier (a prover that refuses counts as reject).  The *)
(* line is consumed only if BOTH equal ConstraintSystem!Satisfied computed *)
(* here from the extracted constraint system.                              *)
EXTENDS ConstraintSystem, TLC, Json, IOUtils

Rec == ndJsonDeserialize(IOEnv.TRACE)
VARIABLES l, cs, fixed, state, seen
vars == <<l, cs, fixed, state, seen>>
Ev == Rec[l]
Is(e) == l <= Len(Rec) /\ Rec[l].ev = e /\ l' = l + 1

Init == l = 1 /\ cs = [n |-> 0] /\ fixed = <<>> /\ state = "idle" /\ seen = {}

THeader == Is("header") /\ UNCHANGED <<cs, fixed, state, seen>>

TReset ==
  /\ Is("reset") /\ state = "idle"
  /\ cs' = Ev.cs /\ fixed' = Ev.fixed /\ state' = "run" /\ seen' = {}
  \* the honest assignment satisfies the extracted system
  /\ Satisfied(Ev.cs, [fixed |-> Ev.fixed, advice |-> Ev.advice, instance |-> Ev.instance])

Verdict(b) == IF b THEN "ok" ELSE "err"
Real(r) == IF r = "noproof" THEN "err" ELSE r

TJudge ==
  /\ Is("Judge") /\ state = "run"
  /\ LET T == [fixed |-> fixed, advice |-> Ev.advice, instance |-> Ev.instance]
         sat == Satisfied(cs, T)
         vc == ViolatedClasses(cs, T)
     IN /\ Real(Ev.real) = Verdict(sat)      \* C02, first sentence
        /\ Ev.mock = Verdict(sat)            \* C02, second sentence
        /\ seen' = seen \cup {<<Ev.what.t, vc>>}
  /\ UNCHANGED <<cs, fixed, state>>

TEndRun ==
  /\ Is("EndRun") /\ state = "run"
  /\ PrintT(<<"CLASSES", seen>>)
  /\ state' = "idle" /\ UNCHANGED <<cs, fixed, seen>>

Next == THeader \/ TReset \/ TJudge \/ TEndRun
TraceSpec == Init /\ [][Next]_vars

TraceAccepted ==
  LET d == TLCGet("stats").diameter IN
  IF d - 1 = Len(Rec) THEN TRUE
  ELSE Print(<<"TRACE-REJECTED first unmatched line", d, "of", Len(Rec)>>, FALSE)
=============================================================================
