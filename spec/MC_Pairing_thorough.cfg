SPECIFICATION Spec
CONSTANTS
  MaxLen = 3
  Variant = "spec"
INVARIANT Bilinear
INVARIANT NonDegenerate
INVARIANT EmitReplay
CHECK_DEADLOCK FALSE
