SPECIFICATION Spec
CONSTANTS
  Family = "c25519_p"
  Emit = TRUE
INVARIANT EncodingsOK
INVARIANT BigEncodingsOK
INVARIANT EmitReplay
CHECK_DEADLOCK FALSE
