SPECIFICATION TraceSpec
CONSTANTS
  MaxN = 6
  Mutation = "none"
  Emit = FALSE
INVARIANT TraceInv
POSTCONDITION TraceAccepted
CHECK_DEADLOCK FALSE
