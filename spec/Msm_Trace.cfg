SPECIFICATION TraceSpec
CONSTANTS
  MaxBits = 8
  MaxWindow = 4
POSTCONDITION TraceAccepted
CHECK_DEADLOCK FALSE
