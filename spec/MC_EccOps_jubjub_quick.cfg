SPECIFICATION Spec
CONSTANTS
  CurveName = "jubjub"
  MaxMsm = 3
INVARIANT GroupLawConsistent
INVARIANT EmitReplay
CHECK_DEADLOCK FALSE
