------------------------------- MODULE Batch -------------------------------
(***************************************************************************)
(* Batch verification (zk_stdlib::batch_verify) and accumulation           *)
(* (circuits::verifier::Accumulator::accumulate) for C15.                  *)
(*                                                                         *)
(* Each member i yields a verification guard g_i whose "error" e_i is zero *)
(* iff the member verifies on its own.  The code                           *)
(*   - checks the three input vectors have equal length,                   *)
(*   - per member: checks the number of public inputs, runs `prepare`      *)
(*     (malformed proof => error for the whole batch), squeezes a summary  *)
(*     challenge from the member's complete transcript and absorbs it into *)
(*     the batching transcript,                                            *)
(*   - squeezes r from the batching transcript,                            *)
(*   - folds  acc <- r * acc + g_i,                                        *)
(*   - accepts iff the folded guard verifies: sum_i r^(n-i) e_i = 0.       *)
(* Idealisation: errors of invalid members are independent indeterminates, *)
(* EXCEPT for a colluding pair (kinds "pairA", "pairB") whose errors an    *)
(* adversary can make cancel if it knows the coefficients they will be     *)
(* multiplied with before committing to the proofs -- i.e. if the fold is  *)
(* unscaled, or if r does not depend on (the summaries of) both of them.   *)
(***************************************************************************)
EXTENDS Naturals, Sequences, FiniteSets, TLC, Json

CONSTANTS MaxN, Mutation, Emit

Kinds == {"valid", "invalid", "pairA", "pairB", "malformed", "badlen"}
Mismatches == {"none", "vks", "pis", "proofs"}

VARIABLES members,   \* sequence of kinds
          mismatch,  \* which input vector is one short
          pc,        \* "start" | "members" | "fold" | "done"
          i,         \* member being processed
          bound,     \* members whose summary has been absorbed into the batching transcript
          rbound,    \* members r depends on (fixed when r is squeezed)
          acc,       \* set of members whose error is present in the folded guard
          result     \* "pending" | "ok" | "err" | "panic"
vars == <<members, mismatch, pc, i, bound, rbound, acc, result>>

N == Len(members)
HasError(k) == k \in {"invalid", "pairA", "pairB"}

Init ==
  /\ \E n \in 0..MaxN : members \in [1..n -> Kinds]
  /\ mismatch \in Mismatches
  /\ pc = "start" /\ i = 1 /\ bound = {} /\ rbound = {} /\ acc = {} /\ result = "pending"

CheckLengths ==
  /\ pc = "start"
  /\ IF mismatch # "none" /\ N > 0
     THEN /\ result' = "err" /\ pc' = "done"
     ELSE IF N = 0
          THEN /\ result' = IF Mutation = "index_empty_batch" THEN "panic" ELSE "ok"
               /\ pc' = "done"
          ELSE /\ pc' = "members" /\ result' = result
  /\ UNCHANGED <<members, mismatch, i, bound, rbound, acc>>

PrepareMember ==
  /\ pc = "members" /\ i <= N
  /\ IF members[i] \in {"malformed", "badlen"}
     THEN /\ result' = "err" /\ pc' = "done" /\ UNCHANGED <<i, bound>>
     ELSE /\ bound' = IF Mutation = "skip_first_summary" /\ i = 1 THEN bound ELSE bound \cup {i}
          /\ i' = i + 1 /\ UNCHANGED <<pc, result>>
  /\ UNCHANGED <<members, mismatch, rbound, acc>>

SqueezeR ==
  /\ pc = "members" /\ i > N
  /\ rbound' = bound /\ pc' = "fold" /\ i' = 1
  /\ UNCHANGED <<members, mismatch, bound, acc, result>>

Fold ==
  /\ pc = "fold" /\ i <= N
  /\ acc' = IF HasError(members[i]) THEN acc \cup {i} ELSE acc
  /\ i' = i + 1
  /\ UNCHANGED <<members, mismatch, pc, bound, rbound, result>>

\* can the errors of members a (pairA) and b (pairB) be made to cancel?
PairCancels(a, b) ==
  \/ Mutation = "unscaled_fold"
  \/ (a \notin rbound /\ b \notin rbound)
Cancelled ==
  {m \in acc : \E o \in acc :
      /\ {members[m], members[o]} = {"pairA", "pairB"}
      /\ PairCancels(m, o)
      \* one partner each
      /\ Cardinality({x \in acc : members[x] = "pairA"}) = 1
      /\ Cardinality({x \in acc : members[x] = "pairB"}) = 1}

FinalCheck ==
  /\ pc = "fold" /\ i > N
  /\ result' = IF acc \ Cancelled = {} THEN "ok" ELSE "err"
  /\ pc' = "done"
  /\ UNCHANGED <<members, mismatch, i, bound, rbound, acc>>

Next == CheckLengths \/ PrepareMember \/ SqueezeR \/ Fold \/ FinalCheck
Spec == Init /\ [][Next]_vars

---------------------------------------------------------------------------
AllValid == \A k \in 1..N : members[k] = "valid"
Done == pc = "done"

\* C15: accept iff every member would be accepted on its own (and the inputs
\* are well-formed); never a crash.
BatchIffAll == Done => (result = "ok" <=> (AllValid /\ (mismatch = "none" \/ N = 0)))
NoCrash == result # "panic"
\* r depends on every member
RBindsAll == (pc = "fold") => rbound = 1..N
Inv == BatchIffAll /\ NoCrash /\ RBindsAll

EmitReplay ==
  (Emit /\ Done) =>
     PrintT("REPLAY " \o ToJson([members |-> members, mismatch |-> mismatch, expect |-> result]))
=============================================================================
