SPECIFICATION Spec
CONSTANTS
  MaxLen = 2
  Variant = "spec"
INVARIANT Bilinear
INVARIANT NonDegenerate
INVARIANT EmitReplay
CHECK_DEADLOCK FALSE
