---------------------------- MODULE Pairing_Trace ----------------------------
(* C13 replay validation: the TLC-generated lists of pairs replayed into the  *)
(* pairing entry points of both engines.  For every list the discrete        *)
(* logarithm (base e(g1, g2)) of each entry point's result must be the        *)
(* logarithm the Pairing specification computes, sum of a_i.b_i; a single     *)
(* pairing is the identity of Gt iff one of its arguments is the identity;    *)
(* the target group's generator has order r.                                  *)
EXTENDS Integers, Sequences, Json, IOUtils, TLC

Rec == ndJsonDeserialize(IOEnv.TRACE)
VARIABLE l
Ev == Rec[l]

RECURSIVE SumProd(_)
SumProd(ts) == IF ts = <<>> THEN 0 ELSE Head(ts)[1] * Head(ts)[2] + SumProd(Tail(ts))

PairOK(e) ==
  LET c == SumProd(e.terms) IN
  /\ e.expect = c
  /\ e.product = c /\ e.multi = c /\ e.multi_reversed = c
  /\ e.pairing_with_g1 = c /\ e.pairing_with_g2 = c
  /\ \A i \in 1..Len(e.terms) : e.single_is_identity[i] = (e.terms[i][1] = 0 \/ e.terms[i][2] = 0)
GtOK(e) ==
  /\ e.gen_is_identity = FALSE
  /\ e.gen_times_r_is_identity = TRUE
  /\ e.gen_plus_neg_is_identity = TRUE
  /\ e.double_is_add = TRUE
  /\ e.scalar_3 = 3 /\ e.scalar_neg2 = -2

TInitL == l = 1
THeader == l <= Len(Rec) /\ Ev.ev = "header" /\ l' = l + 1
TGt == l <= Len(Rec) /\ Ev.ev = "Gt" /\ GtOK(Ev) /\ l' = l + 1
TPair == l <= Len(Rec) /\ Ev.ev = "Pair" /\ PairOK(Ev) /\ l' = l + 1
TraceSpec == TInitL /\ [][THeader \/ TGt \/ TPair]_l

TraceAccepted ==
  LET d == TLCGet("stats").diameter IN
  IF d - 1 = Len(Rec) THEN TRUE
  ELSE Print(<<"TRACE-REJECTED first unmatched line", d, "of", Len(Rec)>>, FALSE)
=============================================================================
