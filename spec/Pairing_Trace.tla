---------------------------- MODULE Pairing_Trace ----------------------------
(* C13 replay validation: the TLC-generated lists of pairs replayed into the  *)
(* pairing entry points of both engines.  For every list the discrete        *)
(* logarithm (base e(g1, g2)) of each entry point's result must be the        *)
(* logarithm the Pairing specification computes, sum of a_i.b_i; a single     *)
(* pairing is the identity of Gt iff one of its arguments is the identity;    *)
(* the target group's generator has order r.                                  *)
EXTENDS Integers, AtePairing, Json, IOUtils, TLC

Rec == ndJsonDeserialize(IOEnv.TRACE)
VARIABLE l
Ev == Rec[l]

RECURSIVE SumProd(_)
SumProd(ts) == IF ts = <<>> THEN 0 ELSE Head(ts)[1] * Head(ts)[2] + SumProd(Tail(ts))

PairOK(e) ==
  LET c == SumProd(e.terms) IN
  /\ e.expect = c
  /\ e.product = c /\ e.multi = c /\ e.multi_reversed = c
  /\ e.pairing_with_g1 = c /\ e.pairing_with_g2 = c
  /\ \A i \in 1..Len(e.terms) : e.single_is_identity[i] = (e.terms[i][1] = 0 \/ e.terms[i][2] = 0)
\* the Miller-loop results of the single pairs combined with +, + &, +=, += & before one final exponentiation
PairMLOK(e) ==
  LET c == SumProd(e.terms) IN
  e.expect = c /\ e.ml_add = c /\ e.ml_add_ref = c /\ e.ml_assign = c /\ e.ml_assign_ref = c
GtOK(e) ==
  /\ e.gen_is_identity = FALSE
  /\ e.gen_times_r_is_identity = TRUE
  /\ e.gen_plus_neg_is_identity = TRUE
  /\ e.double_is_add = TRUE
  /\ e.scalar_3 = 3 /\ e.scalar_neg2 = -2

\* ---- the target group as the order-r subgroup of Fp12 (Tower.tla) -----------------
\* Gt is written additively by the code: + is the product of Fp12, negation the conjugate (unitary elements),
\* multiplication by a scalar the power.  Every value is given with its twelve coefficients.
TowerOfEngine(n) == IF n = "bls12_381" THEN BlsT ELSE BnT
OrderOf(n) == IF n = "bls12_381" THEN BlsR ELSE Bn254R
IntModR(k, r) == IF k >= 0 THEN Rem(OfInt(k), r) ELSE Sub(r, Rem(OfInt(0 - k), r))
\* final exponentiation: f |-> f^(c (p^12 - 1) / r) with a fixed c prime to r (FinalExpC below)
FinalExpC(n) == IF n = "bls12_381" THEN 3 ELSE 1
HardExp(T, r) == Quo(Sub(PowNat(T.m, 12), One), r)
GtFOK(e) ==
  LET T == TowerOfEngine(e.engine)
      r == OrderOf(e.engine)
      g == e.base
      x == IF Len(e.ins) >= 1 THEN e.ins[1] ELSE DOne
      y == IF Len(e.ins) >= 2 THEN e.ins[2] ELSE DOne
  IN CASE e.op = "pairing" ->
            /\ e.out = DPowI(g, IntModR(e.x.a * e.x.b, r), T)
            \* e(G1, G2) generates a group of order r inside the cyclotomic subgroup
            /\ (e.x.a = 1 /\ e.x.b = 1) => (e.out = g /\ g # DOne /\ DPowI(g, r, T) = DOne /\ InCyclo(g, T))
       [] e.op = "identity" -> e.out = DOne
       [] e.op = "sum0" -> e.out = DOne
       [] e.op = "sum1" -> e.out = x
       [] e.op = "is_identity" -> e.out = (x = DOne)
       [] e.op = "neg" -> e.out = DConj(x, T) /\ DMul(x, e.out, T) = DOne
       [] e.op = "double" -> e.out = DMul(x, x, T)
       [] e.op = "add" -> e.out = DMul(x, y, T)
       [] e.op = "sub" -> e.out = DMul(x, DConj(y, T), T)
       [] e.op = "sum3" -> e.out = DMul(DMul(x, y, T), e.ins[3], T)
       [] e.op = "eq" -> e.out = (x = y)
       [] e.op = "mul" -> e.out = DPowI(x, e.x.scalar, T)
       [] e.op = "final_exp" -> e.out = DPowI(x, MulInt(HardExp(T, r), FinalExpC(e.engine)), T)

\* ---- the pairing itself: the implementation's e(P, Q), for P and Q given by their coordinates, is the reduced optimal ate
\* pairing of AtePairing.tla raised to the fixed power FinalExpC (the same constant as in final_exp above)
PairPtOK(e) ==
  LET c == PairingOf(e.engine)
      P == [id |-> e.p.id, x |-> e.p.x, y |-> e.p.y]
      Q == [id |-> e.q.id, x |-> e.q.x, y |-> e.q.y]
  IN /\ OnCurve(c.g1, P) /\ OnCurve2(c.g2, Q)
     /\ e.out = (IF P.id \/ Q.id THEN DOne
                 ELSE DPowI(Miller(c, P, Q), MulInt(FullExp(c), FinalExpC(e.engine)), c.T))

TInitL == l = 1
TPairPt == l <= Len(Rec) /\ Ev.ev = "PairPt" /\ PairPtOK(Ev) /\ l' = l + 1
TPairML == l <= Len(Rec) /\ Ev.ev = "PairML" /\ PairMLOK(Ev) /\ l' = l + 1
TGtF == l <= Len(Rec) /\ Ev.ev = "GtF" /\ GtFOK(Ev) /\ l' = l + 1
THeader == l <= Len(Rec) /\ Ev.ev = "header" /\ l' = l + 1
TGt == l <= Len(Rec) /\ Ev.ev = "Gt" /\ GtOK(Ev) /\ l' = l + 1
TPair == l <= Len(Rec) /\ Ev.ev = "Pair" /\ PairOK(Ev) /\ l' = l + 1
TraceSpec == TInitL /\ [][THeader \/ TGt \/ TPair \/ TPairML \/ TGtF \/ TPairPt]_l

TraceAccepted ==
  LET d == TLCGet("stats").diameter IN
  IF d - 1 = Len(Rec) THEN TRUE
  ELSE Print(<<"TRACE-REJECTED first unmatched line", d, "of", Len(Rec)>>, FALSE)
=============================================================================
