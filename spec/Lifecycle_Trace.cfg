SPECIFICATION TraceSpec
INVARIANT Functional
POSTCONDITION TraceAccepted
CHECK_DEADLOCK FALSE
