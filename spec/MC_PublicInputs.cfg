SPECIFICATION Spec
INVARIANT RoundTrip
INVARIANT Injective
INVARIANT EmitReplay
CHECK_DEADLOCK FALSE
