SPECIFICATION Spec
INVARIANT RoundTrip
INVARIANT Injective
INVARIANT DomOK
INVARIANT EmitReplay
CHECK_DEADLOCK FALSE
