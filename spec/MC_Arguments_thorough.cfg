SPECIFICATION Spec
CONSTANTS
  N = 4
  Vals = {0, 1, 2}
INVARIANT Inv
CHECK_DEADLOCK FALSE
