------------------------------ MODULE Ecc_Trace ------------------------------
(* C06 replay validation: one line per run of an elliptic-curve instruction  *)
(* of the standard library's chips with inputs and outputs exposed as public *)
(* inputs (`exposed` = what the circuit itself binds, `layout` = kind and    *)
(* width of every exposure), honest or with one advice assignment replaced   *)
(* consistently (hook H1).  Soundness: satisfiable with an instance that is  *)
(* the encoding of typed values => inputs in the domain and outputs equal to *)
(* the group-law result.  Completeness: the honest prover succeeds on every  *)
(* in-domain input, with the inputs the scenario names (points are given as  *)
(* multiples k.G; TLC computes them with its own group law).                 *)
EXTENDS EccOps, Json, IOUtils, Sequences

Rec == ndJsonDeserialize(IOEnv.TRACE)
VARIABLE l
Ev == Rec[l]
Has(e, f) == f \in DOMAIN e

Width(le) == le[2]
RECURSIVE TotalWidth(_)
TotalWidth(lay) == IF lay = <<>> THEN 0 ELSE Width(Head(lay)) + TotalWidth(Tail(lay))
RECURSIVE Groups(_, _, _)
Groups(exp, lay, pos) ==
  IF lay = <<>> THEN <<>>
  ELSE <<SubSeq(exp, pos, pos + Width(Head(lay)) - 1)>> \o Groups(exp, Tail(lay), pos + Width(Head(lay)))
RECURSIVE SumInts(_)
SumInts(s) == IF s = <<>> THEN 0 ELSE Head(s) + SumInts(Tail(s))

\* number of input groups, in exposure order: scalars (or their bits / bytes / coordinates), then points
NScalarGroups(e) ==
  CASE e.op \in {"msm", "msm_bounded", "msm_negpair", "msm_dup"} -> Len(e.scalars)
    [] e.op = "msm_le_bits" -> SumInts(e.bounds)
    [] e.op = "msm_bytes" -> Len(e.scalars) * e.params[1]
    [] e.op = "from_coords" -> 2
    [] OTHER -> 0
NIn(e) == NScalarGroups(e) + Len(e.pts)

GVal(curve, le, g) ==        \* decoded value of one group
  CASE le[1] = "P" -> Decode(PointTy(curve), 0, g)
    [] le[1] = "S" -> IF curve = "secp256k1" THEN Decode("secp_n", 0, g) ELSE g[1]
    [] le[1] = "C" -> IF curve = "jubjub" THEN g[1] ELSE Decode(CoordTy(curve), 0, g)
    [] OTHER -> g[1]
GTyped(curve, le, g, strict) ==
  CASE le[1] = "P" -> LET P == Decode(PointTy(curve), 0, g) IN
                      /\ P # None /\ OnCurve(CurveOf(curve), P)
                      /\ strict => InSubgroup(CurveOf(curve), P)
    [] le[1] = "S" -> CASE curve = "secp256k1" -> CanonF(g, "secp_n")
                        [] curve = "jubjub" -> Lt(g[1], JubR)
                        [] OTHER -> Lt(g[1], Native)
    [] le[1] = "C" -> IF curve = "jubjub" THEN Lt(g[1], Native) ELSE CanonF(g, CoordTy(curve))
    [] le[1] = "b" -> IsBitN(g[1])
    [] OTHER -> IsByteN(g[1])

\* assemble the typed input record from the decoded input groups
RECURSIVE BitsToNats(_, _, _)
BitsToNats(vals, bounds, pos) ==    \* consecutive runs of bits -> integers
  IF bounds = <<>> THEN <<>>
  ELSE <<OfBitsLE([i \in 1..Head(bounds) |-> ToInt(vals[pos + i - 1])])>> \o BitsToNats(vals, Tail(bounds), pos + Head(bounds))
RECURSIVE BytesToNats(_, _, _, _)
BytesToNats(vals, n, nb, pos) ==
  IF n = 0 THEN <<>>
  ELSE <<Trim([i \in 1..nb |-> ToInt(vals[pos + i - 1])])>> \o BytesToNats(vals, n - 1, nb, pos + nb)
Inputs(e, vals) ==
  LET ns == NScalarGroups(e)
      sv == SubSeq(vals, 1, ns)
  IN [P |-> SubSeq(vals, ns + 1, ns + Len(e.pts)),
      S |-> CASE e.op \in {"msm", "msm_bounded", "msm_negpair", "msm_dup"} -> sv
              [] e.op = "msm_le_bits" -> BitsToNats(sv, e.bounds, 1)
              [] e.op = "msm_bytes" -> BytesToNats(sv, Len(e.scalars), e.params[1], 1)
              [] OTHER -> <<>>,
      C |-> IF e.op = "from_coords" THEN sv ELSE <<>>]

\* the inputs the scenario names
HonInputs(e) ==
  LET c == CurveOf(e.curve) IN
  [P |-> [i \in 1..Len(e.pts) |-> PMulI(c, e.pts[i], c.g)],
   S |-> CASE e.op \in {"msm", "msm_bounded", "msm_negpair", "msm_dup"} -> [i \in 1..Len(e.scalars) |-> Rem(e.scalars[i], c.r)]
           [] e.op = "msm_le_bits" -> [i \in 1..Len(e.scalars) |-> Rem(e.scalars[i], Pow2(e.bounds[i]))]
           [] e.op = "msm_bytes" -> [i \in 1..Len(e.scalars) |-> Rem(e.scalars[i], Pow2(8 * e.params[1]))]
           [] OTHER -> <<>>,
   C |-> IF e.op = "from_coords" THEN [i \in 1..2 |-> Rem(e.scalars[i], CurveOf(e.curve).p)] ELSE <<>>]

Params(e) == IF Has(e, "params") THEN e.params ELSE <<>>
Bounds(e) == IF Has(e, "bounds") THEN e.bounds ELSE <<>>
Shaped(e) == TotalWidth(e.layout) = Len(e.exposed) /\ Len(e.layout) >= NIn(e)

Sound(e) ==
  (e.status = "sat" /\ Shaped(e)) =>
     LET g == Groups(e.exposed, e.layout, 1)
         strict == Has(e, "tamper")
     IN (\A i \in 1..Len(g) : GTyped(e.curve, e.layout[i], g[i], strict)) =>
           LET vals == [i \in 1..NIn(e) |-> GVal(e.curve, e.layout[i], g[i])]
               x == Inputs(e, vals)
           IN EPre(e.curve, e.op, Params(e), Bounds(e), x) =>
              /\ EDom(e.curve, e.op, Params(e), Bounds(e), x)
              /\ Flat(SubSeq(g, NIn(e) + 1, Len(g))) \in EOuts(e.curve, e.op, Params(e), x)

Complete(e) ==
  (~Has(e, "tamper") /\ EPre(e.curve, e.op, Params(e), Bounds(e), HonInputs(e))
                     /\ EDom(e.curve, e.op, Params(e), Bounds(e), HonInputs(e))) =>
     /\ e.status = "sat" /\ Shaped(e)
     /\ LET g == Groups(e.exposed, e.layout, 1) IN
        /\ \A i \in 1..Len(g) : GTyped(e.curve, e.layout[i], g[i], FALSE)
        /\ Inputs(e, [i \in 1..NIn(e) |-> GVal(e.curve, e.layout[i], g[i])]) = HonInputs(e)

Total(e) == e.status \in {"sat", "unsat", "synth_err", "panic"}

CurveOK(e) ==
  LET c == CurveOf(e.curve) IN
  /\ Trim(e.p) = c.p /\ Trim(e.r) = c.r /\ Trim(e.a) = c.a
  /\ Trim(IF c.form = "w" THEN e.b ELSE e.d) = c.b
  /\ Pt(Trim(e.gx), Trim(e.gy)) = c.g

TInitL == l = 1
THeader == l <= Len(Rec) /\ Ev.ev = "header" /\ Trim(Ev.native) = Native /\ l' = l + 1
TCurve == l <= Len(Rec) /\ Ev.ev = "Curve" /\ CurveOK(Ev) /\ l' = l + 1
TParams == l <= Len(Rec) /\ Ev.ev = "Params" /\ l' = l + 1
TOp == /\ l <= Len(Rec) /\ Ev.ev = "Op" /\ l' = l + 1
       /\ Sound(Ev) /\ Complete(Ev) /\ Total(Ev)
TraceSpec == TInitL /\ [][THeader \/ TCurve \/ TParams \/ TOp]_l

TraceAccepted ==
  LET d == TLCGet("stats").diameter IN
  IF d - 1 = Len(Rec) THEN TRUE
  ELSE Print(<<"TRACE-REJECTED first unmatched line", d, "of", Len(Rec)>>, FALSE)
=============================================================================
