--------------------------------- MODULE Msm ---------------------------------
(***************************************************************************)
(* C12, multi-scalar multiplication.                                        *)
(*  (1) The meaning: Sum_i s_i . B_i in the group of Curve.tla.  Scenarios   *)
(*      name scalars and bases by patterns (so that vectors of thousands of  *)
(*      terms need not be transported): the i-th base is BaseDlog(pat, i).G  *)
(*      and the i-th scalar ScalarOf(pat, i); the expected result is         *)
(*      (Sum_i s_i . b_i mod r).G.                                          *)
(*  (2) The signed-window (Booth) recoding that msm_best uses to pick        *)
(*      buckets, as a function on integers, with the invariant that the      *)
(*      digits recompose the scalar - checked exhaustively by TLC for all    *)
(*      scalars below 2^MaxBits and window sizes 1..MaxWindow, together with *)
(*      the bucket method itself (digits -> buckets -> summation by parts -> *)
(*      window shifts) on small instances in discrete-logarithm form.        *)
(***************************************************************************)
EXTENDS Curve, Json

\* ---- (1) patterns (0-based index i) --------------------------------------
BaseDlog(pat, i) ==
  CASE pat = "gen" -> 1
    [] pat = "identity" -> 0
    [] pat = "seq" -> (i % 17) - 8
    [] pat = "repeated" -> 1 + (i % 3)
    [] pat = "opposite" -> LET m == 1 + ((i \div 2) % 5) IN IF i % 2 = 0 THEN m ELSE 0 - m
    [] pat = "dup_pairs" -> ((i \div 2) % 50) + 1
ScalarOf(pat, i, r) ==
  CASE pat = "zero" -> Zero
    [] pat = "one" -> One
    [] pat = "minus_one" -> Sub(r, One)
    [] pat = "two" -> OfInt(2)
    [] pat = "pow3" -> PowMI(OfInt(3), 1000 + i, r)
    [] pat = "alt" -> IF i % 2 = 0 THEN Sub(r, One) ELSE PowMI(OfInt(3), 1000 + i, r)
    [] pat = "dup_pairs" -> PowMI(OfInt(3), 1000 + (i \div 2), r)
    [] pat = "small" -> OfInt((i * 7 + 3) % 11)
    \* short scalars whose highest used byte has its top bit set (the recoding carries into one more window)
    [] pat = "byte_top" -> OfInt(128 + ((i * 37) % 128))
    [] pat = "word_top" -> OfInt(65520 + (i % 16))
    [] pat = "three_top" -> OfInt(16776960 + (i % 251))
    [] pat = "short_mix" -> OfInt(CASE i % 4 = 0 -> 200 [] i % 4 = 1 -> 65520 [] i % 4 = 2 -> 8388608 [] OTHER -> 5)
IntMod(b, r) == IF b >= 0 THEN OfInt(b) ELSE Sub(r, OfInt(0 - b))
\* (a recursive FUNCTION: TLC binds the index to a value at every application, whereas the lazily
\* evaluated arguments of a recursive operator make a chain of n terms quadratic)
ExpectedLog(n, sp, bp, r) ==
  LET f[i \in 0..n] == IF i = 0 THEN Zero
                       ELSE AddM(f[i - 1], MulM(ScalarOf(sp, i - 1, r), IntMod(BaseDlog(bp, i - 1), r), r), r)
  IN f[n]
ExpectedPoint(c, n, sp, bp) == PMul(c, ExpectedLog(n, sp, bp, c.r), c.g)

\* ---- (2) Booth recoding and the bucket method on integers -----------------
CONSTANTS MaxBits, MaxWindow
RECURSIVE P2i(_)
P2i(n) == IF n = 0 THEN 1 ELSE 2 * P2i(n - 1)
BitI(s, i) == IF i < 0 THEN 0 ELSE (s \div P2i(i)) % 2
\* the (c+1)-bit slice starting one bit below window w, as in get_booth_index
Slice(c, w, s) == LET lo == c * w - 1 IN
                  LET RECURSIVE Sl(_)
                      Sl(k) == IF k > c THEN 0 ELSE BitI(s, lo + k) * P2i(k) + Sl(k + 1)
                  IN Sl(0)
Booth(c, w, s) == LET t == Slice(c, w, s) IN
                  IF t < P2i(c) THEN (t + 1) \div 2 ELSE ((t + 1) \div 2) - P2i(c)
NumWindows(c) == (MaxBits \div c) + 1
RECURSIVE Recompose(_, _, _)
Recompose(c, s, w) == IF w = NumWindows(c) THEN 0 ELSE Booth(c, w, s) * P2i(c * w) + Recompose(c, s, w + 1)

\* the bucket method for one window over logs: buckets indexed 1..2^(c-1), summation by parts
Bucket(c, w, ss, bs, k) ==     \* log of bucket k: sum of +-b_i with |digit_i| = k
  LET RECURSIVE Acc(_)
      Acc(i) == IF i > Len(ss) THEN 0
                ELSE LET d == Booth(c, w, ss[i]) IN
                     (IF d = k THEN bs[i] ELSE IF d = 0 - k THEN 0 - bs[i] ELSE 0) + Acc(i + 1)
  IN Acc(1)
WindowSum(c, w, ss, bs) ==     \* running-sum evaluation of sum_k k . bucket_k
  LET nb == P2i(c - 1)
      RECURSIVE Run(_, _, _)
      Run(k, running, acc) == IF k = 0 THEN acc
                              ELSE LET r2 == running + Bucket(c, w, ss, bs, k) IN Run(k - 1, r2, acc + r2)
  IN Run(nb, 0, 0)
RECURSIVE Pippenger(_, _, _, _)
Pippenger(c, ss, bs, w) == IF w = NumWindows(c) THEN 0 ELSE WindowSum(c, w, ss, bs) * P2i(c * w) + Pippenger(c, ss, bs, w + 1)
RECURSIVE Naive(_, _, _)
Naive(ss, bs, i) == IF i > Len(ss) THEN 0 ELSE ss[i] * bs[i] + Naive(ss, bs, i + 1)

VARIABLES c, s, inst
Init == /\ c \in 1..MaxWindow /\ s \in 0..(P2i(MaxBits) - 1)
        /\ inst \in { <<ss, bs>> : ss \in {<<3, 5>>, <<7, 7>>, <<0, 15>>, <<P2i(MaxBits) - 1, 1, 6>>},
                                    bs \in {<<1, 1>>, <<2, -2>>, <<1, 0>>} }
Next == UNCHANGED <<c, s, inst>>
Spec == Init /\ [][Next]_<<c, s, inst>>
BoothRecomposes == Recompose(c, s, 0) = s
BoothRange == \A w \in 0..(NumWindows(c) - 1) : Booth(c, w, s) \in (0 - P2i(c - 1))..P2i(c - 1)
BucketMethodCorrect ==          \* (does not depend on s: evaluated once per window size and instance)
  s = 0 =>
  LET ss == inst[1]  bs == [i \in 1..Len(inst[1]) |-> inst[2][((i - 1) % Len(inst[2])) + 1]] IN
  Pippenger(c, ss, bs, 0) = Naive(ss, bs, 1)
=============================================================================
