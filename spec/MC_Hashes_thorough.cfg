SPECIFICATION Spec
CONSTANTS
  MaxLen = 400
INVARIANT PadOK
INVARIANT RmdPadOK
INVARIANT EmitReplay
CHECK_DEADLOCK FALSE
