SPECIFICATION Spec
CONSTANTS
  MaxLen = 400
INVARIANT PadOK
INVARIANT EmitReplay
CHECK_DEADLOCK FALSE
