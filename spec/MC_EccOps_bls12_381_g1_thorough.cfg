SPECIFICATION Spec
CONSTANTS
  CurveName = "bls12_381_g1"
  MaxMsm = 8
INVARIANT GroupLawConsistent
INVARIANT EmitReplay
CHECK_DEADLOCK FALSE
