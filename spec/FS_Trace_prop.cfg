SPECIFICATION TraceSpec
CONSTANTS
  Mutation = "none"
  AdversaryOn = FALSE
  Layer = "prop"
POSTCONDITION TraceAccepted
CHECK_DEADLOCK FALSE
