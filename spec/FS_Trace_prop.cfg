SPECIFICATION TraceSpec
CONSTANTS
  Mutation = "none"
  Layer = "prop"
POSTCONDITION TraceAccepted
CHECK_DEADLOCK FALSE
