-------------------------------- MODULE Tower --------------------------------
(***************************************************************************)
(* Extension-field towers over BigNat prime fields, as the pairing curves   *)
(* use them (C10, C11, C13):                                                *)
(*     Fp2  = Fp [u] / (u^2 + 1)       elements <<c0, c1>>                  *)
(*     Fp6  = Fp2[v] / (v^3 - xi)      elements <<a0, a1, a2>> over Fp2     *)
(*     Fp12 = Fp6[w] / (w^2 - v)       elements <<b0, b1>> over Fp6         *)
(* A tower is a record [m, xi]: the prime and the cubic/quadratic           *)
(* non-residue xi in Fp2 (BLS12-381: 1 + u,  BN254: 9 + u).                 *)
(* Everything is schoolbook arithmetic from the defining relations; the     *)
(* Frobenius maps are given structurally (conjugation and multiplication by *)
(* powers of xi^((p^k-1)/6)) and checked once, when the module is loaded,   *)
(* against exponentiation by p.                                             *)
(* G2: the sextic twists y^2 = x^3 + b' over Fp2 with the affine group law. *)
(***************************************************************************)
EXTENDS Curve, SequencesExt

BlsT == [m |-> BlsP, xi |-> <<One, One>>]
BnT == [m |-> Bn254P, xi |-> <<OfInt(9), One>>]

\* ---- Fp2 ------------------------------------------------------------------
QZero == <<Zero, Zero>>
QOne == <<One, Zero>>
QAdd(a, b, m) == <<AddM(a[1], b[1], m), AddM(a[2], b[2], m)>>
QSub(a, b, m) == <<SubM(a[1], b[1], m), SubM(a[2], b[2], m)>>
QNeg(a, m) == <<NegM(a[1], m), NegM(a[2], m)>>
QMul(a, b, m) == <<SubM(MulM(a[1], b[1], m), MulM(a[2], b[2], m), m), AddM(MulM(a[1], b[2], m), MulM(a[2], b[1], m), m)>>
QSqr(a, m) == QMul(a, a, m)
QNorm(a, m) == AddM(MulM(a[1], a[1], m), MulM(a[2], a[2], m), m)
QConj(a, m) == <<a[1], NegM(a[2], m)>>
QScale(a, k, m) == <<MulM(a[1], k, m), MulM(a[2], k, m)>>
\* 1/a = conj(a) / norm(a)   (a # 0)
QInv(a, m) == QScale(QConj(a, m), InvM(QNorm(a, m), m), m)
QRed(a, m) == <<Rem(a[1], m), Rem(a[2], m)>>
QCanon(a, m) == Lt(a[1], m) /\ Lt(a[2], m)
\* square-and-multiply over the bits of e, most significant first (FoldLeft: an iteration, so that TLC's cost stays
\* linear in the length of the exponent)
BitsMSB(e) == LET n == NumBits(e) IN [i \in 1..n |-> Bit(e, n - i)]
QPowI(a, e, m) == FoldLeft(LAMBDA acc, b : IF b = 0 THEN QMul(acc, acc, m) ELSE QMul(QMul(acc, acc, m), a, m), QOne, BitsMSB(e))
\* a is a square in Fp2 iff its norm is a square in Fp
QIsSquare(a, m) == a = QZero \/ IsSquareM(QNorm(a, m), m)
QFrob(a, k, m) == IF k % 2 = 0 THEN a ELSE QConj(a, m)
\* "lexicographically largest": compare (c1, c0) with the negation
QLexLargest(a, m) == LET n == QNeg(a, m) IN Lt(n[2], a[2]) \/ (a[2] = n[2] /\ Lt(n[1], a[1]))

\* ---- Fp6 ------------------------------------------------------------------
SZero == <<QZero, QZero, QZero>>
SOne == <<QOne, QZero, QZero>>
SAdd(a, b, T) == <<QAdd(a[1], b[1], T.m), QAdd(a[2], b[2], T.m), QAdd(a[3], b[3], T.m)>>
SSub(a, b, T) == <<QSub(a[1], b[1], T.m), QSub(a[2], b[2], T.m), QSub(a[3], b[3], T.m)>>
SNeg(a, T) == <<QNeg(a[1], T.m), QNeg(a[2], T.m), QNeg(a[3], T.m)>>
SMul(a, b, T) ==
  LET m == T.m  X(q) == QMul(T.xi, q, m) IN
  << QAdd(QMul(a[1], b[1], m), X(QAdd(QMul(a[2], b[3], m), QMul(a[3], b[2], m), m)), m),
     QAdd(QAdd(QMul(a[1], b[2], m), QMul(a[2], b[1], m), m), X(QMul(a[3], b[3], m)), m),
     QAdd(QAdd(QMul(a[1], b[3], m), QMul(a[2], b[2], m), m), QMul(a[3], b[1], m), m) >>
\* multiplication by v: (a0 + a1 v + a2 v^2) v = xi a2 + a0 v + a1 v^2
SMulV(a, T) == <<QMul(T.xi, a[3], T.m), a[1], a[2]>>
SScale(a, q, T) == <<QMul(a[1], q, T.m), QMul(a[2], q, T.m), QMul(a[3], q, T.m)>>
SRed(a, T) == <<QRed(a[1], T.m), QRed(a[2], T.m), QRed(a[3], T.m)>>

\* p^k and the Frobenius coefficients xi^((p^k - 1) / d), d in {2, 3, 6}
\* (PowNat(p, k) = p^k is ForeignOps's)
\* with e_k = (p^k - 1) / d:  e_k = e_1 + p e_(k-1), hence xi^(e_k) = xi^(e_1) (xi^(e_(k-1)))^p
GammaDirect(T, k, d) == QPowI(T.xi, Quo(Sub(PowNat(T.m, k), One), OfInt(d)), T.m)
RECURSIVE GammaFrom(_, _, _)
GammaFrom(g1, k, m) == IF k = 0 THEN QOne ELSE QMul(g1, QFrob(GammaFrom(g1, k - 1, m), 1, m), m)
Gamma(T, k, d) == GammaFrom(GammaDirect(T, 1, d), k, T.m)
\* (a1 v)^(p^k) = a1^(p^k) v (v^3)^((p^k-1)/3)
SFrob(a, k, T) ==
  LET g == Gamma(T, k, 3) IN
  <<QFrob(a[1], k, T.m), QMul(QFrob(a[2], k, T.m), g, T.m), QMul(QFrob(a[3], k, T.m), QMul(g, g, T.m), T.m)>>

\* ---- Fp12 -----------------------------------------------------------------
DZero == <<SZero, SZero>>
DOne == <<SOne, SZero>>
DAdd(a, b, T) == <<SAdd(a[1], b[1], T), SAdd(a[2], b[2], T)>>
DSub(a, b, T) == <<SSub(a[1], b[1], T), SSub(a[2], b[2], T)>>
DNeg(a, T) == <<SNeg(a[1], T), SNeg(a[2], T)>>
DMul(a, b, T) == <<SAdd(SMul(a[1], b[1], T), SMulV(SMul(a[2], b[2], T), T), T),
                   SAdd(SMul(a[1], b[2], T), SMul(a[2], b[1], T), T)>>
DConj(a, T) == <<a[1], SNeg(a[2], T)>>
DRed(a, T) == <<SRed(a[1], T), SRed(a[2], T)>>
\* w^(p^k) = w (w^6)^((p^k-1)/6)
DFrob(a, k, T) == <<SFrob(a[1], k, T), SScale(SFrob(a[2], k, T), Gamma(T, k, 6), T)>>
DPowI(a, e, T) == FoldLeft(LAMBDA acc, b : IF b = 0 THEN DMul(acc, acc, T) ELSE DMul(DMul(acc, acc, T), a, T), DOne, BitsMSB(e))
\* the cyclotomic subgroup: x^(p^4 - p^2 + 1) = 1 for unitary x (x conj(x) = 1)
InCyclo(a, T) == DMul(a, DConj(a, T), T) = DOne /\ DMul(DFrob(a, 4, T), a, T) = DFrob(a, 2, T)
\* sparse elements used by the Miller loop
Sparse014(c0, c1, c4) == <<<<c0, c1, QZero>>, <<QZero, c4, QZero>>>>
Sparse034(c0, c3, c4) == <<<<c0, QZero, QZero>>, <<c3, c4, QZero>>>>

\* ---- G2: y^2 = x^3 + b over Fp2 ------------------------------------------------
Pt2(x, y) == [id |-> FALSE, x |-> x, y |-> y]
Inf2 == [id |-> TRUE, x |-> QZero, y |-> QZero]
\* BLS12-381: b' = 4 (1 + u);  BN254: b' = 3 / (9 + u)
BlsG2 == [T |-> BlsT, r |-> BlsR, b |-> <<OfInt(4), OfInt(4)>>]
BnG2 == [T |-> BnT, r |-> Bn254R, b |-> QMul(<<OfInt(3), Zero>>, QInv(<<OfInt(9), One>>, Bn254P), Bn254P)]
G2Of(name) == IF name = "bls12_381_g2" THEN BlsG2 ELSE BnG2
OnCurve2(c, P) ==
  LET m == c.T.m IN
  P.id \/ (/\ QCanon(P.x, m) /\ QCanon(P.y, m)
           /\ QSqr(P.y, m) = QAdd(QMul(QSqr(P.x, m), P.x, m), c.b, m))
Neg2(c, P) == IF P.id THEN Inf2 ELSE Pt2(P.x, QNeg(P.y, c.T.m))
Add2(c, P, Q) ==
  LET m == c.T.m IN
  IF P.id THEN Q ELSE IF Q.id THEN P
  ELSE IF P.x = Q.x /\ QAdd(P.y, Q.y, m) = QZero THEN Inf2
  ELSE LET lam == IF P.x = Q.x
                  THEN QMul(QScale(QSqr(P.x, m), OfInt(3), m), QInv(QAdd(P.y, P.y, m), m), m)
                  ELSE QMul(QSub(Q.y, P.y, m), QInv(QSub(Q.x, P.x, m), m), m)
           x3 == QSub(QSub(QSqr(lam, m), P.x, m), Q.x, m)
       IN Pt2(x3, QSub(QMul(lam, QSub(P.x, x3, m), m), P.y, m))
Sub2(c, P, Q) == Add2(c, P, Neg2(c, Q))
Dbl2(c, P) == Add2(c, P, P)
RECURSIVE Mul2From(_, _, _, _, _)
Mul2From(c, k, i, P, acc) ==
  IF i < 0 THEN acc
  ELSE LET d == Dbl2(c, acc) IN Mul2From(c, k, i - 1, P, IF Bit(k, i) = 1 THEN Add2(c, d, P) ELSE d)
Mul2(c, k, P) == Mul2From(c, k, NumBits(k) - 1, P, Inf2)
InSubgroup2(c, P) == OnCurve2(c, P) /\ Mul2(c, c.r, P) = Inf2

\* ---- sanity (evaluated once when the module is loaded) -----------------------
TowerSample(T) == << <<<<OfInt(2), OfInt(3)>>, <<OfInt(5), OfInt(7)>>, <<OfInt(11), OfInt(13)>>>>,
                     <<<<OfInt(17), OfInt(19)>>, <<OfInt(23), OfInt(29)>>, <<OfInt(31), OfInt(37)>>>> >>
\* xi is neither a square nor a cube in Fp2 (so the tower is a field), and the structural Frobenius is x |-> x^p
ASSUME \A T \in {BlsT, BnT} :
         /\ ~QIsSquare(T.xi, T.m)
         /\ QPowI(T.xi, Quo(Sub(Mul(T.m, T.m), One), OfInt(3)), T.m) # QOne
         /\ DFrob(TowerSample(T), 1, T) = DPowI(TowerSample(T), T.m, T)
         /\ \A d \in {3, 6} : Gamma(T, 2, d) = GammaDirect(T, 2, d) /\ Gamma(T, 3, d) = GammaDirect(T, 3, d)
=============================================================================
