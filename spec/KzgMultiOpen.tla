--------------------------- MODULE KzgMultiOpen ---------------------------
(***************************************************************************)
(* KZG multi-opening (proofs/src/poly/kzg/mod.rs: multi_open,              *)
(* multi_prepare; utils.rs: construct_intermediate_sets) for C14.          *)
(*                                                                         *)
(* A scenario is a prover query list, an order, and at most one corruption *)
(* on the verifier side.  Polynomials are references 1..n; the true value  *)
(* of reference r at point p is the symbol <<r, p>> (injective            *)
(* idealisation: distinct (polynomial, point) pairs have distinct values,  *)
(* except that references of one `class` are the same polynomial).         *)
(*                                                                         *)
(* The verifier's equation, in the idealisation, holds iff                 *)
(*   (a) the proof is the one made for this grouping (same sets, same      *)
(*       commitments per set, same points per set), and                    *)
(*   (b) for every commitment c and every slot j of its point set, the     *)
(*       evaluation stored in slot j is the true value of c at the j-th    *)
(*       point of the set.                                                 *)
(* (b) is where the order in which evaluations are stored matters.         *)
(***************************************************************************)
EXTENDS Naturals, Sequences, FiniteSets, SequencesExt, KzgSets, TLC, Json

CONSTANTS MaxPoly,     \* polynomials 1..n for n in 1..MaxPoly
          Pts,         \* set of point ids
          Mutation,    \* "none" | "evals_in_query_order" | "no_duplicate_guard"
          Emit

VARIABLES pql,      \* prover's query list
          vql,      \* verifier's query list (after corruption)
          corrupt,  \* the corruption applied (tuple)
          ptamper,  \* is a proof element altered
          result    \* "pending" | "ok" | "reject" | "DuplicatedQuery"
vars == <<pql, vql, corrupt, ptamper, result>>

True(r, p) == <<r, p>>
HonestQ(r, p) == [com |-> r, pt |-> p, ev |-> True(r, p)]

NonEmptySubsets == (SUBSET Pts) \ {{}}

PolyMajor(n, f) ==
  FlattenSeq([r \in 1..n |-> LET ps == SortedSeq(f[r]) IN [i \in 1..Len(ps) |-> HonestQ(r, ps[i])]])
PointMajor(n, f) ==
  LET ps == SortedSeq(Pts) IN
  FlattenSeq([i \in 1..Len(ps) |->
     LET rs == SortedSeq({r \in 1..n : ps[i] \in f[r]}) IN
     [k \in 1..Len(rs) |-> HonestQ(rs[k], ps[i])]])
OrderOf(o, n, f) ==
  CASE o = "poly"     -> PolyMajor(n, f)
    [] o = "point"    -> PointMajor(n, f)
    [] o = "rev"      -> Reverse(PolyMajor(n, f))
    [] o = "revpoint" -> Reverse(PointMajor(n, f))
Orders == {"poly", "point", "rev", "revpoint"}

FreshPt  == 99
FreshCom == 98

Corruptions(q) ==
  {<<"none">>, <<"dup">>, <<"pdup">>, <<"proof", "f">>, <<"proof", "qeval">>, <<"proof", "pi">>}
  \cup {<<c, i>> : c \in {"eval", "point", "com", "point_used", "com_used"}, i \in 1..Len(q)}

\* another point / commitment already used elsewhere in the list, if any
OtherPt(q, i)  == LET S == {q[j].pt : j \in 1..Len(q)} \ {q[i].pt} IN
                  IF S = {} THEN FreshPt ELSE CHOOSE p \in S : \A x \in S : p <= x
OtherCom(q, i) == LET S == {q[j].com : j \in 1..Len(q)} \ {q[i].com} IN
                  IF S = {} THEN FreshCom ELSE CHOOSE p \in S : \A x \in S : p <= x

Apply(q, c) ==
  CASE c[1] = "none"  -> q
    [] c[1] = "proof" -> q
    [] c[1] = "dup"   -> Append(q, q[1])
    [] c[1] = "pdup"  -> Append(q, q[1])      \* the prover's own list repeats a pair
    [] c[1] = "eval"  -> [q EXCEPT ![c[2]].ev = <<"wrong">>]
    [] c[1] = "point" -> [q EXCEPT ![c[2]].pt = FreshPt]
    [] c[1] = "com"   -> [q EXCEPT ![c[2]].com = FreshCom]
    [] c[1] = "point_used" -> [q EXCEPT ![c[2]].pt = OtherPt(q, c[2])]
    [] c[1] = "com_used"   -> [q EXCEPT ![c[2]].com = OtherCom(q, c[2])]

---------------------------------------------------------------------------
\* evaluations of commitment c as the implementation stores them
StoredEvals(q, c) ==
  IF Mutation = "evals_in_query_order"
  THEN LET idx == SelectSeq([i \in 1..Len(q) |-> i], LAMBDA i : q[i].com = c)
       IN [k \in 1..Len(idx) |-> q[idx[k]].ev]
  ELSE EvalsOf(q, c)

\* the grouping a query list induces: per set, its points and its commitments
Grouping(q) ==
  [k \in 1..NumPointSetsByOrder(q) |-> [pts |-> PointsOfSet(q, k), coms |-> ComsOfSet(q, k)]]

ClaimsTrue(q) ==
  \A c \in {q[i].com : i \in 1..Len(q)} :
     LET pts == PointsOfSet(q, SetIndexOf(q, c))
         evs == StoredEvals(q, c)
     IN \A j \in 1..Len(pts) : evs[j] = True(c, pts[j])

Verdict(pq, vq, tampered) ==
  IF Mutation # "no_duplicate_guard" /\ Duplicated(vq) THEN "DuplicatedQuery"
  ELSE IF ~tampered /\ Grouping(vq) = Grouping(pq) /\ ClaimsTrue(vq) THEN "ok"
  ELSE "reject"

---------------------------------------------------------------------------
Init ==
  \E n \in 1..MaxPoly : \E f \in [1..n -> NonEmptySubsets] : \E o \in Orders :
     /\ pql = OrderOf(o, n, f)
     /\ vql = <<>> /\ corrupt = <<"init">> /\ ptamper = FALSE /\ result = "pending"

Corrupt ==
  /\ result = "pending" /\ corrupt = <<"init">>
  /\ \E c \in Corruptions(pql) :
       /\ corrupt' = c
       /\ vql' = Apply(pql, c)
       /\ ptamper' = (c[1] = "proof")
  /\ UNCHANGED <<pql, result>>

Verify ==
  /\ result = "pending" /\ corrupt # <<"init">>
  /\ result' = Verdict(pql, vql, ptamper)
  /\ UNCHANGED <<pql, vql, corrupt, ptamper>>

Next == Corrupt \/ Verify
Spec == Init /\ [][Next]_vars

---------------------------------------------------------------------------
Done == result # "pending"

\* C14: correct openings verify; any single wrong claim is rejected; a repeated
\* (commitment, point) pair is refused.
Complete == (Done /\ corrupt = <<"none">>) => result = "ok"
Sound ==
  (Done /\ corrupt # <<"none">>) =>
     \/ result \in {"reject", "DuplicatedQuery"}
     \* a corruption that does not change the list (cannot happen with the menu above)
     \/ (vql = pql /\ ~ptamper)
DupRefused == (Done /\ corrupt \in {<<"dup">>, <<"pdup">>}) => result = "DuplicatedQuery"

\* structural facts about the intermediate sets of the prover's list
SetsPartition ==
  LET cs == Coms(pql) IN
  /\ \A i \in 1..Len(cs) : SetIndexOf(pql, cs[i]) \in 1..NumPointSetsByOrder(pql)
  /\ NumPointSets(pql) = NumPointSetsByOrder(pql)
  /\ \A k \in 1..NumPointSetsByOrder(pql) : ComsOfSet(pql, k) # <<>>

Inv == Complete /\ Sound /\ DupRefused /\ (corrupt = <<"init">> => SetsPartition)

EmitReplay ==
  (Emit /\ Done) =>
     PrintT("REPLAY " \o ToJson([pql |-> [i \in 1..Len(pql) |-> <<pql[i].com, pql[i].pt>>],
                                  corrupt |-> corrupt,
                                  nsets |-> NumPointSetsByOrder(pql),
                                  expect |-> result]))
=============================================================================
