SPECIFICATION RealSpec
CONSTANTS
  Mutation = "none"
  Emit = FALSE
INVARIANT Inv
CHECK_DEADLOCK FALSE
