SPECIFICATION RealSpec
CONSTANTS
  Mutation = "none"
  AdversaryOn = FALSE
  Emit = FALSE
INVARIANT Inv
CHECK_DEADLOCK FALSE
