----------------------------- MODULE MC_MerkleMap -----------------------------
(* The map machine on a tree of height 3 with a free two-to-one constructor  *)
(* (no collisions by construction): every reachable content of up to MaxOps  *)
(* operations.  Invariants: a membership proof of the stored (or default)    *)
(* value always climbs to the root; inserting at a key leaves that key's     *)
(* path unchanged (the gadget verifies the old and the new value against the *)
(* same path); the root determines the content; writing the default value    *)
(* is removal; the order of insertions of different keys does not matter.    *)
(* Terminal states print the session for replay into the real gadget.        *)
EXTENDS Naturals, Sequences, FiniteSets, TLC, Json
CONSTANTS MaxOps, Emit, HashKind

Hgt == 3
\* "free": an injective constructor; "left": a colliding hash (it ignores the right child), under which the invariants must fail (vacuity control)
Free(a, b) == IF HashKind = "left" THEN a ELSE <<a, b>>
RECURSIVE P2(_)
P2(n) == IF n = 0 THEN 1 ELSE 2 * P2(n - 1)
BitOf(i, j) == (i \div P2(j)) % 2
LowBit(i) == i % 2
Parent(i) == i \div 2
INSTANCE MerkleMap WITH Height <- Hgt, H2 <- Free, Bt <- BitOf, Lsb <- LowBit, Shr1 <- Parent

Idx == {0, 1, 5, 6}          \* leaves: two siblings, and two in the other half
Vals == {0, 1, 2}            \* 0 is the default
Dflt == 0
VARIABLES es, hist, got
vars == <<es, hist, got>>

Init == es = {} /\ hist = <<>> /\ got = <<>>
Insert(i, v) == /\ Len(hist) < MaxOps
                /\ es' = Put(es, i, v) /\ hist' = Append(hist, [op |-> "insert", k |-> i, v |-> v]) /\ got' = Append(got, Root(es', Dflt))
Get(i) == /\ Len(hist) < MaxOps
          /\ es' = es /\ hist' = Append(hist, [op |-> "get", k |-> i, v |-> 0]) /\ got' = Append(got, Lookup(es, Dflt, i))
Next == \E i \in Idx : Get(i) \/ \E v \in Vals : Insert(i, v)
Spec == Init /\ [][Next]_vars

\* the content as a function on all leaves (a written default is the same as an untouched leaf)
Content(s) == [i \in 0..(P2(Hgt) - 1) |-> Lookup(s, Dflt, i)]
ProofClimbs == \A i \in Idx : Climb(Lookup(es, Dflt, i), i, Path(es, Dflt, i)) = Root(es, Dflt)
PathStable == \A i \in Idx, v \in Vals : Path(Put(es, i, v), Dflt, i) = Path(es, Dflt, i)
RootBindsValue == \A i \in Idx, v \in Vals : (v # Lookup(es, Dflt, i)) => Root(Put(es, i, v), Dflt) # Root(es, Dflt)
DefaultIsRemoval == \A i \in Idx : Root(Put(es, i, Dflt), Dflt) = Root({e \in es : e.idx # i}, Dflt)
Commutes == \A i, j \in Idx, v, w \in Vals : i # j => Root(Put(Put(es, i, v), j, w), Dflt) = Root(Put(Put(es, j, w), i, v), Dflt)
\* a wrong value never climbs to the root along any path the prover could offer made of nodes of the tree
WrongValueFails == \A i \in Idx, v \in Vals : (v # Lookup(es, Dflt, i)) => Climb(v, i, Path(es, Dflt, i)) # Root(es, Dflt)
\* the level-by-level computation of the root (used on the real tree) is the recursive definition
IterIsRoot == RootIter(es, Dflt) = Root(es, Dflt)
Inv == IterIsRoot /\ ProofClimbs /\ PathStable /\ RootBindsValue /\ DefaultIsRemoval /\ Commutes /\ WrongValueFails

EmitReplay == (Emit /\ Len(hist) = MaxOps) => PrintT("REPLAY " \o ToJson([ops |-> hist]))
=============================================================================
