SPECIFICATION Spec
CONSTANTS
  MaxLen = 200
INVARIANT PadOK
INVARIANT EmitReplay
CHECK_DEADLOCK FALSE
