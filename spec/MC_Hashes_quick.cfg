SPECIFICATION Spec
CONSTANTS
  MaxLen = 200
INVARIANT PadOK
INVARIANT RmdPadOK
INVARIANT EmitReplay
CHECK_DEADLOCK FALSE
