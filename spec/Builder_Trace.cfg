SPECIFICATION TraceSpec
INVARIANT NonInterference
POSTCONDITION TraceAccepted
CHECK_DEADLOCK FALSE
