SPECIFICATION Spec
CONSTANTS
  CurveName = "jubjub"
  MaxMsm = 8
INVARIANT GroupLawConsistent
INVARIANT EmitReplay
CHECK_DEADLOCK FALSE
