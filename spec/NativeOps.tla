------------------------------ MODULE NativeOps ------------------------------
(***************************************************************************)
(* Mathematical meaning of the native-field gadget operations (C04) over   *)
(* the prime field Z/P with P small enough for TLC's integers (the real,   *)
(* generic gadget code is run over the same toy field by the harness).     *)
(*   Dom(op, params, ins)  - the documented domain of the operation        *)
(*   Def(op, params, ins)  - the sequence of outputs                       *)
(* Values are canonical representatives 0..P-1; bits are 0/1.              *)
(***************************************************************************)
EXTENDS Integers, Sequences, FiniteSets, TLC, Json

CONSTANT P

RECURSIVE BitLen(_)
BitLen(x) == IF x = 0 THEN 0 ELSE 1 + BitLen(x \div 2)
NumBits == BitLen(P)
RECURSIVE SumSeq(_)
SumSeq(q) == IF q = <<>> THEN 0 ELSE q[1] + SumSeq(Tail(q))
M(x) == ((x % P) + P) % P
RECURSIVE Pow2(_)
Pow2(n) == IF n = 0 THEN 1 ELSE 2 * Pow2(n - 1)
RECURSIVE PowMod(_, _)
PowMod(b, e) == IF e = 0 THEN 1
                ELSE LET h == PowMod(b, e \div 2) IN
                     IF e % 2 = 0 THEN M(h * h) ELSE M(M(h * h) * b)
Inv(x) == PowMod(x, P - 2)
Bit(x, i) == (x \div Pow2(i)) % 2               \* i-th bit (0-based)
Bits(x, n) == [i \in 1..n |-> Bit(x, i - 1)]
RECURSIVE FromBits(_)
FromBits(b) == IF b = <<>> THEN 0 ELSE b[1] + 2 * FromBits(Tail(b))
BitOp(op, x, y, n) ==
  FromBits([i \in 1..n |->
     LET a == Bit(x, i - 1)  b == Bit(y, i - 1) IN
     CASE op = "band" -> a * b
       [] op = "bor"  -> a + b - a * b
       [] op = "bxor" -> (a + b) % 2])
Bool(b) == IF b THEN 1 ELSE 0
RECURSIVE Bytes(_, _)
Bytes(x, n) == IF n = 0 THEN <<>> ELSE <<x % 256>> \o Bytes(x \div 256, n - 1)
Fits(x, nbits) == nbits >= NumBits + 1 \/ x < Pow2(nbits)
FitsBytes(x, n) == 8 * n >= NumBits + 1 \/ x < Pow2(8 * n)

IsBit(b) == b \in {0, 1}

\* ---- variable-length vectors (vec/vector_gadget.rs) ------------------------
\* An AssignedVector with bound M and alignment A stores a payload of length l
\* in a buffer of M cells: [front padding | payload | back padding], the back
\* padding has size (A - l mod A) mod A, so that the payload starts on a
\* multiple of A.  Vector operations carry their private inputs in the
\* parameters: <<shape, n, l, d_1..d_l, l2, e_1..e_l2>> (shape 0: M = 8, A = 2,
\* resize to 12; shape 1: M = 12, A = 4, resize to 16).
VecM(sh) == IF sh = 0 THEN 8 ELSE 12
VecA(sh) == IF sh = 0 THEN 2 ELSE 4
VecL(sh) == IF sh = 0 THEN 12 ELSE 16
BackPad(a, l) == (a - (l % a)) % a
VecLims(m, a, l) == <<m - l - BackPad(a, l), m - BackPad(a, l)>>                  \* first position of data, one past the last
VecFlags(m, a, l) == [i \in 1..m |-> IF (i - 1) >= VecLims(m, a, l)[1] /\ (i - 1) < VecLims(m, a, l)[2] THEN 0 ELSE 1]   \* 1 = padding
VecInfo(m, a, l) == VecLims(m, a, l) \o VecFlags(m, a, l)
VecData(pr) == SubSeq(pr, 4, 3 + pr[3])
VecSecond(pr) == LET o == 4 + pr[3] IN SubSeq(pr, o + 1, o + pr[o])

Dom(op, pr, x) ==
  CASE op = "div" -> x[2] # 0
    [] op = "inv" -> x[1] # 0
    [] op \in {"and", "or", "xor", "not", "from_le_bits"} -> \A i \in 1..Len(x) : IsBit(x[i])
    [] op \in {"select", "cond_swap"} -> IsBit(x[1])
    [] op = "to_le_bits" -> Fits(x[1], IF pr[1] = 0 THEN NumBits ELSE pr[1])
    [] op = "to_le_bytes" -> FitsBytes(x[1], pr[1])
    [] op = "bounded" -> Fits(x[1], pr[1])
    \* (comparisons may be given two bounds, one per operand)
    [] op \in {"lower_than", "geq"} -> Fits(x[1], pr[1]) /\ Fits(x[2], pr[Len(pr)])
    [] op \in {"band", "bor", "bxor"} -> Fits(x[1], pr[1]) /\ Fits(x[2], pr[1])
    [] op \in {"lower_than_fixed", "bnot"} -> Fits(x[1], pr[1])
    [] op = "assert_lower_than_fixed" -> x[1] < pr[1]
    [] op = "range2" -> x[1] < pr[1] /\ x[1] < pr[2]
    [] op = "div_rem" -> pr[1] >= 1
    [] op \in {"vec_trim", "vec_trim_only"} -> pr[2] <= pr[3]      \* cannot trim more than the payload
    [] OTHER -> TRUE

Def(op, pr, x) ==
  CASE op = "add" -> <<M(x[1] + x[2])>>
    [] op = "sub" -> <<M(x[1] - x[2])>>
    [] op = "mul" -> <<M(x[1] * x[2])>>
    [] op = "div" -> <<M(x[1] * Inv(x[2]))>>
    [] op = "neg" -> <<M(0 - x[1])>>
    [] op = "inv" -> <<Inv(x[1])>>
    [] op = "inv0" -> <<IF x[1] = 0 THEN 0 ELSE Inv(x[1])>>
    [] op = "square" -> <<M(x[1] * x[1])>>
    [] op = "add_constant" -> <<M(x[1] + pr[1])>>
    [] op = "mul_by_constant" -> <<M(x[1] * M(pr[1]))>>
    \* arithmetic whose operands come from a chosen source: pr = <<opcode, has_m, m, mode, c>>; mode 0: both operands are
    \* witnesses; mode 1 / 2: the second / first operand is the fixed-constant cell of value c
    [] op = "arith_src" ->
         LET a == IF pr[4] = 2 THEN M(pr[5]) ELSE x[1]
             b == IF pr[4] = 0 THEN x[2] ELSE IF pr[4] = 1 THEN M(pr[5]) ELSE x[1]
         IN CASE pr[1] = 0 -> <<M(a + b)>>
              [] pr[1] = 1 -> <<M(a - b)>>
              [] OTHER -> <<M(M(IF pr[2] = 1 THEN M(pr[3]) ELSE 1) * M(a * b))>>
    [] op = "lincomb" -> <<M(M(M(pr[1]) * x[1]) + M(M(pr[2]) * x[2]) + M(M(pr[3]) * x[3]) + M(pr[4]))>>
    [] op = "add_and_mul" ->
         <<M(M(M(pr[1]) * x[1]) + M(M(pr[2]) * x[2]) + M(M(pr[3]) * x[3]) + M(pr[4])
             + M(M(pr[5]) * M(x[1] * x[2])))>>
    [] op = "is_zero" -> <<Bool(x[1] = 0)>>
    [] op = "is_equal" -> <<Bool(x[1] = x[2])>>
    [] op = "is_not_equal" -> <<Bool(x[1] # x[2])>>
    [] op = "is_equal_to_fixed" -> <<Bool(x[1] = M(pr[1]))>>
    [] op = "and" -> <<Bool(\A i \in 1..Len(x) : x[i] = 1)>>
    [] op = "or" -> <<Bool(\E i \in 1..Len(x) : x[i] = 1)>>
    [] op = "xor" -> <<SumSeq(x) % 2>>
    [] op = "not" -> <<1 - x[1]>>
    [] op = "select" -> <<IF x[1] = 1 THEN x[2] ELSE x[3]>>
    [] op = "cond_swap" -> IF x[1] = 1 THEN <<x[3], x[2]>> ELSE <<x[2], x[3]>>
    [] op = "to_le_bits" -> Bits(x[1], IF pr[1] = 0 THEN NumBits ELSE pr[1])
    [] op = "to_le_bytes" -> Bytes(x[1], pr[1])
    [] op = "from_le_bits" -> <<M(FromBits(x))>>
    [] op = "bounded" -> <<x[1]>>
    [] op = "lower_than" -> <<Bool(x[1] < x[2])>>
    [] op = "geq" -> <<Bool(x[1] >= x[2])>>
    [] op = "lower_than_fixed" -> <<Bool(x[1] < pr[2])>>
    [] op = "sgn0" -> <<x[1] % 2>>
    [] op = "assert_lower_than_fixed" -> <<>>
    [] op = "range2" -> <<>>
    [] op = "div_rem" -> <<x[1] \div pr[1], x[1] % pr[1]>>
    [] op \in {"band", "bor", "bxor"} -> <<BitOp(op, x[1], x[2], pr[1])>>
    [] op = "bnot" -> <<Pow2(pr[1]) - 1 - x[1]>>
    [] op = "vec_info" -> VecInfo(VecM(pr[1]), VecA(pr[1]), pr[3])
    [] op = "vec_trim" -> VecInfo(VecM(pr[1]), VecA(pr[1]), pr[3] - pr[2])
                          \o <<Bool(SubSeq(VecData(pr), pr[2] + 1, pr[3]) = VecSecond(pr))>>
    [] op = "vec_trim_only" -> <<>>
    [] op = "vec_eq" -> <<Bool(VecData(pr) = VecSecond(pr))>>
    [] op = "vec_resize" -> VecInfo(VecL(pr[1]), VecA(pr[1]), pr[3]) \o <<Bool(VecData(pr) = VecSecond(pr))>>

---------------------------------------------------------------------------
(* Scenario generation: every operation x parameter menu x boundary inputs *)
CONSTANT Emit

Half == (P - 1) \div 2
NatIn == {0, 1, 2, 3, 5, 63, 64, 65, 127, 128, 255, 256, 257, 4095, 4096, 8191, 8192, Half, Half + 1, P - 2, P - 1, 37, 1000, 12000}
Small == {0, 1, 2, 63, 64, 200, P - 1}
Pairs == (Small \X Small) \cup {<<a, a>> : a \in NatIn} \cup {<<a, a + 1>> : a \in NatIn \ {P - 1}} \cup {<<a + 1, a>> : a \in NatIn \ {P - 1}}

VecPayload(l) == [i \in 1..l |-> 10 + i]
VecScenarios ==
  UNION { { [op |-> "vec_info", params |-> <<sh, 0, l>> \o VecPayload(l), ins |-> <<>>] : l \in 0..VecM(sh) } : sh \in {0, 1} }
  \* trimming: every payload length x every n (also beyond the payload: outside the domain)
  \cup UNION { { [op |-> "vec_trim", params |-> <<sh, n, l>> \o VecPayload(l) \o <<IF n <= l THEN l - n ELSE 0>>
                                               \o (IF n <= l THEN SubSeq(VecPayload(l), n + 1, l) ELSE <<>>), ins |-> <<>>] :
                    l \in 0..VecM(sh), n \in 0..VecM(sh) } : sh \in {0, 1} }
  \cup UNION { { [op |-> "vec_trim_only", params |-> <<sh, n, l>> \o VecPayload(l), ins |-> <<>>] :
                    l \in 0..VecM(sh), n \in 0..VecM(sh) } : sh \in {0, 1} }
  \cup UNION { UNION { { [op |-> "vec_eq", params |-> <<sh, 0, l>> \o VecPayload(l) \o <<l2>> \o w, ins |-> <<>>] :
                            l \in {0, 1, 3, VecM(sh)}, w \in {VecPayload(l2), [i \in 1..l2 |-> IF i = l2 THEN 99 ELSE 10 + i]} } :
                        l2 \in {0, 1, 3, VecM(sh)} } : sh \in {0, 1} }
  \cup UNION { { [op |-> "vec_resize", params |-> <<sh, 0, l>> \o VecPayload(l) \o <<l>> \o VecPayload(l), ins |-> <<>>] :
                    l \in 0..VecM(sh) } : sh \in {0, 1} }

Scenarios ==
  { [op |-> o, params |-> <<>>, ins |-> <<a>>] : o \in {"neg", "inv", "inv0", "square", "is_zero", "sgn0"}, a \in NatIn }
  \cup { [op |-> o, params |-> <<>>, ins |-> <<p[1], p[2]>>] : o \in {"add", "sub", "mul", "div", "is_equal", "is_not_equal"}, p \in Pairs }
  \cup { [op |-> o, params |-> <<c>>, ins |-> <<a>>] : o \in {"add_constant", "mul_by_constant", "is_equal_to_fixed"}, c \in {0, 1, 37, P - 1}, a \in NatIn }
  \cup { [op |-> "arith_src", params |-> <<oc, hm[1], hm[2], 0, 0>>, ins |-> <<a, b>>] :
           oc \in {2}, hm \in {<<1, 0>>, <<1, 1>>, <<1, 3>>, <<1, P - 1>>}, a \in {0, 1, 7, P - 1}, b \in {0, 1, 7} }
  \cup { [op |-> "arith_src", params |-> <<oc, hm[1], hm[2], mode, c>>, ins |-> <<a>>] :
           oc \in {0, 1, 2}, hm \in {<<0, 0>>, <<1, 0>>, <<1, 1>>, <<1, 3>>, <<1, P - 1>>}, mode \in {1, 2}, c \in {0, 1, 5, P - 1}, a \in {0, 1, 7, P - 1} }
  \cup { [op |-> "lincomb", params |-> <<c[1], c[2], 1, c[3]>>, ins |-> <<a, b, 7>>] : c \in {<<1, 1, 0>>, <<2, P - 1, 5>>, <<0, 0, 0>>}, a \in Small, b \in Small }
  \cup { [op |-> "add_and_mul", params |-> <<1, 2, 3, 4, c>>, ins |-> <<a, b, 9>>] : c \in {0, 1, P - 1}, a \in Small, b \in Small }
  \cup { [op |-> o, params |-> <<2>>, ins |-> <<a, b>>] : o \in {"and", "or", "xor"}, a \in {0, 1}, b \in {0, 1} }
  \cup { [op |-> o, params |-> <<3>>, ins |-> <<a, b, c>>] : o \in {"and", "or", "xor"}, a \in {0, 1}, b \in {0, 1}, c \in {0, 1} }
  \cup { [op |-> "not", params |-> <<>>, ins |-> <<a>>] : a \in {0, 1} }
  \cup { [op |-> o, params |-> <<>>, ins |-> <<s, a, b>>] : o \in {"select", "cond_swap"}, s \in {0, 1}, a \in {0, 5, P - 1}, b \in {0, 6} }
  \cup { [op |-> "to_le_bits", params |-> <<n, 1>>, ins |-> <<a>>] : n \in {0, 1, 6, 8, 13}, a \in NatIn }
  \cup { [op |-> "to_le_bytes", params |-> <<n>>, ins |-> <<a>>] : n \in {1, 2}, a \in NatIn }
  \cup { [op |-> "from_le_bits", params |-> <<6>>, ins |-> Bits(a, 6)] : a \in {0, 1, 37, 63} }
  \cup { [op |-> "from_le_bits", params |-> <<14>>, ins |-> Bits(a, 14)] : a \in {0, P - 1, P, P + 5, 16383} }
  \cup { [op |-> "bounded", params |-> <<n>>, ins |-> <<a>>] : n \in {1, 6, 8, 12}, a \in NatIn }
  \cup { [op |-> o, params |-> <<n>>, ins |-> <<p[1], p[2]>>] : o \in {"lower_than", "geq", "band", "bor", "bxor"}, n \in {6, 8}, p \in Pairs }
  \* operands with different declared bounds, close and far apart, either order
  \cup { [op |-> o, params |-> <<b[1], b[2]>>, ins |-> <<a, c>>] : o \in {"lower_than", "geq"}, b \in {<<3, 12>>, <<12, 3>>, <<8, 12>>, <<1, 12>>},
           a \in {0, 1, 3, 7, 200, 4000}, c \in {0, 1, 5, 7, 255, 4095} }
  \cup { [op |-> "lower_than_fixed", params |-> <<8, c>>, ins |-> <<a>>] : c \in {0, 1, 100, 255}, a \in NatIn }
  \cup { [op |-> "bnot", params |-> <<n>>, ins |-> <<a>>] : n \in {1, 6, 8}, a \in NatIn }
  \cup { [op |-> "assert_lower_than_fixed", params |-> <<b>>, ins |-> <<a>>] : b \in {1, 2, 100, 128, 200, 256, 1000}, a \in NatIn \cup {99, 100, 199, 200} }
  \cup { [op |-> "range2", params |-> <<b1, b2>>, ins |-> <<a>>] :
           b1 \in {200, 256, 100}, b2 \in {130, 128, 100, 255}, a \in {0, 99, 100, 127, 128, 129, 130, 150, 199, 200, 255} }
  \cup { [op |-> "div_rem", params |-> <<d>>, ins |-> <<a>>] : d \in {1, 2, 5, 256, 1000}, a \in NatIn }
  \cup VecScenarios

VARIABLE sc
Init == sc \in Scenarios
Next == UNCHANGED sc
Spec == Init /\ [][Next]_sc

\* sanity of the definitions themselves
DefsWellFormed ==
  Dom(sc.op, sc.params, sc.ins) =>
     \A i \in 1..Len(Def(sc.op, sc.params, sc.ins)) : Def(sc.op, sc.params, sc.ins)[i] \in 0..(P - 1)
EmitReplay ==
  Emit => PrintT("REPLAY " \o ToJson([op |-> sc.op, params |-> sc.params, ins |-> sc.ins,
                                       dom |-> Dom(sc.op, sc.params, sc.ins)]))
=============================================================================
