SPECIFICATION Spec
CONSTANTS
  MaxPoly = 4
  Pts = {1, 2, 3}
  Mutation = "none"
  Emit = TRUE
INVARIANT Inv
INVARIANT EmitReplay
CHECK_DEADLOCK FALSE
