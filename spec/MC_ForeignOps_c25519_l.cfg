SPECIFICATION Spec
CONSTANTS
  Family = "c25519_l"
  Emit = TRUE
INVARIANT EncodingsOK
INVARIANT BigEncodingsOK
INVARIANT EmitReplay
CHECK_DEADLOCK FALSE
