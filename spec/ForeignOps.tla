----------------------------- MODULE ForeignOps -----------------------------
(***************************************************************************)
(* Mathematical meaning of the emulated-field operations (FieldChip) and of *)
(* the big-unsigned-integer gadget (C05), over BigNat, together with the    *)
(* public-input encoding of emulated elements and big integers (shared with *)
(* C08): an emulated x is exposed as the NL limbs, base 2^LB, of the        *)
(* canonical representative of x - 1; a big integer as its limbs base 2^96. *)
(*                                                                         *)
(*   FDom / FOut(op, f, pr, x) : domain and exposed outputs (raw native     *)
(*        elements) of a FieldChip operation on field f                     *)
(*   BDom / BOut(op, pr, x, nl): same for the BigUint gadget; nl = number   *)
(*        of limbs of every output group                                    *)
(***************************************************************************)
EXTENDS BigNat, FiniteSets, TLC

\* the deployed (native = BLS12-381 scalar field) parameter sets
Fields == {"secp_p", "secp_n", "bls_p", "c25519_p", "c25519_l"}
\* 2^256 - 2^32 - 977
SecpP == Sub(Pow2(256), Add(Pow2(32), OfInt(977)))
\* 0xFFFFFFFF FFFFFFFF FFFFFFFF FFFFFFFE BAAEDCE6 AF48A03B BFD25E8C D0364141
SecpN == <<65, 65, 54, 208, 140, 94, 210, 191, 59, 160, 72, 175, 230, 220, 174, 186, 254, 255, 255, 255, 255, 255, 255, 255, 255, 255, 255, 255, 255, 255, 255, 255>>
\* 0x1a0111ea397fe69a4b1ba7b6434bacd764774b84f38512bf6730d2a0f6b0f6241eabfffeb153ffffb9feffffffffaaab
BlsP == <<171, 170, 255, 255, 255, 255, 254, 185, 255, 255, 83, 177, 254, 255, 171, 30, 36, 246, 176, 246, 160, 210, 48, 103, 191, 18, 133, 243, 132, 75, 119, 100, 215, 172, 75, 67, 182, 167, 27, 75, 154, 230, 127, 57, 234, 17, 1, 26>>
\* 0x73eda753299d7d483339d80809a1d80553bda402fffe5bfeffffffff00000001
BlsR == <<1, 0, 0, 0, 255, 255, 255, 255, 254, 91, 254, 255, 2, 164, 189, 83, 5, 216, 161, 9, 8, 216, 57, 51, 72, 125, 157, 41, 83, 167, 237, 115>>
\* 2^255 - 19 and 2^252 + 27742317777372353535851937790883648493
C25519P == Sub(Pow2(255), OfInt(19))
C25519L == Add(Pow2(252), <<237, 211, 245, 92, 26, 99, 18, 88, 214, 156, 247, 162, 222, 249, 222, 20>>)
\* order of the Jubjub prime-order subgroup
JubR == <<183, 44, 247, 214, 94, 14, 151, 208, 130, 16, 200, 204, 147, 32, 104, 166, 0, 59, 52, 1, 1, 59, 103, 6, 169, 175, 51, 101, 234, 180, 125, 14>>
Native == BlsR

Modulus(f) == CASE f = "secp_p" -> SecpP [] f = "secp_n" -> SecpN [] f = "bls_p" -> BlsP
                [] f = "c25519_p" -> C25519P [] f = "c25519_l" -> C25519L
LB(f) == CASE f \in {"secp_p", "secp_n", "c25519_p"} -> 64 [] f = "bls_p" -> 56 [] f = "c25519_l" -> 51
NL(f) == CASE f \in {"secp_p", "secp_n", "c25519_p"} -> 4 [] f = "bls_p" -> 7 [] f = "c25519_l" -> 5
BigLB == 96

\* ---- encodings -----------------------------------------------------------
LimbsOf(v, lb, n) == [i \in 1..n |-> Rem(Quo(v, Pow2(lb * (i - 1))), Pow2(lb))]
RECURSIVE ValFrom(_, _, _)
ValFrom(ls, lb, i) == IF i > Len(ls) THEN Zero ELSE Add(Mul(ls[i], Pow2(lb * (i - 1))), ValFrom(ls, lb, i + 1))
ValOfLimbs(ls, lb) == ValFrom(ls, lb, 1)

EncodeF(x, f) == LimbsOf(SubM(x, One, Modulus(f)), LB(f), NL(f))
CanonF(ls, f) == /\ Len(ls) = NL(f)
                 /\ \A i \in 1..Len(ls) : Lt(ls[i], Pow2(LB(f)))
                 /\ Lt(ValOfLimbs(ls, LB(f)), Modulus(f))
DecodeF(ls, f) == AddM(ValOfLimbs(ls, LB(f)), One, Modulus(f))      \* for canonical ls

NLimbsU(nbits) == (nbits + BigLB - 1) \div BigLB
EncodeU(v, nl) == LimbsOf(v, BigLB, nl)
CanonU(ls) == \A i \in 1..Len(ls) : Lt(ls[i], Pow2(BigLB))
DecodeU(ls) == ValOfLimbs(ls, BigLB)

BoolN(b) == IF b THEN One ELSE Zero
IsBitN(x) == x = Zero \/ x = One
IsByteN(x) == Len(x) <= 1
RECURSIVE Flat(_)
Flat(ss) == IF ss = <<>> THEN <<>> ELSE Head(ss) \o Flat(Tail(ss))
MapSeq(s, Op(_)) == [i \in 1..Len(s) |-> Op(s[i])]

\* ---- emulated field operations ------------------------------------------
NBitsOf(f) == NumBits(Modulus(f))
ToBitsCount(f, n) == IF n = 0 THEN NBitsOf(f) ELSE n
ToBytesCount(f, n) == IF n = 0 THEN (NBitsOf(f) + 7) \div 8 ELSE n

FDom(op, f, pr, x) ==
  CASE op = "div" -> x[2] # Zero
    [] op \in {"inv", "assert_non_zero"} -> x[1] # Zero
    [] op = "assert_equal" -> x[1] = x[2]
    [] op = "assert_not_equal" -> x[1] # x[2]
    [] op \in {"to_le_bits", "to_le_bits_nc"} -> NumBits(x[1]) <= ToBitsCount(f, ToInt(pr[1]))
    [] op = "to_le_bytes" -> NumBits(x[1]) <= 8 * ToBytesCount(f, ToInt(pr[1]))
    [] op = "select" -> IsBitN(x[1])
    [] op = "from_le_bits" -> \A i \in 1..Len(x) : IsBitN(x[i])
    [] op = "from_le_bytes" -> \A i \in 1..Len(x) : IsByteN(x[i])
    [] OTHER -> TRUE

FOut(op, f, pr, x) ==
  LET m == Modulus(f)
      E(v) == EncodeF(v, f)
      P(i) == Rem(pr[i], m)
      BitsN(v, n) == MapSeq(BitsLE(v, n), LAMBDA b : OfInt(b))
      BytesN(v, n) == MapSeq(BytesLE(v, n), LAMBDA b : OfInt(b))
  IN
  CASE op = "add" -> E(AddM(x[1], x[2], m))
    [] op = "sub" -> E(SubM(x[1], x[2], m))
    [] op = "mul" -> E(MulM(x[1], x[2], m))
    [] op = "square" -> E(MulM(x[1], x[1], m))
    [] op = "div" -> E(MulM(x[1], InvM(x[2], m), m))
    [] op = "neg" -> E(NegM(x[1], m))
    [] op = "inv" -> E(InvM(x[1], m))
    [] op = "inv0" -> E(IF x[1] = Zero THEN Zero ELSE InvM(x[1], m))
    [] op = "add_constant" -> E(AddM(x[1], P(1), m))
    [] op = "mul_by_constant" -> E(MulM(x[1], P(1), m))
    [] op = "lincomb" -> E(AddM(AddM(MulM(P(1), x[1], m), MulM(P(2), x[2], m), m), P(3), m))
    [] op = "is_equal" -> <<BoolN(x[1] = x[2])>>
    [] op = "is_not_equal" -> <<BoolN(x[1] # x[2])>>
    [] op = "is_zero" -> <<BoolN(x[1] = Zero)>>
    [] op = "is_equal_to_fixed" -> <<BoolN(x[1] = P(1))>>
    [] op \in {"assert_equal", "assert_not_equal", "assert_non_zero", "pub", "assign_pub"} -> <<>>
    [] op = "select" -> E(IF x[1] = One THEN x[2] ELSE x[3])
    [] op = "addsub" -> E(AddM(x[2], x[2], m))
    [] op = "unnorm_pub" -> E(AddM(AddM(x[1], x[2], m), x[2], m))
    [] op = "unnorm_eq" -> <<One, BoolN(x[1] = Zero)>>
    [] op = "unnorm_iszero" -> <<BoolN(x[1] = x[2])>>
    \* is_equal / is_not_equal of a well-formed w with the un-normalised x - y, then w - (x - y) = 0 ?
    [] op = "unnorm_subeq" -> LET d == SubM(x[2], x[3], m) IN <<BoolN(x[1] = d), BoolN(x[1] # d), BoolN(x[1] = d)>>
    \* x - (x - y) = y;  y - (x - y) = 2y - x
    [] op = "unnorm_subsub" -> <<One, BoolN(SubM(AddM(x[2], x[2], m), x[1], m) = Zero)>> \o E(x[2])
    [] op = "unnorm_mul" -> E(MulM(AddM(x[1], x[2], m), SubM(x[1], x[2], m), m))
    [] op = "unnorm_bits" -> BitsN(AddM(x[1], x[1], m), NBitsOf(f))
    [] op = "to_le_bits" -> BitsN(x[1], ToBitsCount(f, ToInt(pr[1])))
    [] op = "to_le_bytes" -> BytesN(x[1], ToBytesCount(f, ToInt(pr[1])))
    [] op = "from_le_bits" -> E(Rem(OfBitsLE(MapSeq(x, LAMBDA b : ToInt(b))), m))
    [] op = "from_le_bytes" -> E(Rem(Trim(MapSeq(x, LAMBDA b : ToInt(b))), m))

\* a relation rather than a function: non-canonical bit decomposition
FRelOK(op, f, pr, x, outs) ==
  IF op = "to_le_bits_nc"
  THEN /\ Len(outs) = ToBitsCount(f, ToInt(pr[1]))
       /\ \A i \in 1..Len(outs) : IsBitN(outs[i])
       /\ Rem(OfBitsLE(MapSeq(outs, LAMBDA b : ToInt(b))), Modulus(f)) = x[1]
  ELSE outs = FOut(op, f, pr, x)

\* ---- big unsigned integers ----------------------------------------------
RECURSIVE PowNat(_, _)
PowNat(a, e) == IF e = 0 THEN One ELSE Mul(a, PowNat(a, e - 1))      \* small e
BDom(op, pr, x) ==
  CASE op = "sub" -> Le(x[2], x[1])
    [] op = "div_rem" -> x[2] # Zero
    [] op = "mod_exp" -> x[2] # Zero
    [] op = "assert_equal" -> x[1] = x[2]
    [] op = "select" -> IsBitN(x[1])
    [] OTHER -> TRUE
\* values of the outputs that are big integers, and raw outputs that are bits
BVals(op, pr, x) ==
  CASE op = "add" -> <<Add(x[1], x[2])>>
    [] op = "sub" -> <<Sub(x[1], x[2])>>
    [] op = "mul" -> <<Mul(x[1], x[2])>>
    [] op = "addmul" -> <<Mul(Add(x[1], x[2]), x[2])>>
    [] op = "div_rem" -> <<Quo(x[1], x[2]), Rem(x[1], x[2])>>
    [] op = "mod_exp" -> <<PowMI(x[1], ToInt(pr[1]), x[2])>>
    [] op = "select" -> <<IF x[1] = One THEN x[2] ELSE x[3]>>
    [] op \in {"roundtrip_bits", "roundtrip_bytes"} -> <<x[1]>>
    [] OTHER -> <<>>
BBits(op, pr, x) ==
  CASE op = "lower_than" -> <<BoolN(Lt(x[1], x[2]))>>
    [] op = "unnorm_lt" -> <<BoolN(Lt(x[1], x[2]))>>
    [] op = "is_equal" -> <<BoolN(x[1] = x[2])>>
    [] op = "unnorm_eq" -> <<One, BoolN(x[1] = x[2])>>
    [] op = "is_equal_to_fixed" -> <<BoolN(x[1] = pr[1])>>
    [] OTHER -> <<>>
=============================================================================
