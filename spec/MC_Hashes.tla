------------------------------ MODULE MC_Hashes ------------------------------
(* Model-level checks of the SHA-2 padding of Hashes.tla for every message    *)
(* length up to MaxLen bytes and both word sizes, and scenario generation:   *)
(* each length is printed as a REPLAY line with the number of blocks and     *)
(* whether it lies on a padding boundary.                                   *)
EXTENDS Hashes, Json

CONSTANT MaxLen
VARIABLES len, w
Init == len \in 0..MaxLen /\ w \in {32, 64}
Next == UNCHANGED <<len, w>>
Spec == Init /\ [][Next]_<<len, w>>

Msg == [i \in 1..len |-> (i * 37 + 11) % 256]
PadOK ==
  LET p == Pad(Msg, w)
      bb == BlockBytes(w)
      lb == LenBytes(w)
  IN /\ Len(p) % bb = 0
     /\ Len(p) = NumBlocks(len, w) * bb
     /\ SubSeq(p, 1, len) = Msg
     /\ p[len + 1] = 128
     /\ \A i \in (len + 2)..(Len(p) - lb) : p[i] = 0
     \* the bit length, big endian
     /\ Trim([i \in 1..lb |-> p[Len(p) + 1 - i]]) = MulInt(OfInt(len), 8)
     \* minimality: one block fewer would not fit
     /\ Len(p) - bb < len + 1 + lb
\* RIPEMD-160 pads like MD4: 0x80, zeros, the bit length as a 64-bit little-endian integer, 64-byte blocks
RmdPadOK ==
  w = 32 =>
    LET p == RmdPad(Msg) IN
    /\ Len(p) % 64 = 0 /\ Len(p) >= len + 9 /\ Len(p) - 64 < len + 9
    /\ SubSeq(p, 1, len) = Msg /\ p[len + 1] = 128
    /\ \A i \in (len + 2)..(Len(p) - 8) : p[i] = 0
    /\ Trim(SubSeq(p, Len(p) - 7, Len(p))) = MulInt(OfInt(len), 8)
Boundary == LET r == len % BlockBytes(w) IN r \in {0, 1, BlockBytes(w) - LenBytes(w) - 2, BlockBytes(w) - LenBytes(w) - 1, BlockBytes(w) - LenBytes(w), BlockBytes(w) - 1}
EmitReplay == PrintT("REPLAY " \o ToJson([len |-> len, w |-> w, blocks |-> NumBlocks(len, w), boundary |-> Boundary]))
=============================================================================
