----------------------------- MODULE Batch_Trace -----------------------------
(* C15 trace validation.  One Batch line = one run of batch_verify on a     *)
(* TLC-chosen batch, with: the members' individual verdicts observed in the *)
(* same run (`singles`), the operations seen on the batching transcript     *)
(* (`racc`), the batch verdict, Guard::batch_verify's verdict and the       *)
(* off-circuit Accumulator results.  The line is replayed through the       *)
(* actions of Batch (CheckLengths, PrepareMember per absorbed summary,      *)
(* SqueezeR, Fold, FinalCheck) and must end in the verdict the code gave.   *)
EXTENDS Batch, IOUtils

Rec == ndJsonDeserialize(IOEnv.TRACE)
VARIABLE l
tvars == <<vars, l>>
Ev == Rec[l]

KindOf(s) == IF s = "ok" THEN "valid" ELSE "invalid"
AllOk(e) == \A k \in 1..Len(e.singles) : e.singles[k] = "ok"
NAbsorb(e) == Len(SelectSeq(e.racc, LAMBDA o : o = "absorb"))
NSqueeze(e) == Len(SelectSeq(e.racc, LAMBDA o : o = "squeeze"))

TInit ==
  /\ l = 1 /\ members = <<>> /\ mismatch = "none" /\ pc = "done" /\ i = 1
  /\ bound = {} /\ rbound = {} /\ acc = {} /\ result = "pending"

THeader == l <= Len(Rec) /\ Ev.ev = "header" /\ l' = l + 1 /\ UNCHANGED vars

\* the whole run of one batch, as the composition of Batch's steps
TBatch ==
  /\ l <= Len(Rec) /\ Ev.ev = "Batch" /\ l' = l + 1
  /\ LET n == Len(Ev.singles)
         wellformed == Ev.mismatch = "none" \/ n = 0
         expect == IF wellformed /\ AllOk(Ev) THEN "ok" ELSE "err"     \* BatchIffAll
     IN /\ Ev.res = expect                                               \* and never "panic"
        \* accepted batches: r was squeezed after the summary of EVERY member was
        \* absorbed, each right after that member's own final squeeze (RBindsAll)
        /\ (Ev.res = "ok" /\ n > 0) =>
              /\ Ev.racc = <<"init">> \o [k \in 1..n |-> "absorb"] \o <<"squeeze">>
              /\ Ev.bound_after_summary
        \* r is never squeezed before all absorbed summaries
        /\ NSqueeze(Ev) <= 1
        /\ (NSqueeze(Ev) = 1 /\ n > 0) => Ev.racc[Len(Ev.racc)] = "squeeze"
        \* Guard::batch_verify: same law, and a value on mismatched lengths
        /\ Ev.guard_res \in {"skip", "ok", "err"}
        /\ (Ev.guard_res # "skip" /\ Ev.mismatch = "none") => (Ev.guard_res = "ok" <=> AllOk(Ev))
        /\ (Ev.guard_res # "skip" /\ Ev.mismatch # "none") => Ev.guard_res = "err"
        \* guards combined by hand (newcomer scaled by r^i, or accumulator scaled by r) and checked once: same law
        /\ \A way \in {"power", "horner"} : Ev.combined[way] \in {"skip", "ok", "err"} /\ (Ev.combined[way] # "skip" => (Ev.combined[way] = "ok" <=> AllOk(Ev)))
        \* Accumulator: from_dual_msm / accumulate / collapse / check
        /\ ("each" \in DOMAIN Ev.acc) =>
              /\ \A k \in 1..n : Ev.acc.each[k] = (Ev.singles[k] = "ok")
              /\ Ev.acc.acc = AllOk(Ev)
              /\ Ev.acc.collapsed = AllOk(Ev)
              /\ Ev.acc.collapse_first = AllOk(Ev)
        /\ "panic" \notin DOMAIN Ev.acc
        /\ members' = [k \in 1..n |-> KindOf(Ev.singles[k])]
        /\ mismatch' = Ev.mismatch /\ result' = expect /\ pc' = "done"
        /\ bound' = 1..NAbsorb(Ev) /\ rbound' = IF NSqueeze(Ev) = 1 THEN 1..NAbsorb(Ev) ELSE {}
        /\ acc' = {k \in 1..n : Ev.singles[k] # "ok"} /\ i' = n + 1

\* the pool the batches are drawn from: a batch of one accepts exactly the members that are valid by construction
TPool == l <= Len(Rec) /\ Ev.ev = "Pool" /\ l' = l + 1 /\ UNCHANGED vars
         /\ Ev.single = (IF Ev.expect_ok THEN "ok" ELSE "err")

TNext == THeader \/ TBatch \/ TPool
TraceSpec == TInit /\ [][TNext]_tvars

\* the state reached after every line satisfies Batch's invariants
TraceInv == (l > 1 /\ pc = "done" /\ members # <<>>) => BatchIffAll

TraceAccepted ==
  LET d == TLCGet("stats").diameter IN
  IF d - 1 = Len(Rec) THEN TRUE
  ELSE Print(<<"TRACE-REJECTED first unmatched line", d, "of", Len(Rec)>>, FALSE)
=============================================================================
