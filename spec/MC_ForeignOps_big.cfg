SPECIFICATION Spec
CONSTANTS
  Family = "big"
  Emit = TRUE
INVARIANT EncodingsOK
INVARIANT BigEncodingsOK
INVARIANT EmitReplay
CHECK_DEADLOCK FALSE
