-------------------------- MODULE Lifecycle_Trace --------------------------
(* C17 trace validation: recorded lifecycle events of the real code are     *)
(* replayed through Lifecycle's notion of identity; `seen` is the bytes     *)
(* (interned hash) observed for each identity and must remain a function.   *)
EXTENDS Naturals, Sequences, FiniteSets, TLC, Json, IOUtils

Rec == ndJsonDeserialize(IOEnv.TRACE)
VARIABLES l, seen
vars == <<l, seen>>
Ev == Rec[l]
Is(e) == l <= Len(Rec) /\ Rec[l].ev = e /\ l' = l + 1

Compatible(wf, rf) == (wf = "P") = (rf = "P")

\* record hash h for identity id; enabled only if consistent with what was seen
Observe(id, h) ==
  /\ \A p \in seen : p[1] = id => p[2] = h
  /\ seen' = seen \cup {<<id, h>>}

Init == l = 1 /\ seen = {}
THeader == Is("header") /\ UNCHANGED seen
TSetup == Is("Setup") /\ Observe(<<"params", Ev.secret, Ev.k>>, Ev.h)
\* parameters downsized to k ARE the parameters set up for k from the same secret
TDownsize == Is("Downsize") /\ Ev.res = "ok" /\ Observe(<<"params", Ev.secret, Ev.k>>, Ev.h)
\* threads and repetition are not part of the identity
TKeygenVk ==
  /\ Is("KeygenVk")
  /\ Observe(<<"vk", Ev.circuit, Ev.k, Ev.secret>>, <<Ev.h, Ev.repr>>)
TKeygenPk == Is("KeygenPk") /\ Observe(<<"pk", Ev.circuit, Ev.k, Ev.secret>>, <<Ev.h>>)
\* write then read: compatible formats give back the same bytes and transcript
\* identity; incompatible ones never yield a (different) object silently
TRoundTrip ==
  /\ Is("RoundTrip") /\ UNCHANGED seen
  /\ IF Compatible(Ev.wf, Ev.rf)
     THEN Ev.res = "ok" /\ Ev.same_bytes /\ Ev.same_repr
     ELSE Ev.res # "ok" \/ (Ev.same_bytes /\ Ev.same_repr)
\* every proof by an original or reloaded proving key verifies under every
\* original or reloaded verifying key of the same derivation
TCross == Is("Cross") /\ Ev.res = "ok" /\ UNCHANGED seen

Next == THeader \/ TSetup \/ TDownsize \/ TKeygenVk \/ TKeygenPk \/ TRoundTrip \/ TCross
TraceSpec == Init /\ [][Next]_vars
Functional == \A p, q \in seen : p[1] = q[1] => p[2] = q[2]

TraceAccepted ==
  LET d == TLCGet("stats").diameter IN
  IF d - 1 = Len(Rec) THEN TRUE
  ELSE Print(<<"TRACE-REJECTED first unmatched line", d, "of", Len(Rec)>>, FALSE)
=============================================================================
