SPECIFICATION Spec
CONSTANTS
  CurveName = "secp256k1"
  MaxMsm = 3
INVARIANT GroupLawConsistent
INVARIANT EmitReplay
CHECK_DEADLOCK FALSE
