SPECIFICATION TraceSpec
CONSTANTS
  MaxPoly = 4
  Pts = {1, 2, 3}
  Mutation = "none"
  Emit = FALSE
POSTCONDITION TraceAccepted
CHECK_DEADLOCK FALSE
