SPECIFICATION Spec
CONSTANTS
  MaxN = 5
  Mutation = "none"
  Emit = TRUE
INVARIANT Inv
INVARIANT EmitReplay
CHECK_DEADLOCK FALSE
