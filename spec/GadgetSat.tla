------------------------------ MODULE GadgetSat ------------------------------
(***************************************************************************)
(* The soundness game of C04 with the FULL adversary, on a tiny field.      *)
(*                                                                         *)
(* CASE (JSON, from the harness) is the real constraint system of a         *)
(* one-operation circuit built by the generic NativeGadget code over F_P    *)
(* (P = 5 or 7): gate polynomials, lookup arguments, copy constraints, the  *)
(* fixed columns, the set of advice cells the synthesis assigns, and the    *)
(* advice cell each public input row is copy-constrained to.                *)
(*                                                                         *)
(* The prover here is not the honest witness generator with one lie: it     *)
(* chooses EVERY assigned advice cell freely.  TLC searches the assignment  *)
(* space row by row (a transition assigns one row; gates of the previous    *)
(* row and the copy constraints among assigned cells prune the search), so  *)
(* the reachable final states are exactly the satisfying assignments.  The  *)
(* invariant: in every satisfying assignment the exposed outputs are        *)
(* Def(op) of the exposed inputs and the inputs are in Dom(op) - soundness  *)
(* against every prover, for every input, on this field.                    *)
(***************************************************************************)
EXTENDS NativeOps, IOUtils

Case == JsonDeserialize(IOEnv.CASE)
CS == Case.cs
NCols == Len(Case.advice)
Assigned == {<<Case.assigned[i][1], Case.assigned[i][2]>> : i \in 1..Len(Case.assigned)}        \* <<col, row>>, 0-based
MaxRow == CHOOSE m \in {c[2] : c \in Assigned} : \A c \in Assigned : c[2] <= m
NRows == MaxRow + 2                                  \* one spare row for rotation +1
CellsOfRow(r) == {c \in Assigned : c[2] = r}

VARIABLES row, adv       \* next row to assign; adv[col + 1][row + 1] (unassigned cells are 0)
vars == <<row, adv, sc>>

RECURSIVE EvalP(_, _, _)
EvalP(e, r0, A) ==
  CASE e.op = "const"    -> M(e.v)
    [] e.op = "fixed"    -> M(Case.fixed[e.col + 1][((r0 + e.rot + CS.n) % CS.n) + 1])
    [] e.op = "advice"   -> LET rr == (r0 + e.rot + CS.n) % CS.n IN IF rr < NRows THEN A[e.col + 1][rr + 1] ELSE 0
    [] e.op = "instance" -> 0
    [] e.op = "neg"      -> M(0 - EvalP(e.a, r0, A))
    [] e.op = "sum"      -> M(EvalP(e.a, r0, A) + EvalP(e.b, r0, A))
    [] e.op = "prod"     -> LET x == EvalP(e.a, r0, A) IN IF x = 0 THEN 0 ELSE M(x * EvalP(e.b, r0, A))
    [] e.op = "scaled"   -> M(EvalP(e.a, r0, A) * M(e.v))

GatesAt(r0, A) == \A g \in 1..Len(CS.gates) : EvalP(CS.gates[g], r0, A) = 0
\* lookup tables are read from the fixed columns over all usable rows (the table expressions are fixed-only)
TupleP(es, r0, A) == [i \in 1..Len(es) |-> EvalP(es[i], r0, A)]
Table(k) == {TupleP(CS.lookups[k].tables, r, adv) : r \in 0..(CS.usable - 1)}
LookupsAt(r0, A) == \A k \in 1..Len(CS.lookups) : TupleP(CS.lookups[k].inputs, r0, A) \in Table(k)

\* copy constraints between two advice cells, or an advice and a fixed cell, both within the assigned rows
IsAdv(c) == c[1] = "advice"
Val(c, A) == IF c[1] = "advice" THEN A[c[2] + 1][c[3] + 1] ELSE M(Case.fixed[c[2] + 1][c[3] + 1])
Relevant(cp, upto) == /\ cp[1][1] # "instance" /\ cp[2][1] # "instance"
                      /\ (IsAdv(cp[1]) => cp[1][3] <= upto) /\ (IsAdv(cp[2]) => cp[2][3] <= upto)
CopiesUpTo(upto, A) == \A i \in 1..Len(CS.copies) : Relevant(CS.copies[i], upto) => Val(CS.copies[i][1], A) = Val(CS.copies[i][2], A)

Zero == [c \in 1..NCols |-> [r \in 1..NRows |-> 0]]
GInit == row = 0 /\ adv = Zero /\ sc = [op |-> "none"]
AssignRow ==
  /\ row <= MaxRow
  /\ \E vals \in [CellsOfRow(row) -> 0..(P - 1)] :
       LET A == [c \in 1..NCols |-> [r \in 1..NRows |->
                   IF <<c - 1, r - 1>> \in CellsOfRow(row) THEN vals[<<c - 1, r - 1>>] ELSE adv[c][r]]] IN
       /\ CopiesUpTo(row, A)
       /\ row >= 1 => (GatesAt(row - 1, A) /\ LookupsAt(row - 1, A))
       /\ adv' = A
  /\ row' = row + 1 /\ UNCHANGED sc
GNext == AssignRow
GSpec == GInit /\ [][GNext]_vars

\* a complete assignment: all rows assigned; the last rows' gates hold as well (cells beyond are zero)
Final == row = MaxRow + 1
Satisfying == Final /\ GatesAt(MaxRow, adv) /\ LookupsAt(MaxRow, adv) /\ GatesAt(MaxRow + 1, adv)

Exposed == [i \in 1..Len(Case.expose) |-> Val(<<Case.expose[i][1], Case.expose[i][2], Case.expose[i][3]>>, adv)]
Ins == SubSeq(Exposed, 1, Case.nin)
Outs == SubSeq(Exposed, Case.nin + 1, Len(Exposed))
Sound == Satisfying => (Dom(Case.op, Case.params, Ins) /\ Outs = Def(Case.op, Case.params, Ins))
\* one line per satisfying assignment (non-vacuity, and the inputs it covers)
Witness == Satisfying => PrintT("SATISFYING " \o ToString(Ins))
=============================================================================
