----------------------------- MODULE PubIn_Trace -----------------------------
(* C08 replay validation.  One `Pub` line per relation: the typed values it  *)
(* exposes (`items`), the vector the OFF-CIRCUIT encoder of every type       *)
(* produced (`encs`), the vector the circuit ITSELF ties to the instance     *)
(* column (`exposed`), whether the circuit is satisfiable with the encoder's *)
(* vector and with single-position edits of it, and - with `keys` - the      *)
(* number of public inputs stored in the verifying key and the verdicts of   *)
(* verify on the right vector, on shorter / longer / edited ones.            *)
EXTENDS PublicInputs, Json, IOUtils, Sequences

Rec == ndJsonDeserialize(IOEnv.TRACE)
VARIABLE l
Ev == Rec[l]
Has(e, f) == f \in DOMAIN e

ValOf(it) == IF it.ty \in {"jub_point", "secp_point", "bls_point"}
             THEN [id |-> it.val.id, x |-> it.val.x, y |-> it.val.y] ELSE it.val

ItemOK(it, enc) ==
  /\ it.ty \in Types
  /\ Typed(it.ty, it.nbits, ValOf(it))
  /\ enc = Encode(it.ty, it.nbits, ValOf(it))
  /\ Decode(it.ty, it.nbits, enc) = ValOf(it)

PubOK(e) ==
  LET n == Len(e.items)
      all == Flat(e.encs)
  IN /\ Len(e.encs) = n
     /\ \A i \in 1..n : ItemOK(e.items[i], e.encs[i])
     \* the circuit binds exactly the encoder's vector ...
     /\ e.status = "sat" /\ e.exposed = all
     /\ e.status_enc = "sat"
     \* ... and no single-position edit of it
     /\ \A j \in 1..Len(e.edits) : e.edits[j].status # "sat"
     /\ Has(e, "keys") =>
          /\ e.keys.vk_nb = Len(all)
          /\ e.keys.verify = "ok"
          /\ e.keys.verify_shorter # "ok" /\ e.keys.verify_longer # "ok" /\ e.keys.verify_edited # "ok"

\* an accumulator witnessed from the fixed-base names in the logged order and exposed by the verifier gadget:
\* whatever that order, the circuit binds exactly the off-circuit encoding, which is AccEncode
AccOK(e) ==
  /\ MsmTyped(e.lhs) /\ MsmTyped(e.rhs)
  /\ {e.names[i] : i \in 1..Len(e.names)} = {e.rhs.fixed[i].name : i \in 1..Len(e.rhs.fixed)}
  /\ e.offchain = AccEncode(e.lhs, e.rhs)
  /\ e.status = "sat" /\ e.exposed = e.offchain
  /\ e.status_enc = "sat"
  /\ \A j \in 1..Len(e.edits) : e.edits[j].status # "sat"

\* plain and committed public inputs side by side: the key records the number of PLAIN raw inputs; the verifier accepts the
\* exact vector with the commitment to the committed values and nothing else
PubCOK(e) ==
  /\ e.vk_nb = e.np
  /\ e.verify = "ok"
  /\ \A f \in {"verify_shorter", "verify_longer", "verify_padded", "verify_other_commitment", "verify_no_commitment"} : e[f] # "ok"

\* the big-integer encoder on values outside its domain: a value that fits the limbs of the declared width is encoded as
\* the specification says (one above the width may also be refused); a value that does not fit is refused, or at least
\* not answered with a vector that is the encoding of a value that fits (two values would share an encoding)
EncDomOK(e) ==
  LET n == NLimbsU(e.nbits)
      fits == Lt(e.val, Pow2(BigLB * n))
  IN IF fits
     THEN IF NumBits(e.val) <= e.nbits THEN e.refused = FALSE /\ e.enc = EncodeU(e.val, n)
          ELSE e.refused \/ e.enc = EncodeU(e.val, n)
     ELSE e.refused \/ Len(e.enc) # n \/ ~CanonU(e.enc)

\* a circuit whose gates read a plain instance column at a non-zero rotation: the checker accepts the honest run, the real
\* verifier accepts the honest public-input vector and no edited, rotated, shorter or longer one
PubRotOK(e) ==
  /\ ~Has(e, "harness_error")
  /\ \A i \in 1..Len(e.mock) : e.mock[i] = "ok"
  /\ e.verify = "ok"
  /\ Len(e.edits) >= 1 /\ \A j \in 1..Len(e.edits) : e.edits[j].res = "err"
  /\ e.shorter = "err" /\ e.longer = "err"
  /\ e.rotated_differs => e.rotated = "err"

CurveOK(e) ==
  LET c == CurveOf(e.curve) IN
  /\ Trim(e.p) = c.p /\ Trim(e.r) = c.r /\ Trim(e.a) = c.a
  /\ Trim(IF c.form = "w" THEN e.b ELSE e.d) = c.b
  /\ Pt(Trim(e.gx), Trim(e.gy)) = c.g

TInitL == l = 1
THeader == l <= Len(Rec) /\ Ev.ev = "header" /\ Trim(Ev.native) = Native /\ l' = l + 1
TCurve == l <= Len(Rec) /\ Ev.ev = "Curve" /\ CurveOK(Ev) /\ l' = l + 1
TPub == l <= Len(Rec) /\ Ev.ev = "Pub" /\ PubOK(Ev) /\ l' = l + 1
TAcc == l <= Len(Rec) /\ Ev.ev = "Acc" /\ AccOK(Ev) /\ l' = l + 1
TPubC == l <= Len(Rec) /\ Ev.ev = "PubC" /\ PubCOK(Ev) /\ l' = l + 1
TEncDom == l <= Len(Rec) /\ Ev.ev = "EncDom" /\ EncDomOK(Ev) /\ l' = l + 1
TPubRot == l <= Len(Rec) /\ Ev.ev = "PubRot" /\ PubRotOK(Ev) /\ l' = l + 1
TraceSpec == TInitL /\ [][THeader \/ TCurve \/ TPub \/ TAcc \/ TPubC \/ TEncDom \/ TPubRot]_l

TraceAccepted ==
  LET d == TLCGet("stats").diameter IN
  IF d - 1 = Len(Rec) THEN TRUE
  ELSE Print(<<"TRACE-REJECTED first unmatched line", d, "of", Len(Rec)>>, FALSE)
=============================================================================
