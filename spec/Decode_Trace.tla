---------------------------- MODULE Decode_Trace ----------------------------
(* C16 replay validation.  Each line is one scenario of Decode.tla (or an   *)
(* unstructured mutation, expect = "value") executed against the real       *)
(* decoders and verifier.  A line is consumed only if the outcome is one    *)
(* the model allows; "panic" and oversized allocations are never allowed.   *)
EXTENDS Naturals, Sequences, TLC, Json, IOUtils

Rec == ndJsonDeserialize(IOEnv.TRACE)
AllocBound == 64 * 1024 * 1024
VARIABLE l
Ev == Rec[l]

Out(e) == <<e.decode, e.use>>
Values == {<<"ok", "ok">>, <<"ok", "err">>, <<"err", "skip">>}

Allowed(e) ==
  IF e.expect = <<"value", "value">> THEN Values
  ELSE IF e.expect = <<"reject", "reject">> THEN {<<"ok", "err">>, <<"err", "skip">>}
  ELSE IF e.same THEN {<<"ok", "ok">>}
  \* a consistent-but-different object may already be refused by the decoder
  ELSE IF e.expect = <<"ok", "err">> THEN {<<"ok", "err">>, <<"err", "skip">>}
  ELSE {e.expect}

Init == l = 1
THeader == l <= Len(Rec) /\ Ev.ev = "header" /\ l' = l + 1
TDecode ==
  /\ l <= Len(Rec) /\ Ev.ev = "Decode" /\ l' = l + 1
  /\ Out(Ev) \in Allowed(Ev)
  /\ Ev.max_alloc <= AllocBound
Next == THeader \/ TDecode
TraceSpec == Init /\ [][Next]_l

TraceAccepted ==
  LET d == TLCGet("stats").diameter IN
  IF d - 1 = Len(Rec) THEN TRUE
  ELSE Print(<<"TRACE-REJECTED first unmatched line", d, "of", Len(Rec)>>, FALSE)
=============================================================================
