SPECIFICATION GSpec
CONSTANTS
  P = 7
  Emit = FALSE
INVARIANT Sound
INVARIANT Witness
CHECK_DEADLOCK FALSE
