---------------------------- MODULE FiatShamir ----------------------------
(***************************************************************************)
(* The Fiat-Shamir transcript of the PLONK argument of midnight-proofs, as *)
(* two sequential processes -- the prover (proofs/src/plonk/prover.rs,     *)
(* `create_proof`) and the verifier (proofs/src/plonk/verifier.rs,         *)
(* `prepare`) -- followed on both sides by the KZG multi-opening           *)
(* (proofs/src/poly/kzg/mod.rs, `multi_open` / `multi_prepare`).           *)
(*                                                                         *)
(* A transcript operation is a record [op, kind, tag]:                     *)
(*   op   : "common" (absorb, not part of the proof), "write" (prover:     *)
(*          absorb and append to the proof), "read" (verifier: take from   *)
(*          the proof and absorb), "squeeze" (derive a challenge)          *)
(*   kind : "point" | "scalar" | "challenge"                               *)
(*   tag  : symbolic name of the element (a tuple)                         *)
(*                                                                         *)
(* Idealisation (DESIGN 1.3): a challenge is a function of the sequence of *)
(* everything absorbed before it, so prover and verifier derive the same   *)
(* challenges iff their absorbed sequences agree; honest evaluations then  *)
(* satisfy the verifier's equations, so the verdict of an honest run is    *)
(* "ok" iff the transcripts agree, every read decodes, and no byte is left.*)
(*                                                                         *)
(* The shape record `sh` carries exactly what ConstraintSystem's public    *)
(* getters expose (see harness/src/plonkrun.rs::real_shape):               *)
(*   nproofs, committed, plain (per proof: lengths of the plain instance   *)
(*   columns), phases (per phase: #advice columns, #challenges), nlookups, *)
(*   permcols, chunk (= degree-2), ntrash, nquot (= degree-1), blinding,   *)
(*   instq / advq / fixq (query lists <<column, rotation>>, 0-based cols). *)
(***************************************************************************)
EXTENDS Naturals, Integers, Sequences, FiniteSets, SequencesExt, KzgSets

CONSTANT Mutation   \* "none", or the name of a deliberate model mutation
CONSTANT AdversaryOn \* TRUE: one adversarial edit between proving and verifying (C03)

VARIABLES sh, progP, progV, pcP, pcV, absP, absV, chan, verdict, tamper
vars == <<sh, progP, progV, pcP, pcV, absP, absV, chan, verdict, tamper>>

NoTamper == <<"none">>

Msg(op, kind, tag) == [op |-> op, kind |-> kind, tag |-> tag]
Common(kind, tag)  == Msg("common", kind, tag)
Squeeze(tag)       == Msg("squeeze", "challenge", tag)

\* Public-input values, committed-instance commitments and the key identity as
\* VALUES (what is hashed carries no position).  A shape may give them
\* explicitly (plainv / comv / vkid); otherwise fresh distinct ids are used.
Vals(s, p, j) ==
  IF "plainv" \in DOMAIN s THEN s.plainv[p][j]
  ELSE [i \in 1..s.plain[p][j] |-> 1000 * p + 100 * j + i]
ComId(s, p, c) == IF "comv" \in DOMAIN s THEN s.comv[p][c] ELSE 100 * p + c
VkId(s) == IF "vkid" \in DOMAIN s THEN s.vkid ELSE 1
PlainCols(s, p) == IF "plainv" \in DOMAIN s THEN Len(s.plainv[p]) ELSE Len(s.plain[p])
InstVals(s, p, j) ==
  LET vs == Vals(s, p, j) IN [i \in 1..Len(vs) |-> Common("scalar", <<"val", vs[i]>>)]
InstLen(s, p, j) == Common("scalar", <<"len", Len(Vals(s, p, j))>>)

NSets(s) == (s.permcols + s.chunk - 1) \div s.chunk
LastRot(s) == -(s.blinding + 1)
CommittedInstQ(s) == SelectSeq(s.instq, LAMBDA q : q[1] < s.committed)

---------------------------------------------------------------------------
(* Instances.  Verifier (verifier.rs::parse_trace): all committed-instance *)
(* commitments of all proofs, then per proof per plain column: its length  *)
(* and its values.                                                         *)
InstancesV(s) ==
  FlattenSeq([p \in 1..s.nproofs |->
     [c \in 1..s.committed |-> Common("point", <<"instcom", ComId(s, p, c)>>)]])
  \o
  FlattenSeq([p \in 1..s.nproofs |->
     FlattenSeq([j \in 1..PlainCols(s, p) |->
        (IF Mutation \in {"verifier_skips_length", "nobody_absorbs_length"} THEN <<>>
         ELSE <<InstLen(s, p, j)>>)
        \o InstVals(s, p, j)])])

(* Prover (prover.rs::compute_instances).  The pinned tree interleaved per *)
(* proof (commitments of proof p, then plain columns of proof p): kept as  *)
(* the named mutation "legacy_instance_order" (it is the defect repaired   *)
(* by the fix: commit recorded in known_findings.json).                    *)
InstancesP(s) ==
  IF Mutation = "legacy_instance_order"
  THEN FlattenSeq([p \in 1..s.nproofs |->
         [c \in 1..s.committed |-> Common("point", <<"instcom", ComId(s, p, c)>>)]
         \o FlattenSeq([j \in 1..PlainCols(s, p) |->
              <<InstLen(s, p, j)>> \o InstVals(s, p, j)])])
  ELSE
  FlattenSeq([p \in 1..s.nproofs |->
     [c \in 1..s.committed |-> Common("point", <<"instcom", ComId(s, p, c)>>)]])
  \o
  FlattenSeq([p \in 1..s.nproofs |->
     FlattenSeq([j \in 1..PlainCols(s, p) |->
        (IF Mutation = "nobody_absorbs_length" THEN <<>> ELSE <<InstLen(s, p, j)>>)
        \o InstVals(s, p, j)])])

(* Everything between the instances and the multi-opening is the same      *)
(* schedule on both sides with write <-> read; `w` is that operation.      *)
AdvicePhases(s, w) ==
  FlattenSeq([ph \in 1..Len(s.phases) |->
     FlattenSeq([p \in 1..s.nproofs |->
        [i \in 1..s.phases[ph].adv |-> Msg(w, "point", <<"adv", p, ph, i>>)]])
     \o [i \in 1..s.phases[ph].ch |-> Squeeze(<<"ch", ph, i>>)]])

LookupPermuted(s, w) ==
  FlattenSeq([p \in 1..s.nproofs |->
     FlattenSeq([l \in 1..s.nlookups |->
        << Msg(w, "point", <<"lpi", p, l>>), Msg(w, "point", <<"lpt", p, l>>) >>])])

PermProducts(s, w) ==
  FlattenSeq([p \in 1..s.nproofs |->
     [k \in 1..NSets(s) |-> Msg(w, "point", <<"z", p, k>>)]])

LookupProducts(s, w) ==
  FlattenSeq([p \in 1..s.nproofs |->
     [l \in 1..s.nlookups |-> Msg(w, "point", <<"lz", p, l>>)]])

TrashCommits(s, w) ==
  FlattenSeq([p \in 1..s.nproofs |->
     [t \in 1..s.ntrash |-> Msg(w, "point", <<"trash", p, t>>)]])

Quotient(s, w) == [i \in 1..s.nquot |-> Msg(w, "point", <<"h", i>>)]

Evals(s, w) ==
  \* committed-instance evaluations, per proof
  FlattenSeq([p \in 1..s.nproofs |->
     [i \in 1..Len(CommittedInstQ(s)) |-> Msg(w, "scalar", <<"ieval", p, i>>)]])
  \* advice evaluations, per proof
  \o FlattenSeq([p \in 1..s.nproofs |->
     [i \in 1..Len(s.advq) |-> Msg(w, "scalar", <<"aeval", p, i>>)]])
  \* fixed evaluations (shared)
  \o [i \in 1..Len(s.fixq) |-> Msg(w, "scalar", <<"feval", i>>)]
  \* random polynomial
  \o << Msg(w, "scalar", <<"reval">>) >>
  \* common permutation evaluations (one per permutation column)
  \o [i \in 1..s.permcols |-> Msg(w, "scalar", <<"sigma", i>>)]
  \* permutation products: eval, next eval, and last eval on all but the final set
  \o FlattenSeq([p \in 1..s.nproofs |->
       FlattenSeq([k \in 1..NSets(s) |->
          << Msg(w, "scalar", <<"zeval", p, k>>), Msg(w, "scalar", <<"znext", p, k>>) >>
          \o (IF k < NSets(s) THEN << Msg(w, "scalar", <<"zlast", p, k>>) >> ELSE <<>>)])])
  \* lookups: five evaluations each
  \o FlattenSeq([p \in 1..s.nproofs |->
       FlattenSeq([l \in 1..s.nlookups |->
          [e \in 1..5 |-> Msg(w, "scalar", <<"leval", p, l, e>>)]])])
  \* trash: one evaluation each
  \o FlattenSeq([p \in 1..s.nproofs |->
       [t \in 1..s.ntrash |-> Msg(w, "scalar", <<"teval", p, t>>)]])

---------------------------------------------------------------------------
(* Query lists handed to the multi-opening.  A point is a rotation of x    *)
(* (an integer); "last" is the rotation -(blinding+1).                     *)
Q(com, rot) == [com |-> com, pt |-> rot, ev |-> 0]

ProverQueries(s) ==        \* prover.rs::compute_queries
  FlattenSeq([p \in 1..s.nproofs |->
     LET cq == CommittedInstQ(s) IN
     [i \in 1..Len(cq) |-> Q(<<"inst", p, cq[i][1]>>, cq[i][2])]
     \o [i \in 1..Len(s.advq) |-> Q(<<"adv", p, s.advq[i][1]>>, s.advq[i][2])]
     \o FlattenSeq([k \in 1..NSets(s) |-> << Q(<<"z", p, k>>, 0), Q(<<"z", p, k>>, 1) >>])
     \o [k \in 1..(NSets(s) - 1) |-> Q(<<"z", p, NSets(s) - k>>, LastRot(s))]
     \o FlattenSeq([l \in 1..s.nlookups |->
          << Q(<<"lz", p, l>>, 0), Q(<<"lpi", p, l>>, 0), Q(<<"lpt", p, l>>, 0),
             Q(<<"lpi", p, l>>, -1), Q(<<"lz", p, l>>, 1) >>])
     \o [t \in 1..s.ntrash |-> Q(<<"trash", p, t>>, 0)]])
  \o [i \in 1..Len(s.fixq) |-> Q(<<"fix", s.fixq[i][1]>>, s.fixq[i][2])]
  \o [i \in 1..s.permcols |-> Q(<<"sigma", i>>, 0)]
  \o << Q(<<"h">>, 0), Q(<<"random">>, 0) >>

VerifierQueries(s) ==      \* verifier.rs::verify_algebraic_constraints
  FlattenSeq([p \in 1..s.nproofs |->
     LET cq == CommittedInstQ(s) IN
     [i \in 1..Len(cq) |-> Q(<<"inst", p, cq[i][1]>>, cq[i][2])]
     \o [i \in 1..Len(s.advq) |-> Q(<<"adv", p, s.advq[i][1]>>, s.advq[i][2])]
     \o FlattenSeq([k \in 1..NSets(s) |-> << Q(<<"z", p, k>>, 0), Q(<<"z", p, k>>, 1) >>])
     \o [k \in 1..(NSets(s) - 1) |-> Q(<<"z", p, NSets(s) - k>>, LastRot(s))]
     \o FlattenSeq([l \in 1..s.nlookups |->
          << Q(<<"lz", p, l>>, 0), Q(<<"lpi", p, l>>, 0), Q(<<"lpt", p, l>>, 0),
             Q(<<"lpi", p, l>>, -1), Q(<<"lz", p, l>>, 1) >>])
     \o [t \in 1..s.ntrash |-> Q(<<"trash", p, t>>, 0)]])
  \o [i \in 1..Len(s.fixq) |-> Q(<<"fix", s.fixq[i][1]>>, s.fixq[i][2])]
  \o [i \in 1..s.permcols |-> Q(<<"sigma", i>>, 0)]
  \o (IF Mutation = "verifier_splits_h"
      THEN [i \in 1..s.nquot |-> Q(<<"h", i>>, i)]    \* pieces opened at different points
      ELSE << Q(<<"h">>, 0) >>)                        \* one chopped commitment, one point
  \o << Q(<<"random">>, 0) >>

MultiOpen(w, qs) ==
  << Squeeze(<<"x1">>), Squeeze(<<"x2">>), Msg(w, "point", <<"f">>), Squeeze(<<"x3">>) >>
  \o [k \in 1..NumPointSets(qs) |-> Msg(w, "scalar", <<"qeval", k>>)]
  \o << Squeeze(<<"x4">>), Msg(w, "point", <<"pi">>) >>

---------------------------------------------------------------------------
ProverProgram(s) ==
  << Common("scalar", <<"vk", VkId(s)>>) >>
  \o InstancesP(s)
  \o AdvicePhases(s, "write")
  \o << Squeeze(<<"theta">>) >>
  \o LookupPermuted(s, "write")
  \o << Squeeze(<<"beta">>), Squeeze(<<"gamma">>) >>
  \o PermProducts(s, "write")
  \o LookupProducts(s, "write")
  \o << Squeeze(<<"trashch">>) >>
  \o TrashCommits(s, "write")
  \o << Msg("write", "point", <<"random">>) >>
  \o << Squeeze(<<"y">>) >>
  \o Quotient(s, "write")
  \o << Squeeze(<<"x">>) >>
  \o Evals(s, "write")
  \o MultiOpen("write", ProverQueries(s))

VerifierProgram(s) ==
  << Common("scalar", <<"vk", VkId(s)>>) >>
  \o InstancesV(s)
  \o AdvicePhases(s, "read")
  \o << Squeeze(<<"theta">>) >>
  \o LookupPermuted(s, "read")
  \o << Squeeze(<<"beta">>), Squeeze(<<"gamma">>) >>
  \o PermProducts(s, "read")
  \o LookupProducts(s, "read")
  \o << Squeeze(<<"trashch">>) >>
  \o TrashCommits(s, "read")
  \o << Msg("read", "point", <<"random">>) >>
  \o << Squeeze(<<"y">>) >>
  \o Quotient(s, "read")
  \o << Squeeze(<<"x">>) >>
  \o Evals(s, "read")
  \o MultiOpen("read", VerifierQueries(s))

---------------------------------------------------------------------------
(* Transcript semantics, shared by the model checker and the trace spec.   *)
(* `val` is what gets absorbed: the symbolic tag in the model, the logged  *)
(* value id in a recorded trace.                                           *)
PAct(op, kind, val) ==
  /\ absP' = Append(absP, val)
  /\ chan' = IF op = "write" THEN Append(chan, [kind |-> kind, val |-> val]) ELSE chan
  /\ UNCHANGED <<absV, verdict, tamper>>

\* a read is enabled only if the next proof element exists and decodes as `kind`
ReadOk(kind) == chan # <<>> /\ Head(chan).kind = kind

VAct(op, kind, val) ==
  /\ IF op = "read"
     THEN /\ ReadOk(kind)
          /\ val = Head(chan).val
          /\ chan' = Tail(chan)
     ELSE chan' = chan
  /\ absV' = Append(absV, val)
  /\ UNCHANGED <<absP, verdict, tamper>>

PDone == verdict # "setup" /\ pcP > Len(progP)
VDone == verdict # "setup" /\ pcV > Len(progV)

PStep ==
  /\ ~PDone /\ verdict = "none"
  /\ PAct(progP[pcP].op, progP[pcP].kind, progP[pcP].tag)
  /\ pcP' = pcP + 1
  /\ UNCHANGED <<sh, progP, progV, pcV>>

VStep ==
  /\ PDone /\ ~VDone /\ verdict = "none"
  /\ LET o == progV[pcV] IN
       IF o.op = "read" /\ ~ReadOk(o.kind)
       THEN /\ verdict' = "err"          \* decode error / proof exhausted
            /\ UNCHANGED <<absP, absV, chan, pcV, tamper>>
       ELSE /\ VAct(o.op, o.kind, IF o.op = "read" THEN Head(chan).val ELSE o.tag)
            /\ pcV' = pcV + 1
  /\ UNCHANGED <<sh, progP, progV, pcP>>

\* trailing bytes are an error; challenges agree iff absorbed sequences agree
Finish ==
  /\ PDone /\ VDone /\ verdict = "none"
  /\ verdict' = IF chan = <<>> /\ absP = absV THEN "ok" ELSE "err"
  /\ UNCHANGED <<sh, progP, progV, pcP, pcV, absP, absV, chan, tamper>>

\* A run starts with the shape only; `Setup` derives the two programs from it
\* (key generation fixes the constraint system before anything is absorbed).
InitWith(s) ==
  /\ sh = s
  /\ progP = <<>> /\ progV = <<>>
  /\ pcP = 1 /\ pcV = 1
  /\ absP = <<>> /\ absV = <<>> /\ chan = <<>>
  /\ verdict = "setup"
  /\ tamper = NoTamper

Setup ==
  /\ verdict = "setup"
  /\ progP' = ProverProgram(sh)
  /\ progV' = VerifierProgram(sh)
  /\ verdict' = "none"
  /\ UNCHANGED <<sh, pcP, pcV, absP, absV, chan, tamper>>

---------------------------------------------------------------------------
(* C03: one adversarial edit between proving and verifying.  Either the    *)
(* proof bytes change (an element is replaced by another well-formed value *)
(* or by something that does not decode, the proof is truncated or         *)
(* extended), or the verifier is given another statement or key.           *)
SeqRemoveLast(q) == SubSeq(q, 1, Len(q) - 1)
EditCol(s, p, j, col) == [s EXCEPT !.plainv[p][j] = col]
StatementEdits(s) ==
  IF "plainv" \notin DOMAIN s THEN {} ELSE
  LET cells == {<<p, j>> : p \in 1..s.nproofs, j \in 1..Len(s.plainv[1])} IN
  { [name |-> <<"change", c[1], c[2]>>,
     sh |-> EditCol(s, c[1], c[2], [s.plainv[c[1]][c[2]] EXCEPT ![1] = 9999])] :
       c \in {d \in cells : Len(s.plainv[d[1]][d[2]]) >= 1} }
  \cup
  { [name |-> <<"swap", c[1], c[2]>>,
     sh |-> EditCol(s, c[1], c[2],
              [s.plainv[c[1]][c[2]] EXCEPT ![1] = s.plainv[c[1]][c[2]][2],
                                            ![2] = s.plainv[c[1]][c[2]][1]])] :
       c \in {d \in cells : Len(s.plainv[d[1]][d[2]]) >= 2} }
  \cup
  { [name |-> <<"drop_last", c[1], c[2]>>,
     sh |-> EditCol(s, c[1], c[2], SeqRemoveLast(s.plainv[c[1]][c[2]]))] :
       c \in {d \in cells : Len(s.plainv[d[1]][d[2]]) >= 1} }
  \cup
  { [name |-> <<"append_zero", c[1], c[2]>>,
     sh |-> EditCol(s, c[1], c[2], Append(s.plainv[c[1]][c[2]], 0))] : c \in cells }
  \cup
  \* move the last value of a column to the front of the next one: the flat
  \* sequence of values is unchanged, only the lengths tell the difference
  { [name |-> <<"move", c[1], c[2]>>,
     sh |-> [s EXCEPT !.plainv[c[1]][c[2]] = SeqRemoveLast(@),
                      !.plainv[c[1]][c[2] + 1] =
                         <<s.plainv[c[1]][c[2]][Len(s.plainv[c[1]][c[2]])]>> \o @]] :
       c \in {d \in cells : d[2] < Len(s.plainv[1]) /\ Len(s.plainv[d[1]][d[2]]) >= 1} }
  \cup
  { [name |-> <<"committed", p, c>>, sh |-> [s EXCEPT !.comv[p][c] = 7777]] :
       p \in 1..s.nproofs, c \in 1..s.committed }
  \cup
  { [name |-> <<"key">>, sh |-> [s EXCEPT !.vkid = 2]] }

Adversary ==
  /\ AdversaryOn /\ PDone /\ pcV = 1 /\ verdict = "none" /\ tamper = NoTamper
  /\ \/ \E i \in 1..Len(chan) :
          /\ chan' = [chan EXCEPT ![i].val = <<"forged">>]
          /\ tamper' = <<"elem", i>> /\ progV' = progV
     \/ \E i \in 1..Len(chan) :
          /\ chan' = [chan EXCEPT ![i].kind = "undecodable"]
          /\ tamper' = <<"invalid", i>> /\ progV' = progV
     \/ \E n \in 0..(Len(chan) - 1) :
          /\ chan' = SubSeq(chan, 1, n)
          /\ tamper' = <<"trunc", n>> /\ progV' = progV
     \/ /\ chan' = Append(chan, [kind |-> "scalar", val |-> <<"extra">>])
        /\ tamper' = <<"append">> /\ progV' = progV
     \/ \E e \in StatementEdits(sh) :
          /\ progV' = VerifierProgram(e.sh)
          /\ tamper' = e.name /\ chan' = chan
  /\ UNCHANGED <<sh, progP, pcP, pcV, absP, absV, verdict>>

Next == Setup \/ PStep \/ Adversary \/ VStep \/ Finish

---------------------------------------------------------------------------
(* Properties                                                              *)

\* C01 (model level): the honest run of every shape is accepted.
Completeness == (tamper = NoTamper) => verdict # "err"
\* C03 (model level): after any single edit the verifier does not accept.
Binding == (tamper # NoTamper) => verdict # "ok"
Agreement == (PDone /\ VDone /\ tamper = NoTamper) => (absP = absV /\ chan = <<>>)

\* The verifier never reads an element as the wrong kind.
StreamTyped ==
  (PDone /\ ~VDone /\ tamper = NoTamper /\ progV[pcV].op = "read") => ReadOk(progV[pcV].kind)

\* C03 (reason): every absorbed element is followed by a challenge that enters
\* the final equation, except the opening proof pi which enters the pairing.
IsSq(o) == o.op = "squeeze"
EveryElementBound ==
  \A i \in 1..Len(progV) :
     ~IsSq(progV[i]) =>
        \/ \E j \in (i + 1)..Len(progV) : IsSq(progV[j])
        \/ (i = Len(progV) /\ progV[i].tag = <<"pi">>)

\* every plain instance column's length and every value is absorbed
LengthBound ==
  \A p \in 1..sh.nproofs : \A j \in 1..PlainCols(sh, p) :
     /\ \E i \in 1..Len(progV) : progV[i] = InstLen(sh, p, j)
     /\ \A v \in 1..Len(Vals(sh, p, j)) :
          \E i \in 1..Len(progV) : progV[i] = Common("scalar", <<"val", Vals(sh, p, j)[v]>>)

\* the verifying key is the first thing absorbed on both sides
KeyBound ==
  verdict = "setup" \/ (progP[1] = Common("scalar", <<"vk", VkId(sh)>>) /\ progV[1] = Common("scalar", <<"vk", VkId(sh)>>))

\* both sides hand the same query structure to the multi-opening
SameQueryStructure == NumPointSets(ProverQueries(sh)) = NumPointSets(VerifierQueries(sh))
NoDuplicateQuery == ~Duplicated(ProverQueries(sh)) /\ ~Duplicated(VerifierQueries(sh))
=============================================================================
