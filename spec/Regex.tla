-------------------------------- MODULE Regex --------------------------------
(***************************************************************************)
(* Regular expressions of circuits::parsing::regex (byte classes with      *)
(* output markers, concatenation, union, intersection, complement, strict  *)
(* and weak iteration) with Brzozowski derivatives over MARKED letters,    *)
(* and the product of the derivative automaton of an expression with a     *)
(* compiled automaton given as data (C19).                                 *)
(*                                                                         *)
(* An expression is a record with the SAME four fields at every node       *)
(*     [a_op, b_x, c_y, d_s]                                               *)
(* (a_op first, so that TLC never compares children of nodes of different  *)
(* kinds): "empty", "eps", "single" (d_s = set of <<byte, marker>>),       *)
(* "cat" (b_x, c_y), "union" / "inter" (d_s = set of expressions: this is  *)
(* the associative-commutative-idempotent normal form that makes the set   *)
(* of derivatives finite), "star" (b_x; c_y = 1 for the strict iteration), *)
(* "neg" (b_x).  Markers never occur under complements (the library        *)
(* forbids it); under intersection marker 0 unifies with any marker.       *)
(*                                                                         *)
(* The marked language of the compiled automaton equals the marked         *)
(* language of the expression iff in every reachable state (q, r) of the   *)
(* product, q is final exactly when r is nullable; the automaton moves on  *)
(* <<b, m>> to its b-successor if it emits marker m there and to the dead  *)
(* state otherwise.                                                        *)
(***************************************************************************)
EXTENDS Integers, Sequences, FiniteSets, TLC, Json, IOUtils

Nil == 0
Node(op, x, y, s) == [a_op |-> op, b_x |-> x, c_y |-> y, d_s |-> s]
Empty == Node("empty", Nil, Nil, {})
Eps == Node("eps", Nil, Nil, {})
Single(ls) == IF ls = {} THEN Empty ELSE Node("single", Nil, Nil, ls)
AnyW == Node("neg", Empty, Nil, {})        \* every word

\* ---- smart constructors (normal forms) -----------------------------------
Cat(l, r) ==
  IF l = Empty \/ r = Empty THEN Empty
  ELSE IF l = Eps THEN r
  ELSE IF r = Eps THEN l
  ELSE Node("cat", l, r, {})

Flat(op, S) == UNION { IF e.a_op = op THEN e.d_s ELSE {e} : e \in S }
Union(S) ==
  LET F == Flat("union", S) \ {Empty} IN
  IF F = {} THEN Empty
  ELSE IF AnyW \in F THEN AnyW
  ELSE IF Cardinality(F) = 1 THEN CHOOSE e \in F : TRUE
  ELSE Node("union", Nil, Nil, F)
Inter(S) ==
  LET F == Flat("inter", S) \ {AnyW} IN
  IF Empty \in F THEN Empty
  ELSE IF F = {} THEN AnyW
  ELSE IF Cardinality(F) = 1 THEN CHOOSE e \in F : TRUE
  ELSE Node("inter", Nil, Nil, F)
Neg(e) == IF e.a_op = "neg" THEN e.b_x ELSE Node("neg", e, Nil, {})
Star(strict, e) ==
  IF e = Empty THEN (IF strict THEN Empty ELSE Eps)
  ELSE IF e = Eps THEN Eps
  ELSE Node("star", e, IF strict THEN 1 ELSE 0, {})

\* ---- semantics ------------------------------------------------------------
RECURSIVE Nullable(_)
Nullable(r) ==
  CASE r.a_op = "empty"  -> FALSE
    [] r.a_op = "eps"    -> TRUE
    [] r.a_op = "single" -> FALSE
    [] r.a_op = "cat"    -> Nullable(r.b_x) /\ Nullable(r.c_y)
    [] r.a_op = "union"  -> \E e \in r.d_s : Nullable(e)
    [] r.a_op = "inter"  -> \A e \in r.d_s : Nullable(e)
    [] r.a_op = "star"   -> r.c_y = 0 \/ Nullable(r.b_x)
    [] r.a_op = "neg"    -> ~Nullable(r.b_x)

RECURSIVE D(_, _)
D(r, x) ==       \* derivative w.r.t. the marked letter x = <<byte, marker>>
  CASE r.a_op = "empty"  -> Empty
    [] r.a_op = "eps"    -> Empty
    [] r.a_op = "single" -> IF x \in r.d_s THEN Eps ELSE Empty
    [] r.a_op = "cat"    -> LET dl == Cat(D(r.b_x, x), r.c_y) IN
                            IF Nullable(r.b_x) THEN Union({dl, D(r.c_y, x)}) ELSE dl
    [] r.a_op = "union"  -> Union({D(e, x) : e \in r.d_s})
    \* intersection unifies marker 0 with any marker: the letter <<b, m>>, m # 0, of the intersection comes from operands reading
    \* b with marker m (at least one of them) or unmarked
    [] r.a_op = "inter"  -> IF x[2] = 0 THEN Inter({D(e, x) : e \in r.d_s})
                            ELSE Union({ Inter({D(e, x) : e \in T} \cup {D(e, <<x[1], 0>>) : e \in r.d_s \ T})
                                         : T \in (SUBSET r.d_s) \ {{}} })
    [] r.a_op = "star"   -> Cat(D(r.b_x, x), Star(FALSE, r.b_x))
    \* a complement is unmarked (the library forbids markers under it)
    [] r.a_op = "neg"    -> IF x[2] = 0 THEN Neg(D(r.b_x, x)) ELSE Empty

\* ---- input: expression and compiled automaton ----------------------------
Case == JsonDeserialize(IOEnv.CASE)

RECURSIVE FromJson(_)
SeqSet(s) == {s[i] : i \in 1..Len(s)}
FromJson(j) ==
  CASE j.op = "single" -> Single({<<p[1], p[2]>> : p \in SeqSet(j.ls)})
    [] j.op = "eps"    -> Eps
    [] j.op = "empty"  -> Empty
    [] j.op = "cat"    -> Cat(FromJson(j.x), FromJson(j.y))
    [] j.op = "union"  -> Union({FromJson(e) : e \in SeqSet(j.s)})
    [] j.op = "inter"  -> Inter({FromJson(e) : e \in SeqSet(j.s)})
    [] j.op = "star"   -> Star(j.strict, FromJson(j.x))
    [] j.op = "neg"    -> Neg(FromJson(j.x))

Expr == FromJson(Case.expr)
Aut == Case.automaton          \* [nb_states, initial, finals (seq), trans (seq of <<q, byte, q2, marker>>)]
Letters == SeqSet(Case.letters) \* representative bytes (mentioned bytes + one other)
Markers == SeqSet(Case.markers) \cup {0}
Dead == -1
Finals == SeqSet(Aut.finals)
Trans == SeqSet(Aut.trans)

Step(q, b, m) ==
  IF q = Dead THEN Dead
  ELSE IF \E t \in Trans : t[1] = q /\ t[2] = b /\ t[4] = m
       THEN (CHOOSE t \in Trans : t[1] = q /\ t[2] = b /\ t[4] = m)[3]
       ELSE Dead

\* the compiled automaton is deterministic on bytes
Deterministic == \A t, u \in Trans : (t[1] = u[1] /\ t[2] = u[2]) => t = u

VARIABLES q, r
vars == <<q, r>>
Init == q = Aut.initial /\ r = Expr
Next == \E b \in Letters, m \in Markers : q' = Step(q, b, m) /\ r' = D(r, <<b, m>>)
Spec == Init /\ [][Next]_vars

\* C19: same marked language (all words)
SameLanguage == (q \in Finals) <=> Nullable(r)
Inv == SameLanguage /\ Deterministic
=============================================================================
