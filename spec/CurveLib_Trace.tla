--------------------------- MODULE CurveLib_Trace ---------------------------
(* C11 replay validation: every line is one call of the curve library       *)
(* (midnight-curves) - addition and subtraction in every mix of             *)
(* representations and operator forms, doubling, negation, equality,        *)
(* summation, scalar multiplication, batch normalisation, conversions and    *)
(* encodings - with its arguments and result as affine coordinates.  TLC    *)
(* recomputes the result with the group law of Curve.tla over BigNat.       *)
(* Encoding laws (no model of the byte format is needed): decoding an        *)
(* encoding gives the point back; whatever a checked decoder accepts         *)
(* re-encodes to the same bytes, is on the curve and, where the type         *)
(* promises it, in the prime-order subgroup; the unchecked decoder accepts   *)
(* whatever the checked one accepts.                                        *)
EXTENDS Tower, Json, IOUtils, Sequences, TLC

Rec == ndJsonDeserialize(IOEnv.TRACE)
VARIABLE l
Ev == Rec[l]
Has(e, f) == f \in DOMAIN e

P(j) == [id |-> j.id, x |-> j.x, y |-> j.y]
\* decoders of these curve types promise the prime-order subgroup
PromisesSubgroup(curve) == curve \in {"bls12_381_g1", "bls12_381_g2", "secp256k1", "jubjub_subgroup"}
\* the twists over Fp2 (coordinates are pairs) use the group law of Tower.tla
IsG2(cn) == cn \in {"bls12_381_g2", "bn256_g2"}

Expected(c, e) ==
  LET PA == P(e.ins[1])
      PB == IF Len(e.ins) >= 2 THEN P(e.ins[2]) ELSE Id(c)
  IN CASE e.op = "add" -> PAdd(c, PA, PB)
       [] e.op = "sub" -> PSub(c, PA, PB)
       [] e.op = "sum3" -> PAdd(c, PAdd(c, PA, PB), PA)
       [] e.op = "double" -> PDbl(c, PA)
       [] e.op = "neg" -> Neg(c, PA)
       [] e.op = "mul" -> PMul(c, e.scalars[1], PA)
       [] e.op \in {"affine_roundtrip", "batch_normalize"} -> PA

Expected2(c, e) ==
  LET PA == P(e.ins[1])
      PB == IF Len(e.ins) >= 2 THEN P(e.ins[2]) ELSE Inf2
  IN CASE e.op = "add" -> Add2(c, PA, PB)
       [] e.op = "sub" -> Sub2(c, PA, PB)
       [] e.op = "sum3" -> Add2(c, Add2(c, PA, PB), PA)
       [] e.op = "double" -> Dbl2(c, PA)
       [] e.op = "neg" -> Neg2(c, PA)
       [] e.op = "mul" -> Mul2(c, e.scalars[1], PA)
       [] e.op \in {"affine_roundtrip", "batch_normalize"} -> PA

G2OK(e) ==
  LET c == G2Of(e.curve)  m == c.T.m IN
  /\ e.status = "ok"
  /\ \A i \in 1..Len(e.ins) : OnCurve2(c, P(e.ins[i]))
  /\ CASE e.op \in {"add", "sub", "sum3", "double", "neg", "mul", "affine_roundtrip", "batch_normalize"} ->
            P(e.out) = Expected2(c, e)
       [] e.op = "eq" -> e.out = (P(e.ins[1]) = P(e.ins[2]))
       [] e.op = "is_identity" -> e.out = P(e.ins[1]).id
       \* the published generator: a point of the curve, of order r, not the identity
       [] e.op = "g2_constants" -> LET G == P(e.out.generator) IN ~G.id /\ InSubgroup2(c, G)
       [] e.op = "jacobian" ->
            LET A == P(e.ins[1])  Z2 == QSqr(e.out.Z, m) IN
            IF A.id THEN e.out.Z = QZero
            ELSE /\ e.out.Z # QZero
                 /\ QMul(A.x, Z2, m) = e.out.X
                 /\ QMul(A.y, QMul(Z2, e.out.Z, m), m) = e.out.Y
       [] e.op \in {"new_jacobian_roundtrip", "new_jacobian_scaled"} ->
            (P(e.ins[1]).id /\ e.op = "new_jacobian_scaled") \/ (e.out.some = TRUE /\ P(e.out.point) = P(e.ins[1]))
       [] e.op = "codec_roundtrip" -> Has(e.out, "decoded") /\ P(e.out.decoded) = P(e.ins[1]) /\ e.out.same = TRUE
       [] e.op = "codec_affine_same_bytes" -> e.out.same = TRUE
       [] e.op = "codec_corrupt" ->
            e.out.accepted =>
              /\ e.out.reencodes_same = TRUE
              /\ OnCurve2(c, P(e.out.decoded))
              /\ P(e.out.decoded) # P(e.ins[1])
              /\ PromisesSubgroup(e.curve) => InSubgroup2(c, P(e.out.decoded))
              /\ Has(e.out, "unchecked_accepted") => e.out.unchecked_accepted = TRUE

GOK(e) ==
  IF IsG2(e.curve) THEN G2OK(e) ELSE
  LET c == CurveOf(e.curve) IN
  /\ e.status = "ok"
  /\ \A i \in 1..Len(e.ins) : OnCurve(c, P(e.ins[i]))
  /\ CASE e.op \in {"add", "sub", "sum3", "double", "neg", "mul", "affine_roundtrip", "batch_normalize"} ->
            P(e.out) = Expected(c, e)
       [] e.op = "eq" -> e.out = (P(e.ins[1]) = P(e.ins[2]))
       [] e.op = "is_identity" -> e.out = IsId(c, P(e.ins[1]))
       \* cofactor curves: multiplication by the cofactor, the order predicates, and the decoders' promises
       [] e.op \in {"mul_by_cofactor", "clear_cofactor"} -> P(e.out) = PMul(c, OfInt(c.h), P(e.ins[1]))
       [] e.op = "torsion_flags" ->
            LET A == P(e.ins[1])  tf == PMul(c, c.r, A) = Id(c) IN
            /\ e.out.small_order = (PMul(c, OfInt(c.h), A) = Id(c))
            /\ e.out.torsion_free = tf
            /\ e.out.prime_order = (tf /\ A # Id(c))
            /\ e.out.into_subgroup = tf
       [] e.op = "decode_outside" ->
            LET A == P(e.ins[1]) IN
            /\ P(e.out.extended) = A /\ P(e.out.affine) = A
            /\ e.out.subgroup_accepts = InSubgroup(c, A)
       \* Jacobian coordinates (X, Y, Z) name the affine point (X / Z^2, Y / Z^3); Z = 0 names the identity
       [] e.op = "jacobian" ->
            LET A == P(e.ins[1])  Z2 == MulM(e.out.Z, e.out.Z, c.p) IN
            IF A.id THEN e.out.Z = Zero
            ELSE /\ e.out.Z # Zero
                 /\ MulM(A.x, Z2, c.p) = e.out.X
                 /\ MulM(A.y, MulM(Z2, e.out.Z, c.p), c.p) = e.out.Y
       [] e.op \in {"new_jacobian_roundtrip", "new_jacobian_scaled"} ->
            (P(e.ins[1]).id /\ e.op = "new_jacobian_scaled") \/ (e.out.some = TRUE /\ P(e.out.point) = P(e.ins[1]))
       [] e.op = "codec_roundtrip" -> Has(e.out, "decoded") /\ P(e.out.decoded) = P(e.ins[1]) /\ e.out.same = TRUE
       [] e.op = "codec_affine_same_bytes" -> e.out.same = TRUE
       [] e.op = "codec_corrupt" ->
            e.out.accepted =>
              /\ e.out.reencodes_same = TRUE
              /\ OnCurve(c, P(e.out.decoded))
              /\ P(e.out.decoded) # P(e.ins[1])
              /\ PromisesSubgroup(e.curve) => InSubgroup(c, P(e.out.decoded))
              /\ Has(e.out, "unchecked_accepted") => e.out.unchecked_accepted = TRUE

CurveOK(e) ==
  LET c == CurveOf(e.curve) IN
  /\ Trim(e.p) = c.p /\ Trim(e.r) = c.r /\ Trim(e.a) = c.a
  /\ Trim(IF c.form = "w" THEN e.b ELSE e.d) = c.b
  /\ Pt(Trim(e.gx), Trim(e.gy)) = c.g

TInitL == l = 1
THeader == l <= Len(Rec) /\ Ev.ev = "header" /\ l' = l + 1
TCurve == l <= Len(Rec) /\ Ev.ev = "Curve" /\ CurveOK(Ev) /\ l' = l + 1
TG == l <= Len(Rec) /\ Ev.ev = "G" /\ GOK(Ev) /\ l' = l + 1
TraceSpec == TInitL /\ [][THeader \/ TCurve \/ TG]_l

TraceAccepted ==
  LET d == TLCGet("stats").diameter IN
  IF d - 1 = Len(Rec) THEN TRUE
  ELSE Print(<<"TRACE-REJECTED first unmatched line", d, "of", Len(Rec)>>, FALSE)
=============================================================================
