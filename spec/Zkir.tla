-------------------------------- MODULE Zkir --------------------------------
(***************************************************************************)
(* The ZKIR intermediate representation (zkir/src): six value types,       *)
(* seventeen operations, arity table, typing rules, failure conditions,    *)
(* memory of named typed values, `Publish` accumulation (C18).             *)
(*                                                                         *)
(* The specification is a generator-with-oracle: a behaviour builds one    *)
(* straight-line program instruction by instruction together with a        *)
(* witness, and tracks what evaluating it must yield:                      *)
(*   "published"    evaluation succeeds                                    *)
(*   "load_error"   the program is refused when loaded (arity)             *)
(*   "exec_error"   ill-typed operands / unsupported operation / unknown   *)
(*                  or duplicate name / ill-typed witness                  *)
(*   "failed"       an assertion, range, underflow or encoding condition   *)
(*                  is violated by the witness                             *)
(*   "any"          the model does not determine it (opaque values)        *)
(* Values of Bool, Native, BigUint and Bytes are computed exactly while    *)
(* they stay small; curve points, scalars and digests are opaque.          *)
(***************************************************************************)
EXTENDS Integers, Sequences, FiniteSets, TLC, Json

CONSTANTS MaxLen, Emit, Directed

VARIABLES prog,    \* sequence of instructions [op, inputs, outputs]
          env,     \* sequence of [name, t, known, i, bs, bits]
          wit,     \* sequence of [name, val] (witness entries as JSON-able records)
          status,  \* "ok" | "load_error" | "exec_error" | "failed" | "any"
          npub,    \* number of published values so far
          lastp,   \* the last instruction was a publish
          fresh
vars == <<prog, env, wit, status, npub, lastp, fresh>>

T(k, n) == [k |-> k, n |-> n]
TBool == T("Bool", 0)      TNative == T("Native", 0)
TPoint == T("Point", 0)    TScalar == T("Scalar", 0)
TBytes(n) == T("Bytes", n) TBig(n) == T("BigUint", n)

TypeJson(t) ==
  CASE t.k = "Bool"    -> "Bool"
    [] t.k = "Native"  -> "Native"
    [] t.k = "Point"   -> "JubjubPoint"
    [] t.k = "Scalar"  -> "JubjubScalar"
    [] t.k = "Bytes"   -> [Bytes |-> t.n]
    [] t.k = "BigUint" -> [BigUint |-> t.n]

Name(n) == "v" \o ToString(n)

\* ---- values -------------------------------------------------------------
Known(i)      == [known |-> TRUE,  i |-> i, bs |-> <<>>, bits |-> -1]
KnownBytes(b) == [known |-> TRUE,  i |-> 0, bs |-> b,    bits |-> -1]
Opaque        == [known |-> FALSE, i |-> 0, bs |-> <<>>, bits |-> -1]
OpaqueBits(b) == [known |-> FALSE, i |-> 0, bs |-> <<>>, bits |-> b]

RECURSIVE BitLen(_)
BitLen(x) == IF x = 0 THEN 0 ELSE 1 + BitLen(x \div 2)
RECURSIVE Pow(_, _)
Pow(b, e) == IF e = 0 THEN 1 ELSE b * Pow(b, e - 1)
Small(x) == x >= -4000000 /\ x <= 4000000
RECURSIVE LeBytes(_, _)
LeBytes(x, n) == IF n = 0 THEN <<>> ELSE <<x % 256>> \o LeBytes(x \div 256, n - 1)
RECURSIVE FromLe(_)
FromLe(b) == IF b = <<>> THEN 0 ELSE b[1] + 256 * FromLe(Tail(b))
Fits(x, n) == n >= 3 \/ x < Pow(256, n)       \* x < 2^22 always

\* ---- witness menu ---------------------------------------------------------
\* each entry: [t, v (model value), j (JSON witness value)]
WitMenu ==
  { [t |-> TBool, v |-> Known(b), j |-> [k |-> "Bool", v |-> b]] : b \in {0, 1} }
  \cup { [t |-> TNative, v |-> Known(x), j |-> [k |-> "Native", v |-> x]] : x \in {0, 1, 2, 255, 256, 65535, -1, -7} }
  \cup { [t |-> TNative, v |-> Opaque, j |-> [k |-> "Native", s |-> "half"]] }
  \cup UNION { { [t |-> TBig(n), v |-> [Known(x) EXCEPT !.bits = BitLen(x)], j |-> [k |-> "BigUint", v |-> x]] :
                    x \in {y \in {0, 1, 3, 200, 255, 4660, 65535} : BitLen(y) <= n} } : n \in {1, 8, 16, 64} }
  \cup { [t |-> TBig(n), v |-> OpaqueBits(n), j |-> [k |-> "BigUint", pow2 |-> n, minus |-> 1]] : n \in {64, 200, 257} }
  \* values of two and three limbs (96 bits each) whose low limb is the small value 3
  \cup { [t |-> TBig(n + 1), v |-> OpaqueBits(n + 1), j |-> [k |-> "BigUint", pow2 |-> n, plus |-> 3]] : n \in {96, 192} }
  \cup { [t |-> TBytes(n), v |-> KnownBytes([i \in 1..n |-> (37 * i + n) % 256]), j |-> [k |-> "Bytes", v |-> [i \in 1..n |-> (37 * i + n) % 256]]] :
           n \in {0, 1, 2, 4, 31, 32, 33, 70} }
  \cup { [t |-> TPoint, v |-> Opaque, j |-> [k |-> "Point", v |-> d]] : d \in {0, 1, 2, -1} }
  \cup { [t |-> TScalar, v |-> Opaque, j |-> [k |-> "Scalar", v |-> d]] : d \in {0, 1, 7} }
  \cup { [t |-> TScalar, v |-> Opaque, j |-> [k |-> "Scalar", s |-> "minus1"]] }

\* ill-typed witnesses: the declared type and the supplied value disagree
BadWitMenu ==
  { [t |-> TBool, j |-> [k |-> "Native", v |-> 1]],
    [t |-> TNative, j |-> [k |-> "Bool", v |-> 1]],
    [t |-> TBig(8), j |-> [k |-> "BigUint", v |-> 256]],
    [t |-> TBytes(4), j |-> [k |-> "Bytes", v |-> <<1, 2, 3>>]],
    [t |-> TPoint, j |-> [k |-> "Scalar", v |-> 3]] }

\* ---- constants in the surface syntax -----------------------------------
ConstMenu ==
  { [s |-> "1", t |-> TBool, v |-> Known(1)],
    [s |-> "0", t |-> TBool, v |-> Known(0)],
    [s |-> "Native:05", t |-> TNative, v |-> Known(5)],
    [s |-> "Native:-0x11", t |-> TNative, v |-> Known(-17)],
    [s |-> "BigUint:0x1234", t |-> TBig(13), v |-> [Known(4660) EXCEPT !.bits = 13]],
    \* constants whose bit length is a multiple of the limb size (96), and one just above
    [s |-> "BigUint:0x800000000000000000000000", t |-> TBig(96), v |-> OpaqueBits(96)],
    [s |-> "BigUint:0xFFFFFFFFFFFFFFFFFFFFFFFFFFFFFFFFFFFFFFFFFFFFFFFF", t |-> TBig(192), v |-> OpaqueBits(192)],
    [s |-> "BigUint:0x1000000000000000000000000", t |-> TBig(97), v |-> OpaqueBits(97)],
    [s |-> "0xFF0A00", t |-> TBytes(3), v |-> KnownBytes(<<255, 10, 0>>)],
    [s |-> "Jubjub:GENERATOR", t |-> TPoint, v |-> Opaque],
    [s |-> "Jubjub:IDENTITY", t |-> TPoint, v |-> Opaque],
    [s |-> "JubjubScalar:FF", t |-> TScalar, v |-> Opaque] }
BadConsts == {"Native:zz", "0xAAA", "Jubjub:00", "nosuchname"}

\* ---- operands -------------------------------------------------------------
Recent == IF Len(env) <= 5 THEN env ELSE SubSeq(env, Len(env) - 4, Len(env))
\* (directed modes - see DirectedNext / DirectedNext2 - work on the most recently bound name, or on the last two, only)
OperandOf(e) == [s |-> e.name, t |-> e.t, v |-> [known |-> e.known, i |-> e.i, bs |-> e.bs, bits |-> e.bits]]
Operands ==
  IF Directed = 1 /\ env # <<>> THEN { OperandOf(env[Len(env)]) }
  ELSE IF Directed = 2 /\ env # <<>> THEN { OperandOf(env[i]) : i \in {j \in 1..Len(env) : j >= Len(env) - 1} }
  ELSE
  { [s |-> Recent[i].name, t |-> Recent[i].t, v |-> [known |-> Recent[i].known, i |-> Recent[i].i, bs |-> Recent[i].bs, bits |-> Recent[i].bits]] :
      i \in 1..Len(Recent) }
  \cup ConstMenu

Bind(name, t, v) == [name |-> name, t |-> t, known |-> v.known, i |-> v.i, bs |-> v.bs, bits |-> v.bits]
Instr(op, ins, outs) == [op |-> op, inputs |-> ins, outputs |-> outs]

\* result of an operation: [st, t, v] with st in {"ok", "exec_error", "failed", "any"}
R(st, t, v) == [st |-> st, t |-> t, v |-> v]
Err == R("exec_error", TBool, Opaque)
Fail == R("failed", TBool, Opaque)

SameType(a, b) == a.t.k = b.t.k /\ (a.t.k = "Bytes" => a.t.n = b.t.n)
ValEq(a, b) == IF a.t.k = "Bytes" THEN a.v.bs = b.v.bs ELSE a.v.i = b.v.i
BothKnown(a, b) == a.v.known /\ b.v.known

BigBits(v, dflt) == IF v.bits >= 0 THEN v.bits ELSE dflt

Arith(op, a, b) ==
  IF a.t.k = "Native" /\ b.t.k = "Native" THEN
       IF BothKnown(a, b) /\ Small(a.v.i) /\ Small(b.v.i) /\ (op = "mul" => (a.v.i >= -2000 /\ a.v.i <= 2000 /\ b.v.i >= -2000 /\ b.v.i <= 2000))
       THEN LET r == CASE op = "add" -> a.v.i + b.v.i [] op = "sub" -> a.v.i - b.v.i [] op = "mul" -> a.v.i * b.v.i
            IN IF Small(r) THEN R("ok", TNative, Known(r)) ELSE R("ok", TNative, Opaque)
       ELSE R("ok", TNative, Opaque)
  ELSE IF a.t.k = "BigUint" /\ b.t.k = "BigUint" THEN
       IF BothKnown(a, b) /\ (op = "mul" => (a.v.i < 2000 /\ b.v.i < 2000))
       THEN IF op = "sub" /\ a.v.i < b.v.i THEN Fail
            ELSE LET r == CASE op = "add" -> a.v.i + b.v.i [] op = "sub" -> a.v.i - b.v.i [] op = "mul" -> a.v.i * b.v.i
                 IN R("ok", TBig(0), [Known(r) EXCEPT !.bits = BitLen(r)])
       ELSE IF op = "sub" THEN R("any", TBig(0), Opaque) ELSE R("ok", TBig(0), Opaque)
  ELSE IF op \in {"add", "sub"} /\ a.t.k = "Point" /\ b.t.k = "Point" THEN R("ok", TPoint, Opaque)
  ELSE IF op = "mul" /\ a.t.k = "Scalar" /\ b.t.k = "Point" THEN R("ok", TPoint, Opaque)
  ELSE Err

EqKinds == {"Bool", "Bytes", "Native", "BigUint", "Point"}
Compare(op, a, b) ==
  \* in-circuit: same kind (and same length for bytes), not JubjubScalar
  IF ~(a.t.k \in EqKinds /\ SameType(a, b)) THEN Err
  ELSE IF a.s = b.s THEN          \* the very same operand: certainly equal
       CASE op = "assert_equal" -> R("ok", TBool, Opaque)
         [] op = "assert_not_equal" -> Fail
         [] op = "is_equal" -> R("ok", TBool, Known(1))
  ELSE IF BothKnown(a, b) THEN
       LET eq == ValEq(a, b) IN
       CASE op = "assert_equal" -> IF eq THEN R("ok", TBool, Opaque) ELSE Fail
         [] op = "assert_not_equal" -> IF eq THEN Fail ELSE R("ok", TBool, Opaque)
         [] op = "is_equal" -> R("ok", TBool, Known(IF eq THEN 1 ELSE 0))
  ELSE IF op = "is_equal" THEN R("ok", TBool, Opaque) ELSE R("any", TBool, Opaque)

IntoBytes(a, n) ==
  CASE a.t.k = "Native" ->
         IF n > 32 THEN Err        \* refused whatever the value: a static error
         ELSE IF a.v.known THEN
              IF a.v.i < 0 THEN (IF n = 32 THEN R("ok", TBytes(n), Opaque) ELSE Fail)
              ELSE IF Fits(a.v.i, n) THEN R("ok", TBytes(n), KnownBytes(LeBytes(a.v.i, n))) ELSE Fail
         ELSE R("any", TBytes(n), Opaque)
    [] a.t.k = "BigUint" ->
         IF a.v.known THEN
              IF Fits(a.v.i, n) THEN R("ok", TBytes(n), KnownBytes(LeBytes(a.v.i, n))) ELSE Fail
         ELSE IF a.v.bits >= 0 THEN (IF a.v.bits <= 8 * n THEN R("ok", TBytes(n), Opaque) ELSE Fail)
         ELSE R("any", TBytes(n), Opaque)
    [] a.t.k = "Point" -> IF n = 32 THEN R("ok", TBytes(32), Opaque) ELSE Err
    [] OTHER -> Err

FromBytes(t, a) ==
  IF a.t.k # "Bytes" THEN Err
  ELSE CASE t.k = "Native" ->
              IF a.v.known /\ a.t.n <= 2 THEN R("ok", TNative, Known(FromLe(a.v.bs))) ELSE R("ok", TNative, Opaque)
         [] t.k = "BigUint" ->
              IF t.n >= 8 * a.t.n
              THEN IF a.v.known /\ a.t.n <= 2
                   THEN R("ok", TBig(0), [Known(FromLe(a.v.bs)) EXCEPT !.bits = BitLen(FromLe(a.v.bs))])
                   ELSE R("ok", TBig(0), Opaque)
              ELSE Err
         [] t.k = "Point" -> IF a.t.n = 32 THEN R("any", TPoint, Opaque) ELSE Err
         [] t.k = "Scalar" -> R("ok", TScalar, Opaque)
         [] OTHER -> Err

---------------------------------------------------------------------------
Init ==
  /\ prog = <<>> /\ env = <<>> /\ wit = <<>> /\ status = "ok" /\ npub = 0 /\ lastp = FALSE /\ fresh = 1

Going == status = "ok" /\ Len(prog) < MaxLen

Append1(instr, binds, newwit, st, dpub) ==
  /\ prog' = Append(prog, instr)
  /\ env' = env \o binds
  /\ wit' = wit \o newwit
  /\ status' = st
  /\ npub' = npub + dpub
  /\ lastp' = (dpub > 0)
  /\ fresh' = fresh + Len(binds) + 1

ALoad ==
  /\ Going
  /\ \E w \in WitMenu :
       LET nm == Name(fresh) IN
       Append1(Instr([load |-> TypeJson(w.t)], <<>>, <<nm>>), <<Bind(nm, w.t, w.v)>>,
               <<[name |-> nm, val |-> w.j]>>, "ok", 0)

ALoad2 ==   \* two outputs of one type
  /\ Going
  /\ \E w1 \in {w \in WitMenu : w.t.k = "Native"}, w2 \in {w \in WitMenu : w.t.k = "Native"} :
       LET n1 == Name(fresh)  n2 == Name(fresh + 1) IN
       Append1(Instr([load |-> "Native"], <<>>, <<n1, n2>>), <<Bind(n1, TNative, w1.v), Bind(n2, TNative, w2.v)>>,
               <<[name |-> n1, val |-> w1.j], [name |-> n2, val |-> w2.j]>>, "ok", 0)

ABadLoad ==
  /\ Going
  /\ \E w \in BadWitMenu :
       LET nm == Name(fresh) IN
       Append1(Instr([load |-> TypeJson(w.t)], <<>>, <<nm>>), <<>>, <<[name |-> nm, val |-> w.j]>>, "exec_error", 0)

AMissingWitness ==
  /\ Going
  /\ Append1(Instr([load |-> "Native"], <<>>, <<Name(fresh)>>), <<>>, <<>>, "exec_error", 0)

ABinary ==
  /\ Going /\ env # <<>>
  /\ \E op \in {"add", "sub", "mul", "assert_equal", "assert_not_equal", "is_equal"} :
     \E a \in Operands, b \in Operands :
       LET r == IF op \in {"add", "sub", "mul"} THEN Arith(op, a, b) ELSE Compare(op, a, b)
           nm == Name(fresh)
           outs == IF op \in {"assert_equal", "assert_not_equal"} THEN <<>> ELSE <<nm>>
           binds == IF r.st \in {"ok", "any"} /\ outs # <<>> THEN <<Bind(nm, r.t, r.v)>> ELSE <<>>
       IN Append1(Instr(op, <<a.s, b.s>>, outs), binds, <<>>, IF r.st = "ok" THEN "ok" ELSE r.st, 0)

ANeg ==
  /\ Going /\ env # <<>>
  /\ \E a \in Operands :
       LET nm == Name(fresh)
           r == CASE a.t.k = "Native" -> R("ok", TNative, IF a.v.known THEN Known(0 - a.v.i) ELSE Opaque)
                  [] a.t.k = "Point" -> R("ok", TPoint, Opaque)
                  [] OTHER -> Err
       IN Append1(Instr("neg", <<a.s>>, <<nm>>), IF r.st = "ok" THEN <<Bind(nm, r.t, r.v)>> ELSE <<>>, <<>>, r.st, 0)

AModExp ==
  /\ Going /\ env # <<>>
  /\ \E e \in {0, 1, 3, 65537} : \E a \in Operands, m \in Operands :
       LET nm == Name(fresh)
           r == IF a.t.k = "BigUint" /\ m.t.k = "BigUint"
                THEN IF m.v.known /\ m.v.i = 0 THEN Fail      \* reduction modulo zero is not defined
                     ELSE IF BothKnown(a, m) /\ e <= 3 /\ a.v.i < 200
                          THEN R("ok", TBig(0), [Known(Pow(a.v.i, e) % m.v.i) EXCEPT !.bits = BitLen(Pow(a.v.i, e) % m.v.i)])
                          ELSE R(IF m.v.known THEN "ok" ELSE "any", TBig(0), Opaque)
                ELSE Err
       IN Append1(Instr([mod_exp |-> e], <<a.s, m.s>>, <<nm>>), IF r.st \in {"ok", "any"} THEN <<Bind(nm, r.t, r.v)>> ELSE <<>>, <<>>, r.st, 0)

AInnerProduct ==
  /\ Going /\ env # <<>>
  /\ \E a \in Operands, b \in Operands, c \in Operands, d \in Operands :
       LET nm == Name(fresh)
           p1 == Arith("mul", a, c)
           p2 == Arith("mul", b, d)
           ok == p1.st = "ok" /\ p2.st = "ok" /\ p1.t.k = p2.t.k
           r == IF ~ok THEN Err
                ELSE IF p1.t.k = "Point" THEN R("ok", TPoint, Opaque)
                ELSE Arith("add", [s |-> "#1", t |-> p1.t, v |-> p1.v], [s |-> "#2", t |-> p2.t, v |-> p2.v])
       IN Append1(Instr("inner_product", <<a.s, b.s, c.s, d.s>>, <<nm>>),
                  IF r.st = "ok" THEN <<Bind(nm, r.t, r.v)>> ELSE <<>>, <<>>, r.st, 0)

AConvert ==
  /\ Going /\ env # <<>>
  /\ \E a \in Operands :
       LET nm == Name(fresh) IN
       \/ \E n \in {0, 1, 2, 4, 24, 32, 33, 40} :
            LET r == IntoBytes(a, n) IN
            Append1(Instr([into_bytes |-> n], <<a.s>>, <<nm>>), IF r.st \in {"ok", "any"} THEN <<Bind(nm, r.t, r.v)>> ELSE <<>>, <<>>, r.st, 0)
       \/ \E t \in {TNative, TBig(8), TBig(16), TBig(256), TBig(600), TPoint, TScalar, TBool} :
            LET r == FromBytes(t, a) IN
            Append1(Instr([from_bytes |-> TypeJson(t)], <<a.s>>, <<nm>>), IF r.st \in {"ok", "any"} THEN <<Bind(nm, r.t, r.v)>> ELSE <<>>, <<>>, r.st, 0)
       \/ LET n2 == Name(fresh + 1)
              okp == a.t.k = "Point" IN
          Append1(Instr("affine_coordinates", <<a.s>>, <<nm, n2>>),
                  IF okp THEN <<Bind(nm, TNative, Opaque), Bind(n2, TNative, Opaque)>> ELSE <<>>, <<>>,
                  IF okp THEN "ok" ELSE "exec_error", 0)

AHash ==
  /\ Going /\ env # <<>>
  /\ \E a \in Operands, b \in Operands :
       LET nm == Name(fresh) IN
       \/ LET okp == a.t.k = "Native" /\ b.t.k = "Native" IN
          Append1(Instr("poseidon", <<a.s, b.s>>, <<nm>>), IF okp THEN <<Bind(nm, TNative, Opaque)>> ELSE <<>>, <<>>,
                  IF okp THEN "ok" ELSE "exec_error", 0)
       \/ LET okp == a.t.k = "Bytes" IN
          Append1(Instr("sha256", <<a.s>>, <<nm>>), IF okp THEN <<Bind(nm, TBytes(32), Opaque)>> ELSE <<>>, <<>>,
                  IF okp THEN "ok" ELSE "exec_error", 0)

APublish ==
  /\ Going /\ env # <<>>
  /\ \E a \in Operands, b \in Operands :
       Append1(Instr("publish", <<a.s, b.s>>, <<>>), <<>>, <<>>, "ok", 2)

\* ---- ill-formed instructions ---------------------------------------------
ABadArity ==
  /\ Going /\ env # <<>>
  /\ \E a \in Operands :
       \/ Append1(Instr("add", <<a.s>>, <<Name(fresh)>>), <<>>, <<>>, "load_error", 0)
       \/ Append1(Instr("publish", <<>>, <<>>), <<>>, <<>>, "load_error", 0)
       \/ Append1(Instr("neg", <<a.s>>, <<>>), <<>>, <<>>, "load_error", 0)
       \/ Append1(Instr("inner_product", <<a.s, a.s, a.s>>, <<Name(fresh)>>), <<>>, <<>>, "load_error", 0)
       \/ Append1(Instr([load |-> "Native"], <<a.s>>, <<Name(fresh)>>), <<>>, <<>>, "load_error", 0)

ABadName ==
  /\ Going /\ env # <<>>
  /\ \/ \E c \in BadConsts :
          Append1(Instr("publish", <<c>>, <<>>), <<>>, <<>>, "exec_error", 0)
     \/ \E a \in Operands : a.t.k = "Native" /\   \* duplicate output name
          Append1(Instr("neg", <<a.s>>, <<env[1].name>>), <<>>, <<>>, "exec_error", 0)

Next == ALoad \/ ALoad2 \/ ABadLoad \/ AMissingWitness \/ ABinary \/ ANeg \/ AModExp \/ AInnerProduct
        \/ AConvert \/ AHash \/ APublish \/ ABadArity \/ ABadName
Spec == Init /\ [][Next]_vars

\* Directed pipelines, enumerated exhaustively: load one value; one or two unary steps on the value bound last (conversions
\* between bytes and the other types in both directions, negation, hashing, coordinates); publish the result.  Random
\* simulation almost never builds a well-typed conversion chain that ends in a publish; this family contains all of them.
DirectedNext ==
  \/ (Len(prog) = 0 /\ ALoad)
  \/ (Len(prog) \in {1, 2} /\ (AConvert \/ ANeg \/ AHash))
  \/ (Len(prog) \in {2, 3} /\ APublish)
DirectedSpec == Init /\ [][DirectedNext]_vars
\* Directed binary programs: two loads; one binary operation on them (either order, also an operand with itself); publish.
DirectedNext2 ==
  \/ (Len(prog) \in {0, 1} /\ ALoad)
  \/ (Len(prog) = 2 /\ ABinary)
  \/ (Len(prog) = 3 /\ APublish)
Directed2Spec == Init /\ [][DirectedNext2]_vars

---------------------------------------------------------------------------
TypeOK == status \in {"ok", "load_error", "exec_error", "failed", "any"}
\* names are bound at most once
UniqueNames == \A i, j \in 1..Len(env) : env[i].name = env[j].name => i = j
Inv == TypeOK /\ UniqueNames

Finished == status # "ok" \/ Len(prog) = MaxLen \/ lastp
Expect == IF status = "ok" THEN "published" ELSE status
EmitReplay ==
  (Emit /\ Finished /\ prog # <<>>) =>
     PrintT("REPLAY " \o ToJson([prog |-> prog, wit |-> wit, expect |-> Expect, npub |-> npub]))
=============================================================================
