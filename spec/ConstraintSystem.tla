------------------------- MODULE ConstraintSystem -------------------------
(***************************************************************************)
(* The meaning of a PLONKish circuit: when is an assignment satisfying.    *)
(* A constraint system `cs` is a record                                    *)
(*   n, usable   : number of rows, number of usable rows                   *)
(*   gates       : sequence of expressions (each must be 0 on every usable *)
(*                 row)                                                    *)
(*   lookups     : sequence of [inputs, tables] (sequences of expressions) *)
(*   trash       : sequence of [sel, cons]: additive-selector arguments;   *)
(*                 the argument enforces sel(row) * c(row) = 0             *)
(*   copies      : sequence of << <<type, col, row>>, <<type, col, row>> >>*)
(* with columns and rows 0-based as the code numbers them.  An expression  *)
(* is a tree of records with field `op`.  Tables T = [fixed, advice,       *)
(* instance] are sequences (columns) of sequences (rows) of integers.      *)
(* Arithmetic is exact integer arithmetic: the circuits judged with this   *)
(* module keep all values small, so it coincides with field arithmetic.    *)
(***************************************************************************)
EXTENDS Integers, Sequences, FiniteSets

Cell(T, ty, col, row0) ==
  CASE ty = "advice"   -> T.advice[col + 1][row0 + 1]
    [] ty = "fixed"    -> T.fixed[col + 1][row0 + 1]
    [] ty = "instance" -> T.instance[col + 1][row0 + 1]

Rot(row0, rot, n) == (row0 + rot + n) % n

RECURSIVE Eval(_, _, _, _)
Eval(e, row0, T, n) ==
  CASE e.op = "const"    -> e.v
    [] e.op = "fixed"    -> T.fixed[e.col + 1][Rot(row0, e.rot, n) + 1]
    [] e.op = "advice"   -> T.advice[e.col + 1][Rot(row0, e.rot, n) + 1]
    [] e.op = "instance" -> T.instance[e.col + 1][Rot(row0, e.rot, n) + 1]
    [] e.op = "neg"      -> 0 - Eval(e.a, row0, T, n)
    [] e.op = "sum"      -> Eval(e.a, row0, T, n) + Eval(e.b, row0, T, n)
    [] e.op = "prod"     -> LET x == Eval(e.a, row0, T, n) IN
                            IF x = 0 THEN 0 ELSE x * Eval(e.b, row0, T, n)
    [] e.op = "scaled"   -> Eval(e.a, row0, T, n) * e.v

Rows(cs) == 0..(cs.usable - 1)

GateOK(cs, T, g) == \A r \in Rows(cs) : Eval(cs.gates[g], r, T, cs.n) = 0
GatesOK(cs, T) == \A g \in 1..Len(cs.gates) : GateOK(cs, T, g)

Tuple(es, r, T, n) == [i \in 1..Len(es) |-> Eval(es[i], r, T, n)]
LookupOK(cs, T, k) ==
  LET lk == cs.lookups[k]
      table == {Tuple(lk.tables, r, T, cs.n) : r \in Rows(cs)}
  IN \A r \in Rows(cs) : Tuple(lk.inputs, r, T, cs.n) \in table
LookupsOK(cs, T) == \A k \in 1..Len(cs.lookups) : LookupOK(cs, T, k)

CopyOK(cs, T, c) ==
  LET a == cs.copies[c][1]  b == cs.copies[c][2]
  IN Cell(T, a[1], a[2], a[3]) = Cell(T, b[1], b[2], b[3])
CopiesOK(cs, T) == \A c \in 1..Len(cs.copies) : CopyOK(cs, T, c)

TrashOK(cs, T, t) ==
  \A r \in Rows(cs) : \A i \in 1..Len(cs.trash[t].cons) :
     LET q == Eval(cs.trash[t].sel, r, T, cs.n) IN
     q = 0 \/ Eval(cs.trash[t].cons[i], r, T, cs.n) = 0
TrashesOK(cs, T) == \A t \in 1..Len(cs.trash) : TrashOK(cs, T, t)

Satisfied(cs, T) == GatesOK(cs, T) /\ LookupsOK(cs, T) /\ CopiesOK(cs, T) /\ TrashesOK(cs, T)

ViolatedClasses(cs, T) ==
  (IF GatesOK(cs, T) THEN {} ELSE {"gate"})
  \cup (IF LookupsOK(cs, T) THEN {} ELSE {"lookup"})
  \cup (IF CopiesOK(cs, T) THEN {} ELSE {"copy"})
  \cup (IF TrashesOK(cs, T) THEN {} ELSE {"trash"})
=============================================================================
