SPECIFICATION Spec
CONSTANTS
  Family = "secp_p"
  Emit = TRUE
INVARIANT EncodingsOK
INVARIANT BigEncodingsOK
INVARIANT EmitReplay
CHECK_DEADLOCK FALSE
