SPECIFICATION BindingSpecQuick
CONSTANTS
  Mutation = "none"
  AdversaryOn = TRUE
  Emit = TRUE
INVARIANT BindingInv
INVARIANT EmitReplay
CHECK_DEADLOCK FALSE
