SPECIFICATION Spec
CONSTANTS
  MaxOps = 3
  Emit = TRUE
  HashKind = "free"
INVARIANT Inv
INVARIANT EmitReplay
CHECK_DEADLOCK FALSE
