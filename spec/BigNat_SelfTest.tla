--------------------------- MODULE BigNat_SelfTest ---------------------------
(* Agreement of the Java evaluator override of BigNat with the TLA+           *)
(* definitions: this module is evaluated twice by `check C10`, with and       *)
(* without the override class on the classpath, and the printed results must  *)
(* be identical (and equal to an independent big-integer computation).        *)
EXTENDS BigNat, TLC

Cases == << <<OfInt(0), OfInt(1), OfInt(7)>>,
            <<OfInt(255), OfInt(256), OfInt(65537)>>,
            <<<<255, 255, 255, 255, 255, 255, 255, 255>>, <<1, 0, 0, 0, 0, 0, 0, 0, 1>>, <<197, 255, 255, 255, 255, 255, 255, 255>>>>,
            <<<<17, 34, 51, 68, 85, 102, 119, 136, 153, 170, 187, 204, 221, 238, 255, 1>>, <<254, 220, 186, 152, 118, 84, 50, 16, 1>>,
              <<97, 255, 255, 255, 255, 255, 255, 255, 255, 255, 255, 255, 255, 255, 255, 127>>>>,
            <<<<0, 0, 0, 0, 0, 0, 0, 0, 0, 0, 0, 0, 0, 0, 0, 0, 1>>, <<255, 255, 255, 255, 255, 255, 255, 255, 255, 255, 255, 255, 255, 255, 255, 255>>,
              <<47, 252, 255, 255, 254, 255, 255, 255, 255, 255, 255, 255>>>> >>

Res(c) ==
  LET a == c[1]  b == c[2]  m == c[3]
      hi == IF Le(b, a) THEN a ELSE b
      lo == IF Le(b, a) THEN b ELSE a
      am == Rem(a, m)  bm == Rem(b, m)
  IN << Add(a, b), Sub(hi, lo), Mul(a, b), DivMod(Mul(a, b), m), Rem(a, m), Quo(a, m),
        AddM(am, bm, m), SubM(am, bm, m), NegM(am, m), MulM(am, bm, m), PowMI(am, 5, m), PowM(am, <<7, 1>>, m),
        Half(a), Double(b), NumBits(a), Bit(a, 3), Bit(b, 64), BitsLE(a, 20), BytesLE(b, 5), OfBitsLE(BitsLE(a, 70)),
        BitAnd(a, b), BitOr(a, b), BitXor(a, b), ShrBits(a, 13), LowBits(b, 21), RotR(LowBits(a, 32), 7, 32), IRoot(a, 2), IRoot(b, 3),
        Cmp(a, b), Lt(a, b), Le(a, a), Pow2(77), MulInt(a, 1000), OfInt(123456789), ToInt(<<21, 205, 91, 7>>), Trim(a \o <<0, 0>>) >>

ASSUME \A i \in 1..Len(Cases) : PrintT(<<"SELFTEST", i, Res(Cases[i])>>)
VARIABLE x
Init == x = 0
Next == UNCHANGED x
=============================================================================
