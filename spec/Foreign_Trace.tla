---------------------------- MODULE Foreign_Trace ----------------------------
(* C05 replay validation: every line is one run of an emulated-field or     *)
(* big-integer operation with its inputs and outputs exposed as public      *)
(* inputs.  `exposed` are the raw native elements the circuit ITSELF ties   *)
(* to the instance column (extracted from its copy constraints), `layout`   *)
(* the kind and size of every exposure, `status` whether the circuit is     *)
(* satisfiable with exactly that instance.  With a tamper (hook H1) one     *)
(* advice assignment was replaced consistently.  The game: whatever the     *)
(* prover did, if the circuit is satisfiable with an instance that is the   *)
(* encoding of typed values (ins, outs) then ins are in the domain of the   *)
(* operation and outs are its result; an honest prover succeeds on every    *)
(* input of the domain with exactly the encoding of (ins, Def(ins)).        *)
EXTENDS ForeignOps, Json, IOUtils, Sequences

Rec == ndJsonDeserialize(IOEnv.TRACE)
VARIABLE l
Ev == Rec[l]
Has(e, f) == f \in DOMAIN e

Width(le) == CASE le[1] = "F" -> le[2] [] le[1] = "U" -> NLimbsU(le[2]) [] OTHER -> 1
RECURSIVE TotalWidth(_)
TotalWidth(lay) == IF lay = <<>> THEN 0 ELSE Width(Head(lay)) + TotalWidth(Tail(lay))
RECURSIVE Groups(_, _, _)
Groups(exp, lay, pos) ==
  IF lay = <<>> THEN <<>>
  ELSE <<SubSeq(exp, pos, pos + Width(Head(lay)) - 1)>> \o Groups(exp, Tail(lay), pos + Width(Head(lay)))
WellFormed(e) == TotalWidth(e.layout) = Len(e.exposed)

GCanon(g, le, f) == CASE le[1] = "F" -> CanonF(g, f) [] le[1] = "U" -> CanonU(g)
                      [] le[1] = "b" -> IsBitN(g[1]) [] OTHER -> IsByteN(g[1])
GDecode(g, le, f) == CASE le[1] = "F" -> DecodeF(g, f) [] le[1] = "U" -> DecodeU(g) [] OTHER -> g[1]

Field(e) == IF e.fam = "ff" THEN e.field ELSE "none"
NIn(e) == Len(e.ins)
\* (the groups are computed once per line and passed around: TLC re-evaluates
\* operators with arguments at every use)
AllCanonG(e, g) == \A i \in 1..Len(e.layout) : GCanon(g[i], e.layout[i], Field(e))
DecInsG(e, g) == [i \in 1..NIn(e) |-> GDecode(g[i], e.layout[i], Field(e))]
\* the honest inputs as typed values
HonIns(e) == [i \in 1..NIn(e) |->
                IF e.fam = "ff" /\ e.kin[i] = "F" THEN Rem(e.ins[i], Modulus(e.field)) ELSE e.ins[i]]
OutLayout(e) == SubSeq(e.layout, NIn(e) + 1, Len(e.layout))

BOutOK(op, pr, x, og, ol) ==
  CASE op = "to_le_bits" -> /\ NumBits(x[1]) <= Len(og)
                            /\ og = [i \in 1..Len(og) |-> <<OfInt(Bit(x[1], i - 1))>>]
    [] op = "to_le_bytes" -> /\ Len(x[1]) <= Len(og)
                             /\ og = [i \in 1..Len(og) |-> <<OfInt(Dg(x[1], i))>>]
    [] OTHER -> LET vals == BVals(op, pr, x)  bits == BBits(op, pr, x) IN
                /\ Len(og) = Len(vals) + Len(bits)
                /\ \A i \in 1..Len(vals) : ol[i][1] = "U" /\ DecodeU(og[i]) = vals[i]
                /\ \A j \in 1..Len(bits) : og[Len(vals) + j] = <<bits[j]>>

Dom(e, x) == IF e.fam = "ff" THEN FDom(e.op, e.field, e.params, x) ELSE BDom(e.op, e.params, x)
OutOK(e, x, og) == IF e.fam = "ff" THEN FRelOK(e.op, e.field, e.params, x, Flat(og))
                   ELSE BOutOK(e.op, e.params, x, og, OutLayout(e))

Shaped(e) == WellFormed(e) /\ Len(e.layout) >= NIn(e)
Sound(e) ==
  (e.status = "sat" /\ Shaped(e)) =>
     LET g == Groups(e.exposed, e.layout, 1) IN
     AllCanonG(e, g) =>
        LET x == DecInsG(e, g) IN
        Dom(e, x) /\ OutOK(e, x, SubSeq(g, NIn(e) + 1, Len(g)))

Complete(e) ==
  (~Has(e, "tamper") /\ Dom(e, HonIns(e))) =>
      /\ e.status = "sat"
      /\ Shaped(e)
      /\ LET g == Groups(e.exposed, e.layout, 1) IN
         AllCanonG(e, g) /\ DecInsG(e, g) = HonIns(e)

Total(e) == /\ e.status \in {"sat", "unsat", "synth_err", "panic"}
            /\ (e.status = "sat" => WellFormed(e))

ParamsOK(e) == /\ e.field \in Fields
               /\ Trim(e.modulus) = Modulus(e.field)
               /\ e.lb = LB(e.field) /\ e.nl = NL(e.field)
               /\ e.numbits = NumBits(Modulus(e.field))

TInitL == l = 1
THeader == l <= Len(Rec) /\ Ev.ev = "header" /\ Trim(Ev.native) = Native /\ l' = l + 1
TParams == l <= Len(Rec) /\ Ev.ev = "Params" /\ ParamsOK(Ev) /\ l' = l + 1
TOp == /\ l <= Len(Rec) /\ Ev.ev = "Op" /\ l' = l + 1
       /\ Sound(Ev) /\ Complete(Ev) /\ Total(Ev)
TraceSpec == TInitL /\ [][THeader \/ TParams \/ TOp]_l

TraceAccepted ==
  LET d == TLCGet("stats").diameter IN
  IF d - 1 = Len(Rec) THEN TRUE
  ELSE Print(<<"TRACE-REJECTED first unmatched line", d, "of", Len(Rec)>>, FALSE)
=============================================================================
