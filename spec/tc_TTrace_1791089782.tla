---- MODULE tc_TTrace_1791089782 ----
EXTENDS Sequences, TLCExt, Toolbox, Naturals, TLC, tc

_expression ==
    LET tc_TEExpression == INSTANCE tc_TEExpression
    IN tc_TEExpression!expression
----

_trace ==
    LET tc_TETrace == INSTANCE tc_TETrace
    IN tc_TETrace!trace
----

_inv ==
    ~(
        TLCGet("level") = Len(_TETrace)
        /\
        i = (1)
    )
----

_init ==
    /\ i = _TETrace[1].i
----

_next ==
    /\ \E i,j \in DOMAIN _TETrace:
        /\ \/ /\ j = i + 1
              /\ i = TLCGet("level")
        /\ i  = _TETrace[i].i
        /\ i' = _TETrace[j].i

\* Uncomment the ASSUME below to write the states of the error trace
\* to the given file in Json format. Note that you can pass any tuple
\* to `JsonSerialize`. For example, a sub-sequence of _TETrace.
    \* ASSUME
    \*     LET J == INSTANCE Json
    \*         IN J!JsonSerialize("tc_TTrace_1791089782.json", _TETrace)

=============================================================================

 Note that you can extract this module `tc_TEExpression`
  to a dedicated file to reuse `expression` (the module in the 
  dedicated `tc_TEExpression.tla` file takes precedence 
  over the module `tc_TEExpression` below).

---- MODULE tc_TEExpression ----
EXTENDS Sequences, TLCExt, Toolbox, Naturals, TLC, tc

expression == 
    [
        \* To hide variables of the `tc` spec from the error trace,
        \* remove the variables below.  The trace will be written in the order
        \* of the fields of this record.
        i |-> i
        
        \* Put additional constant-, state-, and action-level expressions here:
        \* ,_stateNumber |-> _TEPosition
        \* ,_iUnchanged |-> i = i'
        
        \* Format the `i` variable as Json value.
        \* ,_iJson |->
        \*     LET J == INSTANCE Json
        \*     IN J!ToJson(i)
        
        \* Lastly, you may build expressions over arbitrary sets of states by
        \* leveraging the _TETrace operator.  For example, this is how to
        \* count the number of times a spec variable changed up to the current
        \* state in the trace.
        \* ,_iModCount |->
        \*     LET F[s \in DOMAIN _TETrace] ==
        \*         IF s = 1 THEN 0
        \*         ELSE IF _TETrace[s].i # _TETrace[s-1].i
        \*             THEN 1 + F[s-1] ELSE F[s-1]
        \*     IN F[_TEPosition - 1]
    ]

=============================================================================



Parsing and semantic processing can take forever if the trace below is long.
 In this case, it is advised to uncomment the module below to deserialize the
 trace from a generated binary file.

\*
\*---- MODULE tc_TETrace ----
\*EXTENDS IOUtils, TLC, tc
\*
\*trace == IODeserialize("tc_TTrace_1791089782.bin", TRUE)
\*
\*=============================================================================
\*

---- MODULE tc_TETrace ----
EXTENDS TLC, tc

trace == 
    <<
    ([i |-> 0]),
    ([i |-> 1])
    >>
----


=============================================================================

---- CONFIG tc_TTrace_1791089782 ----

INVARIANT
    _inv

CHECK_DEADLOCK
    \* CHECK_DEADLOCK off because of PROPERTY or INVARIANT above.
    FALSE

INIT
    _init

NEXT
    _next

CONSTANT
    _TETrace <- _trace

ALIAS
    _expression
=============================================================================
\* Generated on Sun Oct 04 04:56:24 UTC 2026