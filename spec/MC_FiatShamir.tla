-------------------------- MODULE MC_FiatShamir --------------------------
(* Exhaustive exploration of FiatShamir over a family of shapes.  Each     *)
(* initial state is one shape; the behaviour is prover-then-verifier.  The *)
(* terminal state prints the shape as a replay scenario for the harness.   *)
EXTENDS FiatShamir, TLC, Json, IOUtils

CONSTANTS Emit

Cols(n) == [i \in 1..n |-> <<i - 1, 0>>]
TotalAdv(phs) ==
  LET S[i \in 0..Len(phs)] == IF i = 0 THEN 0 ELSE S[i - 1] + phs[i].adv IN S[Len(phs)]

MkShape(np, cm, pl, phs, nl, pc, dg, nt, xq) ==
  [ nproofs |-> np, committed |-> cm,
    plain |-> [p \in 1..np |-> pl],
    phases |-> phs, nlookups |-> nl, permcols |-> pc,
    chunk |-> dg - 2, nquot |-> dg - 1, ntrash |-> nt, blinding |-> 5 + nt,
    instq |-> Cols(cm + Len(pl)),
    advq |-> Cols(TotalAdv(phs)) \o xq,
    fixq |-> Cols(2 + nl) ]

Ph(a, c) == [adv |-> a, ch |-> c]

InitFamily(NP, CM, PL, PHS, NL, PC, DG, NT, XQ) ==
  \E np \in NP, cm \in CM, pl \in PL, phs \in PHS,
     nl \in NL, pc \in PC, dg \in DG, nt \in NT, xq \in XQ :
       InitWith(MkShape(np, cm, pl, phs, nl, pc, dg, nt, xq))

QuickInit ==
  InitFamily({1, 2, 3}, {0, 1, 2}, {<<>>, <<1>>, <<2, 0>>},
             { <<Ph(3, 0)>>, <<Ph(3, 1), Ph(1, 1)>>, <<Ph(4, 0), Ph(2, 1), Ph(1, 1)>> },
             {0, 1, 3}, {0, 2, 5}, {3, 5}, {0, 2},
             { <<>>, << <<2, 1>>, <<1, -1>> >> })

ThoroughInit ==
  InitFamily({1, 2, 4}, {0, 1, 2}, {<<>>, <<0>>, <<2, 0>>, <<1, 3>>},
             { <<Ph(3, 0)>>, <<Ph(3, 2)>>, <<Ph(4, 0), Ph(2, 1), Ph(1, 1)>>, <<Ph(3, 1), Ph(1, 0), Ph(2, 2)>> },
             {0, 3}, {0, 7}, {3, 5, 6}, {0, 2},
             { <<>>, << <<2, 1>>, <<1, -1>> >>, << <<2, 1>>, <<1, -1>>, <<3, 2>> >> })

\* the shapes the code reported (written by the check from recorded traces)
RealShapes == ndJsonDeserialize(IOEnv.SHAPES)
RealInit == \E i \in 1..Len(RealShapes) : InitWith(RealShapes[i])
RealSpec == RealInit /\ [][Next]_vars

\* C03: shapes with explicit public-input values, commitments and key identity
MkStmtShape(np, cm, pl, phs, nl, pc, dg, nt) ==
  [ MkShape(np, cm, pl, phs, nl, pc, dg, nt, <<>>) EXCEPT !.plain = [p \in 1..np |-> pl] ]
  @@ [ plainv |-> [p \in 1..np |-> [j \in 1..Len(pl) |-> [i \in 1..pl[j] |-> 100 * p + 10 * j + i]]],
       comv |-> [p \in 1..np |-> [c \in 1..cm |-> 500 + 10 * p + c]],
       vkid |-> 1 ]
BindingInitQuick ==
  \E np \in {1, 2}, cm \in {0, 1}, pl \in {<<>>, <<2, 1>>, <<0, 2>>},
     phs \in { <<Ph(3, 0)>>, <<Ph(3, 1), Ph(1, 1)>> },
     nl \in {0, 1}, pc \in {0, 4}, dg \in {3}, nt \in {0, 1} :
       InitWith(MkStmtShape(np, cm, pl, phs, nl, pc, dg, nt))
BindingInitThorough ==
  \E np \in {1, 2, 3}, cm \in {0, 1, 2}, pl \in {<<>>, <<1, 0, 2>>},
     phs \in { <<Ph(3, 0)>>, <<Ph(4, 0), Ph(2, 1), Ph(1, 1)>> },
     nl \in {0, 2}, pc \in {0, 7}, dg \in {3}, nt \in {0, 1} :
       InitWith(MkStmtShape(np, cm, pl, phs, nl, pc, dg, nt))
BindingSpecQuick == BindingInitQuick /\ [][Next]_vars
BindingSpecThorough == BindingInitThorough /\ [][Next]_vars
BindingInv == Binding /\ Completeness
\* print the edits the model explored, one line per terminal state
EmitTamper ==
  (Emit /\ tamper # NoTamper /\ verdict \in {"ok", "err"}) =>
     PrintT("TAMPER " \o ToJson([tamper |-> tamper, verdict |-> verdict]))

\* C02: single-phase shapes (values stay small), one proof
C02Init ==
  InitFamily({1}, {0, 1}, {<<>>, <<2>>, <<1, 1>>},
             { <<Ph(3, 0)>>, <<Ph(4, 0)>> },
             {0, 1, 2, 3}, {0, 4}, {3, 4, 5}, {0, 1, 2},
             { <<>>, << <<2, 1>>, <<1, -1>> >> })
C02Spec == C02Init /\ [][Next]_vars

QuickSpec == QuickInit /\ [][Next]_vars
ThoroughSpec == ThoroughInit /\ [][Next]_vars

\* printed once per shape, in the terminal state
EmitReplay ==
  (Emit /\ verdict \in {"ok", "err"} /\ tamper = NoTamper) =>
     PrintT("REPLAY " \o ToJson([shape |-> sh, expect |-> verdict]))

\* dynamic invariants: every state; static ones (functions of the shape's two
\* programs only): once per shape, in its initial state
AtStart == pcP = 1 /\ pcV = 1 /\ verdict = "none" /\ absP = <<>>
Inv ==
  /\ Completeness /\ Agreement /\ StreamTyped
  /\ AtStart => /\ EveryElementBound /\ LengthBound /\ KeyBound
                /\ SameQueryStructure /\ NoDuplicateQuery
=============================================================================
