SPECIFICATION Spec
CONSTANTS
  P = 5
  N = 2
INVARIANT Complete
INVARIANT FoldInvariant
INVARIANT RejectsAlteredScalar
INVARIANT RejectsAlteredClaim
INVARIANT RejectsAlteredRound
CHECK_DEADLOCK FALSE
