-------------------------------- MODULE Curve --------------------------------
(***************************************************************************)
(* Elliptic-curve groups over BigNat prime fields: short Weierstrass curves *)
(* y^2 = x^3 + a x + b in affine coordinates with a point at infinity       *)
(* (secp256k1, BLS12-381 G1) and twisted Edwards curves a x^2 + y^2 =       *)
(* 1 + d x^2 y^2 (Jubjub).  Used by C06 (in-circuit group law), C08         *)
(* (public-input encodings of points), C11 (library group law and           *)
(* encodings), C12 (multi-scalar multiplication).                           *)
(* A curve is a record [form, p, r, a, b|d, g]; a point is                  *)
(* [id, x, y] with id \in BOOLEAN (x = y = 0 when id; the Edwards identity  *)
(* is the affine point (0, 1) and has id = FALSE).                          *)
(***************************************************************************)
EXTENDS ForeignOps

Pt(x, y) == [id |-> FALSE, x |-> x, y |-> y]
Inf == [id |-> TRUE, x |-> Zero, y |-> Zero]

Secp256k1 == [form |-> "w", p |-> SecpP, r |-> SecpN, a |-> Zero, b |-> OfInt(7), h |-> 1,
              g |-> Pt(<<152, 23, 248, 22, 91, 129, 242, 89, 217, 40, 206, 45, 219, 252, 155, 2, 7, 11, 135, 206, 149, 98, 160, 85, 172, 187, 220, 249, 126, 102, 190, 121>>,
                       <<184, 212, 16, 251, 143, 208, 71, 156, 25, 84, 133, 166, 72, 180, 23, 253, 168, 8, 17, 14, 252, 251, 164, 93, 101, 196, 163, 38, 119, 218, 58, 72>>)]
Bls12381G1 == [form |-> "w", p |-> BlsP, r |-> BlsR, a |-> Zero, b |-> OfInt(4), h |-> 0,
               g |-> Pt(<<187, 198, 34, 219, 10, 240, 58, 251, 239, 26, 122, 249, 63, 232, 85, 108, 88, 172, 27, 23, 63, 58, 78, 161, 5, 185, 116, 151, 79, 140, 104, 195, 15, 172, 169, 79, 140, 99, 149, 38, 148, 215, 151, 49, 167, 211, 241, 23>>,
                        <<225, 231, 197, 70, 41, 35, 170, 12, 228, 138, 136, 162, 68, 199, 60, 208, 237, 179, 4, 44, 203, 24, 219, 0, 246, 10, 208, 213, 149, 224, 245, 252, 228, 138, 29, 116, 237, 48, 158, 160, 241, 160, 170, 227, 129, 244, 179, 8>>)]
\* a = -1, d = -(10240/10241), cofactor 8; g generates the subgroup of prime order JubR
JubjubD == NegM(MulM(OfInt(10240), InvM(OfInt(10241), BlsR), BlsR), BlsR)
Jubjub == [form |-> "e", p |-> BlsR, r |-> JubR, a |-> Sub(BlsR, One), b |-> JubjubD, h |-> 8,
           g |-> Pt(<<229, 111, 213, 24, 163, 254, 45, 81, 95, 55, 190, 127, 101, 92, 49, 4, 238, 245, 114, 177, 227, 126, 211, 94, 163, 28, 18, 58, 103, 196, 165, 62>>,
                    <<203, 85, 12, 213, 56, 234, 12, 193, 19, 132, 128, 64, 142, 110, 170, 185, 179, 108, 97, 63, 13, 211, 247, 120, 79, 219, 110, 234, 131, 123, 19, 87>>)]
\* Curve25519 in twisted Edwards form: a = -1, d = -(121665/121666), base point with y = 4/5, cofactor 8
Curve25519D == NegM(MulM(OfInt(121665), InvM(OfInt(121666), C25519P), C25519P), C25519P)
Curve25519 == [form |-> "e", p |-> C25519P, r |-> C25519L, a |-> Sub(C25519P, One), b |-> Curve25519D, h |-> 8,
               g |-> Pt(<<26, 213, 37, 143, 96, 45, 86, 201, 178, 167, 37, 149, 96, 199, 44, 105, 92, 220, 214, 253, 49, 226, 164, 192, 254, 83, 110, 205, 211, 54, 105, 33>>,
                        MulM(OfInt(4), InvM(OfInt(5), C25519P), C25519P))]
\* BN254 (alt_bn128) G1: y^2 = x^3 + 3, generator (1, 2)
Bn254P == <<71, 253, 124, 216, 22, 140, 32, 60, 141, 202, 113, 104, 145, 106, 129, 151, 93, 88, 129, 129, 182, 69, 80, 184, 41, 160, 49, 225, 114, 78, 100, 48>>
Bn254R == <<1, 0, 0, 240, 147, 245, 225, 67, 145, 112, 185, 121, 72, 232, 51, 40, 93, 88, 129, 129, 182, 69, 80, 184, 41, 160, 49, 225, 114, 78, 100, 48>>
Bn254G1 == [form |-> "w", p |-> Bn254P, r |-> Bn254R, a |-> Zero, b |-> OfInt(3), h |-> 1, g |-> Pt(One, OfInt(2))]
CurveOf(name) == CASE name = "secp256k1" -> Secp256k1 [] name = "bls12_381_g1" -> Bls12381G1 [] name = "jubjub" -> Jubjub
                   [] name = "curve25519" -> Curve25519 [] name = "bn256_g1" -> Bn254G1

\* ---- membership -----------------------------------------------------------
OnCurve(c, P) ==
  LET p == c.p IN
  IF c.form = "w"
  THEN P.id \/ ( /\ Lt(P.x, p) /\ Lt(P.y, p)
                /\ MulM(P.y, P.y, p) = AddM(AddM(MulM(MulM(P.x, P.x, p), P.x, p), MulM(c.a, P.x, p), p), c.b, p) )
  ELSE /\ ~P.id /\ Lt(P.x, p) /\ Lt(P.y, p)
       /\ LET x2 == MulM(P.x, P.x, p)  y2 == MulM(P.y, P.y, p) IN
          AddM(MulM(c.a, x2, p), y2, p) = AddM(One, MulM(c.b, MulM(x2, y2, p), p), p)

Id(c) == IF c.form = "w" THEN Inf ELSE Pt(Zero, One)
IsId(c, P) == P = Id(c)

Neg(c, P) ==
  IF c.form = "w" THEN (IF P.id THEN Inf ELSE Pt(P.x, NegM(P.y, c.p)))
  ELSE Pt(NegM(P.x, c.p), P.y)

\* ---- the group law ----------------------------------------------------------
WAdd(c, P, Q) ==
  LET p == c.p IN
  IF P.id THEN Q ELSE IF Q.id THEN P
  ELSE IF P.x = Q.x /\ AddM(P.y, Q.y, p) = Zero THEN Inf
  ELSE LET lam == IF P.x = Q.x
                  THEN MulM(AddM(MulM(OfInt(3), MulM(P.x, P.x, p), p), c.a, p), InvM(AddM(P.y, P.y, p), p), p)
                  ELSE MulM(SubM(Q.y, P.y, p), InvM(SubM(Q.x, P.x, p), p), p)
           x3 == SubM(SubM(MulM(lam, lam, p), P.x, p), Q.x, p)
       IN Pt(x3, SubM(MulM(lam, SubM(P.x, x3, p), p), P.y, p))
EAdd(c, P, Q) ==
  LET p == c.p
      t == MulM(c.b, MulM(MulM(P.x, Q.x, p), MulM(P.y, Q.y, p), p), p)
  IN Pt(MulM(AddM(MulM(P.x, Q.y, p), MulM(P.y, Q.x, p), p), InvM(AddM(One, t, p), p), p),
        MulM(SubM(MulM(P.y, Q.y, p), MulM(c.a, MulM(P.x, Q.x, p), p), p), InvM(SubM(One, t, p), p), p))
PAdd(c, P, Q) == IF c.form = "w" THEN WAdd(c, P, Q) ELSE EAdd(c, P, Q)
PSub(c, P, Q) == PAdd(c, P, Neg(c, Q))
PDbl(c, P) == PAdd(c, P, P)

\* scalar multiplication by a BigNat (double-and-add from the most significant bit)
RECURSIVE MulFrom(_, _, _, _, _)
MulFrom(c, k, i, P, acc) ==
  IF i < 0 THEN acc
  ELSE LET d == PDbl(c, acc) IN
       MulFrom(c, k, i - 1, P, IF Bit(k, i) = 1 THEN PAdd(c, d, P) ELSE d)
PMul(c, k, P) == MulFrom(c, k, NumBits(k) - 1, P, Id(c))
\* by a (possibly negative) small integer
PMulI(c, k, P) == IF k >= 0 THEN PMul(c, OfInt(k), P) ELSE Neg(c, PMul(c, OfInt(0 - k), P))
RECURSIVE MsmFrom(_, _, _, _)
MsmFrom(c, ks, Ps, i) == IF i > Len(ks) THEN Id(c) ELSE PAdd(c, PMul(c, ks[i], Ps[i]), MsmFrom(c, ks, Ps, i + 1))
Msm(c, ks, Ps) == MsmFrom(c, ks, Ps, 1)
InSubgroup(c, P) == OnCurve(c, P) /\ PMul(c, c.r, P) = Id(c)

\* ---- sanity of the constants (evaluated once when the module is loaded) ----
ASSUME \A c \in {Secp256k1, Bls12381G1, Jubjub, Curve25519, Bn254G1} :
         /\ OnCurve(c, c.g) /\ ~IsId(c, c.g)
         /\ PMul(c, c.r, c.g) = Id(c)
         /\ PMul(c, Sub(c.r, One), c.g) = Neg(c, c.g)
ASSUME JubjubD = <<177, 62, 52, 214, 214, 95, 6, 1, 38, 157, 87, 55, 109, 127, 45, 41, 212, 127, 189, 230, 7, 146, 253, 245, 72, 43, 250, 75, 231, 24, 147, 42>>
=============================================================================
