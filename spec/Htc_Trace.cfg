SPECIFICATION TraceSpec
POSTCONDITION TraceAccepted
CHECK_DEADLOCK FALSE
