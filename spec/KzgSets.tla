---------------------------- MODULE KzgSets ----------------------------
(***************************************************************************)
(* `construct_intermediate_sets` of proofs/src/poly/kzg/utils.rs as a pure *)
(* function of the query LIST.  A query is a record                        *)
(*     [com |-> commitment identity, pt |-> point identity, ev |-> value]  *)
(* Identities are whatever the caller uses (the prover compares polynomial *)
(* references, the verifier commitment references: both are identities,    *)
(* not values).                                                            *)
(*   - point index      = first occurrence of the point in the list        *)
(*   - commitment order = first occurrence of the commitment in the list   *)
(*   - point set of a commitment = set of point indices it is queried at   *)
(*   - set index        = first occurrence of that set in commitment order *)
(*   - points of a set are listed in increasing point index                *)
(*   - evaluations of a commitment are stored in that same order           *)
(*   - a repeated (commitment, point) pair is refused (DuplicatedQuery)    *)
(***************************************************************************)
EXTENDS Naturals, Sequences, FiniteSets

\* Distinct elements of a sequence in first-occurrence order.
RECURSIVE DedupFrom(_, _, _)
DedupFrom(s, i, acc) ==
  IF i > Len(s) THEN acc
  ELSE IF \E j \in 1..Len(acc) : acc[j] = s[i]
       THEN DedupFrom(s, i + 1, acc)
       ELSE DedupFrom(s, i + 1, Append(acc, s[i]))
Dedup(s) == DedupFrom(s, 1, <<>>)

IndexOf(s, x) == CHOOSE i \in 1..Len(s) : s[i] = x

Points(qs) == Dedup([i \in 1..Len(qs) |-> qs[i].pt])
Coms(qs)   == Dedup([i \in 1..Len(qs) |-> qs[i].com])

Duplicated(qs) ==
  \E i, j \in 1..Len(qs) : i < j /\ qs[i].com = qs[j].com /\ qs[i].pt = qs[j].pt

\* Point-index set of commitment c.
PointIdxSet(qs, c) ==
  LET pts == Points(qs)
  IN {IndexOf(pts, qs[i].pt) : i \in {j \in 1..Len(qs) : qs[j].com = c}}

\* Distinct point-index sets in order of first occurrence over Coms(qs).
SetOrder(qs) ==
  LET cs == Coms(qs)
  IN Dedup([i \in 1..Len(cs) |-> PointIdxSet(qs, cs[i])])

\* Number of distinct point sets.  Equal to Len(SetOrder(qs)) (the number of
\* distinct index sets is the number of distinct point sets); this form is the
\* cheap one and is what the transcript model needs.
NumPointSets(qs) ==
  Cardinality({ {qs[j].pt : j \in {k \in 1..Len(qs) : qs[k].com = qs[i].com}} :
                i \in 1..Len(qs) })
NumPointSetsByOrder(qs) == Len(SetOrder(qs))

SetIndexOf(qs, c) == IndexOf(SetOrder(qs), PointIdxSet(qs, c))

\* Ascending enumeration of a finite set of naturals.
RECURSIVE SortedSeq(_)
SortedSeq(S) ==
  IF S = {} THEN <<>>
  ELSE LET m == CHOOSE x \in S : \A y \in S : x <= y
       IN <<m>> \o SortedSeq(S \ {m})

\* Points (identities) of point set k, in increasing point index.
PointsOfSet(qs, k) ==
  LET pts == Points(qs)
      idx == SortedSeq(SetOrder(qs)[k])
  IN [i \in 1..Len(idx) |-> pts[idx[i]]]

\* Evaluations of commitment c in point-set order (the LAST query for a
\* (c, point) pair wins, but duplicates are refused before that matters).
EvalsOf(qs, c) ==
  LET pts == Points(qs)
      idx == SortedSeq(PointIdxSet(qs, c))
  IN [i \in 1..Len(idx) |->
        LET j == CHOOSE j \in 1..Len(qs) : qs[j].com = c /\ qs[j].pt = pts[idx[i]]
        IN qs[j].ev]

\* Commitments grouped per point set, in commitment order (this is the order
\* in which powers of x1 are assigned inside a set).
ComsOfSet(qs, k) ==
  LET cs == Coms(qs)
  IN SelectSeq(cs, LAMBDA c : SetIndexOf(qs, c) = k)
=============================================================================
