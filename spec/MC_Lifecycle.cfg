SPECIFICATION Spec
CONSTANTS
  Secrets = {1}
  Ks = {1, 2}
  Circuits = {"c"}
  Threads = {1, 2}
  Formats = {"P", "R", "U"}
  Mutation = "none"
INVARIANT Inv
CHECK_DEADLOCK FALSE
CONSTRAINT Bound
