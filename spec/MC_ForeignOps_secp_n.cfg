SPECIFICATION Spec
CONSTANTS
  Family = "secp_n"
  Emit = TRUE
INVARIANT EncodingsOK
INVARIANT BigEncodingsOK
INVARIANT EmitReplay
CHECK_DEADLOCK FALSE
