-------------------------------- MODULE Hashes --------------------------------
(***************************************************************************)
(* Reference definitions of the hash functions of C07 over BigNat.          *)
(*                                                                         *)
(* SHA-2 (FIPS 180-4), generic in the word size w (32: SHA-256, 64:         *)
(* SHA-512): padding, message schedule, compression, with the constants     *)
(* DEFINED as the standard defines them - the first w bits of the           *)
(* fractional parts of the square roots (initial state) and cube roots      *)
(* (round constants) of the first primes - and computed by integer roots.   *)
(*                                                                         *)
(* Poseidon: the textbook permutation x^5, width 3, rate 2, 8 full and 60   *)
(* partial rounds (S-box on the last state element in partial rounds), with *)
(* MDS matrix and round constants as DATA (the trace supplies the constants *)
(* the code publishes), and the sponge of the library: capacity element     *)
(* initialised with the input length, rate-2 absorption, one squeeze.       *)
(*                                                                         *)
(* Iterations are written with FoldLeft (SequencesExt): TLC evaluates it    *)
(* strictly, whereas recursive functions and operators are re-evaluated at  *)
(* every reference (a message schedule written recursively is exponential). *)
(***************************************************************************)
EXTENDS BigNat, FiniteSets, SequencesExt, TLC

\* ---- primes -----------------------------------------------------------------
IsPrimeI(n) == n >= 2 /\ \A d \in 2..(n - 1) : d * d > n \/ n % d # 0
RECURSIVE PrimesFrom(_, _)
PrimesFrom(n, k) == IF k = 0 THEN <<>> ELSE IF IsPrimeI(n) THEN <<n>> \o PrimesFrom(n + 1, k - 1) ELSE PrimesFrom(n + 1, k)
Primes(k) == PrimesFrom(2, k)

\* first w bits of the fractional part of the k-th root of p:  floor(root_k(p * 2^(k w))) mod 2^w
FracRoot(p, k, w) == LowBits(IRoot(Mul(OfInt(p), Pow2(k * w)), k), w)

\* ---- SHA-2 --------------------------------------------------------------------
ShaRounds(w) == IF w = 32 THEN 64 ELSE 80
Primes80 == Primes(80)
ShaK32 == [i \in 1..64 |-> FracRoot(Primes80[i], 3, 32)]
ShaK64 == [i \in 1..80 |-> FracRoot(Primes80[i], 3, 64)]
ShaH32 == [i \in 1..8 |-> FracRoot(Primes80[i], 2, 32)]
ShaH64 == [i \in 1..8 |-> FracRoot(Primes80[i], 2, 64)]
ShaK(w) == IF w = 32 THEN ShaK32 ELSE ShaK64
ShaH0(w) == IF w = 32 THEN ShaH32 ELSE ShaH64
AddW(a, b, w) == LowBits(Add(a, b), w)
NotW(a, w) == Sub(Sub(Pow2(w), One), a)
Ch(x, y, z, w) == BitXor(BitAnd(x, y), BitAnd(NotW(x, w), z))
Maj(x, y, z) == BitXor(BitXor(BitAnd(x, y), BitAnd(x, z)), BitAnd(y, z))
BigSigma0(x, w) == IF w = 32 THEN BitXor(BitXor(RotR(x, 2, w), RotR(x, 13, w)), RotR(x, 22, w))
                   ELSE BitXor(BitXor(RotR(x, 28, w), RotR(x, 34, w)), RotR(x, 39, w))
BigSigma1(x, w) == IF w = 32 THEN BitXor(BitXor(RotR(x, 6, w), RotR(x, 11, w)), RotR(x, 25, w))
                   ELSE BitXor(BitXor(RotR(x, 14, w), RotR(x, 18, w)), RotR(x, 41, w))
SmallSigma0(x, w) == IF w = 32 THEN BitXor(BitXor(RotR(x, 7, w), RotR(x, 18, w)), ShrBits(x, 3))
                     ELSE BitXor(BitXor(RotR(x, 1, w), RotR(x, 8, w)), ShrBits(x, 7))
SmallSigma1(x, w) == IF w = 32 THEN BitXor(BitXor(RotR(x, 17, w), RotR(x, 19, w)), ShrBits(x, 10))
                     ELSE BitXor(BitXor(RotR(x, 19, w), RotR(x, 61, w)), ShrBits(x, 6))

\* padding: message bytes, 0x80, zeros, the bit length as a big-endian integer of 2 words
BlockBytes(w) == 2 * w          \* 64 for SHA-256, 128 for SHA-512
LenBytes(w) == w \div 4         \* 8 / 16
NumBlocks(len, w) == (len + 1 + LenBytes(w) + BlockBytes(w) - 1) \div BlockBytes(w)
BEBytes(v, n) == [i \in 1..n |-> Dg(v, n + 1 - i)]
Pad(msg, w) ==
  LET total == NumBlocks(Len(msg), w) * BlockBytes(w)
      nz == total - Len(msg) - 1 - LenBytes(w)
  IN msg \o <<128>> \o [i \in 1..nz |-> 0] \o BEBytes(MulInt(OfInt(Len(msg)), 8), LenBytes(w))
WordBE(bytes, pos, w) == Trim([i \in 1..(w \div 8) |-> bytes[pos + (w \div 8) - i]])      \* big-endian word starting at pos

Schedule(block, w) ==        \* block: BlockBytes(w) bytes
  LET first == [t \in 1..16 |-> WordBE(block, (t - 1) * (w \div 8) + 1, w)]
      Ext(W, t) == Append(W, AddW(AddW(SmallSigma1(W[t - 2], w), W[t - 7], w), AddW(SmallSigma0(W[t - 15], w), W[t - 16], w), w))
  IN FoldLeft(Ext, first, [i \in 1..(ShaRounds(w) - 16) |-> i + 16])
Compress(H, block, w) ==
  LET K == ShaK(w)
      W == Schedule(block, w)
      Round(p, t) ==               \* p = <<a, b, c, d, e, f, g, h>>
        LET T1 == AddW(AddW(AddW(p[8], BigSigma1(p[5], w), w), Ch(p[5], p[6], p[7], w), w), AddW(K[t], W[t], w), w)
            T2 == AddW(BigSigma0(p[1], w), Maj(p[1], p[2], p[3]), w)
        IN <<AddW(T1, T2, w), p[1], p[2], p[3], AddW(p[4], T1, w), p[5], p[6], p[7]>>
      F == FoldLeft(Round, H, [t \in 1..ShaRounds(w) |-> t])
  IN [i \in 1..8 |-> AddW(H[i], F[i], w)]
\* chaining values after every block: <<H0, H1, ..., Hn>>
Sha2Chain(padded, w) ==
  LET nb == Len(padded) \div BlockBytes(w)
      Blk(chain, b) == Append(chain, Compress(chain[b], SubSeq(padded, (b - 1) * BlockBytes(w) + 1, b * BlockBytes(w)), w))
  IN FoldLeft(Blk, <<ShaH0(w)>>, [b \in 1..nb |-> b])
Sha2State(msg, w) == LET ch == Sha2Chain(Pad(msg, w), w) IN ch[Len(ch)]
RECURSIVE FlatBytes(_)
FlatBytes(ss) == IF ss = <<>> THEN <<>> ELSE Head(ss) \o FlatBytes(Tail(ss))
Sha2Digest(msg, w) == LET st == Sha2State(msg, w) IN FlatBytes([i \in 1..8 |-> BEBytes(st[i], w \div 8)])
Sha256(msg) == Sha2Digest(msg, 32)
Sha512(msg) == Sha2Digest(msg, 64)


\* ---- RIPEMD-160 (Dobbertin, Bosselaers, Preneel 1996; ISO/IEC 10118-3) --------------
\* two parallel lines of 5 x 16 steps on 32-bit words; little-endian words, MD4-style padding with a 64-bit length
RotL32(x, s) == RotR(x, 32 - s, 32)
Not32(x) == NotW(x, 32)
RmdF(j, x, y, z) ==
  CASE j < 16 -> BitXor(BitXor(x, y), z)
    [] j < 32 -> BitOr(BitAnd(x, y), BitAnd(Not32(x), z))
    [] j < 48 -> BitXor(BitOr(x, Not32(y)), z)
    [] j < 64 -> BitOr(BitAnd(x, z), BitAnd(y, Not32(z)))
    [] OTHER  -> BitXor(x, BitOr(y, Not32(z)))
\* added constants: the integer parts of 2^30 times the square roots (left line) and cube roots (right line) of 2, 3, 5, 7
RmdKL == <<Zero, IRoot(Mul(OfInt(2), Pow2(60)), 2), IRoot(Mul(OfInt(3), Pow2(60)), 2), IRoot(Mul(OfInt(5), Pow2(60)), 2), IRoot(Mul(OfInt(7), Pow2(60)), 2)>>
RmdKR == <<IRoot(Mul(OfInt(2), Pow2(90)), 3), IRoot(Mul(OfInt(3), Pow2(90)), 3), IRoot(Mul(OfInt(5), Pow2(90)), 3), IRoot(Mul(OfInt(7), Pow2(90)), 3), Zero>>
RmdRL == <<0, 1, 2, 3, 4, 5, 6, 7, 8, 9, 10, 11, 12, 13, 14, 15,
           7, 4, 13, 1, 10, 6, 15, 3, 12, 0, 9, 5, 2, 14, 11, 8,
           3, 10, 14, 4, 9, 15, 8, 1, 2, 7, 0, 6, 13, 11, 5, 12,
           1, 9, 11, 10, 0, 8, 12, 4, 13, 3, 7, 15, 14, 5, 6, 2,
           4, 0, 5, 9, 7, 12, 2, 10, 14, 1, 3, 8, 11, 6, 15, 13>>
RmdRR == <<5, 14, 7, 0, 9, 2, 11, 4, 13, 6, 15, 8, 1, 10, 3, 12,
           6, 11, 3, 7, 0, 13, 5, 10, 14, 15, 8, 12, 4, 9, 1, 2,
           15, 5, 1, 3, 7, 14, 6, 9, 11, 8, 12, 2, 10, 0, 4, 13,
           8, 6, 4, 1, 3, 11, 15, 0, 5, 12, 2, 13, 9, 7, 10, 14,
           12, 15, 10, 4, 1, 5, 8, 7, 6, 2, 13, 14, 0, 3, 9, 11>>
RmdSL == <<11, 14, 15, 12, 5, 8, 7, 9, 11, 13, 14, 15, 6, 7, 9, 8,
           7, 6, 8, 13, 11, 9, 7, 15, 7, 12, 15, 9, 11, 7, 13, 12,
           11, 13, 6, 7, 14, 9, 13, 15, 14, 8, 13, 6, 5, 12, 7, 5,
           11, 12, 14, 15, 14, 15, 9, 8, 9, 14, 5, 6, 8, 6, 5, 12,
           9, 15, 5, 11, 6, 8, 13, 12, 5, 12, 13, 14, 11, 8, 5, 6>>
RmdSR == <<8, 9, 9, 11, 13, 15, 15, 5, 7, 7, 8, 11, 14, 14, 12, 6,
           9, 13, 15, 7, 12, 8, 9, 11, 7, 7, 12, 7, 6, 15, 13, 11,
           9, 7, 15, 11, 8, 6, 6, 14, 12, 13, 5, 14, 13, 13, 7, 5,
           15, 5, 8, 11, 14, 14, 6, 14, 6, 9, 12, 9, 12, 5, 15, 8,
           8, 5, 12, 9, 12, 5, 14, 6, 8, 13, 6, 5, 15, 13, 11, 11>>
\* initial value 67452301 EFCDAB89 98BADCFE 10325476 C3D2E1F0 (as little-endian byte digits)
RmdH0 == <<OfBytesLE(<<1, 35, 69, 103>>), OfBytesLE(<<137, 171, 205, 239>>), OfBytesLE(<<254, 220, 186, 152>>),
           OfBytesLE(<<118, 84, 50, 16>>), OfBytesLE(<<240, 225, 210, 195>>)>>
Add32(a, b) == LowBits(Add(a, b), 32)
\* one step of a line: st = <<A, B, C, D, E>>
RmdStep(st, x, k, s, f) ==
  LET t == Add32(RotL32(Add32(Add32(Add32(st[1], f), x), k), s), st[5])
  IN <<st[5], t, st[2], RotL32(st[3], 10), st[4]>>
RmdPad(msg) ==
  LET n == Len(msg)
      total == ((n + 9 + 63) \div 64) * 64
      bits == BytesLE(OfInt(8 * n), 8)
  IN [i \in 1..total |-> IF i <= n THEN msg[i] ELSE IF i = n + 1 THEN 128 ELSE IF i > total - 8 THEN bits[i - (total - 8)] ELSE 0]
RmdCompress(h, blk) ==           \* blk: 64 bytes
  LET X == [i \in 1..16 |-> OfBytesLE(SubSeq(blk, 4 * i - 3, 4 * i))]
      L == FoldLeft(LAMBDA st, j : RmdStep(st, X[RmdRL[j + 1] + 1], RmdKL[(j \div 16) + 1], RmdSL[j + 1], RmdF(j, st[2], st[3], st[4])),
                    h, [j \in 1..80 |-> j - 1])
      R == FoldLeft(LAMBDA st, j : RmdStep(st, X[RmdRR[j + 1] + 1], RmdKR[(j \div 16) + 1], RmdSR[j + 1], RmdF(79 - j, st[2], st[3], st[4])),
                    h, [j \in 1..80 |-> j - 1])
  IN <<Add32(Add32(h[2], L[3]), R[4]), Add32(Add32(h[3], L[4]), R[5]), Add32(Add32(h[4], L[5]), R[1]),
       Add32(Add32(h[5], L[1]), R[2]), Add32(Add32(h[1], L[2]), R[3])>>
Ripemd160(msg) ==
  LET p == RmdPad(msg)
      st == FoldLeft(LAMBDA h, b : RmdCompress(h, SubSeq(p, 64 * b - 63, 64 * b)), RmdH0, [b \in 1..(Len(p) \div 64) |-> b])
  IN FlatBytes([i \in 1..5 |-> BytesLE(st[i], 4)])
\* test vectors of the RIPEMD-160 paper: "" and "abc"
ASSUME Ripemd160(<<>>) = <<156, 17, 133, 165, 197, 233, 252, 84, 97, 40, 8, 151, 126, 232, 245, 72, 178, 37, 141, 49>>
ASSUME Ripemd160(<<97, 98, 99>>) = <<142, 178, 8, 247, 224, 93, 152, 122, 155, 4, 74, 142, 152, 198, 176, 135, 241, 90, 11, 252>>

\* ---- Poseidon -------------------------------------------------------------------
PWidth == 3
PRate == 2
PFull == 8
PPartial == 60
Pow5(x, m) == LET x2 == MulM(x, x, m) IN MulM(MulM(x2, x2, m), x, m)
MatVec(mds, st, m) == [i \in 1..PWidth |-> AddM(AddM(MulM(mds[i][1], st[1], m), MulM(mds[i][2], st[2], m), m), MulM(mds[i][3], st[3], m), m)]
IsFullRound(r) == r <= PFull \div 2 \/ r > PFull \div 2 + PPartial                      \* r in 1..PFull + PPartial
PoseidonPermutation(state, mds, rc, m) ==
  LET Round(st, r) ==
        LET a == [i \in 1..PWidth |-> AddM(st[i], rc[r][i], m)]                         \* add round constants
            b == IF IsFullRound(r) THEN [i \in 1..PWidth |-> Pow5(a[i], m)]
                 ELSE [i \in 1..PWidth |-> IF i = PWidth THEN Pow5(a[i], m) ELSE a[i]]     \* S-box
        IN MatVec(mds, b, m)                                                           \* linear layer
  IN FoldLeft(Round, state, [r \in 1..(PFull + PPartial) |-> r])
\* ---- the sponge as a state machine (library semantics, shared by the CPU and the in-circuit implementation) ----
\* state: [reg, queue, pos, len]; len = -1 when no input length was declared (capacity 2^64, padding with the count)
SpInit(len) == [reg |-> <<Zero, Zero, IF len < 0 THEN Pow2(64) ELSE OfInt(len)>>, queue |-> <<>>, pos |-> 0, len |-> len]
SpAbsorb(st, xs) == [st EXCEPT !.queue = st.queue \o xs, !.pos = 0]
\* squeeze returns <<new state, output>>; a second squeeze of a fixed-length sponge is an error (output <<"error">>)
SpSqueeze(st, mds, rc, m) ==
  IF st.pos > 0
  THEN IF st.len >= 0 THEN <<st, <<"error">>>>
       ELSE <<[st EXCEPT !.pos = (st.pos + 1) % PRate], st.reg[(st.pos % PRate) + 1]>>
  ELSE IF st.len >= 0 /\ Len(st.queue) # st.len THEN <<st, <<"error">>>>
  ELSE LET q == IF st.len < 0 THEN Append(st.queue, OfInt(Len(st.queue))) ELSE st.queue
           n == Len(q)
           nch == (n + PRate - 1) \div PRate
           Chunk(p, c) == PoseidonPermutation(<<AddM(p[1], q[2 * c - 1], m), IF 2 * c <= n THEN AddM(p[2], q[2 * c], m) ELSE p[2], p[3]>>, mds, rc, m)
           reg2 == FoldLeft(Chunk, st.reg, [c \in 1..nch |-> c])
       IN <<[st EXCEPT !.reg = reg2, !.queue = <<>>, !.pos = 1 % PRate], reg2[1]>>
\* run a session: ops is a sequence of <<"absorb", xs>> / <<"squeeze">>; returns the sequence of squeeze outputs
SpRun(len, ops, mds, rc, m) ==
  LET Step(acc, i) ==      \* acc = <<state, outputs>>
        IF ops[i][1] = "absorb" THEN <<SpAbsorb(acc[1], ops[i][2]), acc[2]>>
        ELSE LET r == SpSqueeze(acc[1], mds, rc, m) IN <<r[1], Append(acc[2], r[2])>>
  IN FoldLeft(Step, <<SpInit(len), <<>>>>, [i \in 1..Len(ops) |-> i])[2]

\* the sponge: absorb `inputs` by chunks of PRate into a register whose capacity element starts at `cap`
PoseidonSponge(inputs, cap, mds, rc, m) ==
  LET n == Len(inputs)
      nch == (n + PRate - 1) \div PRate
      Chunk(p, c) ==
        PoseidonPermutation(<<AddM(p[1], inputs[2 * c - 1], m), IF 2 * c <= n THEN AddM(p[2], inputs[2 * c], m) ELSE p[2], p[3]>>, mds, rc, m)
  IN FoldLeft(Chunk, <<Zero, Zero, cap>>, [c \in 1..nch |-> c])[1]
\* the transcript sponge: no declared length (capacity 2^64), the number of absorbed elements is appended as padding
PoseidonTranscriptSqueeze(inputs, mds, rc, m) == PoseidonSponge(Append(inputs, OfInt(Len(inputs))), Pow2(64), mds, rc, m)
\* fixed-length hash: capacity = number of inputs, absorb by chunks of PRate, squeeze the first element
PoseidonHash(inputs, mds, rc, m) ==
  LET n == Len(inputs)
      nch == (n + PRate - 1) \div PRate
      Chunk(p, c) ==
        PoseidonPermutation(<<AddM(p[1], inputs[2 * c - 1], m), IF 2 * c <= n THEN AddM(p[2], inputs[2 * c], m) ELSE p[2], p[3]>>, mds, rc, m)
  IN FoldLeft(Chunk, <<Zero, Zero, OfInt(n)>>, [c \in 1..nch |-> c])[1]
=============================================================================
