SPECIFICATION TraceSpec
CONSTANTS
  P = 12289
  Emit = FALSE
POSTCONDITION TraceAccepted
CHECK_DEADLOCK FALSE
