SPECIFICATION GSpec
CONSTANTS
  P = 5
  Emit = FALSE
INVARIANT Sound
INVARIANT Witness
CHECK_DEADLOCK FALSE
