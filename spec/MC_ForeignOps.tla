---------------------------- MODULE MC_ForeignOps ----------------------------
(* Scenario generator for C05: every emulated field x operation x boundary  *)
(* operand classes, and the big-integer gadget over a menu of widths.  Each *)
(* scenario is printed as one REPLAY line (with the specification's verdict *)
(* on whether the inputs are in the domain); the driver replays them into   *)
(* the real chips.  The invariant checks the encodings on every operand:    *)
(* Decode(Encode(x)) = x, Encode(x) canonical, and injectivity on the menu. *)
EXTENDS ForeignOps, Json, Sequences

M(f) == Modulus(f)
AllOnes(f) == Rem(Sub(Pow2(LB(f) * NL(f)), One), M(f))
Rnd(f, k) == PowMI(OfInt(3), 1000 + k, M(f))            \* fixed pseudo-random residues
FVals(f) ==
  {Zero, One, OfInt(2), Sub(M(f), One), Sub(M(f), OfInt(2)),
   Sub(Pow2(LB(f)), One), Pow2(LB(f)), Add(Pow2(LB(f)), One), Pow2(LB(f) * (NL(f) - 1)),
   AllOnes(f), Half(M(f)), Add(Half(M(f)), One), Pow2(NumBits(M(f)) - 1),
   Sub(M(f), Pow2(LB(f))), Rnd(f, 1), Rnd(f, 2)}
FSmall(f) == {Zero, One, Sub(M(f), One), Pow2(LB(f)), AllOnes(f), Rnd(f, 1)}
FPairs(f) == (FSmall(f) \X FSmall(f)) \cup {<<a, a>> : a \in FVals(f)}
                \cup {<<a, NegM(a, M(f))>> : a \in FVals(f)}
                \cup {<<a, AddM(a, One, M(f))>> : a \in FVals(f)}
Sc(fam, f, op, pr, ins, nb) == [fam |-> fam, field |-> f, op |-> op, params |-> pr, ins |-> ins, nbits |-> nb]

FScen(f) ==
  { Sc("ff", f, o, <<>>, <<p[1], p[2]>>, <<>>) :
        o \in {"add", "sub", "mul", "div", "is_equal", "is_not_equal", "assert_equal", "assert_not_equal",
               "addsub", "unnorm_eq", "unnorm_pub", "unnorm_mul", "unnorm_iszero", "unnorm_subsub"}, p \in FPairs(f) }
  \* a well-formed w against the un-normalised difference x - y: w = x - y, and w one off
  \cup UNION { { Sc("ff", f, "unnorm_subeq", <<>>, <<w, p[1], p[2]>>, <<>>) :
                    w \in {SubM(p[1], p[2], M(f)), AddM(SubM(p[1], p[2], M(f)), One, M(f))} } : p \in FPairs(f) }
  \cup { Sc("ff", f, o, <<>>, <<a>>, <<>>) :
        o \in {"neg", "inv", "inv0", "square", "is_zero", "assert_non_zero", "pub", "assign_pub", "unnorm_bits"}, a \in FVals(f) }
  \cup { Sc("ff", f, o, <<c>>, <<a>>, <<>>) :
        o \in {"add_constant", "mul_by_constant", "is_equal_to_fixed"}, c \in {Zero, One, Sub(M(f), One), Rnd(f, 1)}, a \in FVals(f) }
  \cup { Sc("ff", f, "lincomb", <<c[1], c[2], c[3]>>, <<p[1], p[2]>>, <<>>) :
        c \in {<<One, One, Zero>>, <<OfInt(2), Sub(M(f), One), OfInt(5)>>, <<Zero, Zero, Zero>>, <<Rnd(f, 1), Rnd(f, 2), Sub(M(f), One)>>},
        p \in FSmall(f) \X FSmall(f) }
  \cup { Sc("ff", f, "select", <<>>, <<b, p[1], p[2]>>, <<>>) : b \in {Zero, One}, p \in {<<Zero, One>>, <<Rnd(f, 1), Sub(M(f), One)>>} }
  \cup { Sc("ff", f, o, <<OfInt(n)>>, <<a>>, <<>>) :
        o \in {"to_le_bits", "to_le_bits_nc"}, n \in {0, 1, 8, 64, 65, NumBits(M(f)) - 1, NumBits(M(f))}, a \in FVals(f) }
  \cup { Sc("ff", f, "to_le_bytes", <<OfInt(n)>>, <<a>>, <<>>) : n \in {0, 1, 8, 9, 31, 32}, a \in FVals(f) }
  \cup { Sc("ff", f, "from_le_bits", <<OfInt(n)>>, MapSeq(BitsLE(a, n), LAMBDA b : OfInt(b)), <<>>) :
        n \in {1, 8, 52, 64, 65, NumBits(M(f)), NumBits(M(f)) + 3}, a \in {Zero, One, Sub(M(f), One), M(f), AllOnes(f), Rnd(f, 1), Sub(Pow2(400), One)} }
  \cup { Sc("ff", f, "from_le_bytes", <<OfInt(n)>>, MapSeq(BytesLE(a, n), LAMBDA b : OfInt(b)), <<>>) :
        n \in {1, 6, 7, 8, 9, 13, 31, 32, 33, 48}, a \in {Zero, One, Sub(M(f), One), M(f), AllOnes(f), Rnd(f, 1), Sub(Pow2(400), One)} }

\* big integers: (widths of x and y) x operand classes within the widths
Widths == {<<1, 1>>, <<8, 8>>, <<96, 96>>, <<97, 95>>, <<200, 100>>, <<256, 256>>, <<257, 255>>, <<100, 300>>,
           <<1024, 1024>>, <<2048, 2048>>}
UVals(n) == {Zero, One, Sub(Pow2(n), One), Pow2(n - 1), Rem(Sub(Pow2(96), One), Pow2(n)), Rem(Pow2(96), Pow2(n)),
             Rem(PowMI(OfInt(3), 3000, Pow2(2100)), Pow2(n)), Rem(PowMI(OfInt(7), 3000, Pow2(2100)), Pow2(n))}
BOps2 == {"add", "sub", "mul", "addmul", "div_rem", "lower_than", "unnorm_lt", "is_equal", "unnorm_eq", "assert_equal"}
BOps1 == {"to_le_bits", "to_le_bytes", "roundtrip_bits", "roundtrip_bytes", "pub"}
BScen ==
  UNION { { Sc("big", "none", o, <<>>, <<a, b>>, <<w[1], w[2]>>) : o \in BOps2, a \in UVals(w[1]), b \in UVals(w[2]) } : w \in Widths }
  \cup UNION { { Sc("big", "none", "mod_exp", <<OfInt(e)>>, <<a, b>>, <<w[1], w[2]>>) :
                    e \in {0, 1, 2, 3, 5, 17, 65537}, a \in UVals(w[1]), b \in UVals(w[2]) } :
                w \in {<<8, 8>>, <<64, 64>>, <<200, 100>>, <<256, 256>>} }
  \cup UNION { { Sc("big", "none", o, <<>>, <<a>>, <<n>>) : o \in BOps1, a \in UVals(n) } : n \in {1, 8, 95, 96, 97, 200, 256, 1024} }
  \cup UNION { { Sc("big", "none", "is_equal_to_fixed", <<c>>, <<a>>, <<n>>) : a \in UVals(n), c \in UVals(n) \cup {Pow2(n), Pow2(300)} } :
                n \in {8, 96, 192, 200} }
  \cup { Sc("big", "none", "select", <<>>, <<b, p[1], p[2]>>, <<1, 200, 200>>) :
        b \in {Zero, One}, p \in {<<Zero, One>>, <<Sub(Pow2(200), One), Pow2(96)>>} }

CONSTANTS Family, Emit
Scenarios == IF Family = "big" THEN BScen ELSE FScen(Family)

VARIABLE sc
Init == sc \in Scenarios
Next == UNCHANGED sc
Spec == Init /\ [][Next]_sc

InDom == IF sc.fam = "ff" THEN FDom(sc.op, sc.field, sc.params, [i \in 1..Len(sc.ins) |-> Rem(sc.ins[i], M(sc.field))])
         ELSE BDom(sc.op, sc.params, sc.ins)
\* (the domain of bit / byte typed inputs is evaluated on the raw values, which Mod leaves unchanged)

EncodingsOK ==
  sc.fam = "ff" =>
    LET f == sc.field IN
    \A i \in 1..Len(sc.ins) :
       LET x == Rem(sc.ins[i], M(f)) IN
       /\ CanonF(EncodeF(x, f), f)
       /\ DecodeF(EncodeF(x, f), f) = x
BigEncodingsOK ==
  sc.fam = "big" =>
    \A i \in 1..Len(sc.ins) :
       LET n == NLimbsU(sc.nbits[i]) IN
       /\ CanonU(EncodeU(sc.ins[i], n))
       /\ (Lt(sc.ins[i], Pow2(BigLB * n)) => DecodeU(EncodeU(sc.ins[i], n)) = sc.ins[i])
EmitReplay ==
  Emit => PrintT("REPLAY " \o ToJson([fam |-> sc.fam, field |-> sc.field, op |-> sc.op, params |-> sc.params,
                                       ins |-> sc.ins, nbits |-> sc.nbits, dom |-> InDom]))
=============================================================================
