------------------------------ MODULE Htc_Trace ------------------------------
(* C06, hash to curve: map_to_curve(u) and hash_to_curve(inputs) on Jubjub,  *)
(* off-circuit and in-circuit (inputs and resulting point exposed), against  *)
(* HashToCurve.tla.  Line 1: header; line 2: the Poseidon constants and the   *)
(* map's parameters as the code publishes them (Z, the Weierstrass and        *)
(* Montgomery coefficients, c1..c4), which must be the ones the specification *)
(* derives from the curve.                                                    *)
EXTENDS HashToCurve, Json, IOUtils

Rec == ndJsonDeserialize(IOEnv.TRACE)
VARIABLE l
Ev == Rec[l]
Consts == Rec[2]
Z == Consts.htc.z

ConstsOK(c) ==
  /\ Trim(Rec[1].native) = JP
  /\ ZOK(c.htc.z)
  /\ c.htc.j = MontJ /\ c.htc.k = MontK /\ c.htc.a = WeiA /\ c.htc.b = WeiB
  /\ c.htc.c1 = G(c.htc.z)
  /\ c.htc.c2 = NegM(MulM(c.htc.z, InvM(OfInt(2), JP), JP), JP)
  /\ MulM(c.htc.c3, c.htc.c3, JP) = NegM(MulM(G(c.htc.z), Det(c.htc.z), JP), JP) /\ Sgn0(c.htc.c3) = 0
  /\ c.htc.c4 = DivM(NegM(MulM(OfInt(4), G(c.htc.z), JP), JP), Det(c.htc.z), JP)

P(j) == [id |-> j.id, x |-> j.x, y |-> j.y]
Expected(e) == IF e.op = "mtc" THEN MapToCurve(Rem(e.inputs[1], JP), Z) ELSE HashToCurve(e.inputs, Z, Consts.mds, Consts.rc)
HtcOK(e) ==
  IF e.tampered /\ e.status # "sat" THEN TRUE
  ELSE LET q == Expected(e)
           n == Len(e.inputs)
       IN /\ e.status = "sat"
          /\ OnCurve(Jubjub, q) /\ InSubgroup(Jubjub, q)
          \* exposed: the inputs, then the point's coordinates
          /\ Len(e.exposed) = n + 2
          /\ e.tampered \/ SubSeq(e.exposed, 1, n) = e.inputs
          /\ LET ins == SubSeq(e.exposed, 1, n)
                 r == IF e.op = "mtc" THEN MapToCurve(ins[1], Z) ELSE HashToCurve(ins, Z, Consts.mds, Consts.rc)
             IN Pt(e.exposed[n + 1], e.exposed[n + 2]) = r
          \* the off-circuit implementation
          /\ P(e.cpu) = q

TInitL == l = 1
THeader == l <= Len(Rec) /\ Ev.ev = "header" /\ l' = l + 1
TConsts == l <= Len(Rec) /\ Ev.ev = "PoseidonConstants" /\ ConstsOK(Ev) /\ l' = l + 1
THtc == l <= Len(Rec) /\ Ev.ev = "Htc" /\ HtcOK(Ev) /\ l' = l + 1
TraceSpec == TInitL /\ [][THeader \/ TConsts \/ THtc]_l

TraceAccepted ==
  LET d == TLCGet("stats").diameter IN
  IF d - 1 = Len(Rec) THEN TRUE
  ELSE Print(<<"TRACE-REJECTED first unmatched line", d, "of", Len(Rec)>>, FALSE)
=============================================================================
