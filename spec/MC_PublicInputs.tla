--------------------------- MODULE MC_PublicInputs ---------------------------
(* Menus of boundary values for every exposable type; TLC checks on them    *)
(* that Decode(Encode(v)) = v, that Encode has the declared length, and that *)
(* no two distinct values of one type share an encoding; every item is      *)
(* printed as a REPLAY line for the driver.                                 *)
EXTENDS PublicInputs, Json, Sequences

DlogMenu == {0, 1, 2, 3, -1, -2, 5, 1000}
BigWidths == {1, 8, 95, 96, 97, 200, 256, 1024}
UMenu(n) == {Zero, One, Sub(Pow2(n), One), Pow2(n - 1), Rem(Sub(Pow2(96), One), Pow2(n)), Rem(Pow2(96), Pow2(n)),
             Rem(PowMI(OfInt(3), 3000, Pow2(2100)), Pow2(n))}
FMenu(m, lb, nl) == {Zero, One, OfInt(2), Sub(m, One), Sub(m, OfInt(2)), Sub(Pow2(lb), One), Pow2(lb), Add(Pow2(lb), One),
                     Pow2(lb * (nl - 1)), Rem(Sub(Pow2(lb * nl), One), m), Half(m), PowMI(OfInt(3), 1001, m)}
Item(ty, nb, v, isd, k) == [ty |-> ty, nbits |-> nb, val |-> v, isd |-> isd, dlog |-> k]
Items ==
  { Item("bit", 0, v, FALSE, 0) : v \in {Zero, One} }
  \cup { Item("byte", 0, OfInt(v), FALSE, 0) : v \in {0, 1, 127, 128, 255} }
  \cup { Item("native", 0, v, FALSE, 0) : v \in FMenu(Native, 64, 4) }
  \cup { Item("jub_scalar", 0, v, FALSE, 0) : v \in FMenu(JubR, 64, 4) }
  \cup UNION { { Item(f, 0, v, FALSE, 0) : v \in FMenu(Modulus(f), LB(f), NL(f)) } : f \in {"secp_n", "secp_p", "bls_p"} }
  \cup UNION { { Item("big", n, v, FALSE, 0) : v \in UMenu(n) } : n \in BigWidths }
  \* values handed to the big-integer encoder that do NOT fit the limbs of the declared width (and one that fits the limbs
  \* but exceeds the width): the encoder is a partial function, see DomOK
  \cup UNION { { Item("big_dom", n, v, FALSE, 0) :
                    v \in {Pow2(n), Pow2(BigLB * NLimbsU(n)), Add(Pow2(BigLB * NLimbsU(n)), OfInt(5)),
                           Add(Pow2(BigLB * (NLimbsU(n) + 1)), One), Add(Pow2(BigLB * NLimbsU(n) + 7), Sub(Pow2(n), One))} } : n \in BigWidths }
  \cup UNION { { Item(ty, 0, PMulI(CurveOfTy(ty), k, CurveOfTy(ty).g), TRUE, k) : k \in DlogMenu } : ty \in {"jub_point", "secp_point", "bls_point"} }

VARIABLE it
Init == it \in Items
Next == UNCHANGED it
Spec == Init /\ [][Next]_it

IsDom == it.ty = "big_dom"
\* why the encoder must refuse what does not fit: exactly those values do not survive the limb decomposition, and their
\* truncation IS the encoding of another value (so returning it would make two values share an encoding)
DomOK == IsDom =>
  LET n == NLimbsU(it.nbits)  fits == Lt(it.val, Pow2(BigLB * n)) IN
  /\ fits <=> DecodeU(EncodeU(it.val, n)) = it.val
  /\ ~fits => /\ CanonU(EncodeU(it.val, n))
              /\ DecodeU(EncodeU(it.val, n)) # it.val
RoundTrip == IsDom \/
             /\ Typed(it.ty, it.nbits, it.val)
             /\ Len(Encode(it.ty, it.nbits, it.val)) = EncLen(it.ty, it.nbits)
             /\ Decode(it.ty, it.nbits, Encode(it.ty, it.nbits, it.val)) = it.val
Injective == IsDom \/ \A o \in Items : (o.ty = it.ty /\ o.nbits = it.nbits /\ o.val # it.val) =>
                 Encode(o.ty, o.nbits, o.val) # Encode(it.ty, it.nbits, it.val)
EmitReplay == PrintT("REPLAY " \o ToJson([ty |-> it.ty, nbits |-> it.nbits,
                                            val |-> IF it.isd THEN <<>> ELSE it.val, dlog |-> it.dlog,
                                            isdlog |-> it.isd, len |-> IF IsDom THEN NLimbsU(it.nbits) ELSE EncLen(it.ty, it.nbits)]))
=============================================================================
