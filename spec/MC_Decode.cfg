SPECIFICATION Spec
CONSTANTS
  Emit = TRUE
INVARIANT Inv
INVARIANT EmitReplay
CHECK_DEADLOCK FALSE
