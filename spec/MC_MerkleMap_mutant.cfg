SPECIFICATION Spec
CONSTANTS
  MaxOps = 2
  Emit = FALSE
  HashKind = "left"
INVARIANT Inv
CHECK_DEADLOCK FALSE
