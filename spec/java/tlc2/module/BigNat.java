package tlc2.module;

import java.math.BigInteger;

import tlc2.value.impl.BoolValue;
import tlc2.value.impl.IntValue;
import tlc2.value.impl.TupleValue;
import tlc2.value.impl.Value;

/**
 * Evaluator override for the TLA+ module BigNat (spec/BigNat.tla): the same
 * functions as the TLA+ definitions, computed with java.math.BigInteger. TLC
 * loads this class because it is named after the module (package tlc2.module).
 * The TLA+ definitions remain the specification; `check C10 quick` runs
 * BigNat's self-test both with and without this class on the classpath and
 * requires identical results.
 */
public class BigNat {
    public static final long serialVersionUID = 20261004L;

    private static BigInteger big(final Value v) {
        final Value t0 = v.toTuple();
        if (t0 == null) {
            throw new RuntimeException("BigNat: not a sequence: " + v);
        }
        final Value[] e = ((TupleValue) t0).elems;
        final byte[] be = new byte[e.length + 1];
        for (int i = 0; i < e.length; i++) {
            final int d = ((IntValue) e[i]).val;
            if (d < 0 || d > 255) {
                throw new RuntimeException("BigNat: digit out of range: " + d);
            }
            be[e.length - i] = (byte) d;
        }
        return new BigInteger(be);
    }

    private static Value nat(final BigInteger x) {
        if (x.signum() < 0) {
            throw new RuntimeException("BigNat: negative result");
        }
        if (x.signum() == 0) {
            return new TupleValue(new Value[0]);
        }
        final byte[] be = x.toByteArray();
        int start = 0;
        while (start < be.length && be[start] == 0) {
            start++;
        }
        final Value[] out = new Value[be.length - start];
        for (int i = 0; i < out.length; i++) {
            out[i] = IntValue.gen(be[be.length - 1 - i] & 0xff);
        }
        return new TupleValue(out);
    }

    private static Value fixed(final BigInteger x, final int n, final int base) {
        final Value[] out = new Value[n];
        BigInteger t = x;
        final BigInteger b = BigInteger.valueOf(base);
        for (int i = 0; i < n; i++) {
            out[i] = IntValue.gen(t.mod(b).intValue());
            t = t.divide(b);
        }
        return new TupleValue(out);
    }

    private static int in(final Value v) {
        return ((IntValue) v).val;
    }

    public static Value Trim(final Value a) {
        return nat(big(a));
    }

    public static Value OfInt(final Value n) {
        return nat(BigInteger.valueOf(in(n)));
    }

    public static Value ToInt(final Value a) {
        return IntValue.gen(big(a).intValueExact());
    }

    public static Value Cmp(final Value a, final Value b) {
        return IntValue.gen(big(a).compareTo(big(b)));
    }

    public static Value Lt(final Value a, final Value b) {
        return big(a).compareTo(big(b)) < 0 ? BoolValue.ValTrue : BoolValue.ValFalse;
    }

    public static Value Le(final Value a, final Value b) {
        return big(a).compareTo(big(b)) <= 0 ? BoolValue.ValTrue : BoolValue.ValFalse;
    }

    public static Value Add(final Value a, final Value b) {
        return nat(big(a).add(big(b)));
    }

    public static Value Sub(final Value a, final Value b) {
        return nat(big(a).subtract(big(b)));
    }

    public static Value Mul(final Value a, final Value b) {
        return nat(big(a).multiply(big(b)));
    }

    public static Value MulInt(final Value a, final Value k) {
        return nat(big(a).multiply(BigInteger.valueOf(in(k))));
    }

    public static Value Pow2(final Value n) {
        return nat(BigInteger.ONE.shiftLeft(in(n)));
    }

    public static Value Double(final Value a) {
        return nat(big(a).shiftLeft(1));
    }

    public static Value Half(final Value a) {
        return nat(big(a).shiftRight(1));
    }

    public static Value NumBits(final Value a) {
        return IntValue.gen(big(a).bitLength());
    }

    public static Value Bit(final Value a, final Value i) {
        return IntValue.gen(big(a).testBit(in(i)) ? 1 : 0);
    }

    public static Value BitsLE(final Value a, final Value n) {
        final BigInteger x = big(a);
        final Value[] out = new Value[in(n)];
        for (int i = 0; i < out.length; i++) {
            out[i] = IntValue.gen(x.testBit(i) ? 1 : 0);
        }
        return new TupleValue(out);
    }

    public static Value BytesLE(final Value a, final Value n) {
        return fixed(big(a).mod(BigInteger.ONE.shiftLeft(8 * in(n))), in(n), 256);
    }

    public static Value OfBitsLE(final Value bits) {
        final Value[] e = ((TupleValue) bits.toTuple()).elems;
        BigInteger x = BigInteger.ZERO;
        for (int i = 0; i < e.length; i++) {
            final int b = in(e[i]);
            if (b != 0 && b != 1) {
                throw new RuntimeException("BigNat: not a bit: " + b);
            }
            if (b == 1) {
                x = x.setBit(i);
            }
        }
        return nat(x);
    }

    public static Value BitAnd(final Value a, final Value b) {
        return nat(big(a).and(big(b)));
    }

    public static Value BitOr(final Value a, final Value b) {
        return nat(big(a).or(big(b)));
    }

    public static Value BitXor(final Value a, final Value b) {
        return nat(big(a).xor(big(b)));
    }

    public static Value ShrBits(final Value a, final Value n) {
        return nat(big(a).shiftRight(in(n)));
    }

    public static Value LowBits(final Value a, final Value n) {
        return nat(big(a).mod(BigInteger.ONE.shiftLeft(in(n))));
    }

    public static Value RotR(final Value a, final Value k, final Value n) {
        final int nn = in(n);
        final int kk = ((in(k) % nn) + nn) % nn;
        final BigInteger mask = BigInteger.ONE.shiftLeft(nn).subtract(BigInteger.ONE);
        final BigInteger x = big(a).and(mask);
        return nat(x.shiftRight(kk).or(x.shiftLeft(nn - kk).and(mask)));
    }

    public static Value IRoot(final Value a, final Value k) {
        final BigInteger x = big(a);
        final int kk = in(k);
        BigInteger lo = BigInteger.ZERO;
        BigInteger hi = BigInteger.ONE.shiftLeft(x.bitLength() / kk + 1);
        while (lo.add(BigInteger.ONE).compareTo(hi) < 0) {
            final BigInteger mid = lo.add(hi).shiftRight(1);
            if (mid.pow(kk).compareTo(x) <= 0) {
                lo = mid;
            } else {
                hi = mid;
            }
        }
        return nat(lo);
    }

    public static Value DivMod(final Value a, final Value m) {
        final BigInteger[] qr = big(a).divideAndRemainder(big(m));
        return new TupleValue(new Value[] {nat(qr[0]), nat(qr[1])});
    }

    public static Value Rem(final Value a, final Value m) {
        return nat(big(a).mod(big(m)));
    }

    public static Value Quo(final Value a, final Value m) {
        return nat(big(a).divide(big(m)));
    }

    public static Value AddM(final Value a, final Value b, final Value m) {
        return nat(big(a).add(big(b)).mod(big(m)));
    }

    public static Value SubM(final Value a, final Value b, final Value m) {
        return nat(big(a).subtract(big(b)).mod(big(m)));
    }

    public static Value NegM(final Value a, final Value m) {
        return nat(big(a).negate().mod(big(m)));
    }

    public static Value MulM(final Value a, final Value b, final Value m) {
        return nat(big(a).multiply(big(b)).mod(big(m)));
    }

    public static Value PowMI(final Value a, final Value e, final Value m) {
        return nat(big(a).modPow(BigInteger.valueOf(in(e)), big(m)));
    }

    public static Value PowM(final Value a, final Value e, final Value m) {
        return nat(big(a).modPow(big(e), big(m)));
    }
}
