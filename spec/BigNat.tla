------------------------------- MODULE BigNat -------------------------------
(***************************************************************************)
(* Natural numbers of arbitrary size for TLC (whose integers are 32 bit):   *)
(* little-endian sequences of digits in base 256, normalised (no most-      *)
(* significant zero digit; zero is the empty sequence).  Everything the     *)
(* number-theoretic specifications (ForeignOps, PublicInputs, Curve,        *)
(* PrimeField) need: comparison, +, -, *, division with remainder by        *)
(* shift-and-subtract, modular arithmetic, powers of two, bits.             *)
(* A JSON array of bytes as logged by the harness is already a BigNat once  *)
(* trimmed.                                                                 *)
(***************************************************************************)
EXTENDS Integers, Sequences

B == 256

RECURSIVE Trim(_)
Trim(a) == IF a = <<>> THEN <<>>
           ELSE IF a[Len(a)] = 0 THEN Trim(SubSeq(a, 1, Len(a) - 1)) ELSE a

IsNat(a) == /\ \A i \in 1..Len(a) : a[i] \in 0..(B - 1)
            /\ (a = <<>> \/ a[Len(a)] # 0)

Zero == <<>>
One == <<1>>
RECURSIVE OfInt(_)
OfInt(n) == IF n = 0 THEN <<>> ELSE <<n % B>> \o OfInt(n \div B)   \* n >= 0
RECURSIVE ToIntFrom(_, _)
ToIntFrom(a, i) == IF i > Len(a) THEN 0 ELSE a[i] + B * ToIntFrom(a, i + 1)
ToInt(a) == ToIntFrom(a, 1)                                        \* only for a < 2^31

Dg(a, i) == IF i <= Len(a) THEN a[i] ELSE 0

\* comparison: -1, 0, 1
RECURSIVE CmpFrom(_, _, _)
CmpFrom(a, b, i) ==
  IF i = 0 THEN 0
  ELSE IF Dg(a, i) < Dg(b, i) THEN -1
  ELSE IF Dg(a, i) > Dg(b, i) THEN 1
  ELSE CmpFrom(a, b, i - 1)
Cmp(a, b) == IF Len(a) < Len(b) THEN -1 ELSE IF Len(a) > Len(b) THEN 1 ELSE CmpFrom(a, b, Len(a))
Lt(a, b) == Cmp(a, b) = -1
Le(a, b) == Cmp(a, b) # 1

Max(x, y) == IF x > y THEN x ELSE y

\* addition
RECURSIVE AddFrom(_, _, _, _, _)
AddFrom(a, b, i, n, c) ==
  IF i > n THEN (IF c = 0 THEN <<>> ELSE <<c>>)
  ELSE LET s == Dg(a, i) + Dg(b, i) + c IN <<s % B>> \o AddFrom(a, b, i + 1, n, s \div B)
Add(a, b) == AddFrom(a, b, 1, Max(Len(a), Len(b)), 0)

\* subtraction (a >= b)
RECURSIVE SubFrom(_, _, _, _)
SubFrom(a, b, i, c) ==
  IF i > Len(a) THEN <<>>
  ELSE LET s == Dg(a, i) - Dg(b, i) - c IN
       IF s < 0 THEN <<s + B>> \o SubFrom(a, b, i + 1, 1) ELSE <<s>> \o SubFrom(a, b, i + 1, 0)
Sub(a, b) == Trim(SubFrom(a, b, 1, 0))

\* multiplication: column sums (each < 2^16 * Len, safe for Len < 2^15), then carries
RECURSIVE ColSum(_, _, _, _)
ColSum(a, b, k, i) ==           \* sum over i..min(k, Len(a)) of a[i] * b[k + 1 - i]
  IF i > Len(a) \/ i > k THEN 0
  ELSE (IF k + 1 - i <= Len(b) THEN a[i] * b[k + 1 - i] ELSE 0) + ColSum(a, b, k, i + 1)
RECURSIVE Carry(_, _, _)
Carry(cols, i, c) ==
  IF i > Len(cols) THEN (IF c = 0 THEN <<>> ELSE <<c % B>> \o Carry(cols, i, c \div B))
  ELSE LET s == cols[i] + c IN <<s % B>> \o Carry(cols, i + 1, s \div B)
Mul(a, b) ==
  IF a = <<>> \/ b = <<>> THEN <<>>
  ELSE LET n == Len(a) + Len(b) - 1
           lo(k) == IF k > Len(b) THEN k + 1 - Len(b) ELSE 1
       IN Trim(Carry([k \in 1..n |-> ColSum(a, b, k, lo(k))], 1, 0))
MulInt(a, k) == Mul(a, OfInt(k))

\* powers of two, shifts, bits
RECURSIVE Zeros(_)
Zeros(n) == IF n = 0 THEN <<>> ELSE <<0>> \o Zeros(n - 1)
RECURSIVE P2(_)
P2(n) == IF n = 0 THEN 1 ELSE 2 * P2(n - 1)            \* small n only
Pow2(n) == Zeros(n \div 8) \o <<P2(n % 8)>>
ShlBytes(a, n) == IF a = <<>> THEN <<>> ELSE Zeros(n) \o a
Double(a) == Add(a, a)
NumBits(a) == IF a = <<>> THEN 0
              ELSE LET top == a[Len(a)]
                       RECURSIVE bl(_)
                       bl(x) == IF x = 0 THEN 0 ELSE 1 + bl(x \div 2)
                   IN 8 * (Len(a) - 1) + bl(top)
Bit(a, i) == (Dg(a, (i \div 8) + 1) \div P2(i % 8)) % 2          \* i-th bit, 0-based
BitsLE(a, n) == [i \in 1..n |-> Bit(a, i - 1)]
BytesLE(a, n) == [i \in 1..n |-> Dg(a, i)]
OfBytesLE(s) == Trim(s)
RECURSIVE OfBitsFrom(_, _)
OfBitsFrom(bits, i) ==     \* bytes from bit index i (1-based, multiple of 8 plus 1)
  IF i > Len(bits) THEN <<>>
  ELSE LET bt(j) == IF i + j <= Len(bits) THEN bits[i + j] * P2(j) ELSE 0
       IN <<bt(0) + bt(1) + bt(2) + bt(3) + bt(4) + bt(5) + bt(6) + bt(7)>> \o OfBitsFrom(bits, i + 8)
OfBitsLE(bits) == Trim(OfBitsFrom(bits, 1))
\* low n bits / shift right by n bits
RECURSIVE HalfFrom(_, _, _)
HalfFrom(a, i, c) == IF i = 0 THEN <<>> ELSE HalfFrom(a, i - 1, a[i] % 2) \o <<(a[i] + B * c) \div 2>>
Half(a) == Trim(HalfFrom(a, Len(a), 0))

\* bitwise operations (on the binary expansions) and integer roots
BitAnd(a, b) == OfBitsLE([i \in 1..8 * Max(Len(a), Len(b)) |-> Bit(a, i - 1) * Bit(b, i - 1)])
BitOr(a, b) == OfBitsLE([i \in 1..8 * Max(Len(a), Len(b)) |-> Bit(a, i - 1) + Bit(b, i - 1) - Bit(a, i - 1) * Bit(b, i - 1)])
BitXor(a, b) == OfBitsLE([i \in 1..8 * Max(Len(a), Len(b)) |-> (Bit(a, i - 1) + Bit(b, i - 1)) % 2])
ShrBits(a, n) == OfBitsLE([i \in 1..Max(0, 8 * Len(a) - n) |-> Bit(a, i - 1 + n)])
LowBits(a, n) == OfBitsLE([i \in 1..n |-> Bit(a, i - 1)])
\* rotation of an n-bit word to the right by k
RotR(a, k, n) == OfBitsLE([i \in 1..n |-> Bit(a, (i - 1 + k) % n)])

\* division with remainder, digit-serial (Knuth D without normalisation): for
\* each digit of a from the top, r := r * 256 + d; the quotient digit is
\* estimated from the three leading digits of r and the two leading digits of m
\* (never too large, short by at most a few units), then corrected.
RECURSIVE FixQR(_, _, _)
FixQR(k, r, m) == IF Lt(r, m) THEN <<k, r>> ELSE FixQR(k + 1, Sub(r, m), m)
QStep(r1, m, n) ==          \* <<digit, remainder>> for r1 < 256 * m, n = Len(m)
  IF Lt(r1, m) THEN <<0, r1>>
  ELSE IF n = 1 THEN LET t == Dg(r1, 2) * B + Dg(r1, 1) IN <<t \div m[1], OfInt(t % m[1])>>
  ELSE LET top == Dg(r1, n + 1) * 65536 + Dg(r1, n) * B + Dg(r1, n - 1)
           mt == m[n] * B + m[n - 1]
           k == top \div (mt + 1)
       IN FixQR(k, IF k = 0 THEN r1 ELSE Sub(r1, MulInt(m, k)), m)
RECURSIVE DivModFrom(_, _, _, _, _)
DivModFrom(a, m, i, r, q) ==
  IF i = 0 THEN <<Trim(q), r>>
  ELSE LET st == QStep(Trim(<<a[i]>> \o r), m, Len(m)) IN
       DivModFrom(a, m, i - 1, st[2], <<st[1]>> \o q)
DivMod(a, m) ==             \* m # 0; returns <<quotient, remainder>>
  IF Lt(a, m) THEN <<Zero, a>> ELSE DivModFrom(a, m, Len(a), <<>>, <<>>)
RECURSIVE ModFrom(_, _, _, _)
ModFrom(a, m, i, r) ==
  IF i = 0 THEN r ELSE ModFrom(a, m, i - 1, QStep(Trim(<<a[i]>> \o r), m, Len(m))[2])
Rem(a, m) == IF Lt(a, m) THEN a
             ELSE LET n == Len(m) IN   \* the top n-1 digits of a are already < m
                  ModFrom(a, m, Len(a) - (n - 1), Trim(SubSeq(a, Len(a) - n + 2, Len(a))))
Quo(a, m) == DivMod(a, m)[1]

\* integer k-th root (k = 2, 3): the largest x with x^k <= a, by bisection on the bit length
RECURSIVE RootSearch(_, _, _, _)
RootSearch(a, k, lo, hi) ==      \* invariant lo^k <= a < hi^k
  IF Add(lo, One) = hi THEN lo
  ELSE LET mid == Half(Add(lo, hi))
           pw == IF k = 2 THEN Mul(mid, mid) ELSE Mul(Mul(mid, mid), mid)
       IN IF Le(pw, a) THEN RootSearch(a, k, mid, hi) ELSE RootSearch(a, k, lo, mid)
IRoot(a, k) == RootSearch(a, k, Zero, Pow2((NumBits(a) \div k) + 1))

\* modular arithmetic on residues 0..m-1
AddM(a, b, m) == LET s == Add(a, b) IN IF Lt(s, m) THEN s ELSE Sub(s, m)
SubM(a, b, m) == IF Le(b, a) THEN Sub(a, b) ELSE Sub(Add(a, m), b)
NegM(a, m) == IF a = <<>> THEN <<>> ELSE Sub(m, a)
MulM(a, b, m) == Rem(Mul(a, b), m)
RECURSIVE PowMI(_, _, _)
PowMI(a, e, m) == IF e = 0 THEN Rem(One, m)          \* e a small integer
                  ELSE LET h == PowMI(a, e \div 2, m) IN
                       IF e % 2 = 0 THEN MulM(h, h, m) ELSE MulM(MulM(h, h, m), a, m)
RECURSIVE PowM(_, _, _)
PowM(a, e, m) == IF e = <<>> THEN Rem(One, m)        \* e a BigNat
                 ELSE LET h == PowM(a, Half(e), m) IN
                      IF Bit(e, 0) = 0 THEN MulM(h, h, m) ELSE MulM(MulM(h, h, m), a, m)
InvM(a, m) == PowM(a, Sub(m, <<2>>), m)              \* m prime, a # 0 (Fermat)
IsInvM(a, b, m) == MulM(a, b, m) = Rem(One, m)
\* Euler's criterion, m an odd prime: 1 for non-zero squares, m-1 for non-squares, 0 for 0
Euler(a, m) == PowM(a, Half(Sub(m, One)), m)
IsSquareM(a, m) == a = <<>> \/ Euler(a, m) = One
=============================================================================
