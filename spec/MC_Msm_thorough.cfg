SPECIFICATION Spec
CONSTANTS
  MaxBits = 10
  MaxWindow = 5
INVARIANT BoothRecomposes
INVARIANT BoothRange
INVARIANT BucketMethodCorrect
CHECK_DEADLOCK FALSE
