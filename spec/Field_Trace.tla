----------------------------- MODULE Field_Trace -----------------------------
(* C10 replay validation.  PrimeField(m) is Z/m over BigNat; the quadratic   *)
(* extensions are F_p[u]/(u^2 + 1) with elements <<c0, c1>>.  Every line is  *)
(* one call of a field type of midnight-curves with integer arguments and    *)
(* result; TLC recomputes it.  Constants are checked against their defining  *)
(* equations; encodings against canonicity (a decoder accepts exactly the    *)
(* integers below the modulus); reduction from uniform bytes against the     *)
(* little-endian integer modulo m.                                          *)
EXTENDS Curve, Json, IOUtils, Sequences, TLC

Rec == ndJsonDeserialize(IOEnv.TRACE)
VARIABLE l
Ev == Rec[l]
Has(e, f) == f \in DOMAIN e

ModulusOf(f) ==
  CASE f = "bls_fq" -> BlsR [] f \in {"bls_fp", "bls_fp2"} -> BlsP [] f = "jub_fr" -> JubR
    [] f = "secp_fp" -> SecpP [] f = "secp_fq" -> SecpN [] f = "c25519_fp" -> C25519P [] f = "c25519_scalar" -> C25519L
    [] f \in {"bn_fq", "bn_fq2"} -> Bn254P [] f = "bn_fr" -> Bn254R
IsQuad(f) == f \in {"bls_fp2", "bn_fq2"}

\* ---- quadratic extension u^2 = -1 ----------------------------------------
QAdd(a, b, m) == <<AddM(a[1], b[1], m), AddM(a[2], b[2], m)>>
QSub(a, b, m) == <<SubM(a[1], b[1], m), SubM(a[2], b[2], m)>>
QNeg(a, m) == <<NegM(a[1], m), NegM(a[2], m)>>
QMul(a, b, m) == <<SubM(MulM(a[1], b[1], m), MulM(a[2], b[2], m), m), AddM(MulM(a[1], b[2], m), MulM(a[2], b[1], m), m)>>
QNorm(a, m) == AddM(MulM(a[1], a[1], m), MulM(a[2], a[2], m), m)
QZero == <<Zero, Zero>>
QOne == <<One, Zero>>
RECURSIVE QPowI(_, _, _)
QPowI(a, e, m) == IF e = <<>> THEN QOne
                  ELSE LET h == QPowI(a, Half(e), m) IN
                       IF Bit(e, 0) = 0 THEN QMul(h, h, m) ELSE QMul(QMul(h, h, m), a, m)
\* a is a square in F_p^2 iff its norm is a square in F_p (p = 3 mod 4)
QIsSquare(a, m) == a = QZero \/ IsSquareM(QNorm(a, m), m)
QRed(a, m) == <<Rem(a[1], m), Rem(a[2], m)>>

Rev(s) == [i \in 1..Len(s) |-> s[Len(s) + 1 - i]]
Opt(o) == IF o.some THEN <<"some", o.v>> ELSE <<"none", <<>>>>

PrimeOK(e, m) ==
  LET x == Rem(e.ins[1], m)
      y == IF Len(e.ins) >= 2 THEN Rem(e.ins[2], m) ELSE Zero
  IN CASE e.op = "embed" -> e.out = x
       [] e.op = "add" -> e.out = AddM(x, y, m)
       [] e.op = "sub" -> e.out = SubM(x, y, m)
       [] e.op = "mul" -> e.out = MulM(x, y, m)
       [] e.op = "neg" -> e.out = NegM(x, m)
       [] e.op = "square" -> e.out = MulM(x, x, m)
       [] e.op = "cube" -> e.out = MulM(MulM(x, x, m), x, m)
       [] e.op = "double" -> e.out = AddM(x, x, m)
       [] e.op = "eq" -> e.out = (x = y)
       [] e.op = "is_zero" -> e.out = (x = Zero)
       [] e.op = "is_odd" -> e.out = (Bit(x, 0) = 1)
       [] e.op = "pow" -> e.out = PowM(x, e.ins[2], m)
       [] e.op = "invert" -> IF x = Zero THEN ~e.out.some ELSE e.out.some /\ MulM(x, e.out.v, m) = One
       [] e.op = "batch_invert" -> IF x = Zero THEN e.out = Zero ELSE MulM(x, e.out, m) = One
       [] e.op = "sqrt" -> IF IsSquareM(x, m) THEN e.out.some /\ Lt(e.out.v, m) /\ MulM(e.out.v, e.out.v, m) = x ELSE ~e.out.some
       [] e.op = "repr_roundtrip" -> /\ e.out.some /\ e.out.v = x
                                     /\ Trim(IF e.out.le THEN e.out.bytes ELSE Rev(e.out.bytes)) = x
       [] e.op = "from_repr" -> IF Lt(e.ins[1], m) THEN e.out.some /\ e.out.v = e.ins[1] ELSE ~e.out.some
       [] e.op = "from_uniform_bytes" -> e.out = Rem(Trim(e.ins[1]), m)
       [] e.op = "constants" ->
            LET c == e.out
                S == c.s
                t == Quo(Sub(m, One), Pow2(S))            \* m - 1 = 2^S * t
            IN /\ c.num_bits = NumBits(m) /\ c.capacity = NumBits(m) - 1
               /\ c.zero = Zero /\ c.one = One
               /\ MulM(c.two_inv, OfInt(2), m) = One
               /\ Mul(t, Pow2(S)) = Sub(m, One) /\ Bit(t, 0) = 1
               \* the generator is a non-residue; root_of_unity = generator^t has order exactly 2^S
               /\ Euler(c.generator, m) = Sub(m, One)
               /\ c.root_of_unity = PowM(c.generator, t, m)
               /\ PowM(c.root_of_unity, Pow2(S), m) = One
               /\ (S >= 1 => PowM(c.root_of_unity, Pow2(S - 1), m) = Sub(m, One))
               /\ MulM(c.root_of_unity, c.root_of_unity_inv, m) = One
               /\ c.delta = PowM(c.generator, Pow2(S), m)
               /\ c.has_zeta => (c.zeta # One /\ PowMI(c.zeta, 3, m) = One)

QuadOK(e, m) ==
  LET x == QRed(e.ins[1], m)
      y == IF Len(e.ins) >= 2 /\ e.op # "pow" THEN QRed(e.ins[2], m) ELSE QZero
  IN CASE e.op = "embed" -> e.out = x
       [] e.op = "add" -> e.out = QAdd(x, y, m)
       [] e.op = "sub" -> e.out = QSub(x, y, m)
       [] e.op = "mul" -> e.out = QMul(x, y, m)
       [] e.op = "neg" -> e.out = QNeg(x, m)
       [] e.op = "square" -> e.out = QMul(x, x, m)
       [] e.op = "double" -> e.out = QAdd(x, x, m)
       [] e.op = "eq" -> e.out = (x = y)
       [] e.op = "pow" -> e.out = QPowI(x, e.ins[2], m)
       [] e.op = "invert" -> IF x = QZero THEN ~e.out.some ELSE e.out.some /\ QMul(x, e.out.v, m) = QOne
       [] e.op = "sqrt" -> IF QIsSquare(x, m) THEN e.out.some /\ QMul(e.out.v, e.out.v, m) = x ELSE ~e.out.some

FOK(e) == e.status = "ok" /\ (IF IsQuad(e.field) THEN QuadOK(e, ModulusOf(e.field)) ELSE PrimeOK(e, ModulusOf(e.field)))

TInitL == l = 1
THeader == l <= Len(Rec) /\ Ev.ev = "header" /\ l' = l + 1
TF == l <= Len(Rec) /\ Ev.ev = "F" /\ FOK(Ev) /\ l' = l + 1
TraceSpec == TInitL /\ [][THeader \/ TF]_l

TraceAccepted ==
  LET d == TLCGet("stats").diameter IN
  IF d - 1 = Len(Rec) THEN TRUE
  ELSE Print(<<"TRACE-REJECTED first unmatched line", d, "of", Len(Rec)>>, FALSE)
=============================================================================
